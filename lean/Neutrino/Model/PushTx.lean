/-
Model of pushtx.Broadcaster (pushtx/broadcaster.go), core Lean only.

One handler goroutine owns the pending map `transactions`.  Everything that
reaches it (broadcast requests, confirmations, block notifications, ticks, quit)
is one event; the rebroadcast goroutine works on a *copy* of the map taken when
it starts and interacts with the handler only by reporting a confirmation.

Nondeterminism is explicit:
* which result the network gives to each `Config.Broadcast` call (`Res`),
* in which order the running rebroadcast hands its snapshot to the network
  (`rbStep id r`: the implementation's `wtxmgr.DependencySort` picks `id`; the
  model accepts any element of the remaining snapshot, the ORACLE in
  Spec/PushTx.lean checks that the order is topological),
* when `Stop` happens.

Atomicity choices (documented, see DESIGN App. B "pushtx"):
* `rbStep id r` is the *return* of `cfg.Broadcast(tx)` inside `rebroadcast`; the
  call itself touches no shared state, so linearising at the return is exact.
* a rebroadcast ends with the return of its last `cfg.Broadcast`; the real
  goroutine hands the semaphore back a few instructions later.
* a rebroadcast of an empty snapshot starts and ends inside `trigger`.
* after `closeSub` only ticks can be `trigger`s (no block event can arrive on a closed channel).
-/
namespace Neutrino.PushTx

abbrev TxId := Nat

/-- a transaction: its hash (interned) and the hashes its inputs spend -/
structure Tx where
  id : TxId
  parents : List TxId
deriving DecidableEq, Repr

/-- what `Config.Broadcast` (after `MapCustomBroadcastError`) returns -/
inductive Res
  | accepted            -- nil
  | mempool             -- *BroadcastError{Code: Mempool}
  | confirmed           -- *BroadcastError{Code: Confirmed}
  | invalid             -- *BroadcastError{Code: Invalid}
  | fee                 -- *BroadcastError{Code: InsufficientFee}
  | unknown             -- *BroadcastError{Code: Unknown}
  | plain               -- any error that is not a *BroadcastError
deriving DecidableEq, Repr

/-- `err == nil || IsBroadcastError(err, Mempool)` : the request arm of the handler keeps the tx -/
def Res.keeps : Res → Bool
  | .accepted => true
  | .mempool => true
  | _ => false

inductive Op
  | bcast (tx : Tx) (r : Res)   -- Broadcaster.Broadcast(tx); the handler's cfg.Broadcast returns r
  | confirm (id : TxId)         -- Broadcaster.MarkAsConfirmed(hash)
  | trigger                     -- a block notification or a ticker tick reaches the handler
  | rbStep (id : TxId) (r : Res) -- the running rebroadcast's cfg.Broadcast(tx id) returns r
  | stop                        -- Broadcaster.Stop()
  | closeSub                    -- the block subscription's Notifications channel is closed (its source ended)
  | subSpin                     -- the handler takes the `_, ok := <-sub.Notifications` arm with ok = false
deriving DecidableEq, Repr

inductive Out
  | ok                          -- Broadcast returned nil
  | err (r : Res)               -- Broadcast returned the network's error
  | stopped                     -- Broadcast returned ErrBroadcasterStopped
  | ret                         -- MarkAsConfirmed / Stop returned
  | busy                        -- trigger: a rebroadcast is still running, nothing started
  | idle                        -- trigger: nothing pending (the goroutine returns at once)
  | started (snap : List TxId)  -- trigger: a rebroadcast of this snapshot started
  | more                        -- rbStep: the rebroadcast goes on to its next tx
  | done                        -- rbStep: that was the last one (or quit was seen)
  | bad                         -- rbStep for a tx the running rebroadcast does not hold / none running
  | noop                        -- trigger after Stop: nobody listens
deriving DecidableEq, Repr

structure State where
  /-- the handler's `transactions` map (at most one entry per id) -/
  pending : List Tx := []
  /-- `some todo`: a rebroadcast goroutine is running and still has `todo` to send -/
  running : Option (List Tx) := none
  stopped : Bool := false
  /-- the subscription channel is closed: its arm of the handler's select is ready all the time.  The
  code logs and `continue`s, so the handler spins (`subSpin`, any number of times between any two
  other events) but keeps serving requests, confirmations, ticks and quit: Go's select picks
  uniformly among the ready cases.  Nothing else reads this flag. -/
  subClosed : Bool := false
deriving DecidableEq, Repr

def ids (l : List Tx) : List TxId := l.map (·.id)

def remove (id : TxId) (l : List Tx) : List Tx := l.filter (fun t => t.id != id)

/-- `transactions[hash] = tx` -/
def insert (tx : Tx) (l : List Tx) : List Tx := remove tx.id l ++ [tx]

def step (s : State) : Op → State × Out
  | .bcast tx r =>
    if s.stopped then (s, .stopped)
    else if r.keeps then ({ s with pending := insert tx s.pending }, .ok)
    else (s, .err r)
  | .confirm id =>
    if s.stopped then (s, .ret)
    else ({ s with pending := remove id s.pending }, .ret)
  | .trigger =>
    if s.stopped then (s, .noop)
    else match s.running with
      | some _ => (s, .busy)
      | none =>
        match s.pending with
        | [] => (s, .idle)
        | p :: ps => ({ s with running := some (p :: ps) }, .started (ids (p :: ps)))
  | .rbStep id r =>
    match s.running with
    | none => (s, .bad)
    | some todo =>
      if (ids todo).contains id then
        if s.stopped then ({ s with running := none }, .done)
        else
          let pending' := if r = .confirmed then remove id s.pending else s.pending
          match remove id todo with
          | [] => ({ s with pending := pending', running := none }, .done)
          | t :: ts => ({ s with pending := pending', running := some (t :: ts) }, .more)
      else (s, .bad)
  | .stop => ({ s with stopped := true }, .ret)
  | .closeSub => ({ s with subClosed := true }, .ret)
  | .subSpin => (s, .noop)

def run (s : State) : List Op → State
  | [] => s
  | o :: os => run (step s o).1 os

def outs (s : State) : List Op → List Out
  | [] => []
  | o :: os => (step s o).2 :: outs (step s o).1 os

/-! ## The handler's interval source

In `step`, `trigger` is an event the environment delivers: a block notification or an interval
tick.  For block notifications that is all there is to say.  Interval ticks, however, come from a
source the handler itself owns, and whether that source goes on firing is decided by the handler's
code.  `TState` adds that source to the state; `tick` is enabled only while it is armed. -/

/-- How the handler's loop treats the source of its interval ticks (regenerated from
`broadcastHandler`).  `periodic`: the source re-arms itself — a `time.Ticker` created once before the
loop and stopped only by the deferred `Stop`.  Otherwise it is a one-shot `time.Timer`, armed again
only where the code says so; the four flags say whether EVERY path of that kind through the arm calls
`Reset` on it: the interval arm / the block arm, on the path where `triggerRebroadcast` obtains the
semaphore (a rebroadcast goroutine is spawned) / on the path where it finds a rebroadcast still
running and returns. -/
structure IntervalSrc where
  periodic : Bool
  tickRearmAcquired : Bool := false
  tickRearmBusy : Bool := false
  blockRearmAcquired : Bool := false
  blockRearmBusy : Bool := false
deriving DecidableEq, Repr

/-- every path through the interval arm leaves the source armed -/
def IntervalSrc.sound (iv : IntervalSrc) : Bool := iv.periodic || (iv.tickRearmAcquired && iv.tickRearmBusy)

structure TState where
  core : State := {}
  /-- the interval source will fire again (ticker running / timer armed) -/
  armed : Bool := true
deriving DecidableEq, Repr

inductive TOp
  | tick          -- the interval source fires and the handler takes that arm
  | op (o : Op)   -- any other event; `.op .trigger` is a block notification
deriving DecidableEq, Repr

/-- does the arm (`fromTick`: interval arm, else block arm) re-arm a one-shot source on the path that
ended with `out`? -/
def rearmed (iv : IntervalSrc) (fromTick : Bool) : Out → Bool
  | .busy => if fromTick then iv.tickRearmBusy else iv.blockRearmBusy
  | .idle => if fromTick then iv.tickRearmAcquired else iv.blockRearmAcquired
  | .started _ => if fromTick then iv.tickRearmAcquired else iv.blockRearmAcquired
  | _ => false

def tstep (iv : IntervalSrc) (t : TState) : TOp → TState × Out
  | .tick =>
    -- a one-shot source that was not armed again never fires; after Stop the handler is gone
    if !t.armed || t.core.stopped then (t, .noop)
    else
      let r := step t.core .trigger
      ({ core := r.1, armed := iv.periodic || rearmed iv true r.2 }, r.2)
  | .op o =>
    let r := step t.core o
    ({ core := r.1, armed := t.armed || (decide (o = .trigger) && rearmed iv false r.2) }, r.2)

def trun (iv : IntervalSrc) (t : TState) : List TOp → TState
  | [] => t
  | o :: os => trun iv (tstep iv t o).1 os

/-- a history with its ticks read as the environment's triggers -/
def TOp.toOp : TOp → Op
  | .tick => .trigger
  | .op o => o

/-! ## The verdict of `ChainService.sendTransaction` (query.go, after `queryAllPeers`) -/

/-- pushtx.BroadcastErrorCode -/
inductive Code | unknown | invalid | fee | mempool | confirmed
deriving DecidableEq, Repr

/-- What `queryAllPeers` collected: `replies` = ids of the peers that sent a
`getdata` naming the tx (a Go map: no duplicates); `rejections` = (peer, code) for
each peer whose `reject` named the tx (map keyed by peer: one entry per peer).
`iter` is the order in which Go happens to iterate `rejectCodes` (ties between
equally frequent codes are broken by it). -/
structure Replies where
  replies : List Nat
  rejections : List (Nat × Code)
deriving DecidableEq, Repr

def countCode (c : Code) (rej : List (Nat × Code)) : Nat := (rej.filter (fun x => x.2 = c)).length

/-- the loop `for code, count := range rejectCodes { if count > mostRejectedCount {…} }` -/
def mostRejected (iter : List Code) (rej : List (Nat × Code)) : Code × Nat :=
  iter.foldl (fun (best : Code × Nat) c => if countCode c rej > best.2 then (c, countCode c rej) else best) (.unknown, 0)

/-- comparison operators the extractor can report for the threshold test -/
def cmpOp (op : String) (a b : Nat) : Bool :=
  if op = ">=" then decide (a ≥ b)
  else if op = ">" then decide (a > b)
  else if op = "<=" then decide (a ≤ b)
  else if op = "<" then decide (a < b)
  else if op = "==" then decide (a = b)
  else false

/-- `none` = nil (the broadcast counts as accepted); `some c` = the error returned
carries code `c`.  `op` is the comparison operator of the threshold test as found in
the source, the threshold is the rational `num/den` (the float32 comparison
`float32(k)/float32(n) op thr` is checked against `k*den op num*n` exhaustively
for k ≤ n ≤ 125 by the harness). -/
def verdict (op : String) (num den : Nat) (iter : List Code) (q : Replies) : Option Code :=
  if q.replies.length = 0 then none
  else if q.replies.length = q.rejections.length then some (mostRejected iter q.rejections).1
  else if q.rejections.length > 0 ∧ cmpOp op (countCode .invalid q.rejections * den) (num * q.replies.length) then some .invalid
  else none

/-! ## How `sendTransaction` fills `replies` / `rejections` (its response handler + `queryAllPeers`) -/

/-- what reaches the query loop for the transaction being broadcast -/
inductive PeerMsg
  | getdata (p : Nat)            -- peer p asks for the tx (getdata naming it)
  | reject (p : Nat) (c : Code)  -- peer p sends a reject naming the tx; c = ParseBroadcastError of it
  | timeout (p : Nat)            -- p's sub-query ended (reject timeout after its getdata, or the broadcast timeout)
deriving DecidableEq, Repr

structure Collect where
  replies : List Nat := []
  rejections : List (Nat × Code) := []
  /-- peers whose `peerQuit` is closed: `queryAllPeers` no longer hands their messages to the handler -/
  closed : List Nat := []
deriving DecidableEq, Repr

/-- One message.  `guard` = the reject arm returns at once for a peer that is not in `replies`
(source fact `rejectRequiresReply`).  A recorded rejection closes the peer (`closer.closeNow()`). -/
def collectStep (guard : Bool) (s : Collect) : PeerMsg → Collect
  | .getdata p =>
    if s.closed.contains p then s
    else if s.replies.contains p then s
    else { s with replies := s.replies ++ [p] }
  | .reject p c =>
    if s.closed.contains p then s
    else if guard && !s.replies.contains p then s
    else { s with rejections := s.rejections.filter (fun x => x.1 != p) ++ [(p, c)], closed := p :: s.closed }
  | .timeout p => { s with closed := p :: s.closed }

def collectFrom (guard : Bool) (s : Collect) (msgs : List PeerMsg) : Collect := msgs.foldl (collectStep guard) s

def collect (guard : Bool) (msgs : List PeerMsg) : Replies :=
  let s := collectFrom guard {} msgs
  ⟨s.replies, s.rejections⟩

/-! ## `pushtx.ParseBroadcastError` as a first-match table -/

def isPrefix : List Char → List Char → Bool
  | [], _ => true
  | _ :: _, [] => false
  | a :: as, b :: bs => a == b && isPrefix as bs

def isInfix (pat : List Char) : List Char → Bool
  | [] => pat.isEmpty
  | c :: cs => isPrefix pat (c :: cs) || isInfix pat cs

/-- one `case` of the switch: reject codes it accepts, required substring of the reason, result -/
structure ParseRow where
  codes : List String
  substr : Option String
  result : String
deriving DecidableEq, Repr

def ParseRow.matches (r : ParseRow) (code reason : String) : Bool :=
  r.codes.contains code && (match r.substr with
    | none => true
    | some p => isInfix p.toList reason.toList)

def parseWith (table : List ParseRow) (dflt : String) (code reason : String) : String :=
  match table.find? (·.matches code reason) with
  | some r => r.result
  | none => dflt

end Neutrino.PushTx
