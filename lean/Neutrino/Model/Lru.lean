/-
Model of cache/lru/lru.go (`Cache.Put`, `Get`, `LoadAndDelete`, `evict`, `Len`,
`Size`, `RangeFILO`, `Range`).  Core Lean only.

The Go fields are kept one for one:
  `ll`    the recency list, here OLDEST FIRST (Go: `ll.Back()` is `ll.head`,
          `PushFront` is `++ [e]`),
  `idx`   the key → element index (`syncMap`), an association list,
  `size`  the running `uint64` byte counter,
  `cap`   the capacity,
  `bad`   ids of values whose `Size()` currently fails,
  `locked` whether `mtx` is held when the call returns (a leaked mutex makes
          every later call hang).
-/
namespace Neutrino.Lru

structure Entry where
  key  : Nat
  vid  : Nat
  size : Nat
deriving DecidableEq, Repr, Inhabited

def two64 : Nat := 18446744073709551616

/-- Go `a - b` on `uint64`, modelled without the wrap-around: in every
reachable state the subtrahend is at most the minuend (that is part of
`C16_state_invariant`, whose hypothesis `cap < 2^64` also rules out overflow
of `+`), so the wrapped and the exact result coincide wherever the property
holds.  (Writing the `% 2^64` out makes the kernel unfold well-founded
`Nat.mod` on a 2^64 literal; the driver, not the model, reports a wrapped
counter as an oracle failure.) -/
def sub64 (a b : Nat) : Nat := a - b
/-- Go `a + b` on `uint64` (no overflow below the capacity, see above). -/
def add64 (a b : Nat) : Nat := a + b

structure State where
  cap    : Nat
  size   : Nat := 0
  ll     : List Entry := []
  idx    : List (Nat × Entry) := []
  bad    : List Nat := []
  locked : Bool := false
deriving Repr

inductive Op where
  | put (k vid sz : Nat)
  | get (k : Nat)
  | del (k : Nat)
  | poison (vid : Nat)
  | heal (vid : Nat)
deriving Repr, DecidableEq

inductive Out where
  | okPut (evicted : Bool)
  | err
  | val (vid : Nat)
  | notFound
  | no
  | unit
  | hang
deriving Repr, DecidableEq

def idxLoad (idx : List (Nat × Entry)) (k : Nat) : Option Entry :=
  (idx.find? (·.1 == k)).map (·.2)

def idxDelete (idx : List (Nat × Entry)) (k : Nat) : List (Nat × Entry) :=
  idx.filter (fun p => !(p.1 == k))

def idxStore (idx : List (Nat × Entry)) (k : Nat) (e : Entry) : List (Nat × Entry) :=
  (k, e) :: idxDelete idx k

/-- `Value.Size()`. -/
def sizeOf? (bad : List Nat) (e : Entry) : Option Nat :=
  if e.vid ∈ bad then none else some e.size

/-- `Cache.evict`: pop from the back (oldest = head here) while
`cap - size < needed`.  Structural recursion on the recency list; the Go loop's
"list is empty" error is the `[]` case.  Returns `none` on error together with
the state reached (the Go code keeps partial evictions). -/
def evictLoop (cap : Nat) (bad : List Nat) (needed : Nat) :
    List Entry → Nat → List (Nat × Entry) → Bool → (List Entry × Nat × List (Nat × Entry) × Bool × Bool)
  | [], size, idx, ev => ([], size, idx, ev, !decide (sub64 cap size < needed))
  | b :: rest, size, idx, ev =>
    if sub64 cap size < needed then
      match sizeOf? bad b with
      | none => (b :: rest, size, idx, ev, false)
      | some es => evictLoop cap bad needed rest (sub64 size es) (idxDelete idx b.key) true
    else (b :: rest, size, idx, ev, true)

/-- One call on an unlocked cache (the repaired code holds `mtx` across the
whole body, so a call is one atomic step of the lock-protected object; see
`Model/LockObj.lean` for the interleaving argument). -/
def step (s : State) : Op → State × Out
  | .poison v => ({ s with bad := v :: s.bad }, .unit)
  | .heal v => ({ s with bad := s.bad.filter (· != v) }, .unit)
  | op =>
    if s.locked then (s, .hang) else
    match op with
    | .put k vid sz =>
      if vid ∈ s.bad then (s, .err)                 -- value.Size() fails
      else if sz > s.cap then (s, .err)             -- larger than the cache
      else
        -- mtx.Lock(); el, ok := cache.Load(key)
        match idxLoad s.idx k with
        | some el =>
          match sizeOf? s.bad el with
          | none => (s, .err)                       -- unlocks, nothing changed
          | some es =>
            let ll := s.ll.erase el
            let idx := idxDelete s.idx k
            let size := sub64 s.size es
            let (ll, size, idx, ev, ok) := evictLoop s.cap s.bad sz ll size idx false
            if ok then
              let e : Entry := ⟨k, vid, sz⟩
              ({ s with ll := ll ++ [e], size := add64 size sz, idx := idxStore idx k e }, .okPut ev)
            else ({ s with ll := ll, size := size, idx := idx }, .err)
        | none =>
          let (ll, size, idx, ev, ok) := evictLoop s.cap s.bad sz s.ll s.size s.idx false
          if ok then
            let e : Entry := ⟨k, vid, sz⟩
            ({ s with ll := ll ++ [e], size := add64 size sz, idx := idxStore idx k e }, .okPut ev)
          else ({ s with ll := ll, size := size, idx := idx }, .err)
    | .get k =>
      match idxLoad s.idx k with
      | none => (s, .notFound)
      | some el => ({ s with ll := s.ll.erase el ++ [el] }, .val el.vid)
    | .del k =>
      match idxLoad s.idx k with
      | none => (s, .no)
      | some el =>
        match sizeOf? s.bad el with
        | none => (s, .no)
        | some vs =>
          ({ s with ll := s.ll.erase el, size := sub64 s.size vs, idx := idxDelete s.idx k }, .val el.vid)
    | _ => (s, .unit)

def run (s : State) : List Op → State
  | [] => s
  | o :: os => run (step s o).1 os

/-- Sum of the sizes of the resident entries. -/
def total (ll : List Entry) : Nat := (ll.map (·.size)).sum

/-! ## The machine arithmetic of `Put` / `evict` / `LoadAndDelete`

The model above computes on `Nat` (`sub64`, `add64` are the exact operations).
What follows makes explicit WHICH `uint64` operations the Go code performs, with
which operands, so that "the counter arithmetic never wraps" is a statement about
the code's own intermediate values (`C16_no_overflow`), and gives the wrap-around
reading of a `uint64` expression, so that the eviction loop's condition as found
in the source can be compared with the model's for ALL word values
(`C16_evict_condition`). -/

/-- One `uint64` operation performed by the Go code, with its operands. -/
inductive Arith where
  | sub (a b : Nat)   -- `a - b`
  | add (a b : Nat)   -- `a + b`
deriving DecidableEq, Repr

/-- The operation does not wrap: operands and exact result lie in `[0, 2^64)`. -/
def Arith.exact : Arith → Bool
  | .sub a b => decide (b ≤ a) && decide (a < two64)
  | .add a b => decide (a + b < two64)

/-- The arithmetic of `Cache.evict(needed)`, in execution order, following
`evictLoop` clause by clause: every evaluation of the loop condition computes
`c.capacity - c.size`; an eviction computes `c.size -= es`; the "should never
happen" error on an empty list formats `needed - (c.capacity - c.size)`. -/
def evictArith (cap : Nat) (bad : List Nat) (needed : Nat) : List Entry → Nat → List Arith
  | [], size =>
    .sub cap size ::
      (if sub64 cap size < needed then [.sub needed (sub64 cap size)] else [])
  | b :: rest, size =>
    .sub cap size ::
      (if sub64 cap size < needed then
        match sizeOf? bad b with
        | none => []
        | some es => .sub size es :: evictArith cap bad needed rest (sub64 size es)
      else [])

/-- The arithmetic of one call, in execution order, following `step` clause by
clause: `Put` on a resident key computes `c.size -= es`, then `evict(vs)`, then
(if that succeeded) `c.size += vs`; `LoadAndDelete` computes `c.size -= vs`.
(`vs > c.capacity` and `needed > c.capacity` are comparisons, not arithmetic.) -/
def stepArith (s : State) : Op → List Arith
  | .put k vid sz =>
    if s.locked then [] else
    if vid ∈ s.bad then [] else
    if sz > s.cap then [] else
    match idxLoad s.idx k with
    | some el =>
      match sizeOf? s.bad el with
      | none => []
      | some es =>
        let r := evictLoop s.cap s.bad sz (s.ll.erase el) (sub64 s.size es) (idxDelete s.idx k) false
        .sub s.size es :: evictArith s.cap s.bad sz (s.ll.erase el) (sub64 s.size es) ++
          (if r.2.2.2.2 then [.add r.2.1 sz] else [])
    | none =>
      let r := evictLoop s.cap s.bad sz s.ll s.size s.idx false
      evictArith s.cap s.bad sz s.ll s.size ++ (if r.2.2.2.2 then [.add r.2.1 sz] else [])
  | .del k =>
    if s.locked then [] else
    match idxLoad s.idx k with
    | none => []
    | some el =>
      match sizeOf? s.bad el with
      | none => []
      | some vs => [.sub s.size vs]
  | _ => []

/-- every `uint64` operation of a whole operation sequence -/
def runArith (s : State) : List Op → List Arith
  | [] => []
  | o :: os => stepArith s o ++ runArith (step s o).1 os

/-- Go `a + b` on `uint64` WITH the wrap-around, for operands below 2^64
(written without `%`, see the note at `sub64`). -/
def wadd (a b : Nat) : Nat := if a + b < two64 then a + b else a + b - two64
/-- Go `a - b` on `uint64` WITH the wrap-around, for operands below 2^64. -/
def wsub (a b : Nat) : Nat := if b ≤ a then a - b else a + two64 - b

/-- A `uint64` expression over the three quantities `evict` works with. -/
inductive U64Expr where
  | cap | size | needed
  | add (a b : U64Expr)
  | sub (a b : U64Expr)
deriving DecidableEq, Repr

def U64Expr.eval (cap size needed : Nat) : U64Expr → Nat
  | .cap => cap
  | .size => size
  | .needed => needed
  | .add a b => wadd (a.eval cap size needed) (b.eval cap size needed)
  | .sub a b => wsub (a.eval cap size needed) (b.eval cap size needed)

/-- A comparison of two `uint64` expressions (a loop or `if` condition). -/
inductive CmpExpr where
  | lt (a b : U64Expr) | le (a b : U64Expr) | gt (a b : U64Expr) | ge (a b : U64Expr)
deriving DecidableEq, Repr

/-- the condition holds for these word values -/
def CmpExpr.holds (cap size needed : Nat) : CmpExpr → Prop
  | .lt a b => a.eval cap size needed < b.eval cap size needed
  | .le a b => a.eval cap size needed ≤ b.eval cap size needed
  | .gt a b => a.eval cap size needed > b.eval cap size needed
  | .ge a b => a.eval cap size needed ≥ b.eval cap size needed

instance (cap size needed : Nat) (c : CmpExpr) : Decidable (c.holds cap size needed) := by
  cases c <;> unfold CmpExpr.holds <;> infer_instance

end Neutrino.Lru
