/-
Model of cache/lru/lru.go (`Cache.Put`, `Get`, `LoadAndDelete`, `evict`, `Len`,
`Size`, `RangeFILO`, `Range`).  Core Lean only.

The Go fields are kept one for one:
  `ll`    the recency list, here OLDEST FIRST (Go: `ll.Back()` is `ll.head`,
          `PushFront` is `++ [e]`),
  `idx`   the key → element index (`syncMap`), an association list,
  `size`  the running `uint64` byte counter,
  `cap`   the capacity,
  `bad`   ids of values whose `Size()` currently fails,
  `locked` whether `mtx` is held when the call returns (a leaked mutex makes
          every later call hang).
-/
namespace Neutrino.Lru

structure Entry where
  key  : Nat
  vid  : Nat
  size : Nat
deriving DecidableEq, Repr, Inhabited

def two64 : Nat := 18446744073709551616

/-- Go `a - b` on `uint64`, modelled without the wrap-around: in every
reachable state the subtrahend is at most the minuend (that is part of
`C16_state_invariant`, whose hypothesis `cap < 2^64` also rules out overflow
of `+`), so the wrapped and the exact result coincide wherever the property
holds.  (Writing the `% 2^64` out makes the kernel unfold well-founded
`Nat.mod` on a 2^64 literal; the driver, not the model, reports a wrapped
counter as an oracle failure.) -/
def sub64 (a b : Nat) : Nat := a - b
/-- Go `a + b` on `uint64` (no overflow below the capacity, see above). -/
def add64 (a b : Nat) : Nat := a + b

structure State where
  cap    : Nat
  size   : Nat := 0
  ll     : List Entry := []
  idx    : List (Nat × Entry) := []
  bad    : List Nat := []
  locked : Bool := false
deriving Repr

inductive Op where
  | put (k vid sz : Nat)
  | get (k : Nat)
  | del (k : Nat)
  | poison (vid : Nat)
  | heal (vid : Nat)
deriving Repr, DecidableEq

inductive Out where
  | okPut (evicted : Bool)
  | err
  | val (vid : Nat)
  | notFound
  | no
  | unit
  | hang
deriving Repr, DecidableEq

def idxLoad (idx : List (Nat × Entry)) (k : Nat) : Option Entry :=
  (idx.find? (·.1 == k)).map (·.2)

def idxDelete (idx : List (Nat × Entry)) (k : Nat) : List (Nat × Entry) :=
  idx.filter (fun p => !(p.1 == k))

def idxStore (idx : List (Nat × Entry)) (k : Nat) (e : Entry) : List (Nat × Entry) :=
  (k, e) :: idxDelete idx k

/-- `Value.Size()`. -/
def sizeOf? (bad : List Nat) (e : Entry) : Option Nat :=
  if e.vid ∈ bad then none else some e.size

/-- `Cache.evict`: pop from the back (oldest = head here) while
`cap - size < needed`.  Structural recursion on the recency list; the Go loop's
"list is empty" error is the `[]` case.  Returns `none` on error together with
the state reached (the Go code keeps partial evictions). -/
def evictLoop (cap : Nat) (bad : List Nat) (needed : Nat) :
    List Entry → Nat → List (Nat × Entry) → Bool → (List Entry × Nat × List (Nat × Entry) × Bool × Bool)
  | [], size, idx, ev => ([], size, idx, ev, !decide (sub64 cap size < needed))
  | b :: rest, size, idx, ev =>
    if sub64 cap size < needed then
      match sizeOf? bad b with
      | none => (b :: rest, size, idx, ev, false)
      | some es => evictLoop cap bad needed rest (sub64 size es) (idxDelete idx b.key) true
    else (b :: rest, size, idx, ev, true)

/-- One call on an unlocked cache (the repaired code holds `mtx` across the
whole body, so a call is one atomic step of the lock-protected object; see
`Model/LockObj.lean` for the interleaving argument). -/
def step (s : State) : Op → State × Out
  | .poison v => ({ s with bad := v :: s.bad }, .unit)
  | .heal v => ({ s with bad := s.bad.filter (· != v) }, .unit)
  | op =>
    if s.locked then (s, .hang) else
    match op with
    | .put k vid sz =>
      if vid ∈ s.bad then (s, .err)                 -- value.Size() fails
      else if sz > s.cap then (s, .err)             -- larger than the cache
      else
        -- mtx.Lock(); el, ok := cache.Load(key)
        match idxLoad s.idx k with
        | some el =>
          match sizeOf? s.bad el with
          | none => (s, .err)                       -- unlocks, nothing changed
          | some es =>
            let ll := s.ll.erase el
            let idx := idxDelete s.idx k
            let size := sub64 s.size es
            let (ll, size, idx, ev, ok) := evictLoop s.cap s.bad sz ll size idx false
            if ok then
              let e : Entry := ⟨k, vid, sz⟩
              ({ s with ll := ll ++ [e], size := add64 size sz, idx := idxStore idx k e }, .okPut ev)
            else ({ s with ll := ll, size := size, idx := idx }, .err)
        | none =>
          let (ll, size, idx, ev, ok) := evictLoop s.cap s.bad sz s.ll s.size s.idx false
          if ok then
            let e : Entry := ⟨k, vid, sz⟩
            ({ s with ll := ll ++ [e], size := add64 size sz, idx := idxStore idx k e }, .okPut ev)
          else ({ s with ll := ll, size := size, idx := idx }, .err)
    | .get k =>
      match idxLoad s.idx k with
      | none => (s, .notFound)
      | some el => ({ s with ll := s.ll.erase el ++ [el] }, .val el.vid)
    | .del k =>
      match idxLoad s.idx k with
      | none => (s, .no)
      | some el =>
        match sizeOf? s.bad el with
        | none => (s, .no)
        | some vs =>
          ({ s with ll := s.ll.erase el, size := sub64 s.size vs, idx := idxDelete s.idx k }, .val el.vid)
    | _ => (s, .unit)

def run (s : State) : List Op → State
  | [] => s
  | o :: os => run (step s o).1 os

/-- Sum of the sizes of the resident entries. -/
def total (ll : List Entry) : Nat := (ll.map (·.size)).sum

end Neutrino.Lru
