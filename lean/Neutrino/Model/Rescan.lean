/-
Executable model of neutrino's `rescanState` (rescan.go), core Lean only.

Ground truth (`World`): an immutable block tree.  Blocks, transactions and scripts are small naturals
(the harness interns hashes / pkScripts in order of first appearance; block id 0 is the null hash).
Environment part of the state: the evolving best chain (`chain`, ids by height), scripted outcomes of
`GetCFilter` / `GetBlock` (`fS`, `bS`: one Bool per call, `true` = the call fails, empty = succeeds) and
scripted filter false positives (`fpS`).  Everything the rescan goroutine does between two blocking
points is one event:

  connected b / disconnected b tip   a subscription notification is received (current arm)
  tick                               the 100 ms retry timer fires (current arm)
  update u                           an `Update(...)` is received (either arm)
  step                               one iteration of the not-current (catch-up) arm
  grow / reorg / setF / setB / setFp environment moves (chain growth, reorganisation, fault scripts)

Quirks of the Go kept on purpose (DESIGN App. B):
  * the catch-up arm advances to `GetBlockHeaderByHeight(cur+1)` WITHOUT comparing `PrevBlock` (F13);
  * a filter/block fetch failure in the catch-up arm ends the rescan (`exit`), in the current arm a
    filter failure queues the block for retry and any other failure just clears `current`;
  * `handleBlockConnected` numbers the new block `curHeight+1` (it never reads the notification's height);
  * `scanning` latches, also when the fetch that follows fails;
  * a `Connected` arriving while the retry queue is non-empty is stashed behind it;
  * `Disconnected` truncates the retry queue at that block, and is otherwise ignored unless it names `cur`;
  * a rewind walks `PrevBlock` of the rescan's own header (`GetBlockHeader` by hash: it fails, and the rescan ends, when
    that parent has been reorganised out of the header store) and cancels the subscription; the retry queue
    is only cleared at the next `Subscribe`; `Subscribe(h)` with `h` above the best height is an error.
Not modelled: `EndBlock`, `waitForBlocks` (harness starts at/below the tip of a current chain), the
zero-outpoint script match of `spendsWatchedInput`, `txIDs` updates (no exported option), `ErrHashNotFound`.
-/
namespace Neutrino.Rescan

abbrev Script := Nat

structure OutPoint where
  tx  : Nat
  idx : Nat
deriving DecidableEq, Repr

/-- a transaction input together with the script of the output it spends (what BIP158 puts in the filter) -/
structure TxIn where
  op     : OutPoint
  script : Script
deriving DecidableEq, Repr

structure Tx where
  id   : Nat
  ins  : List TxIn
  outs : List Script
deriving DecidableEq, Repr

/-- ground-truth block tree: header fields and contents by block id -/
structure World where
  prev   : Nat → Nat
  height : Nat → Nat
  late   : Nat → Bool          -- header timestamp is after the rescan's start time
  txs    : Nat → List Tx

/-- a watched input: outpoint + pkScript of that output (`InputWithScript`) -/
abbrev WIn := OutPoint × Script

/-- the part of `rescanOptions` that matching reads and writes -/
structure Watch where
  addrs  : List Script := []    -- watchAddrs (as their pkScripts)
  inputs : List WIn := []       -- watchInputs
  wl     : List Script := []    -- watchList (what is matched against the filter)
deriving DecidableEq, Repr

inductive Cb where
  | conn (h id : Nat) (txs : List Nat)   -- OnFilteredBlockConnected(height, header, relevant txs)
  | disc (h id : Nat)                    -- OnFilteredBlockDisconnected(height, header)
  | exit                                 -- rescan() returned an error
deriving DecidableEq, Repr

structure Upd where
  addrs  : List Script := []
  inputs : List WIn := []
  rewind : Nat := 0
  quiet  : Bool := false        -- DisableDisconnectedNtfns
deriving DecidableEq, Repr

inductive Ev where
  | grow (b : Nat)
  | reorg (d : Nat) (bs : List Nat)
  | setF (l : List Bool)
  | setB (l : List Bool)
  | setFp (l : List Bool)
  | connected (b : Nat)
  | disconnected (b tip : Nat)
  | tick
  | update (u : Upd)
  | step
deriving DecidableEq, Repr

structure St where
  -- environment
  chain : List Nat := []
  fS    : List Bool := []
  bS    : List Bool := []
  fpS   : List Bool := []
  -- rescanState / locals of rescan()
  cur      : Nat := 0
  curH     : Nat := 0
  scanning : Bool := false
  current  : Bool := false
  queue    : List Nat := []
  timer    : Bool := false
  w        : Watch := {}
  dead     : Bool := false
deriving DecidableEq, Repr

/-! ### matching -/

/-- `spendsWatchedInput` -/
def spends (inputs : List WIn) (t : Tx) : Bool :=
  t.ins.any fun i => inputs.any fun wi => wi.1 == i.op

/-- the output loop of `paysWatchedAddr`: a matching output appends its outpoint to `watchInputs` and its
script to `watchList` -/
def paysOuts (txid : Nat) : Nat → List Script → Watch → Bool × Watch
  | _, [], w => (false, w)
  | i, o :: os, w =>
    if w.addrs.contains o then
      let w' := { w with inputs := w.inputs ++ [(⟨txid, i⟩, o)], wl := w.wl ++ [o] }
      let r := paysOuts txid (i + 1) os w'
      (true, r.2)
    else paysOuts txid (i + 1) os w

def pays (t : Tx) (w : Watch) : Bool × Watch := paysOuts t.id 0 t.outs w

/-- the transaction loop of `extractBlockMatches` -/
def scanTxs : List Tx → Watch → List Nat × Watch
  | [], w => ([], w)
  | t :: ts, w =>
    let sp := spends w.inputs t
    let p := pays t w
    let r := scanTxs ts p.2
    (if sp || p.1 then t.id :: r.1 else r.1, r.2)

/-- elements of the block's true BIP158 basic filter -/
def filterElems (W : World) (b : Nat) : List Script :=
  (W.txs b).flatMap fun t => t.outs ++ t.ins.map (·.script)

/-- does the true filter of `b` contain a watched script -/
def trueMatch (W : World) (wl : List Script) (b : Nat) : Bool :=
  wl.any fun s => (filterElems W b).contains s

def pop (l : List Bool) : Bool × List Bool :=
  match l with
  | [] => (false, [])
  | x :: r => (x, r)

/-! ### chain -/

def best (s : St) : Nat := s.chain.length - 1

/-! ### the current arm -/

inductive HR where
  | ok | retry | err
deriving DecidableEq, Repr

/-- `handleBlockConnected` -/
def handleConnected (W : World) (s : St) (b : Nat) : St × List Cb × HR :=
  if W.prev b != s.cur then (s, [], .err)
  else if s.curH + 1 > best s then (s, [], .err)          -- GetFilterHeaderByHeight fails
  else
    let s := { s with scanning := s.scanning || W.late b }
    if !s.scanning || s.w.wl.isEmpty then
      ({ s with cur := b, curH := s.curH + 1 }, [.conn (s.curH + 1) b []], .ok)
    else
      let (ff, fS) := pop s.fS
      let s := { s with fS := fS }
      if ff then (s, [], .retry)
      else
        let (fp, fpS) := pop s.fpS
        let s := { s with fpS := fpS }
        if trueMatch W s.w.wl b || fp then
          let (bf, bS) := pop s.bS
          let s := { s with bS := bS }
          if bf then (s, [], .err)
          else
            let r := scanTxs (W.txs b) s.w
            ({ s with w := r.2, cur := b, curH := s.curH + 1 }, [.conn (s.curH + 1) b r.1], .ok)
        else
          ({ s with cur := b, curH := s.curH + 1 }, [.conn (s.curH + 1) b []], .ok)

/-- `blockRetryQueue.remove` -/
def qRemove (q : List Nat) (b : Nat) : List Nat :=
  match q with
  | [] => []
  | x :: r => if x == b then [] else x :: qRemove r b

/-- the `retryLoop` (fuel = queue length) -/
def retryLoop (W : World) : Nat → St → St × List Cb
  | 0, s => (s, [])
  | n + 1, s =>
    match s.queue with
    | [] => (s, [])
    | b :: rest =>
      match handleConnected W s b with
      | (s', cbs, .ok) =>
        let r := retryLoop W n { s' with queue := rest }
        (r.1, cbs ++ r.2)
      | (s', cbs, .retry) => ({ s' with timer := true }, cbs)
      | (s', cbs, .err) => ({ s' with current := false }, cbs)

/-! ### updates -/

def addWatch (w : Watch) (u : Upd) : Watch :=
  { addrs := w.addrs ++ u.addrs, inputs := w.inputs ++ u.inputs,
    wl := w.wl ++ u.addrs ++ u.inputs.map (·.2) }

/-- the rewind loop of `updateFilter`; result: (state, callbacks, rewound, failed) -/
def rewindLoop (W : World) (r : Nat) (quiet : Bool) : Nat → St → Bool → St × List Cb × Bool × Bool
  | 0, s, rw => (s, [], rw, false)
  | n + 1, s, rw =>
    if s.curH > r then
      let cb := if quiet then [] else [Cb.disc s.curH s.cur]
      let p := W.prev s.cur
      if !s.chain.contains p then (s, cb, true, true)     -- GetBlockHeader: the header store only knows the best chain
      else
        let x := rewindLoop W r quiet n { s with cur := p, curH := W.height p } true
        (x.1, cb ++ x.2.1, x.2.2.1, x.2.2.2)
    else (s, [], rw, false)

def applyUpdate (W : World) (s : St) (u : Upd) : St × List Cb × Bool × Bool :=
  let s := { s with w := addWatch s.w u }
  if u.rewind == 0 then (s, [], false, false)
  else rewindLoop W u.rewind u.quiet s.curH s false

/-! ### the catch-up arm -/

/-- `notifyBlock` for the (already advanced) current block -/
def notifyBlock (W : World) (s : St) : St × List Cb :=
  if !s.w.wl.isEmpty && s.scanning then
    let (ff, fS) := pop s.fS
    let s := { s with fS := fS }
    if ff then ({ s with dead := true }, [.exit])
    else
      let (fp, fpS) := pop s.fpS
      let s := { s with fpS := fpS }
      if !(filterElems W s.cur).isEmpty && (trueMatch W s.w.wl s.cur || fp) then
        let (bf, bS) := pop s.bS
        let s := { s with bS := bS }
        if bf then ({ s with dead := true }, [.exit])
        else
          let r := scanTxs (W.txs s.cur) s.w
          ({ s with w := r.2 }, [.conn s.curH s.cur r.1])
      else (s, [.conn s.curH s.cur []])
  else (s, [.conn s.curH s.cur []])

def catchUp (W : World) (s : St) : St × List Cb :=
  if s.curH + 1 > best s then
    -- Subscribe(curH): NotificationsSinceHeight fails above the best height (not for height 0)
    if s.curH != 0 && s.curH > best s then ({ s with dead := true }, [.exit])
    else ({ s with current := true, queue := [] }, [])
  else
    match s.chain[s.curH + 1]? with
    | none => ({ s with dead := true }, [.exit])           -- unreachable: curH+1 ≤ best
    | some b =>
      let s := { s with cur := b, curH := s.curH + 1 }
      let s := { s with scanning := s.scanning || W.late b }
      notifyBlock W s

/-! ### the machine -/

def step (W : World) (s : St) (e : Ev) : St × List Cb :=
  match e with
  | .grow b => ({ s with chain := s.chain ++ [b] }, [])
  | .reorg d bs => ({ s with chain := s.chain.take (s.chain.length - d) ++ bs }, [])
  | .setF l => ({ s with fS := l }, [])
  | .setB l => ({ s with bS := l }, [])
  | .setFp l => ({ s with fpS := l }, [])
  | .connected b =>
    if s.dead || !s.current then (s, [])
    else if !s.queue.isEmpty then ({ s with queue := s.queue ++ [b] }, [])
    else
      match handleConnected W s b with
      | (s', cbs, .ok) => (s', cbs)
      | (s', cbs, .retry) => ({ s' with queue := s'.queue ++ [b], timer := true }, cbs)
      | (s', cbs, .err) => ({ s' with current := false }, cbs)
  | .disconnected b tip =>
    if s.dead || !s.current then (s, [])
    else
      let s := { s with queue := qRemove s.queue b }
      if b != s.cur then (s, [])
      else ({ s with cur := tip, curH := s.curH - 1 }, [.disc s.curH s.cur])
  | .tick =>
    if s.dead || !s.current || !s.timer then (s, [])
    else retryLoop W s.queue.length { s with timer := false }
  | .update u =>
    if s.dead then (s, [])
    else
      let (s', cbs, rewound, failed) := applyUpdate W s u
      if failed then ({ s' with dead := true }, cbs ++ [.exit])
      else if s.current && rewound then ({ s' with current := false }, cbs)
      else (s', cbs)
  | .step =>
    if s.dead || s.current then (s, [])
    else catchUp W s

def run (W : World) : St → List Ev → St × List Cb
  | s, [] => (s, [])
  | s, e :: es =>
    let r := step W s e
    let r' := run W r.1 es
    (r'.1, r.2 ++ r'.2)

/-- initial state: `newRescanState` with a start block that is known to the chain -/
def init (W : World) (chain : List Nat) (start startH : Nat) (w : Watch) : St :=
  { chain := chain, cur := start, curH := startH, scanning := W.late start, w := w }

end Neutrino.Rescan
