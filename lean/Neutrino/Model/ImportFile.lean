/-
Byte-level model of the header import file format (chainimport/headers.go
`importMetadata.encode/decode`, chainimport/file_source.go `Open`,
`GetHeaderMetadata`, `GetHeader`).  Core Lean only.

A file is a list of bytes.  It starts with 10 bytes of metadata — network magic
(uint32, little endian), format version (1 byte, must be 0), header type
(1 byte: 0 = block headers of 80 bytes, 1 = regular filter headers of 32
bytes), start height (uint32, little endian) — followed by the headers, back to
back.  `Open` rejects a file that is too short for the metadata, has another
version or an unknown type, holds no header, or whose body is not a whole
number of headers.  `GetHeader i` reads the `size` bytes at offset
`10 + i * size` and stamps them with height `start + i`.

Idealisation: files are smaller than 4 GiB, so that the `uint32` offset and
end-height arithmetic of the Go code does not wrap (stated as hypotheses where
a theorem needs it; the functions themselves wrap like the Go code).
-/
namespace Neutrino.ImportFile

abbrev Bytes := List UInt8

def two32 : Nat := 4294967296

/-- `binary.Write(w, binary.LittleEndian, uint32)` -/
def le32 (n : Nat) : Bytes :=
  [UInt8.ofNat (n % 256), UInt8.ofNat (n / 256 % 256), UInt8.ofNat (n / 65536 % 256), UInt8.ofNat (n / 16777216 % 256)]

/-- `binary.Read(r, binary.LittleEndian, &uint32)`: the value and the rest, `none` = unexpected end of file -/
def rd32 : Bytes → Option (Nat × Bytes)
  | a :: b :: c :: d :: rest => some (a.toNat + 256 * b.toNat + 65536 * c.toNat + 16777216 * d.toNat, rest)
  | _ => none

def rd8 : Bytes → Option (Nat × Bytes)
  | a :: rest => some (a.toNat, rest)
  | [] => none

structure Meta where
  magic   : Nat
  version : Nat
  typ     : Nat
  start   : Nat
deriving DecidableEq, Repr

def metaSize : Nat := 10

/-- `importMetadata.encode` -/
def encodeMeta (m : Meta) : Bytes :=
  le32 m.magic ++ [UInt8.ofNat m.version] ++ [UInt8.ofNat m.typ] ++ le32 m.start

inductive Err where
  | short      -- the metadata cannot be read in full
  | version    -- format version other than 0
  | type       -- unknown header type
  | empty      -- no header behind the metadata
  | torn       -- body is not a whole number of headers
  | read       -- GetHeader: the header cannot be read in full (index past the end)
deriving DecidableEq, Repr

/-- `importMetadata.decode`: fields are read in order; the version is checked as soon as it is read -/
def decodeMeta (bs : Bytes) : Except Err (Meta × Bytes) :=
  match rd32 bs with
  | none => .error .short
  | some (magic, r1) =>
    match rd8 r1 with
    | none => .error .short
    | some (ver, r2) =>
      if ver ≠ 0 then .error .version else
      match rd8 r2 with
      | none => .error .short
      | some (typ, r3) =>
        match rd32 r3 with
        | none => .error .short
        | some (start, r4) => .ok (⟨magic, ver, typ, start⟩, r4)

/-- `HeaderType.Size` -/
def headerSize : Nat → Option Nat
  | 0 => some 80
  | 1 => some 32
  | _ => none

structure Info where
  md    : Meta
  size  : Nat
  count : Nat
  /-- `startHeight + headersCount - 1` in uint32 -/
  endH  : Nat
deriving DecidableEq, Repr

/-- `Open` / `GetHeaderMetadata` -/
def openFile (bs : Bytes) : Except Err Info :=
  match decodeMeta bs with
  | .error e => .error e
  | .ok (m, _) =>
    match headerSize m.typ with
    | none => .error .type
    | some sz =>
      let usable := bs.length - metaSize
      if usable = 0 then .error .empty
      else if usable % sz ≠ 0 then .error .torn
      else
        let count := (usable / sz) % two32
        .ok ⟨m, sz, count, (m.start + count + (two32 - 1)) % two32⟩

/-- `GetHeader index`: the raw header bytes and the height they are stamped with -/
def getHeader (bs : Bytes) (info : Info) (index : Nat) : Except Err (Bytes × Nat) :=
  let off := (metaSize + index * info.size) % two32
  let chunk := (bs.drop off).take info.size
  if chunk.length < info.size then .error .read
  else .ok (chunk, (index + info.md.start) % two32)

/-- what `AddHeadersImportMetadata` produces: the metadata followed by the headers -/
def encodeFile (m : Meta) (hdrs : List Bytes) : Bytes := encodeMeta m ++ hdrs.flatten

end Neutrino.ImportFile
