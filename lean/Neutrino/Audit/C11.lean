import Neutrino.Props.C11
open Neutrino.Subs
#print axioms C11_source_facts
