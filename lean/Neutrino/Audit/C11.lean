import Neutrino.Props.C11
open Neutrino.Subs
#print axioms C11_prefix
#print axioms C11_no_dup
#print axioms C11_complete_drained
#print axioms C11_complete
#print axioms C11_isolation
#print axioms C11_registration_window
#print axioms C11_cancel_closes
#print axioms C11_stop_closes
#print axioms C11_closed_silent
#print axioms C11_after_close_observed
#print axioms C11_oracle_holds
#print axioms C11_source_facts
#print axioms C11_handler_never_blocks_on_client
#print axioms C11_stop_completes_during_registration
#print axioms C11_reply_isolation
#print axioms C11_unbuffered_reply_counterexample
#print axioms C11_reply_source_facts
#print axioms Neutrino.Subs.inv_step
#print axioms Neutrino.Subs.step_hide_other
#print axioms Neutrino.Subs.step_hide_own
