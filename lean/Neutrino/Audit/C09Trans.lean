import Neutrino.Props.C09Trans
open Neutrino.Rescan
#print axioms C09_trans_retryQueue
#print axioms C09_trans_retryQueue_model
#print axioms C09_trans_retryQueue_fifo
