import Neutrino.Props.C17
import Neutrino.Props.C17Reorg
open Neutrino.Shutdown
#print axioms C17_sites_partial
#print axioms C17_sites_counterexample
#print axioms C17_sites
#print axioms C17_rule_counts
#print axioms C17_stop_order
#print axioms C17_waitgroup_balanced
#print axioms C17_close_before_wait
#print axioms C17_comps_in_order
#print axioms C17_cond_wakers
#print axioms C17_discharge_used
#print axioms C17_quits_are_closed
#print axioms C17_capacity_checked
#print axioms C17_callbacks_on_workers
open Neutrino.StopReorg
#print axioms C17_rollback_runs_to_completion
#print axioms C17_stop_mid_reorg_consistent
#print axioms C17_stop_mid_reorg_same_as_no_stop
#print axioms C17_interruptible_rollback_counterexample
#print axioms C17_rollback_loop_has_no_quit_exit
