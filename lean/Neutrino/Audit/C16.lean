import Neutrino.Props.C16
open Neutrino.Lru
#print axioms C16_state_invariant
#print axioms C16_refines_spec
#print axioms C16_lru_order
#print axioms C16_get_after_put
#print axioms C16_get_after_del
#print axioms C16_source_shape
#print axioms C16_linearizable
#print axioms C16_replay_is_run
#print axioms Neutrino.LockObj.lock_serializes
#print axioms Neutrino.LockObj.holder_sees_own_effects
#print axioms C16_oracle_sound
#print axioms C16_no_overflow
#print axioms C16_evict_condition
#print axioms C16_evict_condition_counterexample
#print axioms C16_dump_shape
