import Neutrino.Props.C15
open Neutrino.PushTx
#print axioms C15_included
#print axioms C15_trigger_starts
#print axioms C15_not_after_confirm
#print axioms C15_rejected_never_pending
#print axioms C15_rejected_is_noop
#print axioms C15_rebroadcast_walks_snapshot
#print axioms C15_order
#print axioms C15_order_whole
#print axioms C15_verdict
#print axioms C15_rejecters_replied
#print axioms C15_verdict_threshold
#print axioms C15_verdict_no_reply
#print axioms C15_nonblocking
#print axioms C15_after_stop_returns
#print axioms C15_closed_subscription_harmless
#print axioms C15_source_shape
#print axioms C15_parse_table
#print axioms C15_interval_source
#print axioms C15_ticks_keep_coming
#print axioms C15_ticks_keep_coming_general
#print axioms C15_ticks_keep_coming_counterexample
