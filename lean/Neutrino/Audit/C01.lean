import Neutrino.Props.C01
import Neutrino.Props.C01Trans
open Neutrino.BM
#print axioms BM.inv_step
#print axioms C01_chain_valid_partial
#print axioms C01_lookups_agree
#print axioms C01_only_valid_stored
#print axioms C01_source_facts
#print axioms loop_inv
#print axioms C01_chain_valid
#print axioms C01_checkpoints_passed
#print axioms BM.inv_step_full
#print axioms C01_ancestor_correct
#print axioms Neutrino.HL.ancestor_correct
#print axioms Neutrino.HL.ancestor_live
#print axioms Neutrino.HL.reset_inv
#print axioms C01_headerlist_refines
#print axioms Neutrino.HL.push_preserves_RInv
#print axioms C01_ctx_resolves_own_branch
#print axioms C01_ctx_connect_loop
#print axioms ctx_reorg_small_window_counterexample
#print axioms C01_next_checkpoint_every_event
#print axioms Neutrino.BM.C01_trans_findNextHeaderCheckpoint
#print axioms Neutrino.BM.C01_trans_findPreviousHeaderCheckpoint
#print axioms Neutrino.BM.C01_trans_checkpoints_passed
#print axioms Neutrino.BM.C01_trans_invertLowestOne
#print axioms Neutrino.BM.C01_trans_getAncestorHeight
#print axioms Neutrino.BM.C01_trans_getAncestorHeight_nonpos
#print axioms Neutrino.BM.C01_trans_areHeadersConnected
#print axioms C01_hash_resolves_iff_stored
#print axioms C01_store_resolves_iff_on_chain
#print axioms C01_memo_survives_rollback_counterexample
