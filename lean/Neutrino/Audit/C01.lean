import Neutrino.Props.C01
open Neutrino.BM
#print axioms C01_init_log
