import Neutrino.Props.C19
open Neutrino.BM
#print axioms C19_connected
#print axioms C19_connected_ascending
#print axioms C19_failed_write_silent
#print axioms C19_rollback_store
#print axioms C19_disconnected_step
#print axioms C19_backlog_shape
#print axioms C19_disconnected
#print axioms C19_replay_events
#print axioms C19_replay_headers
#print axioms C19_replay_cfwrite
#print axioms loop_trace
#print axioms rollBack_trace
#print axioms C19_replay
#print axioms C19_backlog_replay
#print axioms C19_filter_tip_consistent
#print axioms C19_tip_covers_emission
#print axioms C19_tip_after_counterexample
#print axioms C19_midbatch_subscriber
#print axioms C19_midbatch_gap_counterexample
#print axioms C19_source_facts
#print axioms C19_rendezvous_no_lag
#print axioms C19_buffered_lag_counterexample
#print axioms C19_buffered_subscriber_counterexample
#print axioms rollBack_trace_strict
#print axioms conn_replay_strict
#print axioms C19_disconnected_after_removal
