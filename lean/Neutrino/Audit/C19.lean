import Neutrino.Props.C19
open Neutrino.BM
#print axioms C19_init_log
