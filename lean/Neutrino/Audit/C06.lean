import Neutrino.Props.C06
open Neutrino.GetBlock
#print axioms C06_sound
#print axioms C06_ban_iff
#print axioms C06_ban_only_by_handler
#print axioms C06_ignore_others
#print axioms C06_fail_closed
#print axioms C06_sibling_ignored
#print axioms C06_retry_after_ban
#print axioms C06_cache_after_success
#print axioms C06_progress
#print axioms C06_source_facts
