import Neutrino.Props.C03
import Neutrino.Props.C03Verify
import Neutrino.Props.C03Sanity
import Neutrino.Props.C03Scan
import Neutrino.Props.C03Resume
open Neutrino.CFHeaders
#print axioms C03_source_facts
#print axioms C03_not_ahead
#print axioms C03_belongs
#print axioms C03_belongs_rollback
#print axioms C03_belongs_needs_filter_first
#print axioms C03_hash_chain
#print axioms C03_hash_chain_step
#print axioms C03_checkpoints
#print axioms C03_honest_wins_counterexample
#print axioms C03_honest_wins_counterexample_commits_false
#print axioms genesis_inv
#print axioms C03_detect_early_return
#print axioms C03_zero_hash_liar_caught
#print axioms C03_honest_wins_partial
#print axioms C03_checkpoint_batches
#print axioms C03_checkpoints_tip_counterexample
#print axioms C03_checkpoints_resolve
#print axioms C03_belongs_stale_batch
#print axioms C03_response_exact
#print axioms C03_sanity_spec
#print axioms C03_sanity_agreement
#print axioms C03_sanity_first
#print axioms C03_sanity_forgery_noticed
#print axioms C03_honest_wins_all_self_consistent
open Neutrino.VerifyFilter in
#print axioms C03_verify_rejects_iff_omits
open Neutrino.VerifyFilter in
#print axioms C03_verify_counts_opreturns
open Neutrino.VerifyFilter in
#print axioms C03_verify_ignores_inputs
open Neutrino.VerifyFilter in
#print axioms C03_verify_ignores_coinbase
open Neutrino.VerifyFilter in
#print axioms C03_verify_complete_filter_accepted
open Neutrino.VerifyFilter in
#print axioms C03_verify_monotone
open Neutrino.VerifyFilter in
#print axioms C03_verify_match_error_rejects
open Neutrino.VerifyFilter in
#print axioms C03_block_check_bad_iff_omits
open Neutrino.VerifyFilter in
#print axioms C03_truth_verifies_of_complete
open Neutrino.VerifyFilter in
#print axioms C03_verify_source_facts
#print axioms C03_checkpointed_phase_resume
#print axioms C03_hardcoded_height_in_reach_runs_phase
#print axioms C03_checkpointed_phase_lag_counterexample
#print axioms C03_hard_scan_from_zero
#print axioms C03_hard_scan_from_tip_counterexample
#print axioms C03_checkpoints_resume
#print axioms C03_resume_source_facts
