import Neutrino.Props.C03
open Neutrino.CFHeaders
#print axioms C03_placeholder
