import Neutrino.Props.C03
open Neutrino.CFHeaders
#print axioms C03_source_facts
#print axioms C03_not_ahead
#print axioms C03_belongs
#print axioms C03_belongs_rollback
#print axioms C03_belongs_needs_filter_first
#print axioms C03_hash_chain
#print axioms C03_hash_chain_step
#print axioms C03_checkpoints
#print axioms C03_honest_wins_counterexample
#print axioms C03_honest_wins_counterexample_commits_false
#print axioms genesis_inv
#print axioms C03_detect_early_return
#print axioms C03_zero_hash_liar_caught
#print axioms C03_honest_wins_partial
#print axioms C03_checkpoint_batches
#print axioms C03_checkpoints_tip_counterexample
#print axioms C03_checkpoints_resolve
#print axioms C03_belongs_stale_batch
#print axioms C03_response_exact
