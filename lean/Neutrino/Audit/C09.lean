import Neutrino.Props.C09
open Neutrino.Rescan
#print axioms C09_walk_counterexample
#print axioms C09_walk_counterexample_unread
#print axioms C09_walk_partial
#print axioms stepGood_ok
#print axioms trackInv_next
#print axioms C09_walk_current_arm
#print axioms C09_disconnect_reported
#print axioms C09_reorg_above_keeps_cur
#print axioms C09_no_miss
#print axioms C09_retry
#print axioms C09_retry_enqueue
#print axioms C09_source_facts
#print axioms step_walk
#print axioms catchUp_walk
#print axioms walk_run
#print axioms linkedB_get
#print axioms notifyBlock_shape
#print axioms no_miss_run
#print axioms retryLoop_spec
#print axioms qRemove_prefix
#print axioms qRemove_not_mem
