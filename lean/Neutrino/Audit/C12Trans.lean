import Neutrino.Props.C12Trans
open Neutrino.Disp
#print axioms C12_trans_peerRanking
#print axioms C12_trans_score_moves
#print axioms C12_trans_scoreOf
#print axioms C12_trans_workQueue_Less
#print axioms C12_trans_workQueue_Less_strict
