import Neutrino.Props.C07
import Neutrino.Props.C07Trans
open Neutrino.Store
#print axioms C07_refines
#print axioms C07_refines_history
#print axioms C07_reopen_id
#print axioms C07_lookups
#print axioms C07_rolled_back_not_found
#print axioms C07_refused
#print axioms C07_failed_append_unchanged
#print axioms C07_failed_filter_append_unchanged
#print axioms C07_index_layout
#print axioms C07_index_layout_needs_disjoint
#print axioms C07_index_source_shape
#print axioms C07_ancestors
#print axioms C07_locator
#print axioms C07_reads_source_shape
#print axioms Neutrino.Store.C07_trans_FetchHeaderAncestors
#print axioms Neutrino.Store.C07_trans_ancestors
#print axioms Neutrino.Store.C07_trans_FetchFilterHeaderAncestors
#print axioms Neutrino.Store.C07_trans_readHeadersFromFile
#print axioms Neutrino.Store.C07_trans_HeaderType_Size
#print axioms C07_single_tx_append_unchanged
#print axioms C07_split_success_same
#print axioms C07_split_append_counterexample
#print axioms C07_bulk_source_shape
#print axioms C07_short_file_read_fails
#print axioms C07_filter_ancestors
