import Neutrino.Props.C12Late
open Neutrino.Disp
#print axioms C12_job_once
#print axioms C12_job_once_places
#print axioms C12_at_most_once_late
#print axioms C12_success_all_late
#print axioms C12_requeue_on_reconnect_counterexample
#print axioms C12_requeue_on_reconnect_success_counterexample
