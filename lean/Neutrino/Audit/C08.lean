import Neutrino.Props.C08
import Neutrino.Props.C08Import
import Neutrino.Props.C08Trans
open Neutrino.Store
#print axioms C08_recover
#print axioms C08_recovered_consistent
#print axioms C08_resume
#print axioms C08_reopen_id
#print axioms C08_source_shape
#print axioms reopen_ahead
#print axioms exec_outcome
#print axioms rollTo_outcome
#print axioms C08_first_init
#print axioms C08_first_init_empty
#print axioms C08_restart_killed
#print axioms C08_start_steps_agree
#print axioms C08_first_init_keeps_data
#print axioms C08_sequence_recover
#print axioms C08_import_recover
#print axioms C08_import_source_shape
#print axioms importOps_contract
#print axioms applySeq_importOps_take
#print axioms Neutrino.Store.C08_trans_trimPartialHeader
#print axioms Neutrino.Store.C08_trans_trimPartialHeader_err
#print axioms Neutrino.Store.C08_trans_resetInterruptedInit
#print axioms Neutrino.Store.C08_single_tx_append_recover
#print axioms Neutrino.Store.C08_split_append_crash_counterexample
#print axioms Neutrino.Store.C08_bulk_source_shape
