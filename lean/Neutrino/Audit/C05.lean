import Neutrino.Props.C05
import Neutrino.Props.C05Trans
import Neutrino.Props.C05Stores
open Neutrino.GetCFilter
#print axioms C05_sound
#print axioms C05_sound_counterexample
#print axioms C05_sound_counterexample_db
#print axioms C05_sound_partial
#print axioms C05_reject
#print axioms C05_progress_iff
#print axioms C05_target_by_hash
#print axioms C05_reorged_target_fails
#print axioms C05_duplicate_rejected
#print axioms C05_complete_all_received
#print axioms C05_fail_closed
#print axioms C05_range
#print axioms C05_range_total
#print axioms C05_index_aligned
#print axioms C05_no_query_above_tip
#print axioms C05_prepared_target_committed
#print axioms C05_source_facts
#print axioms C05_store_source_facts
#print axioms C05_db_read_is_snapshot
#print axioms C05_sound_concurrent_writer
#print axioms C05_decode_after_tx_counterexample
#print axioms C05_cache_fill_validated
#print axioms C05_read_ahead_checked
#print axioms C05_read_ahead_unchecked_counterexample
#print axioms C05_read_ahead_stale_counterexample
#print axioms Neutrino.GetCFilter.C05_trans_prepareCFiltersQuery
#print axioms Neutrino.GetCFilter.C05_trans_range
#print axioms Neutrino.GetCFilter.C05_trans_no_query_above_tip
#print axioms Neutrino.GetCFilter.C05_trans_lookup_error
#print axioms Neutrino.GetCFilter.C05_trans_headerIndex
#print axioms Neutrino.GetCFilter.C05_verification_headers_are_committed
#print axioms Neutrino.GetCFilter.C05_stale_range_cache_counterexample
#print axioms Neutrino.GetCFilter.C05_genesis_per_network
#print axioms Neutrino.GetCFilter.C05_genesis_opened_last
#print axioms Neutrino.GetCFilter.C05_shared_genesis_memo_counterexample
