import Neutrino.Props.C04Trans
open Neutrino.Net
#print axioms C04_trans_IsFullySynced
#print axioms C04_trans_current_matching
