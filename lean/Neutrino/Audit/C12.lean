import Neutrino.Props.C12
open Neutrino.Disp
#print axioms C12_source_facts
