import Neutrino.Props.C12
open Neutrino.Disp
#print axioms C12_source_facts
#print axioms C12_at_most_once
#print axioms C12_exactly_once_on_quit
#print axioms C12_batch_numbers
#print axioms C12_rank
#print axioms C12_reissue
#print axioms C12_success_all_partial
#print axioms C12_success_all
#print axioms C12_subs_recorded
#print axioms C12_rank_waits_for_best
#print axioms C12_offer_is_accept
#print axioms C12_eager_offer_counterexample
#print axioms C12_rank_survives_churn
#print axioms C12_rank_own_history
#print axioms C12_record_persists
#print axioms C12_evicting_ranking_counterexample
#print axioms C12_rank_scores
#print axioms C12_score_moves
#print axioms C12_hard_timeout_honoured
#print axioms C12_connect_registers
#print axioms C12_stale_wake_ignored
#print axioms C12_progress_advances_generation
open Neutrino.Wrk
#print axioms C12_worker_source_facts
#print axioms C12_worker_reports
#print axioms C12_worker_progress
#print axioms C12_worker_reports_counterexample_if_precheck_continues
