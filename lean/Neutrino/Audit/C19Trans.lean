import Neutrino.Props.C19Trans
open Neutrino.BM
#print axioms C19_trans_NotificationsSinceHeight
#print axioms C19_trans_backlog_range
