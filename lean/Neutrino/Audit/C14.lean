import Neutrino.Props.C14
open Neutrino.Import
#print axioms C14_success_counterexample
#print axioms C14_success_partial
#print axioms C14_idempotent_partial
#print axioms C14_failure_counterexample
#print axioms C14_failure_partial
#print axioms C14_source_facts
#print axioms import_noop_when_full
#print axioms failContent_mk
#print axioms healthy_eq_mk
#print axioms healthy_len
#print axioms appendLoop_both
#print axioms importRun_zero
#print axioms importRun_covered
