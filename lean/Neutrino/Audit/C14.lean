import Neutrino.Props.C14
open Neutrino.Import
#print axioms C14_success_counterexample
#print axioms C14_success_partial
#print axioms C14_success_chain_valid_partial
#print axioms C14_success_sample_partial
#print axioms C14_success_all_partial
#print axioms C14_idempotent_partial
#print axioms C14_idempotent_any_batch_partial
#print axioms C14_failure_counterexample
#print axioms C14_failure_partial
#print axioms C14_failure_all_partial
#print axioms C14_failure_block_ahead_partial
#print axioms C14_success_block_ahead_partial
#print axioms C14_block_ahead_always_fails
#print axioms C14_source_facts
#print axioms block_ahead_unchanged
#print axioms chain_level_zero
#print axioms import_noop_when_full
#print axioms failContent_mk
#print axioms healthy_eq_mk
#print axioms healthy_len
#print axioms appendLoop_both
#print axioms importRun_zero
#print axioms importRun_covered_gen
#print axioms continuity_overlap_iff
#print axioms continuity_after_success
#print axioms block_ahead_checks_fail
