import Neutrino.Props.C14
open Neutrino.Import
#print axioms C14_success_counterexample
