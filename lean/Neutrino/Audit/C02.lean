import Neutrino.Props.C02
import Neutrino.Props.C02Trans
open Neutrino.BM
#print axioms C02_replace_guard
#print axioms C02_reorg_shape
#print axioms C02_else_unchanged_partial
#print axioms C02_unlinked_unchanged
#print axioms C02_replace_only_heavier_partial
#print axioms C02_replace_heavier_when_full
#print axioms C02_adopt_full
#print axioms C02_adopt_full_reorg
#print axioms C02_known_work_is_displaced_suffix
#print axioms C02_known_work_every_history
#print axioms C02_decision_by_displaced_work
#print axioms C02_work_monotone_partial
#print axioms C02_work_monotone_counterexample
#print axioms C02_replace_only_heavier_counterexample
#print axioms replace_shape
#print axioms handle_shape
#print axioms Neutrino.BM.C02_trans_findPreviousHeaderCheckpoint
#print axioms Neutrino.BM.C02_trans_replace_guard
#print axioms Neutrino.BM.C02_trans_BlockHeadersSynced
#print axioms C02_displaced_do_not_resolve
