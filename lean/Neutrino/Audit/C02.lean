import Neutrino.Props.C02
open Neutrino.BM
#print axioms C02_init_log
