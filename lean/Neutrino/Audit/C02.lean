import Neutrino.Props.C02
open Neutrino.BM
#print axioms C02_replace_guard
#print axioms C02_reorg_shape
#print axioms C02_else_unchanged_partial
#print axioms C02_unlinked_unchanged
