import Neutrino.Props.C10
open Neutrino.Utxo
#print axioms C10_answer
#print axioms C10_answer_exact_partial
#print axioms C10_answer_exact_counterexample
#print axioms C10_once
#print axioms C10_result_first
#print axioms C10_deliver_drops_second
#print axioms C10_result_idempotent
#print axioms C10_readers_agree
#print axioms C10_readers_first
#print axioms C10_readers_none_hang
#print axioms C10_result_idempotent_iter
#print axioms C10_none_lost
#print axioms C10_all_answered_partial
#print axioms C10_spin_only_above_tip
#print axioms C10_all_answered_counterexample
#print axioms C10_source_facts
#print axioms C10_no_spin_partial
