import Neutrino.Props.C13Trans
open Neutrino.Ban
#print axioms C13_trans_IsBanned
#print axioms C13_trans_IsBanned_err
#print axioms C13_trans_IsBanned_model
