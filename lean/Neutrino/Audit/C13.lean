import Neutrino.Props.C13
open Neutrino.Ban
#print axioms C13_status_counterexample
#print axioms C13_status_partial
#print axioms C13_status_explicit
#print axioms C13_lastBan_characterisation
#print axioms C13_reopen_invisible
#print axioms C13_refines
#print axioms C13_exact_spec_counterexample
#print axioms C13_key_canonical
#print axioms lastBan_append
#print axioms run_append
#print axioms C13_enforced
#print axioms C13_banPeer_clears_network
#print axioms C13_version_enforced
#print axioms C13_banPeer_enforced
#print axioms C13_banned_refused
#print axioms C13_source_facts
#print axioms C13_isBanned_pure
#print axioms C13_isBanned_tracks_bans
#print axioms isBanned_true_iff
#print axioms mem_ban
#print axioms mem_unban
