import Neutrino.Props.C18
open Neutrino.Lockset
#print axioms C18_lockset
#print axioms C18_lockset_by_field
#print axioms C18_fields_cover
#print axioms C18_lockset_counterexample
#print axioms C18_lockset_statement_false
#print axioms C18_caller_holds
#print axioms C18_no_foreign_unlock
#print axioms C18_caller_holds_minimal
#print axioms C18_callbacks_reviewed
#print axioms C18_ordered_used
#print axioms C18_ordered_only_on_success
#print axioms C18_no_reentrant_lock
#print axioms C18_tables_used
