import Neutrino.Props.C04
import Neutrino.Props.C04Locator
open Neutrino.Net
#print axioms C04_safety
#print axioms C04_no_regress
#print axioms C04_stable
#print axioms C04_progress
#print axioms C04_fair_enabled
#print axioms C04_rank
#print axioms C04_progress_fair
#print axioms C04_syncpeer_sites
#print axioms C04_syncPeer_connected
#print axioms C04_progress_enabled
#print axioms C04_done_reselects
#print axioms C04_select_some
#print axioms step_tip
#print axioms step_good
#print axioms step_rank
#print axioms stallSched_spec
#print axioms Neutrino.Ask.C04_ask_source
#print axioms Neutrino.Ask.C04_sync_peer_ahead_is_asked
#print axioms Neutrino.Ask.C04_ahead_peer_asked_counterexample
#print axioms Neutrino.Ask.C04_ahead_peer_asked
#print axioms Neutrino.Ask.C04_ahead_peer_asked_inv
#print axioms Neutrino.Ask.C04_done_asks_replacement
#print axioms Neutrino.Ask.C04_no_message_lost
#print axioms Neutrino.Ask.C04_lost_reply_stalls
#print axioms Neutrino.Net.C04_progress_no_loss
#print axioms Neutrino.Locator.C04_request_progress
#print axioms Neutrino.Locator.C04_request_reaches_tip
#print axioms Neutrino.Locator.C04_inv_locator_off_chain_tip
#print axioms Neutrino.Locator.C04_inv_locator_progress
#print axioms Neutrino.Locator.C04_tip_only_locator_stalls
#print axioms Neutrino.BM.C04_mismatch_rollback_target
