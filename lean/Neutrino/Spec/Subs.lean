/-
Observation-level specification of C11, independent of the model's internals
(no queue, no channel, no forwarder): what a client of `SubscriptionManager`
may observe, computed only from the calls made on the manager and the source.

For each subscriber the oracle keeps
  `expected`  backlog returned at its registration ++ every notification taken by
              the handler after that, up to its cancel / the manager's stop,
  `got`       what it has received so far,
and judges every batch of received items (`Obs.recv`):
  * each item is the next element of `expected`  (else `dup`, `gap` or `alien`),
  * nothing is received after the close has been observed (`after-close`),
  * a close is only observed after cancel/stop (`closed-early`),
and at quiescence points (`Obs.settled`):
  * a live subscriber that has been read dry has `got = expected` (`missing`),
  * after cancel/stop the channel is closed (`not-closed`).
One subscriber's record is a function of its own registration, the emissions,
its own cancel and the stop only — that is the isolation clause.
-/
import Neutrino.Model.Subs
namespace Neutrino.Subs

structure Obs where
  expected  : List Ntfn := []
  got       : List Ntfn := []
  ended     : Bool := false     -- cancel or stop has been issued for it
  sawClosed : Bool := false
deriving Repr, DecidableEq

inductive Verdict where
  | ok
  | dup (n : Ntfn)          -- delivered twice
  | gap (n : Ntfn)          -- an expected notification was skipped (loss or reordering)
  | alien (n : Ntfn)        -- never expected by this subscriber (e.g. emitted before its registration)
  | afterClose (n : Ntfn)   -- received after the close was observed
  | closedEarly             -- channel closed without cancel/stop
  | missing (k : Nat)       -- at quiescence k expected notifications are not deliverable
  | notClosed               -- cancel/stop settled but the channel is still open
deriving Repr, DecidableEq

def Verdict.shape : Verdict → String
  | .ok => "ok"
  | .dup _ => "dup"
  | .gap _ => "gap"
  | .alien _ => "alien"
  | .afterClose _ => "after-close"
  | .closedEarly => "closed-early"
  | .missing _ => "missing"
  | .notClosed => "not-closed"

/-- registration: the expected stream starts with the backlog -/
def Obs.start (backlog : List Ntfn) : Obs := { expected := backlog }

/-- a notification taken by the handler while this subscriber is registered -/
def Obs.emit (o : Obs) (n : Ntfn) : Obs :=
  if o.ended then o else { o with expected := o.expected ++ [n] }

def Obs.end (o : Obs) : Obs := { o with ended := true }

/-- one received item -/
def Obs.recv1 (o : Obs) (n : Ntfn) : Obs × Verdict :=
  if o.sawClosed then (o, .afterClose n) else
  match o.expected.drop o.got.length with
  | e :: _ =>
    if e = n then ({ o with got := o.got ++ [n] }, .ok)
    else if n ∈ o.got then (o, .dup n)
    else if n ∈ o.expected then (o, .gap n)
    else (o, .alien n)
  | [] => if n ∈ o.got then (o, .dup n) else (o, .alien n)

/-- a batch of received items; the first non-ok verdict wins -/
def Obs.recv (o : Obs) : List Ntfn → Obs × Verdict
  | [] => (o, .ok)
  | n :: ns =>
    match o.recv1 n with
    | (o', .ok) => o'.recv ns
    | r => r

/-- the consumer observed the close -/
def Obs.close (o : Obs) : Obs × Verdict :=
  ({ o with sawClosed := true }, if o.ended then .ok else .closedEarly)

/-- The safety clause as one predicate on a record: received = a prefix of expected. -/
def Obs.prefixOk (o : Obs) : Bool := o.got.isPrefixOf o.expected

/-- At a quiescence point where the subscriber has been read dry:
live ⇒ everything expected has arrived; ended ⇒ the close is observable. -/
def Obs.settled (o : Obs) (closedSeen : Bool) : Verdict :=
  if o.ended then (if closedSeen then .ok else .notClosed)
  else if closedSeen then .closedEarly
  else if o.got.length < o.expected.length then .missing (o.expected.length - o.got.length)
  else .ok

end Neutrino.Subs
