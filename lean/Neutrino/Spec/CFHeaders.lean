/-
Property C03 as decidable predicates, used twice: by the theorems of
`Props/C03.lean` (about the model) and by the driver (about the dumps the real
code produced).  Core Lean only.
-/
import Neutrino.Model.CFHeaders
namespace Neutrino.CFHeaders

/-- One at-tip round as the environment saw it: who was connected, what each
peer would answer, the filter tip the round started from, the heights asked
for, and the ground truth (true filter hash by height). -/
structure Round where
  peers    : List Peer
  resps    : Peer → List Msg
  served   : Peer → Nat → Option FHash
  verify   : FHash → Nat → VRes
  getBlock : Nat → Bool
  tip      : Hdr
  start    : Nat
  n        : Nat
  truth    : Nat → FHash

namespace Round

def msgOf (r : Round) (p : Peer) : Option Msg := accept r.n (r.resps p)

def hashAt (r : Round) (p : Peer) (i : Nat) : Option FHash :=
  match r.msgOf p with
  | some m => m.hashes[i]?
  | none => none

/-- answered the cfheaders query starting from our tip -/
def responding (r : Round) (p : Peer) : Bool :=
  match r.msgOf p with
  | some m => m.prev == r.tip
  | none => false

def wrongPrev (r : Round) (p : Peer) : Bool :=
  match r.msgOf p with
  | some m => m.prev != r.tip
  | none => false

def falseAt (r : Round) (p : Peer) (i : Nat) : Bool :=
  match r.hashAt p i with
  | some f => f != r.truth (r.start + i)
  | none => false

/-- honest: true filter hashes for the whole batch from our tip, and the true filter on request -/
def honest (r : Round) (p : Peer) : Bool :=
  r.responding p && (List.range r.n).all (fun i =>
    r.hashAt p i == some (r.truth (r.start + i)) &&
    r.served p (r.start + i) == some (r.truth (r.start + i)))

/-- sent a false value: a previous header that is not our tip, or a false filter hash -/
def liar (r : Round) (p : Peer) : Bool :=
  r.wrongPrev p || (r.responding p && (List.range r.n).any (r.falseAt p))

/-- what phase 1 of `detectBadPeers` looks for: filter not served, or not hashing to the advertised value -/
def phase1Bad (r : Round) (p : Peer) (i : Nat) : Bool :=
  match r.served p (r.start + i) with
  | none => true
  | some f => !(r.hashAt p i == some f)

/-- the false value at index `i` is inconsistent in one of the three listed ways -/
def provableAt (r : Round) (p : Peer) (i : Nat) : Bool :=
  r.phase1Bad p i ||
  (match r.hashAt p i with
   | some f => r.verify f (r.start + i) == .bad
   | none => false)

def provable (r : Round) (p : Peer) : Bool :=
  r.wrongPrev p || (List.range r.n).all (fun i => !r.falseAt p i || r.provableAt p i)

/-- a liar at index `i` whose served filter hashes to what it advertised -/
def scLiarAt (r : Round) (p : Peer) (i : Nat) : Bool :=
  r.responding p && r.falseAt p i && !r.phase1Bad p i

/-- the shape of finding F12: at one index some responding peer is silent or
self-inconsistent AND some responding peer is a self-consistent liar -/
def shapeEarlyReturn (r : Round) : Bool :=
  (List.range r.n).any (fun i =>
    r.peers.any (fun p => r.responding p && r.phase1Bad p i) &&
    r.peers.any (fun q => r.scLiarAt q i))

/-- nobody advertises the all-zero filter hash (it was the "unset" sentinel of the mismatch test until
finding `zero-hash-sentinel` was repaired; no theorem needs this any more) -/
def noZero (r : Round) : Bool :=
  r.peers.all (fun p => (List.range r.n).all (fun i => r.hashAt p i != some 0))

def truthVerifies (r : Round) : Bool :=
  (List.range r.n).all (fun i => r.verify (r.truth (r.start + i)) (r.start + i) != .bad)

def fetchable (r : Round) : Bool :=
  (List.range r.n).all (fun i => r.getBlock (r.start + i))

def truthSlice (r : Round) : List FHash :=
  (List.range r.n).map (fun i => r.truth (r.start + i))

/-- hypothesis of the honest-wins clause -/
def hyp (r : Round) : Bool :=
  r.peers.any r.honest && r.peers.all (fun p => !r.liar p || r.provable p) &&
  r.truthVerifies && r.fetchable

/-- conclusion of the honest-wins clause on what was appended to the filter
store and who was banned in the round -/
def concl (H : FHash → Hdr → Hdr) (r : Round) (appended : List Hdr) (banned : List Peer) : Bool :=
  appended == chainFrom H r.tip r.truthSlice &&
  r.peers.all (fun p => (!r.liar p || banned.contains p) && (!r.honest p || !banned.contains p))

end Round

/-- the round as the property sees it -/
def roundOf (s : St) (net : Net) (truth : Nat → FHash) : Round :=
  { peers := net.peers.filter (live s), resps := net.resps, served := net.served, verify := net.verify,
    getBlock := net.getBlock, tip := (s.fstore.getLast?).getD 0, start := s.fstore.length,
    n := batchLen s, truth := truth }

def newBans (s s' : St) : List Peer := (s'.bans.drop s.bans.length).map (·.1)

/-! ### oracle on consecutive dumps -/

/-- (a) the filter store is not ahead of the block store and its tip is its last entry -/
def notAheadObs (btH : Option Nat) (ftH : Option Nat) (fs : List Hdr) : Bool :=
  match btH, ftH with
  | some b, some f => f + 1 == fs.length && fs.length ≤ b + 1
  | _, _ => false

/-- (b) the store only ever shrinks from its end or grows from its end -/
def fromTipObs (old new : List Hdr) : Bool := new.isPrefixOf old || old.isPrefixOf new

/-- (b) what was appended is the hash chain of one of the served hash lists, started at the old tip -/
def appendedObs (H : FHash → Hdr → Hdr) (old new : List Hdr) (cands : List (List FHash)) : Bool :=
  if new.length ≤ old.length then true else
  match old.getLast? with
  | none => false
  | some tip => cands.any (fun c => new == old ++ chainFrom H tip c)

/-- (b) for the checkpointed fetch: what was appended is a sequence of served
batches, each the hash chain of (a suffix of, for the first one only) the
hashes of one delivered response for the heights it was written at, each
started at the then-current tip -/
def cpAppendedGo (H : FHash → Hdr → Hdr) (interval : Nat) (evs : List CpEv) :
    Nat → List Hdr → Hdr → Nat → Bool → Bool
  | 0, target, _, _, _ => target.isEmpty
  | fuel + 1, target, tip, height, first =>
    target.isEmpty ||
    evs.any (fun e =>
      e.stopOk && decide (e.k * interval + 1 ≤ height) &&
      (first || height == e.k * interval + 1) &&
      (let c := e.hashes.drop (height - (e.k * interval + 1))
       let ch := chainFrom H tip c
       !c.isEmpty && ch.isPrefixOf target &&
       cpAppendedGo H interval evs fuel (target.drop ch.length) ((ch.getLast?).getD tip)
         (height + ch.length) false))

def cpAppendedObs (H : FHash → Hdr → Hdr) (interval : Nat) (evs : List CpEv) (old new : List Hdr) : Bool :=
  if new.length ≤ old.length then true else
  match old.getLast? with
  | none => false
  | some tip => old.isPrefixOf new &&
      cpAppendedGo H interval evs (evs.length + 1) (new.drop old.length) tip old.length true

/-- (b) after the chain was cut back to height `h` no entry above `h` is left -/
def cutObs (h : Nat) (new : List Hdr) : Bool := new.length ≤ h + 1

/-- (c) every hard-coded checkpoint inside the store is matched -/
def checkpointsObs (hard : List (Nat × Hdr)) (fs : List Hdr) : Bool :=
  hard.all (fun c => match fs[c.1]? with
    | some x => x == c.2
    | none => true)

end Neutrino.CFHeaders
