/-
Observation-level oracles for C01 / C02 / C19.  They are evaluated on what the
IMPLEMENTATION reports after every event (the dump of the real stores and of the
in-memory digest), independently of the model in `Model/BlockMgr.lean`; all
Bitcoin arithmetic comes from the harness' table (btcd's verdicts).
Each oracle returns `(shape, text)` pairs; the empty list means the clause holds.
-/
import Neutrino.Model.BlockMgr
namespace Neutrino.BM

/-- what the harness reads from the real system after an event -/
structure Dump where
  res   : String := "ok"
  best  : Nat := 0
  bl    : List Node := []
  byh   : List Nat := []            -- FetchHeaderByHeight 0,1,2,… until it fails
  tip   : Option Node := none       -- ChainTip (none = error)
  bhash : List Node := []           -- for every header of the tree: FetchHeader/HeightFromHash, sorted by id
  fst   : Option Nat := none        -- filter-header store tip height
  hl    : List Node := []
  ncp   : Option Nat := none
  sync  : Nat := 0
  cand  : List Nat := []
  htip  : Node := ⟨0, 0⟩
  ftip  : Node := ⟨0, 0⟩
  disc  : List Nat := []
  lb    : List (Nat × Nat) := []
  ntf   : List Ntfn := []
  memAt : List Nat := []            -- per notification: in-memory filter tip when it was received
  pres  : String := ""              -- backlog request issued from inside the batch ("" = none)
  pbest : Nat := 0
  pbl   : List Node := []
  cs    : Bool := false             -- the ChainService-level lookups were recorded
  csbyh : List Nat := []            -- ChainService.GetBlockHash 0,1,2,… until it fails
  cstip : Option Node := none       -- ChainService.BestBlock
  csbad : Nat := 0                  -- hashes on which GetBlockHeight / GetBlockHeader disagree with the store
  tipread : String := ""            -- "HANG": the in-memory filter tip could not be read while an event was observable
  storedAt : List Bool := []        -- per notification: (disconnected) the block was still in the store when the event was received
  pseen : Nat := 0                  -- notifications the sink had taken when the backlog was requested
  pre   : List (Bool × Nat × Nat) := []   -- per notification: block store tip (height, id) the slow sink saw right before taking it
deriving Repr

abbrev Fail := String × String

/-! ### C01 -/

def linkedFrom (t : Tbl) : Nat → List Nat → Bool
  | _, [] => true
  | a, b :: rest => (t.parent b == some a) && linkedFrom t b rest

/-- genesis first, each header names its predecessor, each is valid on its own branch -/
def chainLinkedValid (t : Tbl) : List Nat → Bool
  | [] => false
  | g :: rest => g == 0 && linkedFrom t 0 rest && rest.all t.valid

def cpsHold (cps : List Cp) (byh : List Nat) : Bool :=
  cps.all (fun cp => match byh[cp.height]? with
    | some id => id == cp.id
    | none => true)

/-- **ChainValid** on a list of header ids by height. -/
def chainValid (c : Cfg) (byh : List Nat) : Bool :=
  chainLinkedValid c.tbl byh && cpsHold c.cps byh

def insertById (x : Node) : List Node → List Node
  | [] => [x]
  | y :: ys => if x.id ≤ y.id then x :: y :: ys else y :: insertById x ys

def withHeights : Nat → List Nat → List Node
  | _, [] => []
  | i, x :: xs => ⟨x, i⟩ :: withHeights (i + 1) xs

def byHashOf (byh : List Nat) : List Node := (withHeights 0 byh).foldr insertById []

/-- by-height, by-hash and tip lookups agree -/
def lookupsAgree (d : Dump) : Bool :=
  d.tip == some ⟨tipId d.byh, tipHeight d.byh⟩ && d.byh != [] && d.bhash == byHashOf d.byh

/-- the public lookups of the ChainService agree with the store: by height, by hash, best block
(the block at the lower of the two store tips) -/
def csAgree (d : Dump) : Bool :=
  !d.cs || (d.csbyh == d.byh && d.csbad == 0 &&
    (match d.fst with
     | some f => let h := min f (tipHeight d.byh); d.cstip == some ⟨d.byh.getD h 0, h⟩
     | none => true))

def c01 (c : Cfg) (d : Dump) : List Fail :=
  (if d.byh.head? != some 0 then [("genesis-missing", "height 0 is not the genesis header")] else []) ++
  (if !linkedFrom c.tbl 0 (d.byh.drop 1) then [("not-linked", "a stored header does not name its predecessor")] else []) ++
  (if !(d.byh.drop 1).all c.tbl.valid then [("invalid-header-stored", "a stored header fails btcd's checks on its own branch")] else []) ++
  (if !cpsHold c.cps d.byh then [("checkpoint-replaced", "the header at a checkpoint height is not the checkpoint")] else []) ++
  (if !lookupsAgree d then [("lookups-disagree", "tip / by-height / by-hash lookups disagree")] else []) ++
  (if lookupsAgree d && !csAgree d then [("lookups-disagree", s!"ChainService lookups disagree with the header store: GetBlockHash by height gives {d.csbyh}, the store {d.byh}; BestBlock {repr d.cstip}; {d.csbad} hashes with a different GetBlockHeight/GetBlockHeader answer")] else [])

def dumpGood (c : Cfg) (d : Dump) : Bool := chainValid c d.byh && lookupsAgree d

/-- the by-height view alone is one valid chain whose last header is the reported tip.  This is
all the C02 clauses need of the state BEFORE an event: what the by-hash index answers for hashes
that are not on that chain (a memo that outlives a rollback) must not silence them. -/
def storeGood (c : Cfg) (d : Dump) : Bool :=
  chainValid c d.byh && d.tip == some ⟨tipId d.byh, tipHeight d.byh⟩

/-- ids the by-hash lookups resolve although they are not on the chain read by height -/
def strayHashes (d : Dump) : List Nat :=
  (d.bhash.filter (fun n => !d.byh.contains n.id)).map (·.id)

/-! ### C02 -/

def commonLen : List Nat → List Nat → Nat
  | a :: as, b :: bs => if a = b then commonLen as bs + 1 else 0
  | _, _ => 0

/-- height of the newest checkpoint at or below `h` (0 = genesis) -/
def floorAt (cps : List Cp) (h : Nat) : Nat := (findPrevCp cps (h + 1)).height

/-- the batch contains a header at a checkpoint height that is not the checkpoint -/
def cpMismatch (c : Cfg) (hs : List Nat) : Bool :=
  hs.any (fun h => c.cps.any (fun cp => c.tbl.height h == cp.height && h != cp.id))

def isPrefix : List Nat → List Nat → Bool
  | [], _ => true
  | _ :: _, [] => false
  | a :: as, b :: bs => a == b && isPrefix as bs

/-- a checkpoint-failure rollback: the batch ran into a wrong header at a checkpoint
height and the chain was cut back, keeping every checkpoint it had passed. -/
def excusedRollback (c : Cfg) (hs : List Nat) (b a : List Nat) : Bool :=
  cpMismatch c hs && isPrefix a b &&
  c.cps.all (fun cp => !(decide (cp.height < b.length)) || decide (cp.height < a.length))

def lbOf (d : Dump) (p : Nat) : Nat := ((d.lb.find? (·.1 == p)).map (·.2)).getD 0

/-- `current` as the property means it, from the observation alone -/
def syncedObs (c : Cfg) (d : Dump) : Bool :=
  let th := tipHeight d.byh
  (match c.cps.getLast? with | some l => decide (l.height < th) | none => true) &&
  (d.sync == 0 || !(decide (th < lbOf d d.sync))) && c.tbl.fresh (tipId d.byh)

/-- headers up to and including the first one at the next checkpoint's height -/
def cutAtCp (c : Cfg) (cpH : Option Nat) : List Nat → List Nat
  | [] => []
  | h :: rest => if some (c.tbl.height h) == cpH then [h] else h :: cutAtCp c cpH rest

/-- shape `reorg-truncated-at-checkpoint` (finding F16): the offered branch WAS strictly heavier
than what it displaced, but the loop stopped at the next checkpoint (`break`) and only the part
up to it was stored.  `b`/`a`: stored chain before/after the event, `hs`: the message. -/
def truncatedShape (c : Cfg) (hs b a : List Nat) : Bool :=
  let k := commonLen b a
  let removed := b.drop k
  let added := a.drop k
  let hs' := hs.dropWhile (fun h => b.contains h)
  added != [] && isPrefix added hs' && decide (added.length < hs'.length) &&
    decide (sumWork c.tbl hs' > sumWork c.tbl removed) &&
    c.cps.any (fun cp => cp.height + 1 == a.length && tipId a == cp.id)

def c02Store (c : Cfg) (ev : Ev) (b a : Dump) : List Fail :=
  let hs := match ev with | .headers _ hs => hs | _ => []
  let k := commonLen b.byh a.byh
  let removed := b.byh.drop k
  let added := a.byh.drop k
  let excused := excusedRollback c hs b.byh a.byh
  let truncated := truncatedShape c hs b.byh a.byh
  let lighterShape := if truncated then "reorg-truncated-at-checkpoint" else "reorg-not-heavier"
  let decreasedShape := if truncated then "reorg-truncated-at-checkpoint" else "work-decreased"
  (if removed != [] && !excused then
    (if decide (k - 1 < floorAt c.cps (tipHeight b.byh)) then
      [("reorg-below-checkpoint", s!"headers from height {k} replaced although the chain had passed the checkpoint at {floorAt c.cps (tipHeight b.byh)}")] else []) ++
    (if !(decide (sumWork c.tbl added > sumWork c.tbl removed)) then
      [(lighterShape, s!"displaced work {sumWork c.tbl removed}, new work {sumWork c.tbl added}")] else []) ++
    (if !added.all c.tbl.valid then [("reorg-invalid", "the replacing branch contains an invalid header")] else [])
   else []) ++
  (if decide (sumWork c.tbl a.byh < sumWork c.tbl b.byh) && !excused then
    [(decreasedShape, s!"total work {sumWork c.tbl b.byh} -> {sumWork c.tbl a.byh}")] else [])

/-- what the property requires of the store after a `headers` event, given the store before -/
inductive Expect where
  | unchanged (why : String)
  | exactly (l : List Nat) (why : String)
  | free

def expectAfter (c : Cfg) (p : Nat) (hs : List Nat) (b : Dump) : Expect :=
  if hs = [] then .unchanged "empty batch"
  else if !linked c.tbl hs then .unchanged "batch not linked internally"
  else
    let hs' := hs.dropWhile (fun h => b.byh.contains h)
    let listen := b.sync == p || syncedObs c b
    let th := tipHeight b.byh
    let ncpH := (findNextCp c.cps th).map (·.height)
    match hs' with
    | [] => .unchanged "every header already stored"
    | h :: _ =>
      match (c.tbl.parent h).bind (idxOf b.byh) with
      | none => .unchanged "batch connects to nothing stored"
      | some fp =>
        let cut := cutAtCp c ncpH hs'
        if cpMismatch c cut then .free
        else if fp = th then
          if !cut.all c.tbl.valid then .unchanged "batch contains an invalid header"
          else if hs' == hs || listen then .exactly (b.byh ++ cut) "fully valid batch extending the tip"
          else .free
        else
          let displaced := b.byh.drop (fp + 1)
          if decide (fp < floorAt c.cps th) then .unchanged "branch forks below the newest checkpoint"
          else if !hs'.all c.tbl.valid then .unchanged "branch contains an invalid header"
          else if !(decide (sumWork c.tbl hs' > sumWork c.tbl displaced)) then .unchanged "branch is not strictly heavier"
          else if listen then .exactly (b.byh.take (fp + 1) ++ cut) "strictly heavier valid branch from a peer we listen to"
          else .free

/-- replaced means gone: a header this event removed from the accepted chain is not reported by
hash any more (`FetchHeader` / `HeightFromHash` resolve exactly the accepted chain). -/
def c02Displaced (b a : Dump) : List Fail :=
  let k := commonLen b.byh a.byh
  let still := (b.byh.drop k).filter (fun id => a.bhash.any (·.id == id))
  if still != [] then
    [("displaced-header-still-resolves", s!"headers {still} were replaced (stored chain {b.byh} -> {a.byh}) yet a lookup by their hash still succeeds")]
  else []

def c02 (c : Cfg) (ev : Ev) (b a : Dump) : List Fail :=
  if !storeGood c b then [] else
  c02Store c ev b a ++ c02Displaced b a ++
  (match ev with
   | .headers p hs =>
     match expectAfter c p hs b with
     | .unchanged why => if a.byh != b.byh then [("changed-by-unwanted-batch", why ++ ", yet the stored chain changed")] else []
     | .exactly l why => if a.byh != l then [("valid-batch-not-adopted", why ++ s!" must be stored in full: expected {l}")] else []
     | .free => []
   | .importReset blocks _ =>
     -- an import (validated by the importer) appends exactly the imported headers
     if a.byh != b.byh && a.byh != b.byh ++ blocks then [("changed-without-headers", "an import + reset changed the stored chain otherwise than by appending the imported headers")] else []
   | .headersFailWrite _ hs =>
     -- the batch write failed: nothing of the batch may be stored (a checkpoint-failure rollback aside)
     if a.byh != b.byh && !excusedRollback c hs b.byh a.byh then [("stored-although-write-failed", "the stored chain changed although the batch write failed")] else []
   | _ => if a.byh != b.byh then [("changed-without-headers", "the stored chain changed on an event that carries no headers")] else [])

/-! ### C19 -/

/-- Follow the disconnected events on the block chain as it was before the event: each
must remove the then-current tip and carry its height and the header below it.  A header
of the batch that was written and rolled back again within the same event (a heavier
branch that then fails a checkpoint) is announced too: it sits on the current tip. -/
def discReplay (t : Tbl) (hs : List Nat) : List Nat → List Ntfn → Option (List Nat)
  | chain, [] => some chain
  | chain, .disc id h nt :: rest =>
    if chain.getLast? == some id && chain.length == h + 1 && chain.dropLast.getLast? == some nt then
      discReplay t hs chain.dropLast rest
    else if hs.contains id && t.parent id == some nt && chain.getLast? == some nt && chain.length == h then
      discReplay t hs chain rest
    else none
  | _, .conn .. :: _ => none

def isConn : Ntfn → Bool
  | .conn .. => true
  | _ => false

def expectedConn (byh : List Nat) (from_ to : Nat) : List (Nat × Nat) :=
  ((withHeights 0 byh).drop (from_ + 1)).take (to - from_) |>.map (fun n => (n.id, n.height))

/-- per-event clauses: disconnected = one per removed header, highest first, with
header, height and new tip; connected = exactly the blocks covered by a
filter-header write, ascending, each emitted after the store write. -/
def c19Event (t : Tbl) (ev : Ev) (b a : Dump) : List Fail :=
  let hs := match ev with | .headers _ hs => hs | _ => []
  let k := commonLen b.byh a.byh
  let discs := a.ntf.filter (fun n => !isConn n)
  let conns := a.ntf.filter isConn
  (if discReplay t hs b.byh discs != some (b.byh.take k) then
    [("disconnected-mismatch", s!"removed headers from height {k} of {b.byh}, disconnected events {repr discs}")] else []) ++
  (match ev, b.fst, a.fst with
   | .cfWrite .., some bf, some af =>
     let got := conns.map (fun n => match n with | .conn i h _ => (i, h) | _ => (0, 0))
     (if got != expectedConn a.byh bf af then
       [("connected-mismatch", s!"filter tip {bf} -> {af}, connected events {repr conns}")] else []) ++
     (if conns.any (fun n => match n with | .conn _ h f => decide (f < h) | _ => false) then
       [("connected-before-commit", "a block was announced before its filter header was stored")] else [])
   | _, _, _ => if conns != [] then [("connected-without-write", "connected events without a filter-header write")] else [])

/-- the backlog offered for a non-zero height is exactly the committed blocks above it -/
def c19Backlog (h : Nat) (a : Dump) : List Fail :=
  match a.fst with
  | none => []
  | some f =>
    let stale := a.ftip.height != f
    let shape := if stale then "stale-filter-tip-after-rollback" else "backlog-mismatch"
    if a.res != "ok" then
      if h != 0 && decide (h < f) then [(shape, s!"backlog from {h} refused although blocks up to {f} are committed")] else []
    else
      (if h != 0 && a.bl.map (fun n => (n.id, n.height)) != expectedConn a.byh h f then
        [(shape, s!"backlog from {h}: got {repr a.bl}, committed blocks above are {expectedConn a.byh h f} (filter store tip {f}, in-memory filter tip {a.ftip.height})")]
       else []) ++
      (if a.best != f && (h = 0 || decide (h ≤ f)) then
        [(shape, s!"best height reported {a.best}, filter store tip {f}")] else [])

/-- what a subscriber's view becomes: a connected event for a block already held is
skipped; a disconnected event pops only if it names the current tip. -/
def replay1 (view : List Nat) : Ntfn → List Nat
  | .conn id h _ => if h < view.length then view else view ++ [id]
  | .disc id h _ => if view.length = h + 1 && view.getLast? = some id then view.dropLast else view

def replay (view : List Nat) (ns : List Ntfn) : List Nat := ns.foldl replay1 view

/-- a connected event is observable only when the in-memory filter tip covers it -/
def c19TipCovers (a : Dump) : List Fail :=
  let bad := (a.ntf.zip a.memAt).any (fun p => match p.1 with
    | .conn _ h _ => decide (p.2 < h)
    | _ => false)
  if bad then [("connected-before-tip", s!"a block was announced while the in-memory filter tip was still below it: events {repr a.ntf}, in-memory tip at each {a.memAt}")] else []

/-- a backlog request must be servable at every moment an event is observable: the in-memory tip
was readable when each event arrived, and a request issued from inside the batch returned -/
def c19BacklogEnabled (a : Dump) : List Fail :=
  (if a.tipread == "HANG" then [("backlog-request-blocks-writer", s!"while an event of the batch was observable the in-memory filter tip could not be read (its mutex was held): a subscriber registering now blocks, and the writer waits for it to take the next event: {repr a.ntf}")] else []) ++
  (if a.pres == "HANG" then [("backlog-request-blocks-writer", "a backlog request issued while the batch was being announced did not return")] else [])

/-- a subscriber that registers right after the `k`-th event of a write with a backlog request for
height `h`: backlog and the remaining live events, replayed on the chain committed at `h`, must
give the committed chain (no committed block skipped). -/
def c19Probe (k h : Nat) (a : Dump) : List Fail :=
  if a.pres == "" || a.pres == "none" then [] else
  match a.fst with
  | none => []
  | some f =>
    if a.pres != "ok" then [("midbatch-backlog-gap", s!"backlog from {h} refused in the middle of a write although blocks up to {f} are committed")] else
    let view0 := replay (a.byh.take (h + 1)) (a.pbl.map (fun n => .conn n.id n.height 0))
    let live := (a.ntf.filter (fun n => match n with | .conn .. => true | _ => false)).drop k
    let view := replay view0 live
    if view != a.byh.take (f + 1) then
      [("midbatch-backlog-gap", s!"subscriber registering after event {k} of the write with height {h}: backlog {repr a.pbl} (best {a.pbest}) then live {repr live} give {view}, committed chain is {a.byh.take (f + 1)}")]
    else []

/-- the property's replay rule, strictly: a connected event is skipped only for a block already
held (same block), otherwise it must extend the held tip; a disconnected event above the held tip
is for a block the subscriber was never told about and is ignored, otherwise it must name the
held tip.  `none` = the stream cannot be applied. -/
def replayStrict1 (view : List Nat) : Ntfn → Option (List Nat)
  | .conn id h _ =>
    if h < view.length then (if view[h]? == some id then some view else none)
    else if h = view.length then some (view ++ [id]) else none
  | .disc id h _ =>
    if view.length < h + 1 then some view
    else if view.length = h + 1 ∧ view.getLast? = some id then some view.dropLast else none

def replayStrict : List Nat → List Ntfn → Option (List Nat)
  | v, [] => some v
  | v, e :: es => (replayStrict1 v e).bind (fun v' => replayStrict v' es)

/-- a block announced as disconnected is no longer stored: neither at the moment the event is
received nor afterwards (unless the same block was stored again by a later step of the same event) -/
def c19DiscStored (readded : List Nat) (a : Dump) : List Fail :=
  let atRecv := (a.ntf.zip a.storedAt).any (fun p => match p.1 with
    | .disc .. => p.2
    | _ => false)
  let after := a.ntf.any (fun n => match n with
    | .disc id _ _ => a.byh.contains id && !readded.contains id
    | _ => false)
  if atRecv || after then
    [("disconnected-but-still-stored", s!"a block was announced as disconnected while it is (still) in the block header store: events {repr a.ntf}, stored at receive {a.storedAt}, stored chain {a.byh}")]
  else []

/-- the handler is not ahead of its events: when the (slow) sink looked at the block header store
right before taking a disconnected event, the store was as the step that produced that event left
it (tip = the announced new tip), or the handler had not produced it yet (tip = the block itself) -/
def c19HandlerAhead (a : Dump) : List Fail :=
  let bad := (a.ntf.zip a.pre).any (fun p => match p.1, p.2 with
    | .disc id h nt, (true, ph, pid) => !((ph + 1 == h && pid == nt) || (ph == h && pid == id))
    | _, _ => false)
  if bad then [("handler-ahead-of-events", s!"the handler ran ahead of its notifications: events {repr a.ntf}, block store tip seen right before each was taken {repr a.pre}")] else []

/-- a subscriber registering when the sink had taken `seen` notifications, with a backlog request
for height `h` (at or below every fork point): backlog, then the notifications delivered after
the request, applied STRICTLY to the chain it held, must give the committed chain -/
def c19LagProbe (h : Nat) (a : Dump) : List Fail :=
  if a.pres != "ok" then [] else
  match a.fst with
  | none => []
  | some f =>
    let later := a.ntf.drop a.pseen
    match (replayStrict (a.byh.take (h + 1)) (a.pbl.map (fun n => .conn n.id n.height 0))).bind (fun v => replayStrict v later) with
    | none => [("backlog-then-stale-disconnect", s!"subscriber holding the chain up to {h}: backlog {repr a.pbl} and then the notifications delivered after the request {repr later} cannot be applied (an event names a block at a height where the subscriber already holds another one)")]
    | some v =>
      if v != a.byh.take (f + 1) then [("backlog-then-stale-disconnect", s!"subscriber holding the chain up to {h}: backlog and later notifications give {v}, committed chain is {a.byh.take (f + 1)}")] else []

def committed (d : Dump) : List Nat := d.byh.take ((d.fst.getD 0) + 1)

end Neutrino.BM
