/-
The header import's WRITE PHASE as a sequence of store operations
(`Neutrino.Store.Op`), for C08: `appendNewHeaders` in `appendBlockAndFilter`
mode issues, per batch of `WriteBatchSizePerRegion` headers and in this order,
`TargetBlockHeaderStore.WriteHeaders(batch)` then
`TargetFilterHeaderStore.WriteHeaders(batch)` (source facts
`Gen.Import.writeOrder`, `Gen.Import.loopNext`).  Every durable step of the
import is a durable step of one of these operations.  Core Lean only (the
driver links this file).
-/
import Neutrino.Spec.Store
namespace Neutrino.Store

/-- the store calls of the import's write phase: new block ids `nb`, new
filter-header ids `nf`, in batches of `bs` -/
def importOps (bs : Nat) : Nat → List Nat → List Nat → List Op
  | 0, _, _ => []
  | fuel + 1, nb, nf =>
    if nb.isEmpty then []
    else .wb (nb.take bs) :: .wf (nf.take bs) :: importOps bs fuel (nb.drop bs) (nf.drop bs)

/-- the log after a sequence of operations -/
def applySeq (l : Log) : List Op → Log
  | [] => l
  | op :: ops => applySeq (l.apply op) ops

/-- the durable state after a sequence of undisturbed operations -/
def runSeq (d : Durable) : List Op → Durable
  | [] => d
  | op :: ops => runSeq (exec d op .none).1 ops

/-- durable steps of an operation of the import (file write + index transaction) -/
def importOpSteps : Op → Nat
  | .wb ids => if ids.isEmpty then 1 else 2
  | .wf ids => if ids.isEmpty then 0 else 2
  | _ => 0

/-- run the operations with the process killed at global durable step `k`
(inside a file write: after `torn` bytes); `true` = it was killed -/
def runCrash (d : Durable) : List Op → Nat → Nat → Durable × Bool
  | [], _, _ => (d, false)
  | op :: ops, k, torn =>
    let r := exec d op (.crash k torn)
    if r.2 == .crashed then (r.1, true)
    else runCrash r.1 ops (k - importOpSteps op) torn

/-- a consistent durable state holding the given entries -/
def mkDurable (bl fl : List Nat) : Durable :=
  { bf := { ents := bl }, ff := { ents := fl },
    db := { idx := (List.range bl.length).filterMap (fun i => (bl[i]?).map (fun id => (id, i))),
            btip := bl.getLast?, ftip := bl[fl.length - 1]? } }

end Neutrino.Store
