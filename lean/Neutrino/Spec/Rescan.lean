/-
C09 at the level of what the CALLER of a rescan observes: the ordered callbacks, the moments its own
`Update` calls took effect, and the ground-truth block tree.  Nothing of the rescan's state is used.

  walk     the caller tracks "the block I was last told is current" (initially the start block).
           connected(b): `prev b` must be that block, then b becomes current;
           disconnected(b): b must be that block, then `prev b` becomes current.
           (A walk of the tree edge by edge: nothing skipped, nothing repeated.)
  no-miss  the caller's watch set = what it passed in + what it added by `Update` + every outpoint created by
           a transaction it was shown/owed that pays a watched script.  From the first block at/after the
           start time on, every transaction of a connected block that pays a watched script or spends a
           watched outpoint must be in the list delivered with that block.
-/
import Neutrino.Model.Rescan
namespace Neutrino.Rescan

inductive Obs where
  | cb (c : Cb)
  | upd (u : Upd)
deriving DecidableEq, Repr

/-- what the caller knows -/
structure Caller where
  cur      : Nat
  scanning : Bool
  w        : Watch
deriving DecidableEq, Repr

/-- one callback against the caller's current block; `none` = the walk is broken here -/
def walkStep (W : World) (cur : Nat) : Cb → Option Nat
  | .conn _ id _ => if W.prev id == cur then some id else none
  | .disc _ id => if id == cur then some (W.prev id) else none
  | .exit => some cur

def walkFrom (W : World) : Nat → List Cb → Bool
  | _, [] => true
  | cur, c :: cs =>
    match walkStep W cur c with
    | none => false
    | some cur' => walkFrom W cur' cs

/-- all members of `a` occur in `b` -/
def subList (a b : List Nat) : Bool := a.all fun x => b.contains x

/-- transactions owed with block `id` given the caller's watch set, and the watch set afterwards -/
def owed (W : World) (w : Watch) (id : Nat) : List Nat × Watch := scanTxs (W.txs id) w

/-- one observation against the caller's view; result: new view, walk ok, no-miss ok -/
def Caller.step (W : World) (c : Caller) : Obs → Caller × Bool × Bool
  | .upd u => ({ c with w := addWatch c.w u }, true, true)
  | .cb (.conn h id txs) =>
    let wk := walkStep W c.cur (.conn h id txs)
    let sc := c.scanning || W.late id
    let o := if sc then owed W c.w id else ([], c.w)
    ({ cur := wk.getD id, scanning := sc, w := o.2 }, wk.isSome, subList o.1 txs)
  | .cb (.disc h id) =>
    let wk := walkStep W c.cur (.disc h id)
    ({ c with cur := wk.getD (W.prev id) }, wk.isSome, true)
  | .cb .exit => (c, true, true)

/-- the no-miss clause over a whole observation stream -/
def noMissFrom (W : World) : Caller → List Obs → Bool
  | _, [] => true
  | c, o :: os =>
    let r := c.step W o
    r.2.2 && noMissFrom W r.1 os

/-- the walk clause over a whole observation stream -/
def walkObsFrom (W : World) : Caller → List Obs → Bool
  | _, [] => true
  | c, o :: os =>
    let r := c.step W o
    r.2.1 && walkObsFrom W r.1 os

/-- heights reported with the callbacks are the true heights -/
def heightOk (W : World) : Cb → Bool
  | .conn h id _ => h == W.height id
  | .disc h id => h == W.height id
  | .exit => true

/-- observations produced by the model for one event (an update takes effect before its rewind callbacks) -/
def obsOf (s : St) (e : Ev) (cbs : List Cb) : List Obs :=
  match e with
  | .update u => (if s.dead then [] else [Obs.upd u]) ++ cbs.map Obs.cb
  | _ => cbs.map Obs.cb

def runObs (W : World) : St → List Ev → List Obs
  | _, [] => []
  | s, e :: es =>
    let r := step W s e
    obsOf s e r.2 ++ runObs W r.1 es

def callerInit (W : World) (start : Nat) (w : Watch) : Caller :=
  { cur := start, scanning := W.late start, w := w }

/-! ### shape of a walk failure (shared by the trace driver and by `Props/C09`)

Both sides follow the best chain (grow / reorg events) and the block the caller was last told is current, and remember in
which arm the rescan was when that block LEFT the best chain without the rescan having been told (it stays so labelled
until the block is on the best chain again):
  `catchup`  the rescan was in the catch-up arm: nobody will ever tell it                       → shape=reorg-during-catchup
  `unread`   it was in the current arm: the disconnects are queued in its subscription; if it drops into the catch-up
             arm before reading them (block fetch failure, missing filter header) they are lost  → shape=reorg-unread-at-catchup
The label is re-evaluated once per event / trace op, with the arm the rescan was in BEFORE it. -/

inductive Stale where
  | no | catchup | unread
deriving DecidableEq, Repr

/-- is `cur` the block of the best chain at height `curH` -/
def onChainB (chain : List Nat) (cur curH : Nat) : Bool := chain[curH]? == some cur

def staleNext (st : Stale) (onChain armCurrent : Bool) : Stale :=
  if onChain then .no
  else match st with
    | .no => if armCurrent then .unread else .catchup
    | x => x

/-- `shape=` tag of a connected callback for a non-child issued by a catch-up step -/
def Stale.shape : Stale → String
  | .no => "walk"
  | .catchup => "reorg-during-catchup"
  | .unread => "reorg-unread-at-catchup"

/-- `shape=` tag of a walk failure: a disconnected callback that does not name the current block is never one of the
recorded shapes; a connected callback for a non-child is one only when a catch-up step issued it -/
def walkFailShape (st : Stale) (viaStep : Bool) : Cb → String
  | .disc _ _ => "disconnect-not-current"
  | .conn _ _ _ => if viaStep then st.shape else "walk"
  | .exit => "walk"

/-! ### disconnects are reported

The callbacks replayed as a stack must stay a chain, so a block may only leave the caller's view through a disconnected
callback.  In the current arm the rescan reads every `Disconnected` of its subscription; when it reads the one naming the
block the caller was last told is current, the disconnected callback for that block is due in that very step (otherwise
the caller keeps building on a block that has left the chain and the later disconnects, naming its ancestors, are dropped
as "not current"). -/

def isDiscOf (b : Nat) : Cb → Bool
  | .disc _ id => id == b
  | _ => false

/-- `cur`: the block the caller was last told is current; `b`: the block named by the `Disconnected` notification the
rescan has just consumed in the current arm; `cbs`: the callbacks it delivered while handling it -/
def discReported (cur b : Nat) (cbs : List Cb) : Bool := b != cur || cbs.any (isDiscOf b)

end Neutrino.Rescan
