/-
Specification for C10: the fate of an outpoint as seen from a start height, and the decidable
observation-level oracle used by the driver.  Core Lean only.
-/
import Neutrino.Model.Utxo
namespace Neutrino.Utxo

/-- earliest spend of `op` in the `n` blocks starting at height `a`: (height, spending tx, input index) -/
def firstSpendFrom (c : Chain) (op : Outpoint) : Nat → Nat → Option (Nat × Nat × Nat)
  | _, 0 => none
  | a, n + 1 =>
    match spendIn (blockAt c a) op with
    | some (t, i) => some (a, t, i)
    | none => firstSpendFrom c op (a + 1) n

/-- the fate of the request's outpoint in the chain scanned up to and including height `upto` -/
def fate (c : Chain) (upto : Nat) (q : Req) : Report :=
  match firstSpendFrom c q.op q.birth (upto + 1 - q.birth) with
  | some (h, t, i) => .spent t i h
  | none => initialAt c q.birth q.op

/-- The answer is the fate, except that an unspent answer may carry the output as located in another block of
the chain (this happens when a duplicate request for the same outpoint with a different start height shares
the batch; `answerExact` excludes it). -/
def answerOk (c : Chain) (upto : Nat) (q : Req) (rep : Report) : Prop :=
  match firstSpendFrom c q.op q.birth (upto + 1 - q.birth) with
  | some (h, t, i) => rep = .spent t i h
  | none => rep = initialAt c q.birth q.op ∨
            (rep ≠ .empty ∧ ∃ b, b < c.length ∧ rep = initialAt c b q.op)

instance (c : Chain) (upto : Nat) (q : Req) (rep : Report) : Decidable (answerOk c upto q rep) := by
  unfold answerOk
  split <;> infer_instance

def answerExact (c : Chain) (upto : Nat) (q : Req) (rep : Report) : Prop := rep = fate c upto q

instance (c : Chain) (upto : Nat) (q : Req) (rep : Report) : Decidable (answerExact c upto q rep) := by
  unfold answerExact; infer_instance

/-- a delivery is acceptable: an error (the scan could not complete / shutdown) or the fate -/
def delivOk (c : Chain) (d : Deliv) : Prop :=
  match d.res with
  | .err _ => True
  | .ok rep => answerOk c d.upto d.req rep

instance (c : Chain) (d : Deliv) : Decidable (delivOk c d) := by
  unfold delivOk; split <;> infer_instance

def delivExact (c : Chain) (d : Deliv) : Prop :=
  match d.res with
  | .err _ => True
  | .ok rep => answerExact c d.upto d.req rep

instance (c : Chain) (d : Deliv) : Decidable (delivExact c d) := by
  unfold delivExact; split <;> infer_instance

/-- the filter oracle never says "no match" for a block that spends a watched outpoint -/
def FilterSound (w : World) : Prop :=
  ∀ k h watch op, op ∈ watch → spendIn (blockAt w.chain h) op ≠ none → w.fm k h watch ≠ some false

/-- duplicate requests for one outpoint all name the same start height -/
def SameBirth (rs : List Req) : Prop :=
  ∀ a ∈ rs, ∀ b ∈ rs, a.op = b.op → a.birth = b.birth

/-! Observation-level oracle (driver): what one caller saw. -/

inductive Obs
  | res (r : Res)
  | hang
deriving DecidableEq, Repr

/-- `tips` = every height `BestSnapshot` reported in the case.  A report is accepted if it is the fate for the
chain scanned up to one of them. -/
def obsStrict (c : Chain) (tips : List Nat) (q : Req) : Obs → Bool
  | .hang => false
  | .res (.err _) => true
  | .res (.ok rep) => tips.any (fun t => decide (answerExact c t q rep))

def obsLoose (c : Chain) (tips : List Nat) (q : Req) : Obs → Bool
  | .hang => false
  | .res (.err _) => true
  | .res (.ok rep) => tips.any (fun t => decide (answerOk c t q rep))

end Neutrino.Utxo
