/-
Abstract specification of the ban store and the observation-level oracle of C13.

* `NetId`: what "one IP network" means in the property, independently of the
  on-disk key: the address in its 16-byte form (the code normalises the other
  way, to the 4-byte form) and the mask.
* `Spec`: `NetId → Option (expiryMs, reason)`; `Spec.step g` stores the expiry
  with granularity `g` ms.  `g = 1` is the property as stated, `g = 1000` is what
  the code does (refinement theorem `C13_refines`).
* `Oracle` / `statusOk`: the FULL statement of C13's first sentence evaluated at
  millisecond resolution on observations only: a `Status` strictly before
  `banTime + duration` of the last ban that was not lifted reports banned with the
  recorded reason; at or after it, or after an unban, or when never banned,
  reports not banned.  Every spelling of an address denotes one `NetId`, reopen
  is invisible.  Each observed call carries a window `[t0, t1]` of wall-clock
  readings around it; the oracle only demands what holds for every instant in
  the window.
-/
import Neutrino.Model.Ban
namespace Neutrino.Ban

structure NetId where
  ip16 : Bytes
  mask : Bytes
deriving DecidableEq, Repr

def netId (ip mask : Bytes) : Option NetId :=
  match to16 ip with
  | some a => some ⟨a, mask⟩
  | none => none

def idOf (tg : Target) : Option NetId :=
  match resolve tg with
  | none => none
  | some (ip, m) => netId ip m

abbrev Spec := NetId → Option (Int × Nat)

def Spec.empty : Spec := fun _ => none

def Spec.set (sp : Spec) (id : NetId) (v : Option (Int × Nat)) : Spec :=
  fun x => if x = id then v else sp x

/-- One call on the abstract map; the expiry is kept in ms, rounded down to a
multiple of `g`. -/
def Spec.step (g : Int) (sp : Spec) (now : Int) : Op → Spec × Out
  | .ban tg reason dur =>
    match resolve tg with
    | none => (sp, .errParse)
    | some (ip, m) =>
      match netId ip m with
      | none => (sp, .errEncode)
      | some id => (sp.set id (some (((now + dur) / g) * g, reason)), .ok)
  | .status tg =>
    match resolve tg with
    | none => (sp, .errParse)
    | some (ip, m) =>
      match netId ip m with
      | none => (sp, .errEncode)
      | some id =>
        match sp id with
        | none => (sp, .notBanned)
        | some (e, r) =>
          if now ≥ e then (sp.set id none, .notBanned) else (sp, .banned r e)
  | .unban tg =>
    match resolve tg with
    | none => (sp, .errParse)
    | some (ip, m) =>
      match netId ip m with
      | none => (sp, .errEncode)
      | some id => (sp.set id none, .ok)
  | .reopen => (sp, .ok)

def Spec.run (g : Int) (sp : Spec) : Hist → Spec
  | [] => sp
  | (t, o) :: os => Spec.run g (Spec.step g sp t o).1 os

def Spec.outs (g : Int) (sp : Spec) : Hist → List Out
  | [] => []
  | (t, o) :: os => (Spec.step g sp t o).2 :: Spec.outs g (Spec.step g sp t o).1 os

/-! ### Observation-level oracle -/

/-- The last ban of an address that has not been lifted: `banTime + duration`
lies in `[lo, hi]` (the ban call's clock window shifted by the duration). -/
structure BanRec where
  lo : Int
  hi : Int
  reason : Nat
deriving DecidableEq, Repr

abbrev Oracle := NetId → Option BanRec

def Oracle.empty : Oracle := fun _ => none

def Oracle.set (o : Oracle) (id : NetId) (v : Option BanRec) : Oracle :=
  fun x => if x = id then v else o x

/-- Bookkeeping of the history: a ban of a supported address records it, an
unban forgets it, nothing else (status, reopen, calls on unsupported addresses)
matters. -/
def Oracle.note (o : Oracle) (t0 t1 : Int) : Op → Oracle
  | .ban tg r d =>
    match idOf tg with
    | some id => o.set id (some ⟨t0 + d, t1 + d, r⟩)
    | none => o
  | .unban tg =>
    match idOf tg with
    | some id => o.set id none
    | none => o
  | _ => o

/-- The oracle state after a history with exact call times. -/
def lastBan (o : Oracle) : Hist → Oracle
  | [] => o
  | (t, op) :: rest => lastBan (o.note t t op) rest

def isBannedWith (r : Nat) : Out → Bool
  | .banned r' _ => r' == r
  | _ => false

/-- C13 on one `Status` observation made somewhere in `[t0, t1]`. -/
def statusOk (rec : Option BanRec) (t0 t1 : Int) (out : Out) : Bool :=
  match rec with
  | none => out == .notBanned
  | some b =>
    if t1 < b.lo then isBannedWith b.reason out
    else if t0 ≥ b.hi then out == .notBanned
    else out == .notBanned || isBannedWith b.reason out

/-- The shape of the recorded finding F15: the query certainly precedes
`banTime + duration` but is not before the whole second below it. -/
def truncated (rec : Option BanRec) (t1 : Int) : Bool :=
  match rec with
  | some b => decide ((b.lo / 1000) * 1000 ≤ t1 ∧ t1 < b.lo)
  | none => false

/-- `ban` / `unban` of a supported address succeed; of an unsupported one fail. -/
def callOk (tg : Target) (out : Out) : Bool :=
  match idOf tg with
  | some _ => out == .ok
  | none => out == .errParse || out == .errEncode

/-! ### ChainService level (IsBanned / BanPeer / UnbanPeer), within the ban duration

All the client's bans last `BanDuration` (24 h); over a history much shorter than
that the property reads: `IsBanned(text)` is true exactly when the network
`text` denotes (whatever the port or spelling) has been banned and not unbanned
since — the answer is a function of that set alone, not of which questions were
asked before. -/

abbrev BanSet := List NetId

def BanSet.ban (b : BanSet) (id : NetId) : BanSet := if b.contains id then b else id :: b

def BanSet.unban (b : BanSet) (id : NetId) : BanSet := b.filter (fun x => !(x == id))

/-- what `IsBanned` must answer for an address: membership; an address that
does not parse is never banned -/
def isBannedOk (b : BanSet) (tg : Target) (ans : Bool) : Bool :=
  match idOf tg with
  | some id => ans == b.contains id
  | none => ans == false

/-- times never decrease, starting from `T` -/
def monoFrom (T : Int) : Hist → Prop
  | [] => True
  | (t, _) :: rest => T ≤ t ∧ monoFrom t rest

def endTime (T : Int) : Hist → Int
  | [] => T
  | (t, _) :: rest => endTime t rest

end Neutrino.Ban
