/-
Observation-level oracle for C12.  It is evaluated on what the REAL dispatcher
was seen to do (verdicts read from the batches' result channels, jobs handed to
workers, results reported by workers, the ranking's `Order` output) and does not
look at the model.  Each clause of the property is one check; a failed check
returns a shape tag and a message.

  double-verdict / missing-verdict   one verdict per batch, exactly one after shutdown
  nil-without-all-ok                 success only if every request was answered
  reissue-index / reissue-order      an unanswered request of a live batch is handed out
                                     again under its original priority (requests are
                                     identified by (batch, position); priority order is
                                     the lexicographic order on those)
  rank-order / rank-pick             the job goes to a free worker of minimal score
  worse-ranked-peer-preferred        … also when that worker is free by the dispatcher's bookkeeping but momentarily
                                     not receiving on its job channel while a worse-ranked one is: the dispatcher
                                     waits for the best-ranked free worker (or its exit)
  peer-record-lost                   a connected peer's score changes only through results that peer itself reports
                                     (however many other peers connect and go in between); `Order` on the ranking
                                     alone lists a peer whose own history gives the better score first
  score-move                         a result of a live batch moves the reporter's score as specified (OK −1, failure +1,
                                     disconnect → default, cancellation none; clamped)
  hard-timeout-ignored               a result processed after the hard deadline ends the batch
  idle-timeout-despite-progress      an idle timeout only a full ProgressTimeout after the last successful result
  request-never-issued-with-peer-available
                                     at rest, no request of a live batch waits while a connected peer is free
  request-answered-twice             a request is answered successfully at most once: the worker of a connection that
                                     was overtaken by a reconnect under its address still delivers the one result it
                                     owes (`lateResult`); a request that has already been reported finished OK must
                                     not be finished a second time (each such report is counted towards the batch)
-/
import Neutrino.Model.Dispatcher
namespace Neutrino.Disp

abbrev Req := Nat × Nat

inductive Obs where
  | submitted (b n : Nat)
  | verdict (b : Nat) (v : Verdict)
  | order (l : List (Nat × Nat × Bool))       -- address, score, still running
  | exited (p : Nat)
  | dispatched (p idx : Nat) (r : Req)
  | result (p idx : Nat) (e : Err)
  | lateResult (p idx : Nat) (e : Err)       -- reported by the worker of an EARLIER connection under address p (a newer
                                              -- connection has taken the address over while it held the job)
  | quit
  | final (counts : List (Nat × Nat))
  | hardPassed (b : Nat)                      -- the hard deadline the harness scripted for batch b has passed
  | resultDone                                -- the dispatcher has finished processing the last reported result
  | connected (p : Nat)                       -- a peer with address p was handed to the work manager
  | quiescent                                 -- every earlier event has been fully processed, every offered job taken
  | progBatch (b : Nat)                       -- batch b was submitted with a ProgressTimeout
  | wake (b g : Nat)                          -- the idle timer armed for b's g-th idle window fired (window 1 starts at
                                              -- submission, window k+1 at the k-th successful result of the batch)
  | scoreAfter (p sc : Nat)                   -- the ranking's score of p once the result p has just reported is processed
  | notReceiving (ps : List Nat)              -- during the offer that follows, these free workers are not (yet) receiving
                                              -- on their job channels; every other free worker is parked at its channel
deriving Repr

structure OSt where
  subs      : List (Nat × Nat) := []
  verd      : List (Nat × Verdict) := []
  okReq     : List Req := []
  idxOf     : List (Req × Nat) := []
  held      : List (Nat × Nat × Req) := []
  oldHeld   : List (Nat × Nat × Req) := []   -- jobs held by workers whose address was taken over by a newer connection
  queued    : List Req := []
  lastOrder : List (Nat × Nat × Bool) := []
  quit      : Bool := false
  hardDue   : List Nat := []          -- batches whose hard deadline has passed
  lastRes   : Option Nat := none      -- batch of the job whose result was reported last
  conn      : List Nat := []          -- addresses of the peers that are connected (their worker has not exited)
  prog      : List Nat := []          -- batches with a ProgressTimeout
  lastWake  : Option (Nat × Nat) := none
  notRecv   : List Nat := []          -- free workers that are momentarily not receiving during the current offer
  score     : List (Nat × Nat) := [] -- connected peers: the score the ranking last showed for them
  expect    : Option (Nat × Nat) := none   -- (p, score the result p has just reported must leave p with)
deriving Repr

def reqLt (a b : Req) : Bool := a.1 < b.1 || (a.1 == b.1 && a.2 < b.2)

def hasVerdict (o : OSt) (b : Nat) : Bool := o.verd.any (fun x => x.1 == b)

def setSeen (l : List (Nat × Nat)) (p v : Nat) : List (Nat × Nat) := (p, v) :: l.filter (fun x => !(x.1 == p))

/-- how a processed result of a live batch moves the reporter's score (peer_rank.go Reward / Punish / ResetRanking) -/
def movedScore (v : Nat) : Err → Nat
  | .ok => if v = Gen.Dispatcher.bestScore then v else v - 1
  | .canceled => v
  | .disconnected => Gen.Dispatcher.defaultScore
  | _ => if v = Gen.Dispatcher.worstScore then v else v + 1

def rangeReqs (b : Nat) : Nat → List Req
  | 0 => []
  | n + 1 => rangeReqs b n ++ [(b, n)]

def nondecreasing : List Nat → Bool
  | [] => true
  | [_] => true
  | a :: b :: rest => decide (a ≤ b) && nondecreasing (b :: rest)

abbrev Fail := String × String

def obsStep (o : OSt) : Obs → OSt × List Fail
  | .submitted b n =>
    ({ o with subs := o.subs ++ [(b, n)],
              queued := if o.quit then o.queued else o.queued ++ rangeReqs b n }, [])
  | .progBatch b => ({ o with prog := b :: o.prog }, [])
  | .wake b g => ({ o with lastWake := some (b, g) }, [])
  | .notReceiving ps => ({ o with notRecv := ps }, [])
  | .verdict b v =>
    -- "a batch fails with an idle timeout only if no request finished within the window": in the driver's clock
    -- the timer of window g fires a full ProgressTimeout after window g began and the current window's own timer
    -- never fires by itself, so a timeout verdict caused by the wake of an EARLIER window comes less than a
    -- ProgressTimeout after the batch's last successful result
    let f0 : List Fail :=
      match o.lastWake with
      | some (wb, g) =>
        let cur := if o.prog.contains b then 1 + (o.okReq.filter (fun r => r.1 == b)).length else 0
        if wb == b && v == .res .timeout && g != cur then
          [("idle-timeout-despite-progress", s!"batch {b} got an idle timeout from the timer of window {g} although it has made progress since (current window {cur})")]
        else []
      | none => []
    let f1 : List Fail := f0 ++ if hasVerdict o b then
      [("double-verdict", s!"batch {b} received a second verdict")] else []
    let n := ((o.subs.find? (fun x => x.1 == b)).map (·.2)).getD 0
    let f2 : List Fail := if v == .res .ok && !(rangeReqs b n).all (fun r => o.okReq.contains r) then
      [("nil-without-all-ok", s!"batch {b} reported success but not every request had finished OK")] else []
    ({ o with verd := o.verd ++ [(b, v)] }, f1 ++ f2)
  | .order l =>
    let f : List Fail := if nondecreasing (l.map (·.2.1)) then [] else
      [("rank-order", "free workers were not ordered by score")]
    -- "a better record" is something a peer keeps: between two looks at a connected peer's score nothing but that
    -- peer's own results (each followed by its own look, `scoreAfter`) may have changed it
    let lost := l.filterMap (fun (p, sc, live) =>
      match o.score.lookup p with
      | some v => if live && o.conn.contains p && v != sc then some (p, v, sc) else none
      | none => none)
    let f2 : List Fail := match lost with
      | [] => []
      | (p, v, sc) :: _ => [("peer-record-lost", s!"the ranking showed score {v} for connected peer {p} when it last looked and shows {sc} now, although peer {p} reported no result in between")]
    let seen := l.foldl (fun acc (p, sc, live) => if live && o.conn.contains p then setSeen acc p sc else acc) o.score
    ({ o with lastOrder := l, notRecv := [], score := seen }, f ++ f2)
  | .exited p =>
    ({ o with lastOrder := o.lastOrder.map (fun x => if x.1 == p then (x.1, x.2.1, false) else x),
              conn := o.conn.filter (fun x => !(x == p)),
              score := o.score.filter (fun x => !(x.1 == p)),   -- no claim across a disconnect
              held := o.held.filter (fun x => !(x.1 == p)) }, [])
  | .connected p =>
    -- a worker of the address that still holds a job and has not exited keeps it: it is no longer the worker
    -- the address denotes
    ({ o with conn := p :: o.conn.filter (fun x => !(x == p)),
              oldHeld := o.held.filter (fun x => x.1 == p) ++ o.oldHeld,
              held := o.held.filter (fun x => !(x.1 == p)) }, [])
  | .quiescent =>
    let o := { o with lastWake := none }
    -- "unanswered requests are re-issued to an available peer": with the dispatcher at rest, a request of a
    -- live batch is never left waiting while a connected peer holds no job
    if o.quit then (o, []) else
    let free := o.conn.filter (fun p => !(o.held.any (fun x => x.1 == p)))
    let waiting := o.queued.filter (fun q => !hasVerdict o q.1)
    match free, waiting with
    | p :: _, q :: _ =>
      (o, [("request-never-issued-with-peer-available",
            s!"request {q.1}.{q.2} of live batch {q.1} is waiting although connected peer {p} holds no job")])
    | _, _ => (o, [])
  | .dispatched p idx r =>
    let f1 : List Fail :=
      match o.idxOf.find? (fun x => x.1 == r) with
      | some (_, i) => if i == idx then [] else
          [("reissue-index", s!"request {r.1}.{r.2} re-issued with index {idx}, originally {i}")]
      | none => if o.idxOf.any (fun x => x.2 == idx) then
          [("reissue-index", s!"index {idx} used for two requests")] else []
    let skipped := o.queued.filter (fun q => reqLt q r && !hasVerdict o q.1)
    let f2 : List Fail := match skipped with
      | [] => []
      | q :: _ => [("reissue-order", s!"request {r.1}.{r.2} handed out while {q.1}.{q.2} of a live batch was waiting")]
    let live := o.lastOrder.filter (fun x => x.2.2)
    let f3 : List Fail :=
      match live.find? (fun x => x.1 == p) with
      | none => [("rank-pick", s!"job given to worker {p} which was not among the free workers")]
      | some (_, sc, _) =>
        -- "preferring peers with a better record": the job goes to a free worker of minimal score among ALL
        -- free workers.  A better-ranked free worker that is momentarily not at its job channel is still the one
        -- the request is due to: the dispatcher waits for it (or for its exit)
        match live.find? (fun x => decide (x.2.1 < sc)) with
        | none => []
        | some (q, sq, _) =>
          if o.notRecv.contains q then
            [("worse-ranked-peer-preferred", s!"job given to worker {p} (score {sc}) because the better-ranked free worker {q} (score {sq}) was momentarily not receiving on its job channel; the dispatcher must wait for the best-ranked free worker or its exit")]
          else
            [("rank-pick", s!"job given to worker {p} (score {sc}) although a better-ranked worker was free")]
    ({ o with idxOf := if o.idxOf.any (fun x => x.1 == r) then o.idxOf else (r, idx) :: o.idxOf,
              queued := o.queued.filter (fun q => !(q == r)),
              held := (p, idx, r) :: o.held.filter (fun x => !(x.1 == p)),
              lastOrder := o.lastOrder.filter (fun x => !(x.1 == p)), notRecv := [] }, f1 ++ f2 ++ f3)
  | .result p idx e =>
    match o.held.find? (fun x => x.1 == p) with
    | none => (o, [("result-unknown", s!"worker {p} reported without holding a job")])
    | some (_, i, r) =>
      let f : List Fail := if i == idx then [] else [("result-unknown", s!"worker {p} reported job {idx}, held {i}")]
      -- a result for a batch that still has no verdict moves the reporter's score as specified; one for a batch
      -- that has ended is discarded and moves nothing
      let exp : Option (Nat × Nat) := (o.score.lookup p).map (fun v => (p, if hasVerdict o r.1 then v else movedScore v e))
      let o1 := { o with held := o.held.filter (fun x => !(x.1 == p)), lastRes := some r.1, expect := exp }
      let f2 : List Fail := if e == .ok && o.okReq.contains r then
        [("request-answered-twice", s!"request {r.1}.{r.2} was reported finished OK by worker {p} although it had already been answered successfully")] else []
      match e with
      | .ok => ({ o1 with okReq := r :: o1.okReq }, f ++ f2)
      | .canceled => (o1, f)
      | _ => ({ o1 with queued := o1.queued ++ [r] }, f)
  | .lateResult p idx e =>
    match o.oldHeld.find? (fun x => x.1 == p && x.2.1 == idx) with
    | none => (o, [("result-unknown", s!"an earlier worker of address {p} reported job {idx} which it did not hold")])
    | some (_, _, r) =>
      let exp : Option (Nat × Nat) := (o.score.lookup p).map (fun v => (p, if hasVerdict o r.1 then v else movedScore v e))
      let o1 := { o with oldHeld := o.oldHeld.filter (fun x => !(x.1 == p && x.2.1 == idx)), lastRes := some r.1, expect := exp }
      let f2 : List Fail := if e == .ok && o.okReq.contains r then
        [("request-answered-twice", s!"request {r.1}.{r.2} was reported finished OK by the overtaken worker of address {p} although it had already been answered successfully (the request was issued again while that worker still held it)")] else []
      match e with
      | .ok => ({ o1 with okReq := r :: o1.okReq }, f2)
      | .canceled => (o1, [])
      | _ => ({ o1 with queued := o1.queued ++ [r] }, [])
  | .scoreAfter p sc =>
    let f : List Fail := match o.expect with
      | some (q, v) => if q == p && v != sc then
          [("score-move", s!"after the result it reported, peer {p}'s score is {sc}; its record so far requires {v}")] else []
      | none => []
    ({ o with expect := none, score := if o.conn.contains p then setSeen o.score p sc else o.score }, f)
  | .quit => ({ o with quit := true }, [])
  | .hardPassed b => ({ o with hardDue := b :: o.hardDue }, [])
  | .resultDone =>
    -- "otherwise a single error (… hard timeout …)": the hard deadline is examined whenever a result of the
    -- batch is processed, whatever the result was
    match o.lastRes with
    | none => (o, [])
    | some b =>
      let f : List Fail := if o.hardDue.contains b && !hasVerdict o b then
        [("hard-timeout-ignored", s!"a result for batch {b} was processed after its hard deadline had passed, yet the batch has no verdict")]
        else []
      ({ o with lastRes := none }, f)
  | .final counts =>
    let f := o.subs.filterMap (fun (b, _) =>
      let c := ((counts.find? (fun x => x.1 == b)).map (·.2)).getD 0
      if c ≥ 2 then some ("double-verdict", s!"batch {b} received {c} verdicts")
      else if c == 0 && o.quit then some ("missing-verdict", s!"batch {b} never received a verdict although the dispatcher was stopped")
      else none)
    (o, f)

def obsRun (o : OSt) : List Obs → List Fail
  | [] => []
  | x :: xs => (obsStep o x).2 ++ obsRun (obsStep o x).1 xs

/-- what the model would let an observer see for one step -/
def obsOfOuts (s : State) : List Out → List Obs
  | [] => []
  | .verdict b v :: r => .verdict b v :: obsOfOuts s r
  | _ :: r => obsOfOuts s r

/-! ### the ranking driven directly (`query.NewPeerRanking`)

`AddPeer` / `Reward` / `Punish` / `ResetRanking` in any order on a handful of long-lived addresses and on hundreds of
short-lived ones, then `Order` on a few of them.  The oracle does not look at the model's score table: the score a peer
is due is computed from the calls that name that peer alone (`ownScore`), and `Order` must list its argument by it. -/

/-- one call naming the peer, on its own entry (`none`: the ranking does not know the peer) -/
def ownStep (sc : Option Nat) : RankOp → Option Nat
  | .add _ => some (sc.getD Gen.Dispatcher.defaultScore)
  | .reward _ => sc.map (fun v => if v = Gen.Dispatcher.bestScore then v else v - 1)
  | .punish _ => sc.map (fun v => if v = Gen.Dispatcher.worstScore then v else v + 1)
  | .reset _ => sc.map (fun _ => Gen.Dispatcher.defaultScore)

def ownEntry (hist : List RankOp) (p : Nat) : Option Nat :=
  (hist.filter (fun o => o.addr == p)).foldl ownStep none

/-- the score peer `p`'s own history gives it; a peer the ranking was never told about counts as default -/
def ownScore (hist : List RankOp) (p : Nat) : Nat := (ownEntry hist p).getD Gen.Dispatcher.defaultScore

inductive RkObs where
  | op (o : RankOp)
  | order (inp out : List Nat)
deriving Repr

def isPerm (a b : List Nat) : Bool := a.length == b.length && a.all (fun x => a.count x == b.count x)

/-- first adjacent pair of `out` that is out of order by the peers' own histories -/
def firstInversion (hist : List RankOp) : List Nat → Option (Nat × Nat)
  | [] => none
  | [_] => none
  | a :: b :: rest => if ownScore hist b < ownScore hist a then some (a, b) else firstInversion hist (b :: rest)

def rankObsStep (hist : List RankOp) : RkObs → List RankOp × List Fail
  | .op o => (hist ++ [o], [])
  | .order inp out =>
    let f1 : List Fail := if isPerm inp out then [] else
      [("rank-order", s!"Order returned {out} for {inp}: not a rearrangement of its argument")]
    let f2 : List Fail := match firstInversion hist out with
      | none => []
      | some (a, b) =>
        [("peer-record-lost", s!"Order lists peer {a} before peer {b} although their own histories of rewards and punishments give {a} score {ownScore hist a} and {b} score {ownScore hist b}: a record was lost or not kept")]
    (hist, f1 ++ f2)

/-! ### runs with the real worker (`query/worker.go`) over scripted peers

Not scheduled deterministically, so there is no model comparison; the clause
"a finished, cancelled or timed-out batch never blocks later batches or
shutdown" is evaluated on what was observed: the verdict (or `HANG` when none
arrived within the deadline the batch's options imply) of the first batch and
of every later batch, submitted while every peer answers promptly; whether
`Stop` returned; how many verdicts each result channel delivered in total. -/

inductive RObs where
  | batch (i : Nat) (kind : String) (verdict : Option Verdict) (fin n : Nat) (gap pt : Nat)
      -- `none` = no verdict before the deadline; gap = µs between the batch's last successful response (or its
      -- submission) and the verdict; pt = its ProgressTimeout in µs (0: none, or a short hard Timeout is also set)
  | stop (returned : Bool)
  | pick (what : String) (okA okB : Nat) (to : String)
      -- a one-request batch was handed in while peers A and B were both free by the dispatcher's bookkeeping (neither
      -- held a job: every earlier batch had its verdict); A had answered okA requests, B okB, neither had failed
      -- any; `to` = which peer's request counter moved
  | peerNotTaken
  | final (counts : List (Nat × Nat))
deriving Repr

def realStep : RObs → List Fail
  | .batch i kind none _ _ _ _ =>
    if i ≥ 2 then [("later-batch-starved", s!"batch {i}, submitted after an earlier batch had ended and with every peer answering, got no verdict before its deadline")]
    else if kind == "reconnect" then
      [("request-never-issued-with-peer-available", s!"batch {i} got no verdict: its requests were never served although peers had (re)connected")]
    else if kind == "failonly" || kind == "hard" then
      [("hard-timeout-ignored", s!"batch {i} ({kind}) got no verdict although results kept arriving after its hard deadline")]
    else [("batch-never-ended", s!"batch {i} got no verdict although its timeout / cancellation had passed")]
  | .batch i _ (some v) fin n gap pt =>
    (if v == .res .ok && fin < n then
      [("nil-without-all-ok", s!"batch {i} reported success with {fin} of {n} requests answered")] else []) ++
    (if v == .res .timeout && pt > 0 && gap < pt then
      [("idle-timeout-despite-progress", s!"batch {i} got an idle timeout {gap} µs after its last successful response, ProgressTimeout is {pt} µs")] else [])
  | .pick what okA okB to =>
    -- "preferring peers with a better record": more answered requests and no failure is the better record
    -- (C12_score_moves); a request that is due while both are free goes to that peer, also when its worker has
    -- only just delivered a result and is not back at its job channel yet
    if okA > okB && to != "A" then
      [("worse-ranked-peer-preferred", s!"({what}) the request went to peer {to} although peer A, free as well, has the better record ({okA} answered against {okB}); the dispatcher must wait for the best-ranked free worker or its exit")]
    else []
  | .stop false => [("shutdown-blocked", "Stop did not return")]
  | .stop true => []
  | .peerNotTaken => [("hang", "the dispatcher did not take a newly connected peer")]
  | .final counts => counts.filterMap (fun (b, c) =>
      if c ≥ 2 then some ("double-verdict", s!"batch {b} received {c} verdicts")
      else if c == 0 then some ("missing-verdict", s!"batch {b} never received a verdict although the dispatcher was stopped")
      else none)

end Neutrino.Disp
