/-
Checkpoint lists of differing lengths: what `checkCFCheckptSanity` must
conclude, stated on the lists themselves (no accumulator, no iteration order,
no "unset" marker).  Used by the driver as the oracle for the value the real
function returned on the lists and the store the harness observed, and proved
equal to the model's `checkSanity` for every family of lists and every store
(`Lemmas/CFSanity.lean`, `Props/C03Sanity.lean`).  Core Lean only.
-/
import Neutrino.Model.CFHeaders
namespace Neutrino.CFHeaders

/-- the values carried at index `i` by the lists that reach index `i` -/
def valsAt (i : Nat) (cp : List (Peer × List Hdr)) : List Hdr := cp.filterMap (fun pc => pc.2[i]?)

def allSame : List Hdr → Bool
  | [] => true
  | v :: vs => vs.all (fun x => x == v)

/-- index `i` shows a disagreement: two lists that both reach it differ there,
or a list that reaches it differs from the filter header the store holds at
that checkpoint's height.  A list that ends before `i` says nothing about `i`. -/
def disagreeAt (interval : Nat) (fstore : List Hdr) (cp : List (Peer × List Hdr)) (i : Nat) : Bool :=
  !allSame (valsAt i cp) ||
  (decide ((i + 1) * interval ≤ fstore.length - 1) &&
   (valsAt i cp).any (fun v => fstore[(i + 1) * interval]? != some v))

/-- length of the LONGEST list -/
def maxLen (cp : List (Peer × List Hdr)) : Nat := cp.foldl (fun m pc => max m pc.2.length) 0

/-- the FIRST index showing a disagreement, looked for over the whole length of
the longest list; `none` = full agreement (the Go `-1`) -/
def sanitySpec (interval : Nat) (fstore : List Hdr) (cp : List (Peer × List Hdr)) : Option Nat :=
  (List.range (maxLen cp)).find? (disagreeAt interval fstore cp)

/-- no list carries the all-zero hash (the "unset" marker of the Go loop) -/
def noZeroCp (cp : List (Peer × List Hdr)) : Bool := cp.all (fun pc => pc.2.all (fun x => x != 0))

/-- two checkpoint lists agree wherever both have an entry -/
def agreeOn (a b : List Hdr) : Bool :=
  (List.range (min a.length b.length)).all (fun i => a[i]? == b[i]?)

end Neutrino.CFHeaders
