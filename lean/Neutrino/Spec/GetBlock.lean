/-
C06 at the level of observations: what one `GetBlock` call returned, what the
handler answered for each delivered response, the ban store and the block cache
after the call — judged against the delivered responses and the ban store /
cache before the call.  Evaluated by the driver on what the IMPLEMENTATION
reports, independently of the model.
-/
import Neutrino.Model.GetBlock
namespace Neutrino.GetBlock

/-- the requested, internally valid block -/
def good (target : Nat) (r : Resp) : Bool :=
  r.isBlock && r.hdr == target && r.sane && r.wit

/-- carries the requested header but fails a check -/
def bannable (target : Nat) (r : Resp) : Bool :=
  r.isBlock && r.hdr == target && (!r.sane || !r.wit)

/-- neither: not a block, or a block with another header -/
def foreign (target : Nat) (r : Resp) : Bool :=
  !r.isBlock || r.hdr != target

inductive ObsResult where
  /-- returned a block; `h m w` are computed by the harness on the returned
  block itself: header hash = requested, merkle root reproduced, witness
  commitment valid -/
  | ret (rid : Nat) (h m w : Bool)
  | err (kind : String)
deriving DecidableEq, Repr

structure Obs where
  result : ObsResult
  prog   : List Progress
  bans   : List Nat          -- sorted, no duplicates
  cache  : List Lru.Entry    -- most recent first
  /-- keys whose cached block has a header hash other than the one it is cached under -/
  cacheOther : List Nat := []
deriving Repr

def delivered (c : Call) (o : Obs) : List Resp := c.resps.take o.prog.length

/-- The clauses of C06 on one call.  Returns the tags of the violated ones. -/
def oracle (c : Call) (bansBefore : List Nat) (cacheBefore : List Lru.Entry) (o : Obs) : List String :=
  let k := keyOf c.target c.base
  let dl := delivered c o
  let inCacheBefore := fun (key vid : Nat) => cacheBefore.any (fun e => e.key == key && e.vid == vid)
  -- identity is the header HASH: what is returned or cached for a hash has that hash
  let c0 := (match o.result with
    | .ret _ h _ _ => if h then [] else ["returned-other-header"]
    | .err _ => []) ++ (if o.cacheOther.isEmpty then [] else ["cached-other-header"])
  let c1 := match o.result with
    | .ret _ h m w => if !h || (m && w) then [] else ["returned-invalid"]
    | .err _ => []
  let c2 := match o.result with
    | .ret rid _ _ _ =>
      if inCacheBefore k rid || dl.any (fun r => good c.target r && r.rid == rid) then [] else ["returned-unverified"]
    | .err _ => []
  let c3 := if dl.any (fun r => bannable c.target r && !o.bans.contains r.peer) then ["bad-sender-not-banned"] else []
  let c4 := if o.bans.any (fun p => !bansBefore.contains p && !dl.any (fun r => bannable c.target r && r.peer == p))
            then ["innocent-banned"] else []
  let c5 := if o.cache.any (fun e => !inCacheBefore e.key e.vid &&
                !(match o.result with
                  | .ret rid _ _ _ => e.key == k && e.vid == rid && dl.any (fun r => good c.target r && r.rid == rid)
                  | .err _ => false))
            then ["cached-unverified"] else []
  let c6 := if (dl.zip o.prog).any (fun (r, p) => p == .finished && !good c.target r) then ["bad-response-accepted"] else []
  -- retry: the dispatcher (ours) hands the scripted responses over until the handler says Finished
  -- (`cont`: even beyond that).  With the header known, nothing cached under the key and a nil verdict,
  -- a valid requested block anywhere in the script must be what the call returns: the first one
  -- (the last one if the dispatcher goes on after Finished) — however many bad peers answered before it.
  let c7 :=
    if c.known && c.verdict == .nil && !cacheBefore.any (fun e => e.key == k) then
      let goods := c.resps.filter (good c.target)
      let expected := if c.cont then goods.getLast? else goods.head?
      match expected with
      | none => []
      | some g =>
        let used := match o.result with
          | .ret rid _ _ _ => rid == g.rid
          | .err _ => false
        if used then []
        else if (c.resps.takeWhile (fun r => !good c.target r)).any (bannable c.target)
        then ["valid-response-after-bad-peer-not-used"] else ["valid-response-not-used"]
    else []
  c0 ++ c1 ++ c2 ++ c3 ++ c4 ++ c5 ++ c6 ++ c7

/-- one of several overlapping callers: its call and what it got back
(`result = .err "nilnil"`: neither a block nor an error) -/
structure Caller where
  call   : Call
  result : ObsResult
  prog   : List Progress      -- the handler's answers in the download made for its inv (if any)
deriving Repr

/-- C06 for overlapping `GetBlock` calls whose downloads are all answered with
the same script and verdict, none of the requested blocks being cached before.
Per caller: the outcome is a valid requested block XOR a (non-nil) error; a
caller of a download that cannot succeed fails; a caller of a download that
must succeed gets the block.  Globally: bans and new cache entries are
justified by some caller's download. -/
def oracleConc (cs : List Caller) (bansBefore : List Nat) (cacheBefore : List Lru.Entry)
    (bansAfter : List Nat) (cacheAfter : List Lru.Entry) (cacheOther : List Nat) : List String :=
  let per := cs.foldl (fun acc c =>
    let o : Obs := { result := c.result, prog := c.prog, bans := bansAfter, cache := cacheAfter, cacheOther := cacheOther }
    let tags := (oracle c.call bansBefore cacheBefore o).filter (fun t => t != "innocent-banned" && t != "cached-unverified")
    let goods := c.call.resps.filter (good c.call.target)
    let mustFail := c.call.verdict != .nil || goods.isEmpty
    let nn := match c.result with
      | .err "nilnil" => ["nil-block-nil-error"]
      | .ret _ _ _ _ => if mustFail then ["caller-of-failed-download-did-not-fail"] else []
      | .err _ => []
    acc ++ tags ++ nn) []
  let dl := fun (c : Caller) => c.call.resps.take c.prog.length
  let c4 := if bansAfter.any (fun p => !bansBefore.contains p &&
      !cs.any (fun c => (dl c).any (fun r => bannable c.call.target r && r.peer == p)))
    then ["innocent-banned"] else []
  let c5 := if cacheAfter.any (fun e => !cacheBefore.any (fun b => b.key == e.key && b.vid == e.vid) &&
      !cs.any (fun c => e.key == keyOf c.call.target c.call.base &&
        (match c.result with
         | .ret rid _ _ _ => rid == e.vid
         | .err _ => false) && c.call.resps.any (fun r => good c.call.target r && r.rid == e.vid)))
    then ["cached-unverified"] else []
  per ++ c4 ++ c5

end Neutrino.GetBlock
