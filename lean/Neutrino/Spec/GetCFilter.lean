/-
C05 at the level of observations.  The harness recomputes, on the real bytes
and against the filter-header store as it is when it looks, whether a filter
hashes with the committed previous header to the committed header of its block
(flag `v`).  The oracle below is evaluated on what the IMPLEMENTATION reports,
independently of the model.
-/
import Neutrino.Model.GetCFilter
namespace Neutrino.GetCFilter

/-- a response as the harness describes it: the model's `Resp` plus the ids of
the committed previous header it was hashed with and of the resulting header -/
structure RespX where
  r    : Resp
  prev : Nat
  hdr  : Nat
deriving Repr

/-- the committed (previous header, header) pair of a block on the chain a call
reads, `none` for a block that is not on it -/
abbrev HdrAt := Nat → Option (Nat × Nat)

/-- blocks named by their height on a chain with committed filter headers `fhs` -/
def hdrAtOf (fhs : List Nat) : HdrAt := fun b =>
  if 1 ≤ b ∧ b < fhs.length then some (fhs.getD (b - 1) 0, fhs.getD b 0) else none

/-- a response that matches the committed header of the block it names -/
def RespX.goodAt (hdrAt : HdrAt) (x : RespX) : Bool :=
  x.r.isCFilter && x.r.ftypeOk && x.r.decodes &&
  (match hdrAt x.r.blk with
   | some (p, c) => x.prev == p && x.hdr == c && x.hdr != 0
   | none => false)

def RespX.good (fhs : List Nat) (x : RespX) : Bool := x.goodAt (hdrAtOf fhs)

structure CEntry where
  blk : Nat
  fid : Nat
  size : Nat
  v : Bool
deriving Repr, DecidableEq

structure DEntry where
  blk : Nat
  fid : Nat
  v : Bool
deriving Repr, DecidableEq

inductive ObsResult where
  /-- `v`: the requested hash is on the chain and the filter hash-chains to the
  committed header of THAT block; `other`: the bytes are the ground-truth filter
  of another block (the one at the same height on the other branch) -/
  | ret (fid : Nat) (v : Bool) (other : Bool := false)
  | err (kind : String)
deriving Repr, DecidableEq

structure Obs where
  result : ObsResult
  prog   : List Progress
  range  : Option (Int × Int)
  cache  : List CEntry
  db     : List DEntry
  /-- the put log of the call: what was handed to `FilterDB.PutFilters`, in order -/
  puts   : List (Nat × Nat) := []
deriving Repr

structure Before where
  cache : List CEntry
  db    : List DEntry

/-- some element occurs twice -/
def dupIn : List Nat → Bool
  | [] => false
  | b :: bs => bs.contains b || dupIn bs

/-- Violated clauses of C05 on one call (tags).  `fhs`: the filter headers
committed when the call was made; `best`: min(block tip, filter tip). -/
def oracleAt (hdrAt : HdrAt) (heightOf : Nat → Nat) (best : Nat) (maxRangeObs : Int) (c : Call) (xs : List RespX) (b : Before) (o : Obs) : List String :=
  let dl := xs.take o.prog.length
  let inC := fun (l : List CEntry) (blk fid : Nat) => l.any (fun e => e.blk == blk && e.fid == fid)
  let inD := fun (l : List DEntry) (blk fid : Nat) => l.any (fun e => e.blk == blk && e.fid == fid)
  let goodFlags := dl.map (fun x => x.goodAt hdrAt)
  let gl := ((dl.zip goodFlags).filter (·.2)).map (fun p => (p.1.r.blk, p.1.r.fid))
  let goodFor := fun (blk fid : Nat) => gl.any (fun p => p.1 == blk && p.2 == fid)
  let inRange := fun (blk : Nat) => match o.range with
    | some (s, e) => decide (s ≤ (heightOf blk : Int)) && decide ((heightOf blk : Int) ≤ e)
    | none => false
  -- every filter returned / cached / persisted matches the committed headers
  let c1 := match o.result with
    | .ret _ v other => if other then ["returned-filter-of-other-block"] else if v then [] else ["returned-mismatch"]
    | .err _ => []
  let c2 := if o.cache.any (fun e => !e.v) then ["cached-mismatch"] else []
  let c3 := if o.db.any (fun e => !e.v) then ["persisted-mismatch"] else []
  -- provenance: a returned filter was in the cache / database before or is a good delivered response for the target
  let c4 := match o.result with
    | .ret fid _ _ => if inC b.cache c.target fid || inD b.db c.target fid || (goodFor c.target fid && inRange c.target) then []
                    else ["returned-unverified"]
    | .err _ => []
  -- rejected kinds are never stored: every new entry is a good, solicited, delivered response
  let c5 := if o.cache.any (fun e => !inC b.cache e.blk e.fid && !(goodFor e.blk e.fid && inRange e.blk)) then ["rejected-kind-cached"] else []
  let c6 := if o.db.any (fun e => !inD b.db e.blk e.fid && !(goodFor e.blk e.fid && inRange e.blk)) then ["rejected-kind-persisted"] else []
  -- a response that is not good never makes progress
  let c7 := if (goodFlags.zip o.prog).any (fun (g, p) => p != .none && !g) then ["rejected-kind-progress"] else []
  -- the prepared range
  let c8 := match o.range with
    | some (s, e) =>
      if 1 ≤ c.target ∧ c.target ≤ best then
        let lim := if c.maxBatch > 0 ∧ c.maxBatch < maxRangeObs then c.maxBatch else maxRangeObs
        if 1 ≤ s ∧ s ≤ (c.target : Int) ∧ (c.target : Int) ≤ e ∧ e ≤ (best : Int) ∧ e - s + 1 ≤ lim then [] else ["bad-range"]
      -- a query is prepared only for a block whose filter header is committed
      else if c.target > best then ["query-above-filter-tip"]
      else []
    | none => []
  -- a filter is accepted (progress, cache/db put) at most once per call and only for a block of
  -- the requested range that was still awaited
  let accepted := ((dl.zip o.prog).filter (fun xp => xp.2 != .none)).map (fun xp => xp.1.r.blk)
  let c9 := if dupIn accepted || accepted.any (fun b => !inRange b) ||
               dupIn (o.puts.map (·.1)) || o.puts.any (fun p => !inRange p.1 || !goodFor p.1 p.2)
            then ["duplicate-accepted"] else []
  -- the query is reported complete only when every block of the requested range was received
  let c10 := match o.range with
    | some (s, e) =>
      if o.prog.contains .finished && decide (s ≤ e) &&
         (List.range (e - s + 1).toNat).any (fun k => !(accepted.map heightOf).contains (s.toNat + k))
      then ["complete-with-missing"] else []
    | none => if o.prog.contains .finished then ["complete-with-missing"] else []
  c1 ++ c2 ++ c3 ++ c4 ++ c5 ++ c6 ++ c7 ++ c8 ++ c9 ++ c10

def oracle (fhs : List Nat) (best : Nat) (maxRangeObs : Int) (c : Call) (xs : List RespX) (b : Before) (o : Obs) : List String :=
  oracleAt (hdrAtOf fhs) id best maxRangeObs c xs b o

end Neutrino.GetCFilter
