/-
Abstract specification of the cache: a recency-ordered association list with a
capacity, nothing else (no index, no running counter).  Oldest entry first.
Also the observation-level oracle `dumpOk` that the property C16 is stated
with and that the driver evaluates on what the implementation reports.
-/
import Neutrino.Model.Lru
namespace Neutrino.Lru

structure Spec where
  cap   : Nat
  items : List Entry := []
  bad   : List Nat := []
deriving Repr

def Spec.find (sp : Spec) (k : Nat) : Option Entry := sp.items.find? (·.key == k)

/-- Drop least-recently-used entries until `needed` fits. -/
def Spec.evict (cap : Nat) (bad : List Nat) (needed : Nat) : List Entry → Bool → List Entry × Bool × Bool
  | [], ev => ([], ev, decide (needed ≤ cap))
  | b :: rest, ev =>
    if cap - total (b :: rest) < needed then
      if b.vid ∈ bad then (b :: rest, ev, false) else Spec.evict cap bad needed rest true
    else (b :: rest, ev, true)

def Spec.step (sp : Spec) : Op → Spec × Out
  | .poison v => ({ sp with bad := v :: sp.bad }, .unit)
  | .heal v => ({ sp with bad := sp.bad.filter (· != v) }, .unit)
  | .put k vid sz =>
    if vid ∈ sp.bad then (sp, .err)
    else if sz > sp.cap then (sp, .err)
    else
      match sp.find k with
      | some el =>
        if el.vid ∈ sp.bad then (sp, .err) else
        let (items, ev, ok) := Spec.evict sp.cap sp.bad sz (sp.items.erase el) false
        if ok then ({ sp with items := items ++ [⟨k, vid, sz⟩] }, .okPut ev)
        else ({ sp with items := items }, .err)
      | none =>
        let (items, ev, ok) := Spec.evict sp.cap sp.bad sz sp.items false
        if ok then ({ sp with items := items ++ [⟨k, vid, sz⟩] }, .okPut ev)
        else ({ sp with items := items }, .err)
  | .get k =>
    match sp.find k with
    | none => (sp, .notFound)
    | some el => ({ sp with items := sp.items.erase el ++ [el] }, .val el.vid)
  | .del k =>
    match sp.find k with
    | none => (sp, .no)
    | some el =>
      if el.vid ∈ sp.bad then (sp, .no)
      else ({ sp with items := sp.items.erase el }, .val el.vid)

def Spec.run (sp : Spec) : List Op → Spec
  | [] => sp
  | o :: os => Spec.run (sp.step o).1 os

/-- What `Size()`, `Len()`, `RangeFILO`, `Range` (sorted) and the
FIFO-is-reverse-of-FILO flag report at quiescence. -/
structure Dump where
  size : Nat
  len  : Nat
  filo : List Entry          -- most recent first, as RangeFILO yields them
  keys : List Nat            -- keys of the index, sorted ascending
  rev  : Bool
deriving Repr, DecidableEq

def insertSorted (x : Nat) : List Nat → List Nat
  | [] => [x]
  | y :: ys => if x ≤ y then x :: y :: ys else y :: insertSorted x ys

def sortNat (l : List Nat) : List Nat := l.foldr insertSorted []

def nodupKeys : List Nat → Bool
  | [] => true
  | x :: xs => !xs.contains x && nodupKeys xs

/-- The C16 state clause on one observation: within capacity, the reported size
and length are those of the resident entries, the index and the list hold the
same keys, one entry per key. -/
def dumpOk (cap : Nat) (d : Dump) : Bool :=
  decide (d.size ≤ cap) && d.size == total d.filo && d.len == d.filo.length &&
  nodupKeys (d.filo.map (·.key)) && d.keys == sortNat (d.filo.map (·.key)) && d.rev

/-- which clause of `dumpOk` an observation violates first (the `shape=` of the report).
All comparisons are on unbounded naturals: a resident total beyond 2^64, or a `Size()`
that wrapped, is seen as what it is. -/
def dumpShape (cap : Nat) (d : Dump) : String :=
  if total d.filo > cap then "resident-total-exceeds-capacity"
  else if d.size != total d.filo then "size-not-resident-total"
  else if d.len != d.filo.length then "len-not-resident-count"
  else if !nodupKeys (d.filo.map (·.key)) then "duplicate-key"
  else if d.keys != sortNat (d.filo.map (·.key)) then "index-list-mismatch"
  else if !d.rev then "fifo-not-reverse-of-filo"
  else "ok"

/-- The C16 step clauses on one sequential operation, from what the cache
itself reported: the operation's result and the quiescent observations before
(`d1`) and after (`d2`) it.  `none` = fine, `some shape` = violated.  They say,
without reference to the model: a lookup returns the value most recently stored
under the key and only refreshes it; a stored entry becomes the most recent one
and only the key's old entry and a tail of least-recently-used entries may go;
a delete removes exactly its key; an operation that fails changes nothing.
(Not evaluated while an entry whose `Size()` fails is resident: the harness's
fault injection, under which a failing eviction may legitimately stop half-way.) -/
def obsClause (bad : List Nat) (op : Op) (out : Out) (d1 d2 : Dump) : Option String :=
  if d1.filo.any (fun e => bad.contains e.vid) then none else
  match op, out with
  | .put _ _ _, .err => if d2 == d1 then none else some "failed-put-changed-cache"
  | .put k vid sz, .okPut _ =>
    let rest := d1.filo.filter (fun e => e.key != k)
    match d2.filo with
    | e :: kept =>
      if e == ⟨k, vid, sz⟩ && kept.isPrefixOf rest then none else some "evicted-not-lru"
    | [] => some "stored-entry-missing"
  | .get k, .val v =>
    match d1.filo.find? (fun e => e.key == k) with
    | some e =>
      if e.vid == v && d2.filo == e :: d1.filo.filter (fun e => e.key != k) then none else some "lookup-wrong-value"
    | none => some "lookup-wrong-value"
  | .get k, .notFound =>
    if d1.filo.any (fun e => e.key == k) then some "lookup-lost"
    else if d2 == d1 then none else some "lookup-changed-cache"
  | .del k, .val v =>
    match d1.filo.find? (fun e => e.key == k) with
    | some e =>
      if e.vid == v && d2.filo == d1.filo.filter (fun e => e.key != k) then none else some "delete-wrong-entry"
    | none => some "delete-wrong-entry"
  | .del k, .no =>
    if d1.filo.any (fun e => e.key == k) then some "delete-missed"
    else if d2 == d1 then none else some "delete-changed-cache"
  | _, _ => none

def dumpOfSpec (sp : Spec) : Dump :=
  { size := total sp.items, len := sp.items.length, filo := sp.items.reverse,
    keys := sortNat (sp.items.map (·.key)), rev := true }

def dumpOfState (s : State) : Dump :=
  { size := s.size, len := s.ll.length, filo := s.ll.reverse,
    keys := sortNat (s.idx.map (·.1)), rev := true }

end Neutrino.Lru
