/-
Specification of the header stores: two plain lists (`Log`) subjected to the
same operations, and the observation-level oracles for C07 (log behaviour,
reopen, failed append) and C08 (crash recovery) evaluated on what the
implementation reports.
-/
import Neutrino.Model.Store
namespace Neutrino.Store

structure Log where
  blocks  : List Nat
  filters : List Nat
deriving Repr, DecidableEq

def Log.init : Log := { blocks := [0], filters := [0] }

def Log.apply (l : Log) : Op → Log
  | .wb ids => { l with blocks := l.blocks ++ ids }
  | .wf fids => { l with filters := l.filters ++ fids }
  | .rb n => { l with blocks := l.blocks.take (l.blocks.length - n) }
  | .rf => { l with filters := l.filters.take (l.filters.length - 1) }
  | .rollto h => { blocks := l.blocks.take (max (h + 1) 1 |> min l.blocks.length),
                   filters := l.filters.take (min l.filters.length (max (h + 1) 1)) }
  | .reopen => l

/-- Does the spec say the operation succeeds? (`rb n` past genesis and `rf` at
height 0 are refused.) -/
def Log.accepts (l : Log) : Op → Bool
  | .rb n => n < l.blocks.length
  | .rf => l.filters.length > 1
  | _ => true

/-- abstraction of a durable state: defined when files are whole, the index
maps exactly the stored block ids to their positions, and the tips name the
last entries -/
def wfB (d : Durable) : Bool :=
  let posOk : Bool := (List.range d.bf.ents.length).all fun i =>
    match d.bf.ents[i]? with
    | some id => d.db.height? id == some i
    | none => false
  let idxOk : Bool := d.db.idx.all fun p => d.bf.ents[p.2]? == some p.1
  d.bf.junk == 0 && d.ff.junk == 0 && !d.bf.corrupt && !d.ff.corrupt && posOk && idxOk &&
  !d.bf.ents.isEmpty && !d.ff.ents.isEmpty &&
  d.db.btip == d.bf.ents.getLast? &&
  (match d.db.ftip with
   | some b => d.db.height? b == some (d.ff.ents.length - 1)
   | none => false)

def abs (d : Durable) : Option Log :=
  if wfB d then some { blocks := d.bf.ents, filters := d.ff.ents } else none

/-- `blockLocatorFromHash` on a list: the tip, then heights stepping back by 1
for the first ten and doubling afterwards, down to genesis. -/
def locatorHeights (tipH : Nat) : List Nat :=
  let rec go (fuel height dec count : Nat) (acc : List Nat) : List Nat :=
    match fuel with
    | 0 => acc.reverse
    | fuel + 1 =>
      if height = 0 ∨ count ≥ 500 then acc.reverse else
      let dec := if count > 10 then dec * 2 else dec
      let height := if dec > height then 0 else height - dec
      go fuel height dec (count + 1) (height :: acc)
  go (tipH + 1) tipH 1 1 [tipH]

/-- What the implementation printed for `dump`. `none` entries are unknown
("?", a torn or shifted entry). -/
structure Dump where
  blocks  : List (Option Nat)
  tipB    : Option (Nat × Option Nat)
  filters : List (Option Nat)
  tipF    : Option (Nat × Option Nat)
  xb      : Bool
  gone    : Bool
deriving Repr

/-- well-formedness of a dump on its own: no unreadable entry, tips are the last
entries, by-hash and by-height lookups agree, removed entries are not found,
filter headers not ahead of block headers -/
def Dump.wf (d : Dump) : Bool :=
  d.blocks.all (·.isSome) && d.filters.all (·.isSome) && d.xb && d.gone &&
  d.blocks ≠ [] && d.filters ≠ [] &&
  d.tipB == some (d.blocks.length - 1, d.blocks.getLast?.join) &&
  d.tipF == some (d.filters.length - 1, d.filters.getLast?.join) &&
  decide (d.filters.length ≤ d.blocks.length)

def Dump.toLog (d : Dump) : Log :=
  { blocks := d.blocks.filterMap id, filters := d.filters.filterMap id }

def Dump.matches (d : Dump) (l : Log) : Bool :=
  d.wf && d.toLog == l

def isPrefixOf (a b : List Nat) : Bool := a == b.take a.length

/-- C08: after a crash inside `op` and a restart, each store holds what it held
before the operation or after it, or — for the multi-step rollback — a state
the rollback passes through (a prefix at least as long as the final one). -/
def recoveredOk (pre : Log) (op : Op) (d : Dump) : Bool :=
  let post := pre.apply op
  let r := d.toLog
  d.wf &&
  (match op with
   | .rollto _ =>
     isPrefixOf r.blocks pre.blocks && decide (post.blocks.length ≤ r.blocks.length) &&
     isPrefixOf r.filters pre.filters && decide (post.filters.length ≤ r.filters.length)
   | _ => (r.blocks == pre.blocks || r.blocks == post.blocks) &&
          (r.filters == pre.filters || r.filters == post.filters))

end Neutrino.Store
