/-
C04 — observation-level oracle for the network simulation (harness/netsim).

The simulation runs the REAL client against scripted full nodes and samples its
public API.  Block hashes and filter headers are interned against ground truth by
the harness:  `t<k>` = block k of the initial honest chain, `a<k>`, `b<k>`, … =
block at height k of the 1st, 2nd, … alternative valid branch, `x` = anything
else (a liar's fabricated header, an unknown hash);  `f<id>` = the TRUE filter
header of ground-truth block `<id>`, `x` = any other value.

This file re-derives the ground truth (which ids exist, what the honest tip is
after every scripted event) from the scenario lines alone and evaluates the
property on the observations:

* safety      every sampled best block / block tip is a ground-truth block at
              the reported height, every sampled filter tip is the true filter
              header of a ground-truth block at the reported height, no honest
              peer is ever banned;
* convergence at the deadline (an honest peer is part of the scenario) best =
              block tip = the honest tip after the last scripted event, the
              filter tip is its true filter header, the stored chains agree
              with ground truth at every height, the honest peers are connected;
* bans        peers without the witness / compact-filter service bits and peers
              that actually served a false filter header or checkpoint are
              banned and not connected at the deadline.

Core Lean only (the driver links this file).
-/
namespace Neutrino.Converge

/-- One valid branch of the ground-truth tree: blocks `<letter><fork+1>` …
`<letter><fork+len>`; its first block's parent is the block at height `fork`
of the branch it left. -/
structure Branch where
  letter : Char
  fork   : Nat
  len    : Nat
deriving Repr, DecidableEq

/-- Ground truth as far as the oracle needs it. -/
structure Truth where
  branches : List Branch := []
  honest   : Nat := 0          -- index into `branches` of the most-work valid chain
deriving Repr

def letterOf (n : Nat) : Char := Char.ofNat ('a'.toNat + n)

/-- `t<len>` initial chain. -/
def Truth.init (len : Nat) : Truth := { branches := [⟨'t', 0, len⟩], honest := 0 }

def Truth.honestBranch (g : Truth) : Branch := g.branches.getD g.honest ⟨'t', 0, 0⟩

def Truth.honestHeight (g : Truth) : Nat := g.honestBranch.fork + g.honestBranch.len

def blockId (c : Char) (h : Nat) : String := String.singleton c ++ toString h

def Truth.honestId (g : Truth) : String := blockId g.honestBranch.letter g.honestHeight

/-- number of alternative branches handed out so far (the next letter) -/
def Truth.nextLetter (g : Truth) : Char := letterOf (g.branches.length - 1)

/-- a peer's own lighter fork, created at set-up: leaves the honest chain
`depth` blocks below its tip, `len` blocks long -/
def Truth.addFork (g : Truth) (depth len : Nat) : Truth :=
  { g with branches := g.branches ++ [⟨g.nextLetter, g.honestHeight - depth, len⟩] }

/-- honest-side growth: the honest branch gets `n` more blocks -/
def Truth.grow (g : Truth) (n : Nat) : Truth :=
  { g with branches := g.branches.mapIdx fun i b => if i = g.honest then { b with len := b.len + n } else b }

/-- honest-side reorganisation: a new branch leaves `depth` below the tip and is `len` long -/
def Truth.reorg (g : Truth) (depth len : Nat) : Truth :=
  { branches := g.branches ++ [⟨g.nextLetter, g.honestHeight - depth, len⟩], honest := g.branches.length }

/-- Is `<c><h>` a block of the ground-truth tree?  (`t0` is genesis.) -/
def Truth.hasBlock (g : Truth) (c : Char) (h : Nat) : Bool :=
  (c == 't' && h == 0) || g.branches.any fun b => b.letter == c && b.fork < h && h ≤ b.fork + b.len

/-- A tip as reported by the client. -/
inductive TipObs where
  | err
  | tip (h : Nat) (id : String)
deriving Repr, DecidableEq

/-- id = `<letter><digits>` with digits = `h` and the block exists -/
def Truth.validBlockId (g : Truth) (h : Nat) (id : String) : Bool :=
  match id.toList with
  | c :: ds => c.isAlpha && c != 'x' && String.ofList ds == toString h && g.hasBlock c h
  | [] => false

def Truth.safeBlockTip (g : Truth) : TipObs → Bool
  | .err => true
  | .tip h id => g.validBlockId h id

/-- filter tip `h:f<id>`: the true filter header of a ground-truth block at height h -/
def Truth.safeFilterTip (g : Truth) : TipObs → Bool
  | .err => true
  | .tip h fid =>
    match fid.toList with
    | 'f' :: rest => g.validBlockId h (String.ofList rest)
    | _ => false

inductive Kind where
  | honest | liarHeaders | lighterFork | liarCFHeaders | liarCFCheckpt | liarCFilter
  | silent | emptyHeaders | noServices | disconnectAt | garbage | other
deriving Repr, DecidableEq

def Kind.ofString : String → Kind
  | "honest" => .honest | "liarHeaders" => .liarHeaders | "lighterFork" => .lighterFork
  | "liarCFHeaders" => .liarCFHeaders | "liarCFCheckpt" => .liarCFCheckpt | "liarCFilter" => .liarCFilter
  | "silent" => .silent | "emptyHeaders" => .emptyHeaders | "noServices" => .noServices
  | "disconnectAt" => .disconnectAt | "garbage" => .garbage | _ => .other

structure PeerSpec where
  idx     : Nat
  kind    : Kind
  a       : Nat := 0
  b       : Nat := 0
  variant : String := ""
  lied    : Bool := false     -- from the `asked` line: it actually served a false message
deriving Repr

structure Obs where
  best    : TipObs
  btip    : TipObs
  ftip    : TipObs
  current : Bool
  banned  : List Nat
  conn    : List Nat
deriving Repr

def honestIdx (ps : List PeerSpec) : List Nat := (ps.filter (·.kind == .honest)).map (·.idx)

/-- safety of one sample; the result names what is wrong -/
def sampleFaults (g : Truth) (ps : List PeerSpec) (o : Obs) : List String :=
  (if g.safeBlockTip o.best then [] else ["offchain-best"]) ++
  (if g.safeBlockTip o.btip then [] else ["offchain-block-tip"]) ++
  (if g.safeFilterTip o.ftip then [] else ["false-filter-tip"]) ++
  (if (honestIdx ps).any (o.banned.contains ·) then ["honest-banned"] else [])

def tipHeight : TipObs → Nat
  | .err => 0
  | .tip h _ => h

/-- a peer that must end up banned and disconnected -/
def mustBeBanned (p : PeerSpec) : Bool :=
  p.kind == .noServices || ((p.kind == .liarCFHeaders || p.kind == .liarCFCheckpt) && p.lied)

/-- the deadline observation -/
def finalFaults (g : Truth) (ps : List PeerSpec) (o : Obs) (chainOk fchainOk : Bool) : List String :=
  let want := TipObs.tip g.honestHeight g.honestId
  let wantF := TipObs.tip g.honestHeight ("f" ++ g.honestId)
  let hs := honestIdx ps
  sampleFaults g ps o ++
  (if hs.isEmpty then [] else
    (if o.best == want && o.btip == want then [] else ["no-convergence"]) ++
    (if o.ftip == wantF then [] else ["no-filter-convergence"]) ++
    (if hs.all (o.conn.contains ·) then [] else ["honest-not-connected"])) ++
  (if chainOk then [] else ["stored-chain-broken"]) ++
  (if fchainOk then [] else ["stored-filter-chain-broken"]) ++
  (if tipHeight o.ftip ≤ tipHeight o.btip then [] else ["filter-tip-above-block-tip"]) ++
  (if (ps.filter mustBeBanned).all (fun p => o.banned.contains p.idx && !o.conn.contains p.idx) then []
   else ["liar-not-banned"])

/-- Recorded finding 1: the first false filter tip was committed while no honest
peer was connected (in that sample or the one before it). -/
def loneLiar (ps : List PeerSpec) (prev : Option Obs) (o : Obs) : Bool :=
  let hs := honestIdx ps
  let none' (x : Obs) := !(hs.any (x.conn.contains ·))
  none' o || (match prev with | some p => none' p | none => true)

/-- Recorded finding 2: a peer whose ONLY lie is a filter checkpoint (its
filter headers are true) took part. -/
def checkptOnlyLiar (ps : List PeerSpec) : Bool :=
  ps.any fun p => p.kind == .liarCFCheckpt && p.variant == "only" && p.lied

/-- Recorded finding 3: a peer that announces a large height and answers
`getheaders` with empty `headers` messages took part. -/
def emptyHeadersPeer (ps : List PeerSpec) : Bool :=
  ps.any fun p => p.kind == .emptyHeaders

/-- Recorded finding 4 (F12 of the block manager, `detectBadPeers` returns after its
first phase): a peer whose false filter header is backed by a matching false
filter took part together with a peer that can fail to answer the filter request
(it disconnects or is silent); the self-consistent liar is then never checked
against the block and its header may be the one that is committed. -/
def earlyReturnShape (ps : List PeerSpec) : Bool :=
  (ps.any fun p => p.kind == .liarCFHeaders && p.variant == "consistent" && p.lied) &&
  (ps.any fun p => p.kind == .disconnectAt || p.kind == .silent)

/-! ### the sync-peer bookkeeping, observed at quiescence

`sync` is what the block manager holds as its sync peer: `none`, a connected
peer, or a peer that is gone.  `ahead` = connected candidates that serve more
than the client's block tip. -/

inductive SyncObs where
  | absent
  | peer (k : Nat)
  | gone (k : Nat)
  | unknown
deriving Repr, DecidableEq

def SyncObs.ofString (s : String) : SyncObs :=
  if s == "none" then .absent
  else if s.startsWith "gone:" then .gone ((s.drop 5).toString.toNat?.getD 0)
  else match s.toNat? with
    | some k => .peer k
    | Option.none => .unknown

/-- (1) the sync peer is a connected peer or none; (2) with no sync peer, no
connected candidate may be ahead of us at quiescence (`startSync` has to have
been run for it). -/
def syncFaults (sync : SyncObs) (connected ahead : List Nat) : List String :=
  (match sync with
   | .absent => if ahead.isEmpty then [] else ["no-sync-peer-while-candidate-ahead"]
   | .peer k => if connected.contains k then [] else ["sync-peer-not-connected"]
   | .gone _ => ["sync-peer-not-connected"]
   | .unknown => ["sync-peer-not-connected"])

/-- (3) at quiescence every connected peer that serves more than our tip has been
asked for the headers after our tip (its latest `getheaders` starts there). -/
def aheadNotAsked (ahead asked : List Nat) : List String :=
  if ahead.all (asked.contains ·) then [] else ["ahead-peer-not-asked"]

/-- Recorded finding: the scenario family "the tip is older than 24 hours, the sync
peer is level with us, a higher peer connects" (the names the driver gives these
cases).  `handleNewPeerMsg` asks a new higher peer only when `BlockHeadersSynced()`,
`startSync` does nothing while a sync peer exists, and `handleInvMsg` ignores every
peer but the sync peer while not current. -/
def staleTipLevelSyncPeer (caseName : String) : Bool :=
  caseName.startsWith "shorter-syncpeer-" && caseName.endsWith "-old-tip"

end Neutrino.Converge
