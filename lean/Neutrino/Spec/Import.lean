/-
C14 at observation level: what the two stores must look like after `Import`
returns, stated on what can be OBSERVED of them (tip height reported by
`ChainTip()` or its failure, and the entries read back position by position),
independently of the model in `Model/Import.lean`.
-/
import Neutrino.Model.Import
namespace Neutrino.Import

/-- what a dump of the two stores shows -/
structure Obs where
  btip    : Option Nat          -- `none`: `ChainTip()` failed
  blocks  : List BHdr
  ftip    : Option Nat
  filters : List Nat
deriving DecidableEq, Repr

def obsOf (st : Stores) : Obs :=
  { btip := bChainTip st, blocks := st.blocks, ftip := fChainTip st, filters := st.filters }

/-- both stores answer, and their tips are their last entries -/
def usable (o : Obs) : Bool :=
  o.btip == some (o.blocks.length - 1) && !o.blocks.isEmpty &&
  o.ftip == some (o.filters.length - 1) && !o.filters.isEmpty

/-- `old` extended by the entries of a file starting at height `s`, height for height -/
def extend {α : Type} (old file : List α) (s : Nat) : List α := old ++ file.drop (old.length - s)

/-- each header's `prev` is its predecessor's id -/
def connected : List BHdr → Bool
  | a :: b :: rest => (b.prev == a.id) && connected (b :: rest)
  | _ => true

def metaOk (F : File) : Bool :=
  F.openOk && F.bnet == 0 && F.fnet == 0 && F.btyp == 0 && F.ftyp == 0 && F.bstart == F.fstart &&
  F.blocks.length == F.filters.length && !F.blocks.isEmpty

/-- contents part of the **success clause**: both stores hold, height for
height, exactly their earlier contents extended by the file's headers up to the
file's last height, and they are usable.  (`pre` is assumed usable.) -/
def contentOk (pre : Obs) (F : File) (post : Obs) : Bool :=
  metaOk F && usable post &&
  decide (F.bstart ≤ pre.blocks.length) && decide (F.bstart ≤ pre.filters.length) &&
  post.blocks == extend pre.blocks F.blocks F.bstart &&
  post.filters == extend pre.filters F.filters F.bstart

/-- chain part: the block chain stays connected and every appended header is valid -/
def chainOk (pre post : Obs) : Bool :=
  (!connected pre.blocks || connected post.blocks) &&
  (post.blocks.drop pre.blocks.length).all (·.valid)

def agreeAt (pre : Obs) (F : File) (h : Nat) : Bool :=
  (match F.blocks[h - F.bstart]?, pre.blocks[h]? with
   | some a, some b => a.id == b.id
   | _, _ => false) &&
  (match F.filters[h - F.bstart]?, pre.filters[h]? with
   | some a, some b => a == b
   | _, _ => false)

/-- sampled agreement with existing data: where the file overlaps the stores, its
first and its last overlapping height carry the stores' own headers (a file that
contradicts existing data there must be refused) -/
def sampleOk (pre : Obs) (F : File) : Bool :=
  let eff := min (pre.blocks.length - 1) (pre.filters.length - 1)
  if F.bstart ≤ eff then agreeAt pre F F.bstart && agreeAt pre F (min eff (endHeight F)) else true

/-- **success clause** -/
def successOk (pre : Obs) (F : File) (post : Obs) : Bool :=
  contentOk pre F post && chainOk pre post && sampleOk pre F

/-- **idempotence clause**: the second identical import succeeds and changes nothing -/
def idempotentOk (post : Obs) (second : Bool) (post2 : Obs) : Bool := second && post2 == post

/-- contents part of the **failure clause**: stores usable, the filter store not
ahead of the block store (unless it already was), old contents kept, and
whatever was appended is the file's header for that height. -/
def failContentOk (pre : Obs) (F : File) (post : Obs) : Bool :=
  usable post &&
  (decide (pre.filters.length > pre.blocks.length) || decide (post.filters.length ≤ post.blocks.length)) &&
  decide (pre.blocks.length ≤ post.blocks.length) && decide (pre.filters.length ≤ post.filters.length) &&
  post.blocks == pre.blocks ++ (F.blocks.drop (pre.blocks.length - F.bstart)).take (post.blocks.length - pre.blocks.length) &&
  post.filters == pre.filters ++ (F.filters.drop (pre.filters.length - F.bstart)).take (post.filters.length - pre.filters.length) &&
  (decide (post.blocks.length = pre.blocks.length) || (metaOk F && decide (F.bstart ≤ pre.blocks.length))) &&
  (decide (post.filters.length = pre.filters.length) || (metaOk F && decide (F.bstart ≤ pre.filters.length)))

/-- **failure clause** (appended headers, if any, are valid and connected) -/
def failureOk (pre : Obs) (F : File) (post : Obs) : Bool :=
  failContentOk pre F post && chainOk pre post &&
  -- all or nothing per batch: stores that were level stay level
  (pre.blocks.length != pre.filters.length || post.blocks.length == post.filters.length)

/-- The recorded defect's shape (F7): the file's first header is above height 0
and the import has something to append (the file reaches above the lower of the
two store tips).  `processBatch` then reads the file at index = target height. -/
def f7Shape (pre : Obs) (F : File) : Bool :=
  decide (F.bstart > 0) && decide (endHeight F > min (pre.blocks.length - 1) (pre.filters.length - 1))

end Neutrino.Import
