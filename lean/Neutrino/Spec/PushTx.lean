/-
C15 — observation-level oracle.  It sees only what the harness saw the REAL
Broadcaster do (which `Config.Broadcast` calls happened, in which order, what the
public methods returned or that they never returned) and evaluates the property's
clauses on that, independently of Model/PushTx.lean.
-/
import Neutrino.Model.PushTx
namespace Neutrino.PushTx

/-! ## (b) dependency order -/

/-- `order` is walked left to right; a tx may be sent only when each of its parents
that belongs to the same rebroadcast (`all`) has been sent before (`seen`). -/
def topoAux (all : List TxId) : List TxId → List Tx → Bool
  | _, [] => true
  | seen, t :: rest =>
    t.parents.all (fun p => seen.contains p || !all.contains p) && topoAux all (t.id :: seen) rest

/-- `all` = the ids that belong to the rebroadcast (its snapshot) -/
def topoOk (all : List TxId) (order : List Tx) : Bool := topoAux all [] order

/-- same elements (as id sets) -/
def sameIds (a b : List TxId) : Bool := a.all (b.contains ·) && b.all (a.contains ·)

/-! ## observations -/

inductive BRet | ok | err | stopped | hang
deriving DecidableEq, Repr

/-- what was seen after a trigger / after answering a rebroadcast callback -/
inductive Next
  | rb (id : TxId)   -- the rebroadcast goroutine called Config.Broadcast with this tx
  | none             -- no call, and no (further) rebroadcast goroutine alive
  | busy             -- no new call; the earlier rebroadcast is still waiting for its answer
  | silent           -- a real interval runs, no block event was sent, and no call arrived within a wait of
                     -- many intervals after the running rebroadcast's last call was answered
deriving DecidableEq, Repr

inductive Obs
  | bcast (tx : Tx) (r : Res) (ret : BRet)
  | confirm (id : TxId) (hang : Bool)
  | trigger (n : Next)
  | rbres (id : TxId) (r : Res) (n : Next)
  | stop (hang : Bool)
  | closeSub           -- the harness closed the block subscription's channel
deriving Repr

structure RbObs where
  snap : List TxId        -- what had been accepted and not reported confirmed when it started
  sent : List Tx          -- Config.Broadcast calls seen so far, in order (last = waiting for its answer)
deriving Repr

structure OState where
  live : List TxId := []  -- accepted / already-in-mempool, not yet reported confirmed
  known : List Tx := []   -- every tx ever handed to Broadcast (for its parents)
  rb : Option RbObs := none
  stopped : Bool := false
  /-- the Broadcaster runs on a real, short rebroadcast interval and the harness lets the rounds run
  freely: a call that follows the complete hand-over of a rebroadcast's snapshot opens the NEXT
  rebroadcast (started by an interval tick the harness cannot see) -/
  freeRunning : Bool := false
deriving Repr

def lookup (known : List Tx) (id : TxId) : Tx :=
  match known.find? (·.id == id) with
  | some t => t
  | none => ⟨id, []⟩

/-- a failed clause: (shape tag, text) -/
abbrev Fail := String × String

def finishRb (s : OState) (rb : RbObs) : List Fail :=
  (if s.stopped || rb.snap.all ((ids rb.sent).contains ·) then [] else
    [("pending-not-rebroadcast", s!"accepted and unconfirmed {rb.snap} but the rebroadcast sent only {ids rb.sent}")]) ++
  (if topoOk rb.snap rb.sent then [] else
    [("rebroadcast-order", s!"a child was rebroadcast before its parent: order {ids rb.sent}")])

/-- the whole snapshot of the rebroadcast has been handed to the network -/
def roundComplete (rb : RbObs) : Bool := rb.snap.all ((ids rb.sent).contains ·)

/-- **interval clause**: the running rebroadcast has ended, transactions are accepted and not reported
confirmed, the Broadcaster has not been stopped — and although many intervals elapsed no rebroadcast
followed -/
def stalled (s : OState) : List Fail :=
  if s.stopped || s.live.isEmpty then [] else
    [("interval-rebroadcast-stalled", s!"accepted and unconfirmed {s.live}, no rebroadcast running, no block event: the rebroadcast interval elapsed many times and no rebroadcast was started")]

def nextRb (s : OState) (rb : RbObs) (y : TxId) : OState × List Fail :=
  let f1 := if s.stopped then [("rebroadcast-after-stop", s!"tx {y} handed to the network after Stop returned")] else []
  let f2 := if rb.snap.contains y then [] else
    [("rebroadcast-not-pending", s!"tx {y} rebroadcast although it was rejected, confirmed or never accepted (pending {rb.snap})")]
  let f3 := if (ids rb.sent).contains y then [("rebroadcast-duplicate", s!"tx {y} sent twice in one rebroadcast")] else []
  ({ s with rb := some { rb with sent := rb.sent ++ [lookup s.known y] } }, f1 ++ f2 ++ f3)

def ostep (s : OState) : Obs → OState × List Fail
  | .bcast tx r ret =>
    let s := { s with known := if (ids s.known).contains tx.id then s.known else tx :: s.known }
    match ret with
    | .hang => (s, [("broadcast-hang", s!"Broadcast({tx.id}) never returned")])
    | .ok =>
      let f := (if s.stopped then [("broadcast-after-stop", s!"Broadcast({tx.id}) succeeded after Stop")] else []) ++
               (if r.keeps then [] else [("rejected-reported-ok", s!"Broadcast({tx.id}) returned nil although the network rejected it")])
      ({ s with live := if s.live.contains tx.id then s.live else s.live ++ [tx.id] }, f)
    | .err => (s, if s.stopped then [("broadcast-after-stop", s!"Broadcast({tx.id}) after Stop did not report the stop")] else
                  if r = .mempool then [("mempool-tx-not-rebroadcast", s!"Broadcast({tx.id}) failed although the peers answered that the transaction is already in their mempool: it is dropped and never rebroadcast")]
                  else if r.keeps then [("accepted-reported-error", s!"Broadcast({tx.id}) failed although the network accepted it")] else [])
    | .stopped => (s, if s.stopped then [] else [("spurious-stopped", s!"Broadcast({tx.id}) reported a stop that never happened")])
  | .confirm id hang =>
    if hang then
      (s, [(if s.stopped then "mark-confirmed-after-stop" else "mark-confirmed-hang", s!"MarkAsConfirmed({id}) never returned")])
    else if s.stopped then (s, [])
    else ({ s with live := s.live.filter (· != id) }, [])
  | .trigger n =>
    match n with
    | .rb y =>
      match s.rb with
      | some rb => ({ s with rb := some rb }, [("concurrent-rebroadcast", s!"a second rebroadcast started (tx {y}) while one was running")])
      | none => nextRb s { snap := s.live, sent := [] } y
    | _ =>
      match s.rb with
      | some _ => (s, [])
      | none => (s, if s.live.isEmpty || s.stopped then [] else
          [("pending-not-rebroadcast", s!"block/tick with {s.live} accepted and unconfirmed and no rebroadcast running, but none started")])
  | .rbres id r n =>
    match s.rb with
    | none => (s, [("rebroadcast-unknown", s!"answer for tx {id} but no rebroadcast was observed")])
    | some rb =>
      let s := if r = .confirmed && !s.stopped then { s with live := s.live.filter (· != id) } else s
      match n with
      | .rb y =>
        if s.freeRunning && roundComplete rb then
          -- that rebroadcast is over; `y` is the first call of the one the next tick started
          let (s', f) := nextRb { s with rb := none } { snap := s.live, sent := [] } y
          (s', finishRb s rb ++ f)
        else nextRb s rb y
      | .silent => ({ s with rb := none }, finishRb s rb ++ stalled s)
      | _ => ({ s with rb := none }, finishRb s rb)
  | .stop hang =>
    ({ s with stopped := true }, if hang then [("stop-hang", "Stop never returned")] else [])
  | .closeSub => (s, [])   -- changes nothing the property talks about: ticks go on, calls return

end Neutrino.PushTx
