import Driver.Main
