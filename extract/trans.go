package main

// Go → Lean translator for the repo's small pure / decision functions.
//
// For every function of `transTargets` it emits a total Lean `def` into
// Gen/Trans.lean (core Lean, prelude Neutrino.Model.GoInt) that says what the
// Go function says NOW; Lemmas/Trans*.lean prove these defs equal to the hand
// models the property theorems are about.  The translation is type-directed
// (go/types) and by continuation passing:
//
//   * signed ints → Int (overflow not modelled), unsigned → Nat with named
//     wrapping ops (GoInt.uadd/usub/umul/toU), bool → Bool, string → String,
//     slices → List, maps → association lists, *Struct → Option Struct,
//     struct types of the repo / of the whitelisted btcd packages → generated
//     `structure`s with ALL their fields, `error` → Bool (true = non-nil),
//     everything else → GoInt.Atom (only equality is used);
//   * locals are alpha-normalised (v1, v2, … in order of first binding;
//     parameters p1, p2, …) so that renaming locals/receivers leaves the file
//     byte-identical; conditions are normalised (`>`/`>=` → `<`/`≤`, `!c`
//     swaps the branches, `switch` → `if` chain, early return ≡ else);
//   * loops become structurally recursive auxiliary defs over the list of
//     indices / elements, never well-founded recursion;
//   * reads of receiver state (`b.cfg.ChainParams.Checkpoints`) become extra
//     parameters r1, r2, … (sorted by selector path), calls of functions that
//     are not translated become function parameters f1, f2, … (sorted by
//     callee; pure-function idealisation within one invocation);
//   * logging and locking calls are dropped and listed; anything else that is
//     not understood is a MISSING ANCHOR [Trans] naming function and construct.

import (
	"fmt"
	"go/ast"
	"go/constant"
	"go/token"
	"go/types"
	"os"
	"path/filepath"
	"regexp"
	"sort"
	"strings"
)

func init() { extractors = append(extractors, extractTrans) }

type transTarget struct {
	mod string // generated module Gen/<mod>.lean (one per component, so that a function the
	// translator cannot follow only breaks the properties that use that component)
	rel, recv, name string // package directory, receiver type ("" = function), Go name
	lean            string // name of the generated def
}

var transTargets = []transTarget{
	{"TransBM", "", "blockManager", "findNextHeaderCheckpoint", "findNextHeaderCheckpoint"},
	{"TransBM", "", "blockManager", "findPreviousHeaderCheckpoint", "findPreviousHeaderCheckpoint"},
	{"TransBM", "", "blockManager", "BlockHeadersSynced", "BlockHeadersSynced"},
	{"TransBM", "", "", "areHeadersConnected", "areHeadersConnected"},
	{"TransBM", "headerlist", "", "invertLowestOne", "invertLowestOne"},
	{"TransBM", "headerlist", "", "getAncestorHeight", "getAncestorHeight"},
	{"TransImport", "chainimport", "", "targetHeightToImportSourceIndex", "targetHeightToImportSourceIndex"},
	{"TransImport", "chainimport", "headersImport", "determineDivergenceSyncModes", "determineDivergenceSyncModes"},
	{"TransImport", "chainimport", "headersImport", "determineProcessingRegions", "determineProcessingRegions"},
	{"TransImport", "chainimport", "headersImport", "validateChainContinuity", "validateChainContinuity"},
	{"TransQuery", "", "ChainService", "prepareCFiltersQuery", "prepareCFiltersQuery"},
	{"TransStore", "headerfs", "", "readHeadersFromFile", "readHeadersFromFile"},
	{"TransStore", "headerfs", "headerStore", "trimPartialHeader", "trimPartialHeader"},
	{"TransStore", "headerfs", "headerStore", "resetInterruptedInit", "resetInterruptedInit"},
	{"TransStore", "headerfs", "blockHeaderStore", "FetchHeaderAncestors", "blockHeaderStore_FetchHeaderAncestors"},
	{"TransStore", "headerfs", "filterHeaderStore", "FetchHeaderAncestors", "filterHeaderStore_FetchHeaderAncestors"},
	{"TransRank", "query", "peerRanking", "AddPeer", "peerRanking_AddPeer"},
	{"TransRank", "query", "peerRanking", "Punish", "peerRanking_Punish"},
	{"TransRank", "query", "peerRanking", "Reward", "peerRanking_Reward"},
	{"TransRank", "query", "peerRanking", "ResetRanking", "peerRanking_ResetRanking"},
	{"TransQueue", "query", "workQueue", "Less", "workQueue_Less"},
	{"TransQueue", "query", "queryJob", "Index", "queryJob_Index"},
	{"TransRescan", "", "blockRetryQueue", "push", "blockRetryQueue_push"},
	{"TransRescan", "", "blockRetryQueue", "peek", "blockRetryQueue_peek"},
	{"TransRescan", "", "blockRetryQueue", "pop", "blockRetryQueue_pop"},
	{"TransRescan", "", "blockRetryQueue", "clear", "blockRetryQueue_clear"},
	{"TransNtfn", "", "blockManager", "NotificationsSinceHeight", "NotificationsSinceHeight"},
	{"TransBan", "", "ChainService", "IsBanned", "IsBanned"},
	{"TransSync", "", "blockManager", "IsFullySynced", "IsFullySynced"},
	{"TransFile", "headerfs", "HeaderType", "Size", "HeaderType_Size"},
}

// external packages whose struct types / constants the translator looks into
var transExtReal = map[string]bool{
	"github.com/btcsuite/btcd/chaincfg/v2":  true,
	"github.com/btcsuite/btcd/chainhash/v2": true,
	"github.com/btcsuite/btcd/wire/v2":      true,
	"github.com/btcsuite/btcd/blockchain":   true,
	"github.com/btcsuite/btcd/peer":         true,
}

// standard packages the translator needs signatures of (type-checked from GOROOT's sources)
var transStd = map[string]bool{"bytes": true, "io": true, "io/fs": true, "os": true}

var extRealOn bool

// ---- external packages from the module cache --------------------------------

var modReq map[string]string // module path -> version (from the repo's go.mod)

func modCacheDir(path string) string {
	if modReq == nil {
		modReq = map[string]string{}
		b, _ := os.ReadFile(filepath.Join(repo, "go.mod"))
		re := regexp.MustCompile(`(?m)^\s*(?:require\s+)?([a-zA-Z0-9._~/\-]+)\s+(v[0-9][^\s]*)`)
		for _, m := range re.FindAllStringSubmatch(string(b), -1) {
			modReq[m[1]] = m[2]
		}
	}
	best := ""
	for m := range modReq {
		if (path == m || strings.HasPrefix(path, m+"/")) && len(m) > len(best) {
			best = m
		}
	}
	if best == "" {
		return ""
	}
	esc := func(s string) string {
		var sb strings.Builder
		for _, r := range s {
			if r >= 'A' && r <= 'Z' {
				sb.WriteByte('!')
				sb.WriteRune(r + 32)
			} else {
				sb.WriteRune(r)
			}
		}
		return sb.String()
	}
	cache := os.Getenv("GOMODCACHE")
	if cache == "" {
		gp := os.Getenv("GOPATH")
		if gp == "" {
			home, _ := os.UserHomeDir()
			gp = filepath.Join(home, "go")
		}
		cache = filepath.Join(gp, "pkg", "mod")
	}
	return filepath.Join(cache, esc(best)+"@"+modReq[best], strings.TrimPrefix(strings.TrimPrefix(path, best), "/"))
}

// ---- generator state ----------------------------------------------------------

type block []string // lines of a Lean term

func ind(b block) block {
	o := make(block, len(b))
	for i, l := range b {
		o[i] = "  " + l
	}
	return o
}

func one(b block) (string, bool) {
	if len(b) == 1 {
		return b[0], true
	}
	return "", false
}

func paren(s string) string {
	if s == "" {
		return s
	}
	simple := true
	depth := 0
	for i, r := range s {
		switch r {
		case '(', '[', '{', '⟨':
			depth++
		case ')', ']', '}', '⟩':
			depth--
		case ' ':
			if depth == 0 {
				simple = false
			}
		case '-':
			if i == 0 {
				simple = false
			}
		}
	}
	if simple {
		return s
	}
	return "(" + s + ")"
}

type transErr struct{ msg string }

type structInfo struct {
	name   string
	fields []string // "name : type"
	deps   []string
}

type tgen struct {
	mod     string
	done    map[string]*tfunc // by key rel|recv|name
	order   []*tfunc
	structs map[string]*structInfo
	sorder  []string
	active  map[string]bool // struct names being generated (cycle detection)
	consts  map[string]string
}

type oparam struct {
	key  string // sort key and comment text
	name string
	typ  string
	call bool
	// written: receiver state the function assigns; it is threaded through the function (reads see
	// the latest value) and its final value is an extra component of the result
	written bool
	obj     types.Object // stand-in variable for a written path
}

type tfunc struct {
	g         *tgen
	tg        transTarget
	pi        *pkgInfo
	fd        *ast.FuncDecl
	recvObj   types.Object
	names     map[types.Object]string
	vtype     map[string]string // Lean type of every named value
	nv        int
	ntmp      int
	nloop     int
	nk        int
	inLoop    int
	inClosure int
	closures  map[types.Object]*ast.FuncLit // function literals bound to a local by `f := func…`
	oparams   []*oparam
	okey      map[string]*oparam
	aux       []block
	dropped   map[string]bool
	used      []map[string]bool
	decl      []map[string]bool
	retType   string
	results   []types.Type
	state     []*oparam      // written receiver state, threaded
	named     []types.Object // named results
	params    []string       // "(p1 : T)" in order, Go params
	pnames    []string
	havoc     []havoc // slices handed to untranslated callees by the statement being translated
	elem      map[types.Object]elemSubst
	owned     map[types.Object]bool
	text      block
}

type elemSubst struct {
	xsrc string
	name string
}

func (t *tfunc) bad(n ast.Node, format string, a ...any) {
	what := ""
	if n != nil {
		what = strings.Join(strings.Fields(src(n)), " ")
		if len(what) > 90 {
			what = what[:90] + "…"
		}
		what = " at `" + what + "`"
	}
	panic(transErr{fmt.Sprintf(format, a...) + what})
}

func (t *tfunc) info() *types.Info { return t.pi.info }

// use records a free use of name at every open level (def being generated) in which it has not been
// bound yet
func (t *tfunc) use(name string) string {
	for i, u := range t.used {
		if !t.decl[i][name] {
			u[name] = true
		}
	}
	return name
}

func (t *tfunc) declare(name, typ string) {
	t.vtype[name] = typ
	for _, d := range t.decl {
		d[name] = true
	}
}

func (t *tfunc) tmp() string {
	t.ntmp++
	return fmt.Sprintf("t%d", t.ntmp)
}

// ---- types ----------------------------------------------------------------------

var leanKeywords = map[string]bool{"end": true, "exists": true, "at": true, "from": true, "then": true, "else": true, "if": true,
	"fun": true, "let": true, "in": true, "do": true, "match": true, "with": true, "have": true, "show": true, "by": true,
	"open": true, "where": true, "def": true, "theorem": true, "structure": true, "instance": true, "class": true, "import": true,
	"namespace": true, "section": true, "variable": true, "local": true, "private": true, "protected": true, "deriving": true,
	"Type": true, "Prop": true, "Sort": true, "forall": true, "mutual": true, "inductive": true, "macro": true, "syntax": true,
	"notation": true, "infix": true, "prefix": true, "postfix": true, "attribute": true, "export": true, "using": true, "calc": true,
	"return": true, "for": true, "unless": true, "try": true, "catch": true, "finally": true, "mut": true, "break": true, "continue": true,
	"nomatch": true, "nofun": true, "extends": true, "abbrev": true, "example": true, "axiom": true, "opaque": true, "universe": true,
	"set_option": true, "omit": true, "include": true, "partial": true, "noncomputable": true, "open_locale": true, "suffices": true, "obtain": true}

func fieldIdent(n string) string {
	if leanKeywords[n] || n == "_" {
		return "«" + n + "»"
	}
	return n
}

func isErrorType(t types.Type) bool {
	n, ok := t.(*types.Named)
	return ok && n.Obj().Pkg() == nil && n.Obj().Name() == "error"
}

func uwidth(b *types.Basic) int {
	switch b.Kind() {
	case types.Uint8:
		return 8
	case types.Uint16:
		return 16
	case types.Uint32:
		return 32
	}
	return 64
}

// structOK: struct types of the repo and of the whitelisted external packages are rendered as structures
func structOK(n *types.Named) bool {
	if n.Obj().Pkg() == nil {
		return false
	}
	p := n.Obj().Pkg().Path()
	if st, ok := n.Underlying().(*types.Struct); ok {
		// a struct that owns a channel, a lock, a wait group or a callback is a service object, not data
		for i := 0; i < st.NumFields(); i++ {
			switch ft := st.Field(i).Type().Underlying().(type) {
			case *types.Chan, *types.Signature:
				return false
			case *types.Struct:
				if fn, ok := types.Unalias(st.Field(i).Type()).(*types.Named); ok && fn.Obj().Pkg() != nil &&
					(fn.Obj().Pkg().Path() == "sync" || fn.Obj().Pkg().Path() == "sync/atomic") {
					return false
				}
				_ = ft
			}
		}
	}
	for _, tg := range transTargets {
		// the receiver type of a translated method is a service object, not data: an atom
		if tg.recv == n.Obj().Name() && (p == modPath+"/"+tg.rel || (tg.rel == "" && p == modPath)) {
			return false
		}
	}
	return p == modPath || strings.HasPrefix(p, modPath+"/") || transExtReal[p]
}

func (g *tgen) leanType(t types.Type) string {
	switch v := t.(type) {
	case nil:
		return "GoInt.Atom"
	case *types.Basic:
		switch {
		case v.Info()&types.IsBoolean != 0:
			return "Bool"
		case v.Info()&types.IsString != 0:
			return "String"
		case v.Info()&types.IsUnsigned != 0:
			return "Nat"
		case v.Info()&types.IsInteger != 0:
			return "Int"
		}
		return "GoInt.Atom"
	case *types.Alias:
		return g.leanType(types.Unalias(v))
	case *types.Named:
		if isErrorType(v) {
			return "Bool"
		}
		switch u := v.Underlying().(type) {
		case *types.Basic:
			return g.leanType(u)
		case *types.Struct:
			if structOK(v) {
				return g.structure(v, u)
			}
			return "GoInt.Atom"
		case *types.Slice, *types.Map:
			return g.leanType(u)
		}
		return "GoInt.Atom"
	case *types.Pointer:
		if n, ok := types.Unalias(v.Elem()).(*types.Named); ok {
			if _, ok := n.Underlying().(*types.Struct); ok && structOK(n) {
				s := g.leanType(n)
				if s != "GoInt.Atom" {
					return "Option " + s
				}
			}
		}
		return "GoInt.Atom"
	case *types.Slice:
		return "List " + paren(g.leanType(v.Elem()))
	case *types.Array:
		if b, ok := v.Elem().Underlying().(*types.Basic); ok && b.Kind() == types.Uint8 {
			return "GoInt.Atom" // hashes and the like
		}
		return "List " + paren(g.leanType(v.Elem()))
	case *types.Map:
		return "List (" + g.leanType(v.Key()) + " × " + g.leanType(v.Elem()) + ")"
	case *types.Tuple:
		if v.Len() == 0 {
			return "Unit"
		}
		var ps []string
		for i := 0; i < v.Len(); i++ {
			ps = append(ps, paren(g.leanType(v.At(i).Type())))
		}
		return strings.Join(ps, " × ")
	}
	return "GoInt.Atom"
}

func (g *tgen) structure(n *types.Named, st *types.Struct) string {
	pk := n.Obj().Pkg().Name()
	name := "T_" + pk + "_" + n.Obj().Name()
	if _, ok := g.structs[name]; ok {
		return name
	}
	if g.active[name] {
		return "GoInt.Atom" // recursive type: the inner occurrence is an atom
	}
	g.active[name] = true
	si := &structInfo{name: name}
	for i := 0; i < st.NumFields(); i++ {
		f := st.Field(i)
		ft := g.leanType(f.Type())
		si.fields = append(si.fields, fieldIdent(f.Name())+" : "+ft)
	}
	delete(g.active, name)
	g.structs[name] = si
	g.sorder = append(g.sorder, name) // post-order: dependencies first
	return name
}

// ---- driver -----------------------------------------------------------------------

func extractTrans() {
	// private loader state: whitelisted external packages are type-checked from the module cache
	savedPkg, savedStd := pkgCache, stdCache
	pkgCache, stdCache = map[string]*pkgInfo{}, map[string]*types.Package{}
	extRealOn = true
	defer func() { pkgCache, stdCache, extRealOn = savedPkg, savedStd, false }()

	var mods []string
	for _, tg := range transTargets {
		if !contains(mods, tg.mod) {
			mods = append(mods, tg.mod)
		}
	}
	all := map[string][]string{}
	for _, m := range mods {
		all[m] = extractTransModule(m)
	}
	facts["trans"] = all
	transTryAll()
}

func extractTransModule(mod string) []string {
	l := newLean(mod)
	// the generated module needs the prelude: rewrite the header
	l.sb.Reset()
	fmt.Fprintf(&l.sb, "/- GENERATED by /verif/extract (trans.go) from /repo's working tree on every run.  Do not edit.\n"+
		"Translation of Go functions into total Lean definitions; conventions and idealisations:\n"+
		"Neutrino/Model/GoInt.lean and DESIGN.md section 4 (signed overflow and run-time panics are not modelled,\n"+
		"`error` is a Bool, calls of untranslated functions are function parameters f<i>, reads of receiver state are\n"+
		"parameters r<i>). -/\nimport Neutrino.Model.GoInt\nnamespace Neutrino.Gen.%s\nopen Neutrino\n\n", mod)
	defer l.write()

	g := &tgen{mod: mod, done: map[string]*tfunc{}, structs: map[string]*structInfo{}, active: map[string]bool{}, consts: map[string]string{}}
	for _, tg := range transTargets {
		if tg.mod == mod {
			g.translate(tg)
		}
	}
	var cn []string
	for k := range g.consts {
		cn = append(cn, k)
	}
	sort.Strings(cn)
	for _, k := range cn {
		fmt.Fprintf(&l.sb, "def %s : %s\n", k, g.consts[k])
	}
	if len(cn) > 0 {
		l.sb.WriteString("\n")
	}
	for _, s := range g.sorder {
		si := g.structs[s]
		fmt.Fprintf(&l.sb, "structure %s where\n", si.name)
		for _, f := range si.fields {
			fmt.Fprintf(&l.sb, "  %s\n", f)
		}
		if len(si.fields) == 0 {
			fmt.Fprintf(&l.sb, "  mk ::\n")
		}
		fmt.Fprintf(&l.sb, "deriving DecidableEq, Repr, Inhabited\n\n")
	}
	var names []string
	for _, f := range g.order {
		for _, a := range f.aux {
			l.sb.WriteString(strings.Join(a, "\n") + "\n\n")
		}
		l.sb.WriteString(strings.Join(f.text, "\n") + "\n\n")
		names = append(names, f.tg.lean)
	}
	return names
}

func (g *tgen) find(rel, recv, name string) (transTarget, bool) {
	for _, tg := range transTargets {
		if tg.mod == g.mod && tg.rel == rel && tg.recv == recv && tg.name == name {
			return tg, true
		}
	}
	return transTarget{}, false
}

func (g *tgen) translate(tg transTarget) (res *tfunc) {
	key := tg.rel + "|" + tg.recv + "|" + tg.name
	if f, ok := g.done[key]; ok {
		return f
	}
	g.done[key] = nil
	qual := tg.name
	if tg.recv != "" {
		qual = "(" + tg.recv + ")." + tg.name
	}
	if tg.rel != "" {
		qual = tg.rel + ": " + qual
	}
	pi := loadPkg(tg.rel)
	if pi == nil || pi.pkg == nil {
		fail("package %q does not load (translated function %s)", tg.rel, qual)
		return nil
	}
	var fd *ast.FuncDecl
	var fnames []string
	for n := range pi.files {
		fnames = append(fnames, n)
	}
	sort.Strings(fnames)
	for _, n := range fnames {
		for _, d := range pi.files[n].Decls {
			if x, ok := d.(*ast.FuncDecl); ok && x.Name.Name == tg.name && recvTypeName(x) == tg.recv && x.Body != nil {
				fd = x
			}
		}
	}
	if fd == nil {
		fail("translated function %s: not found", qual)
		return nil
	}
	t := &tfunc{g: g, tg: tg, pi: pi, fd: fd, names: map[types.Object]string{}, vtype: map[string]string{},
		okey: map[string]*oparam{}, dropped: map[string]bool{}, elem: map[types.Object]elemSubst{}, owned: map[types.Object]bool{}}
	defer func() {
		if r := recover(); r != nil {
			te, ok := r.(transErr)
			if !ok {
				panic(r)
			}
			fail("translated function %s: %s", qual, te.msg)
			res = nil
		}
	}()
	t.run(qual)
	g.done[key] = t
	g.order = append(g.order, t)
	return t
}

func (t *tfunc) run(qual string) {
	fd, info := t.fd, t.info()
	if fd.Recv != nil && len(fd.Recv.List) == 1 && len(fd.Recv.List[0].Names) == 1 {
		t.recvObj = info.Defs[fd.Recv.List[0].Names[0]]
	}
	np := 0
	var ptypes []string
	for _, f := range fd.Type.Params.List {
		if len(f.Names) == 0 {
			t.bad(f, "unnamed parameter")
		}
		for _, n := range f.Names {
			np++
			name := fmt.Sprintf("p%d", np)
			o := info.Defs[n]
			if o == nil {
				t.bad(n, "parameter without type information")
			}
			lt := t.g.leanType(o.Type())
			if n.Name != "_" {
				t.names[o] = name
			}
			t.vtype[name] = lt
			t.params = append(t.params, fmt.Sprintf("(%s : %s)", name, lt))
			t.pnames = append(t.pnames, name)
			ptypes = append(ptypes, types.TypeString(o.Type(), func(p *types.Package) string { return p.Name() }))
		}
	}
	if fd.Type.Results != nil {
		for _, f := range fd.Type.Results.List {
			ty := typeOf(t.pi, f.Type)
			if ty == nil {
				ty = types.Typ[types.Invalid]
			}
			if len(f.Names) == 0 {
				t.results = append(t.results, ty)
			}
			for _, n := range f.Names {
				t.results = append(t.results, ty)
				t.named = append(t.named, info.Defs[n])
			}
		}
	}
	var rts []string
	for _, r := range t.results {
		rts = append(rts, paren(t.g.leanType(r)))
	}
	switch len(rts) {
	case 0:
		t.retType = "Unit"
	case 1:
		t.retType = t.g.leanType(t.results[0])
	default:
		t.retType = strings.Join(rts, " × ")
	}
	t.closures = map[types.Object]*ast.FuncLit{}
	ast.Inspect(fd.Body, func(n ast.Node) bool {
		if as, ok := n.(*ast.AssignStmt); ok && as.Tok == token.DEFINE && len(as.Lhs) == 1 && len(as.Rhs) == 1 {
			if fl, ok := ast.Unparen(as.Rhs[0]).(*ast.FuncLit); ok {
				if id, ok := as.Lhs[0].(*ast.Ident); ok && info.Defs[id] != nil {
					t.closures[info.Defs[id]] = fl
				}
			}
		}
		return true
	})
	// such a local must only ever be called
	ast.Inspect(fd.Body, func(n ast.Node) bool {
		switch v := n.(type) {
		case *ast.CallExpr:
			if id, ok := ast.Unparen(v.Fun).(*ast.Ident); ok && t.closures[info.Uses[id]] != nil {
				for _, a := range v.Args {
					ast.Inspect(a, func(x ast.Node) bool {
						if aid, ok := x.(*ast.Ident); ok && t.closures[info.Uses[aid]] != nil {
							t.bad(v, "closure used as a value")
						}
						return true
					})
				}
				return false
			}
		case *ast.Ident:
			if t.closures[info.Uses[v]] != nil {
				t.bad(v, "closure used as a value")
			}
		}
		return true
	})
	t.prepass()
	t.used = []map[string]bool{{}}
	t.decl = []map[string]bool{{}}
	c := &ctx{resT: t.retType, retT: t.retType, results: t.results, named: t.named, ret: func(v string) block { return block{v} }}
	body := t.stmts(fd.Body.List, c, func() block {
		if len(t.results) == 0 {
			return block{t.withState(nil)}
		}
		t.bad(fd.Name, "control reaches the end of a function with results")
		return nil
	})
	// named results start at their zero value
	for i := len(t.named) - 1; i >= 0; i-- {
		if o := t.named[i]; o != nil && o.Name() != "_" {
			body = append(block{fmt.Sprintf("let %s : %s := default", t.name(o), t.g.leanType(o.Type()))}, body...)
		}
	}
	var sig []string
	sig = append(sig, t.params...)
	for _, o := range t.oparams {
		sig = append(sig, fmt.Sprintf("(%s : %s)", o.name, o.typ))
	}
	var hdr block
	hdr = append(hdr, "/-- Go: `"+qual+"`("+strings.Join(ptypes, ", ")+")")
	for _, o := range t.oparams {
		kind := "read of"
		if o.call {
			kind = "call of"
		}
		if o.written {
			kind = "receiver state (read and written; its final value is the last part of the result)"
		}
		hdr = append(hdr, fmt.Sprintf("  %s = %s `%s`", o.name, kind, o.key))
	}
	if len(t.dropped) > 0 {
		var ds []string
		for d := range t.dropped {
			ds = append(ds, d)
		}
		sort.Strings(ds)
		hdr = append(hdr, "  dropped (logging / locking, results unused): "+strings.Join(ds, ", "))
	}
	hdr[len(hdr)-1] += " -/"
	t.text = append(hdr, fmt.Sprintf("def %s %s : %s :=", t.tg.lean, strings.Join(sig, " "), t.retType))
	if len(sig) == 0 {
		t.text[len(t.text)-1] = fmt.Sprintf("def %s : %s :=", t.tg.lean, t.retType)
	}
	t.text = append(t.text, ind(body)...)
}

func (t *tfunc) name(o types.Object) string {
	if n, ok := t.names[o]; ok {
		return n
	}
	t.nv++
	n := fmt.Sprintf("v%d", t.nv)
	t.names[o] = n
	return n
}

// ---- opaque reads and calls: found in a pre-pass, sorted, so that their order does not
// depend on the order of statements ---------------------------------------------------

var droppable = regexp.MustCompile(`^(Tracef|Debugf|Infof|Warnf|Errorf|Criticalf|Trace|Debug|Info|Warn|Error|Critical|Lock|Unlock|RLock|RUnlock)$`)

// recvPath gives ".a.b.c" when e is a chain of field selections rooted at the receiver
func (t *tfunc) recvPath(e ast.Expr) (string, bool) {
	e = ast.Unparen(e)
	switch v := e.(type) {
	case *ast.Ident:
		if t.recvObj != nil && t.info().Uses[v] == t.recvObj {
			return "", true
		}
	case *ast.SelectorExpr:
		if sel := t.info().Selections[v]; sel != nil && sel.Kind() == types.FieldVal {
			if p, ok := t.recvPath(v.X); ok {
				return p + "." + v.Sel.Name, true
			}
		}
	case *ast.StarExpr:
		return t.recvPath(v.X)
	}
	return "", false
}

func (t *tfunc) isErrCtor(call *ast.CallExpr) bool {
	se, ok := call.Fun.(*ast.SelectorExpr)
	if !ok {
		return false
	}
	id, ok := se.X.(*ast.Ident)
	if !ok {
		return false
	}
	pn, ok := t.info().Uses[id].(*types.PkgName)
	if !ok {
		return false
	}
	p := pn.Imported().Path()
	return (p == "fmt" && se.Sel.Name == "Errorf") || (p == "errors" && se.Sel.Name == "New")
}

func (t *tfunc) isDroppable(call *ast.CallExpr) (string, bool) {
	se, ok := call.Fun.(*ast.SelectorExpr)
	if !ok || !droppable.MatchString(se.Sel.Name) {
		return "", false
	}
	if t.isErrCtor(call) {
		return "", false
	}
	root := se.X
	for {
		if s, ok := root.(*ast.SelectorExpr); ok {
			root = s.X
			continue
		}
		break
	}
	x := "·"
	if p, ok := t.recvPath(se.X); ok {
		x = p
	} else if id, ok := root.(*ast.Ident); ok {
		if _, isVar := t.info().Uses[id].(*types.Var); isVar && t.info().Uses[id].Parent() == t.pi.pkg.Scope() {
			x = id.Name // package-level logger
		}
	}
	return x + "." + se.Sel.Name, true
}

// callee classifies a call: builtin / conversion / translated / opaque (with its key)
type calleeKind int

const (
	ckBuiltin calleeKind = iota
	ckConv
	ckTranslated
	ckOpaque
	ckErrCtor
	ckClosure
)

func (t *tfunc) callee(call *ast.CallExpr) (kind calleeKind, key string, recvArg ast.Expr, tg transTarget) {
	info := t.info()
	if tv, ok := info.Types[call.Fun]; ok && tv.IsType() {
		return ckConv, "", nil, tg
	}
	if t.isErrCtor(call) {
		return ckErrCtor, "", nil, tg
	}
	fun := ast.Unparen(call.Fun)
	switch f := fun.(type) {
	case *ast.Ident:
		if t.closures[info.Uses[f]] != nil {
			return ckClosure, "", nil, tg
		}
		switch o := info.Uses[f].(type) {
		case *types.Builtin:
			return ckBuiltin, f.Name, nil, tg
		case *types.Func:
			if o.Pkg() == t.pi.pkg {
				if tg, ok := t.g.find(t.pi.rel, "", f.Name); ok {
					return ckTranslated, "", nil, tg
				}
			}
			return ckOpaque, t.pi.name + "." + f.Name, nil, tg
		}
	case *ast.SelectorExpr:
		if sel := info.Selections[f]; sel != nil && sel.Kind() == types.MethodVal {
			fn, _ := sel.Obj().(*types.Func)
			rt := sel.Recv()
			if p, ok := rt.(*types.Pointer); ok {
				rt = p.Elem()
			}
			rname := types.TypeString(rt, func(p *types.Package) string { return p.Name() })
			if path, ok := t.recvPath(f.X); ok {
				if path == "" && fn != nil {
					if n, ok := types.Unalias(rt).(*types.Named); ok {
						if tg, ok := t.g.find(t.pi.rel, n.Obj().Name(), f.Sel.Name); ok {
							return ckTranslated, "", nil, tg
						}
					}
				}
				return ckOpaque, path + "." + f.Sel.Name + "()", nil, tg
			}
			return ckOpaque, "(" + rname + ")." + f.Sel.Name, f.X, tg
		}
		if id, ok := f.X.(*ast.Ident); ok {
			if pn, ok := info.Uses[id].(*types.PkgName); ok {
				return ckOpaque, pn.Imported().Name() + "." + f.Sel.Name, nil, tg
			}
		}
		// a func-typed field of the receiver
		if path, ok := t.recvPath(f); ok {
			return ckOpaque, path + "()", nil, tg
		}
	}
	t.bad(call, "call of an unsupported kind of callee")
	return
}

func (t *tfunc) prepass() {
	info := t.info()
	type item struct {
		key  string
		typ  string
		call bool
	}
	items := map[string]item{}
	// calls inside a return statement: nothing can look at their arguments afterwards
	inReturn := map[*ast.CallExpr]bool{}
	ast.Inspect(t.fd.Body, func(n ast.Node) bool {
		if r, ok := n.(*ast.ReturnStmt); ok {
			ast.Inspect(r, func(x ast.Node) bool {
				if c, ok := x.(*ast.CallExpr); ok {
					inReturn[c] = true
				}
				return true
			})
		}
		return true
	})
	var walk func(n ast.Node) bool
	walk = func(n ast.Node) bool {
		switch v := n.(type) {
		case *ast.ExprStmt:
			if c, ok := v.X.(*ast.CallExpr); ok {
				if _, ok := t.isDroppable(c); ok {
					return false
				}
			}
		case *ast.DeferStmt:
			if _, ok := t.isDroppable(v.Call); ok {
				return false
			}
		case *ast.CallExpr:
			kind, key, recvArg, tg := t.callee(v)
			switch kind {
			case ckBuiltin:
				// `append(xs, v)` where xs holds interface values (atoms) and v is a data value: the implicit
				// conversion to the interface is one more unconstrained function (data value → atom)
				if key == "append" && !v.Ellipsis.IsValid() {
					if st, ok := typeOf(t.pi, v).Underlying().(*types.Slice); ok && t.g.leanType(st.Elem()) == "GoInt.Atom" {
						for _, a := range v.Args[1:] {
							if at := t.g.leanType(typeOf(t.pi, a)); at != "GoInt.Atom" && !isNilIdent(info, a) {
								k := ifaceKey(at)
								items[k] = item{k, paren(at) + " → GoInt.Atom", true}
							}
						}
					}
				}
			case ckClosure:
				for _, a := range v.Args {
					ast.Inspect(a, walk)
				}
				return false
			case ckErrCtor:
				return false // arguments of fmt.Errorf do not matter
			case ckTranslated:
				if cf := t.g.translate(tg); cf != nil {
					for _, o := range cf.oparams {
						items[o.key] = item{o.key, o.typ, o.call}
					}
				} else {
					t.bad(v, "callee %s could not be translated", tg.name)
				}
				for _, a := range v.Args {
					ast.Inspect(a, walk)
				}
				return false
			case ckOpaque:
				sig, _ := typeOf(t.pi, v.Fun).(*types.Signature)
				if sig == nil {
					t.bad(v, "call of %s: callee has no type information (package not loaded)", key)
				}
				var ats []string
				if recvArg != nil {
					ats = append(ats, paren(t.g.leanType(typeOf(t.pi, recvArg))))
				}
				for i := 0; i < sig.Params().Len(); i++ {
					pt := sig.Params().At(i).Type()
					if sig.Variadic() && i == sig.Params().Len()-1 {
						t.bad(v, "call of %s: variadic callee", key)
					}
					ats = append(ats, paren(t.g.leanType(pt)))
				}
				rt := t.g.leanType(sig.Results())
				typ := rt
				if len(ats) > 0 {
					typ = strings.Join(ats, " → ") + " → " + paren(rt)
				}
				items[key] = item{key, typ, true}
				// a slice / map handed to an untranslated callee may be written by it: what it holds
				// afterwards is one more (unconstrained) function of the same arguments
				for i, a := range v.Args {
					if t.refArg(a) && !inReturn[v] {
						hk := fmt.Sprintf("%s ⇒ contents of argument %d afterwards", key, i+1)
						ht := paren(t.g.leanType(typeOf(t.pi, a)))
						if len(ats) > 0 {
							ht = strings.Join(ats, " → ") + " → " + ht
						}
						items[hk] = item{hk, ht, true}
					}
				}
				if recvArg != nil {
					ast.Inspect(recvArg, walk)
				}
				for _, a := range v.Args {
					ast.Inspect(a, walk)
				}
				return false
			}
		case *ast.SelectorExpr:
			if path, ok := t.recvPath(v); ok && path != "" {
				if sel := info.Selections[v]; sel != nil && sel.Kind() == types.FieldVal {
					items[path] = item{path, t.g.leanType(typeOf(t.pi, v)), false}
					return false
				}
			}
		case *ast.BinaryExpr:
			// `b.syncPeer == nil` on receiver state of an opaque type: a Bool read of its own
			if v.Op == token.EQL || v.Op == token.NEQ {
				for _, pair := range [][2]ast.Expr{{v.X, v.Y}, {v.Y, v.X}} {
					if isNilIdent(info, pair[1]) {
						if path, ok := t.recvPath(pair[0]); ok && path != "" && t.g.leanType(typeOf(t.pi, pair[0])) == "GoInt.Atom" {
							k := path + " == nil"
							items[k] = item{k, "Bool", false}
							return false
						}
					}
				}
			}
		case *ast.Ident:
			if t.recvObj != nil && info.Uses[v] == t.recvObj {
				items["(self)"] = item{"(self)", "GoInt.Atom", false} // the receiver handed on as a value
			}
		}
		return true
	}
	ast.Inspect(t.fd.Body, walk)
	written := map[string]bool{}
	ast.Inspect(t.fd.Body, func(n ast.Node) bool {
		var targets []ast.Expr
		switch v := n.(type) {
		case *ast.AssignStmt:
			targets = v.Lhs
		case *ast.IncDecStmt:
			targets = []ast.Expr{v.X}
		case *ast.ExprStmt:
			if c, ok := v.X.(*ast.CallExpr); ok && len(c.Args) == 2 && src(c.Fun) == "delete" {
				targets = []ast.Expr{c.Args[0]}
			}
		}
		for _, l := range targets {
			// strip index expressions: p.rank[k] = v writes p.rank
			for {
				if ix, ok := ast.Unparen(l).(*ast.IndexExpr); ok {
					l = ix.X
					continue
				}
				break
			}
			if path, ok := t.recvPath(l); ok && path != "" {
				if _, isSel := ast.Unparen(l).(*ast.SelectorExpr); isSel {
					if _, known := items[path]; known {
						written[path] = true
					} else {
						t.bad(l, "write to receiver state below a path that is read as a whole")
					}
				}
			}
		}
		return true
	})
	var keys []string
	for k := range items {
		keys = append(keys, k)
	}
	sort.Strings(keys)
	nr, nf := 0, 0
	// reads first, then calls
	for _, call := range []bool{false, true} {
		for _, k := range keys {
			it := items[k]
			if it.call != call {
				continue
			}
			o := &oparam{key: k, typ: it.typ, call: call}
			if call {
				nf++
				o.name = fmt.Sprintf("f%d", nf)
			} else {
				nr++
				o.name = fmt.Sprintf("r%d", nr)
			}
			if written[k] {
				o.written = true
				o.obj = types.NewVar(token.NoPos, nil, o.name, types.Typ[types.Invalid])
				t.names[o.obj] = o.name
				t.state = append(t.state, o)
			}
			t.oparams = append(t.oparams, o)
			t.okey[k] = o
			t.vtype[o.name] = o.typ
		}
	}
	if len(t.state) > 0 {
		// the final values of the written receiver state are appended to the result
		ts := []string{}
		if len(t.results) > 0 {
			ts = append(ts, t.retType)
		}
		for _, o := range t.state {
			ts = append(ts, o.typ)
		}
		t.retType = tupleType(ts)
	}
}

// ifaceKey: key of the opaque parameter standing for "data value of Lean type at, converted to an interface"
func ifaceKey(at string) string { return "interface value of (" + at + ")" }

// withState appends the current values of the written receiver state to a result value
func (t *tfunc) withState(vals []string) string {
	for _, o := range t.state {
		vals = append(vals, t.use(o.name))
	}
	return tupleOf(vals)
}

// ---- constants ------------------------------------------------------------------------

func constLit(v constant.Value) (string, bool) {
	switch v.Kind() {
	case constant.Bool:
		return lbool(constant.BoolVal(v)), true
	case constant.String:
		return fmt.Sprintf("%q", constant.StringVal(v)), true
	case constant.Int:
		s := v.ExactString()
		if strings.HasPrefix(s, "-") {
			return "(" + s + ")", true
		}
		return s, true
	}
	return "", false
}

var _ = token.ADD

type havoc struct {
	arg  ast.Expr
	term string // the callee's havoc function applied to the call's arguments
}

// refArg: a slice- or map-typed local variable used as a call argument
func (t *tfunc) refArg(a ast.Expr) bool {
	ty := typeOf(t.pi, a)
	if ty == nil {
		return false
	}
	switch ty.Underlying().(type) {
	case *types.Slice, *types.Map:
	default:
		return false
	}
	id, ok := ast.Unparen(a).(*ast.Ident)
	if !ok {
		return false
	}
	v, ok := t.info().Uses[id].(*types.Var)
	return ok && v.Parent() != t.pi.pkg.Scope()
}
