package main

import (
	"go/ast"
	"go/token"
	"strconv"
	"strings"
)

func init() { extractors = append(extractors, extractDispatcher) }

// constExpr finds the value expression of a package-level const.
func constExpr(f *ast.File, name string) ast.Expr {
	if f == nil {
		return nil
	}
	for _, d := range f.Decls {
		gd, ok := d.(*ast.GenDecl)
		if !ok || gd.Tok != token.CONST {
			continue
		}
		for _, s := range gd.Specs {
			vs := s.(*ast.ValueSpec)
			for i, n := range vs.Names {
				if n.Name == name && i < len(vs.Values) {
					return vs.Values[i]
				}
			}
		}
	}
	return nil
}

// seconds evaluates `N * time.Second` / `time.Second * N` / `time.Second`.
func seconds(e ast.Expr) (int, bool) {
	switch v := e.(type) {
	case *ast.SelectorExpr:
		if src(v) == "time.Second" {
			return 1, true
		}
	case *ast.BinaryExpr:
		if v.Op != token.MUL {
			return 0, false
		}
		l, r := src(v.X), src(v.Y)
		if l == "time.Second" {
			n, err := strconv.Atoi(r)
			return n, err == nil
		}
		if r == "time.Second" {
			n, err := strconv.Atoi(l)
			return n, err == nil
		}
	}
	return 0, false
}

// extractDispatcher records the constants the dispatcher model is
// parameterised by and a few syntactic facts about workDispatcher that the
// C12 proofs rely on.
func extractDispatcher() {
	l := newLean("Dispatcher")
	defer l.write()
	wmf := parse("query/workmanager.go")
	inf := parse("query/interface.go")
	prf := parse("query/peer_rank.go")
	shape := map[string]any{}

	sec := func(f *ast.File, file, name string) {
		e := constExpr(f, name)
		if e == nil {
			fail("%s: const %s", file, name)
			l.def(name+"Sec", "Nat", "0", "MISSING")
			return
		}
		n, ok := seconds(e)
		if !ok {
			fail("%s: const %s is not a whole number of seconds: %s", file, name, src(e))
		}
		l.def(name+"Sec", "Nat", strconv.Itoa(n), "query."+name+" in seconds ("+src(e)+")")
		shape[name+"Sec"] = n
	}
	num := func(f *ast.File, file, name string) {
		e := constExpr(f, name)
		if e == nil {
			fail("%s: const %s", file, name)
			l.def(name, "Nat", "0", "MISSING")
			return
		}
		n, err := strconv.Atoi(src(e))
		if err != nil {
			fail("%s: const %s is not a literal: %s", file, name, src(e))
		}
		l.def(name, "Nat", strconv.Itoa(n), "query."+name)
		shape[name] = n
	}
	sec(wmf, "query/workmanager.go", "minQueryTimeout")
	sec(wmf, "query/workmanager.go", "maxQueryTimeout")
	num(inf, "query/interface.go", "defaultNumRetries")
	num(prf, "query/peer_rank.go", "bestScore")
	num(prf, "query/peer_rank.go", "defaultScore")
	num(prf, "query/peer_rank.go", "worstScore")

	// Syntactic facts about workDispatcher: every send on a batch's error
	// channel is followed, in the same block, by a delete from
	// currentBatches (or happens in the exit defer / in Query after quit);
	// the error channel has capacity 1; a re-queued job is the same job
	// object (heap.Push(work, result.job)).
	fd := funcDecl(wmf, "peerWorkManager", "workDispatcher")
	sends, paired, deferSends, requeueSame, heapPushes := 0, 0, 0, false, 0
	if fd == nil {
		fail("query/workmanager.go: method peerWorkManager.workDispatcher")
	} else {
		inDefer := map[ast.Node]bool{}
		ast.Inspect(fd.Body, func(n ast.Node) bool {
			if ds, ok := n.(*ast.DeferStmt); ok {
				ast.Inspect(ds, func(m ast.Node) bool {
					if m != nil {
						inDefer[m] = true
					}
					return true
				})
			}
			return true
		})
		ast.Inspect(fd.Body, func(n ast.Node) bool {
			blk, ok := n.(*ast.BlockStmt)
			var list []ast.Stmt
			if ok {
				list = blk.List
			} else if cc, ok := n.(*ast.CaseClause); ok {
				list = cc.Body
			} else if cc, ok := n.(*ast.CommClause); ok {
				list = cc.Body
			} else {
				return true
			}
			for i, st := range list {
				ss, ok := st.(*ast.SendStmt)
				if !ok || !strings.HasSuffix(src(ss.Chan), ".errChan") {
					continue
				}
				if inDefer[ss] {
					deferSends++
					continue
				}
				sends++
				for _, later := range list[i+1:] {
					if es, ok := later.(*ast.ExprStmt); ok {
						if c, ok := es.X.(*ast.CallExpr); ok && src(c.Fun) == "delete" &&
							len(c.Args) == 2 && src(c.Args[0]) == "currentBatches" {
							paired++
							break
						}
					}
				}
			}
			return true
		})
		for _, c := range calls(fd.Body) {
			if c.name == "heap.Push" && len(c.args) == 2 {
				heapPushes++
				if c.args[1] == "result.job" {
					requeueSame = true
				}
			}
		}
	}
	l.def("verdictSends", "Nat", strconv.Itoa(sends), "sends on a batch errChan in the dispatcher loop (outside the exit defer)")
	l.def("verdictSendsFollowedByDelete", "Nat", strconv.Itoa(paired), "of those, how many are followed in the same block by delete(currentBatches, …)")
	l.def("shutdownSendsInDefer", "Nat", strconv.Itoa(deferSends), "sends on errChan inside the dispatcher's exit defer")
	l.def("requeueSameJob", "Bool", lbool(requeueSame), "a failed job is pushed back as the same object: heap.Push(work, result.job)")
	l.def("heapPushes", "Nat", strconv.Itoa(heapPushes), "heap.Push calls in workDispatcher (new batch + re-queue)")

	// Query: errChan := make(chan error, 1)
	capOne := false
	if q := funcDecl(wmf, "peerWorkManager", "Query"); q != nil {
		for _, c := range calls(q.Body) {
			if c.name == "make" && len(c.args) == 2 && c.args[0] == "chan error" && c.args[1] == "1" {
				capOne = true
			}
		}
	} else {
		fail("query/workmanager.go: method peerWorkManager.Query")
	}
	l.def("errChanCapOne", "Bool", lbool(capOne), "Query creates the batch's result channel with capacity 1")

	// workQueue.Less compares Index() with <
	lessIdx := false
	if wq := parse("query/workqueue.go"); wq != nil {
		if fdl := funcDecl(wq, "workQueue", "Less"); fdl != nil {
			s := strings.Join(strings.Fields(src(fdl.Body)), " ")
			lessIdx = strings.Contains(s, "w.tasks[i].Index() < w.tasks[j].Index()")
		} else {
			fail("query/workqueue.go: method workQueue.Less")
		}
	}
	l.def("queueOrderedByIndex", "Bool", lbool(lessIdx), "workQueue.Less is Index() < Index()")

	// peerRanking.Order sorts ascending by score
	asc := false
	if fdo := funcDecl(prf, "peerRanking", "Order"); fdo != nil {
		s := strings.Join(strings.Fields(src(fdo.Body)), " ")
		asc = strings.Contains(s, "return score1 < score2")
	} else {
		fail("query/peer_rank.go: method peerRanking.Order")
	}
	l.def("orderAscendingScore", "Bool", lbool(asc), "peerRanking.Order sorts by score, lower first")

	// The job offer: every select that sends on a worker's NewJob() channel
	// (directly, or through a local that holds it), anywhere in
	// workmanager.go, and how many of them have a default arm.  With no
	// default the dispatcher stays with the worker it is offering the job to
	// until that worker takes it, exits, or the work manager quits.
	offers, offersDefault := 0, 0
	if wmf != nil {
		jobChans := map[string]bool{}
		isNewJob := func(e ast.Expr) bool {
			c, ok := e.(*ast.CallExpr)
			if !ok {
				return false
			}
			sel, ok := c.Fun.(*ast.SelectorExpr)
			return ok && sel.Sel.Name == "NewJob" && len(c.Args) == 0
		}
		ast.Inspect(wmf, func(n ast.Node) bool {
			if as, ok := n.(*ast.AssignStmt); ok && len(as.Lhs) == len(as.Rhs) {
				for i, r := range as.Rhs {
					if id, ok := as.Lhs[i].(*ast.Ident); ok && isNewJob(r) {
						jobChans[id.Name] = true
					}
				}
			}
			return true
		})
		ast.Inspect(wmf, func(n ast.Node) bool {
			sel, ok := n.(*ast.SelectStmt)
			if !ok {
				return true
			}
			offer, dflt := false, false
			for _, c := range sel.Body.List {
				cc := c.(*ast.CommClause)
				if cc.Comm == nil {
					dflt = true
					continue
				}
				if ss, ok := cc.Comm.(*ast.SendStmt); ok {
					if id, ok := ss.Chan.(*ast.Ident); isNewJob(ss.Chan) || (ok && jobChans[id.Name]) {
						offer = true
					}
				}
			}
			if offer {
				offers++
				if dflt {
					offersDefault++
				}
			}
			return true
		})
	}
	if offers == 0 {
		fail("query/workmanager.go: no select sends a job on a worker's NewJob() channel")
	}
	l.def("jobOfferSelects", "Nat", strconv.Itoa(offers), "selects in workmanager.go that send a job on a worker's NewJob() channel")
	l.def("jobOfferSelectsWithDefault", "Nat", strconv.Itoa(offersDefault), "of those, how many have a default arm (0: the offer blocks until the worker takes the job, exits, or quit)")
	shape["jobOfferSelects"], shape["jobOfferSelectsWithDefault"] = offers, offersDefault

	// The ranking never forgets an address: nothing in peer_rank.go removes
	// an entry from the score map — no delete(...) on it, no clear(...), and
	// the map field is only ever set where the ranking is constructed (a
	// composite literal), never re-assigned.
	removals := 0
	if prf != nil {
		ast.Inspect(prf, func(n ast.Node) bool {
			switch v := n.(type) {
			case *ast.CallExpr:
				if id, ok := v.Fun.(*ast.Ident); ok && (id.Name == "delete" || id.Name == "clear") && len(v.Args) >= 1 {
					removals++
				}
			case *ast.AssignStmt:
				for _, lh := range v.Lhs {
					// x.rank = …  (an index expression x.rank[k] = … only adds or updates)
					if se, ok := lh.(*ast.SelectorExpr); ok && se.Sel.Name == "rank" {
						removals++
					}
				}
			}
			return true
		})
	}
	l.def("rankRemovals", "Nat", strconv.Itoa(removals), "statements in peer_rank.go that can remove entries from the score map (delete / clear / re-assignment of the map)")
	shape["rankRemovals"] = removals

	shape["verdictSends"], shape["verdictSendsFollowedByDelete"] = sends, paired
	shape["shutdownSendsInDefer"], shape["requeueSameJob"] = deferSends, requeueSame
	shape["errChanCapOne"], shape["queueOrderedByIndex"], shape["orderAscendingScore"] = capOne, lessIdx, asc
	facts["dispatcher"] = shape
}
