package main

import (
	"go/ast"
	"go/token"
	"os"
	"sort"
	"strings"
)

// filterStoreFacts: two facts behind C05's database layer and cache theorems.
//
// fetchDecodesInTx: in filterdb.(*FilterStore).FetchFilter the stored bytes are
// decoded (gcs.FromNBytes, which copies) INSIDE the function literal handed to
// walletdb.View, every value read with .Get(...) inside that literal is bound to
// a variable declared in the literal (`:=`), and nothing is decoded after View
// returned: no byte of bbolt's memory map is looked at once the read transaction
// is closed.
//
// cachePutCallers / cachePutSites: the functions of the root package that put a
// filter into the memory cache (call putFilterToCache resp. FilterCache.Put).
func filterStoreFacts(l *leanFile, shape map[string]any) {
	f := parse("filterdb/db.go")
	ff := funcDecl(f, "FilterStore", "FetchFilter")
	if ff == nil {
		fail("filterdb/db.go: method FilterStore.FetchFilter")
		return
	}
	var lit *ast.FuncLit
	views := 0
	ast.Inspect(ff.Body, func(n ast.Node) bool {
		c, ok := n.(*ast.CallExpr)
		if !ok {
			return true
		}
		name := src(c.Fun)
		if name == "walletdb.View" || strings.HasSuffix(name, ".View") {
			views++
			for _, a := range c.Args {
				if fl, ok := a.(*ast.FuncLit); ok && lit == nil {
					lit = fl
				}
			}
		}
		return true
	})
	ok := lit != nil && views == 1
	decInside, decOutside, getEscapes, gets := 0, 0, 0, 0
	if lit != nil {
		ast.Inspect(ff.Body, func(n ast.Node) bool {
			switch v := n.(type) {
			case *ast.CallExpr:
				if strings.HasSuffix(src(v.Fun), "FromNBytes") || strings.HasSuffix(src(v.Fun), "FromBytes") {
					if v.Pos() >= lit.Pos() && v.End() <= lit.End() {
						decInside++
					} else {
						decOutside++
					}
				}
			case *ast.AssignStmt:
				for _, r := range v.Rhs {
					if c, isCall := r.(*ast.CallExpr); isCall && strings.HasSuffix(src(c.Fun), ".Get") {
						gets++
						inside := v.Pos() >= lit.Pos() && v.End() <= lit.End()
						if !(inside && v.Tok == token.DEFINE) {
							getEscapes++
						}
					}
				}
			}
			return true
		})
	}
	ok = ok && decInside == 1 && decOutside == 0 && gets >= 1 && getEscapes == 0
	l.def("fetchDecodesInTx", "Bool", lbool(ok),
		"filterdb.FetchFilter decodes (copies) the stored bytes inside the walletdb.View closure; no value read from the bucket outlives the closure")
	shape["fetchDecodesInTx"] = ok

	// who puts filters into the memory cache
	var callers, sites []string
	ents, err := os.ReadDir(repo)
	if err != nil {
		fail("cannot list %s: %v", repo, err)
		return
	}
	for _, e := range ents {
		n := e.Name()
		if e.IsDir() || !strings.HasSuffix(n, ".go") || strings.HasSuffix(n, "_test.go") || strings.Contains(n, "verif") {
			continue
		}
		gf := parse(n)
		if gf == nil {
			continue
		}
		for _, d := range gf.Decls {
			fd, isFn := d.(*ast.FuncDecl)
			if !isFn || fd.Body == nil {
				continue
			}
			who := fd.Name.Name
			if fd.Recv != nil && len(fd.Recv.List) == 1 {
				who = strings.TrimPrefix(src(fd.Recv.List[0].Type), "*") + "." + who
			}
			for _, c := range calls(fd.Body) {
				switch {
				case strings.HasSuffix(c.name, ".putFilterToCache"):
					callers = append(callers, who)
				case strings.HasSuffix(c.name, "FilterCache.Put"):
					sites = append(sites, who)
				}
			}
		}
	}
	sort.Strings(callers)
	sort.Strings(sites)
	l.def("cachePutCallers", "List String", lstrs(callers), "functions of the root package that call putFilterToCache")
	l.def("cachePutSites", "List String", lstrs(sites), "functions of the root package that call FilterCache.Put")
	shape["cachePutCallers"] = callers
	shape["cachePutSites"] = sites
	pkgStateFacts(l, shape)
}

// pkgStateFacts: the package-level variables of filterdb and headerfs that can hold
// state shared by every store opened in the process.  Named byte-string constants
// (`x = []byte("...")`) and error values (`fmt.Errorf` / `errors.New`) are not listed,
// neither are `var _ T = ...` assertions; everything else is, with its kind (map, pool,
// other).  C05_store_source_facts pins the list: a filter store's content depends on
// its own database and chain parameters only, nothing is memoised per process under
// a key other than the block hash.
func pkgStateFacts(l *leanFile, shape map[string]any) {
	var state []string
	for _, dir := range []string{"filterdb", "headerfs"} {
		ents, err := os.ReadDir(repo + "/" + dir)
		if err != nil {
			fail("cannot list %s/%s: %v", repo, dir, err)
			return
		}
		for _, e := range ents {
			n := e.Name()
			if e.IsDir() || !strings.HasSuffix(n, ".go") || strings.HasSuffix(n, "_test.go") || strings.Contains(n, "verif") {
				continue
			}
			gf := parse(dir + "/" + n)
			if gf == nil {
				continue
			}
			for _, d := range gf.Decls {
				gd, isGen := d.(*ast.GenDecl)
				if !isGen || gd.Tok != token.VAR {
					continue
				}
				for _, sp := range gd.Specs {
					vs, isVal := sp.(*ast.ValueSpec)
					if !isVal {
						continue
					}
					for i, id := range vs.Names {
						if id.Name == "_" {
							continue
						}
						var val ast.Expr
						if i < len(vs.Values) {
							val = vs.Values[i]
						}
						text := ""
						if vs.Type != nil {
							text += src(vs.Type) + " "
						}
						if val != nil {
							text += src(val)
						}
						if c, isCall := val.(*ast.CallExpr); isCall && vs.Type == nil {
							fn := src(c.Fun)
							if fn == "fmt.Errorf" || fn == "errors.New" {
								continue
							}
							if _, isArr := c.Fun.(*ast.ArrayType); isArr && fn == "[]byte" && len(c.Args) == 1 {
								if _, isLit := c.Args[0].(*ast.BasicLit); isLit {
									continue
								}
							}
						}
						kind := "other"
						switch {
						case strings.Contains(text, "map[") || strings.Contains(text, "sync.Map"):
							kind = "map"
						case strings.Contains(text, "sync.Pool"):
							kind = "pool"
						}
						state = append(state, dir+"."+id.Name+":"+kind)
					}
				}
			}
		}
	}
	sort.Strings(state)
	l.def("pkgLevelState", "List String", lstrs(state),
		"package-level variables of filterdb and headerfs other than named byte strings and error values, with their kind")
	shape["pkgLevelState"] = state
}
