package main

import (
	"go/ast"
	"go/token"
	"strings"
)

func init() { extractors = append(extractors, extractCFHeaders) }

// extractCFHeaders records the source facts the C03 proofs rely on
// (blockmanager.go): order of the two store rollbacks in rollBackToHeight; in
// writeCFHeadersMsg the PrevFilterHeader-vs-tip test precedes the store write
// and the notifications follow it; detectBadPeers returns right after its first
// phase when that found anyone (finding F12); the majority threshold passed to
// resolveFilterMismatchFromBlock; VerifyBasicBlockFilter decides who is bad there.
func extractCFHeaders() {
	l := newLean("CFHeaders")
	defer l.write()
	f := parse("blockmanager.go")
	nospace := func(s string) string { return strings.Join(strings.Fields(s), "") }
	firstCall := func(fd *ast.FuncDecl, name string) token.Pos {
		for _, c := range calls(fd.Body) {
			if c.name == name {
				return c.pos
			}
		}
		return token.NoPos
	}
	// an if statement whose condition (spaces removed) contains every given part
	// and whose body returns; its position
	ifReturning := func(fd *ast.FuncDecl, parts ...string) token.Pos {
		pos := token.NoPos
		ast.Inspect(fd.Body, func(n ast.Node) bool {
			is, ok := n.(*ast.IfStmt)
			if !ok || pos != token.NoPos {
				return true
			}
			c := nospace(src(is.Cond))
			for _, p := range parts {
				if !strings.Contains(c, p) {
					return true
				}
			}
			for _, st := range is.Body.List {
				if _, ok := st.(*ast.ReturnStmt); ok {
					pos = is.Pos()
				}
			}
			return true
		})
		return pos
	}
	shape := map[string]any{}

	// rollBackToHeight
	if fd := funcDecl(f, "blockManager", "rollBackToHeight"); fd == nil {
		fail("blockmanager.go: method blockManager.rollBackToHeight")
	} else {
		fp := firstCall(fd, "b.cfg.RegFilterHeaders.RollbackLastBlock")
		bp := firstCall(fd, "b.cfg.BlockHeaders.RollbackLastBlock")
		if fp == token.NoPos || bp == token.NoPos {
			fail("blockmanager.go: rollBackToHeight: calls RegFilterHeaders.RollbackLastBlock / BlockHeaders.RollbackLastBlock")
		}
		l.def("rollbackFilterFirst", "Bool", lbool(fp != token.NoPos && bp != token.NoPos && fp < bp),
			"rollBackToHeight rolls the filter-header store back before the block-header store")
		shape["rollbackFilterFirst"] = fp < bp
	}

	// writeCFHeadersMsg
	if fd := funcDecl(f, "blockManager", "writeCFHeadersMsg"); fd == nil {
		fail("blockmanager.go: method blockManager.writeCFHeadersMsg")
	} else {
		wp := firstCall(fd, "store.WriteHeaders")
		np := firstCall(fd, "b.onBlockConnected")
		cp := ifReturning(fd, "tip", "msg.PrevFilterHeader", "!=")
		if wp == token.NoPos || np == token.NoPos {
			fail("blockmanager.go: writeCFHeadersMsg: calls store.WriteHeaders / b.onBlockConnected")
		}
		l.def("writePrevCheckBeforeWrite", "Bool", lbool(cp != token.NoPos && wp != token.NoPos && cp < wp),
			"writeCFHeadersMsg returns an error when the tip differs from msg.PrevFilterHeader, before store.WriteHeaders")
		l.def("writeNotifyAfterWrite", "Bool", lbool(wp != token.NoPos && np != token.NoPos && wp < np),
			"the connect notifications follow the store write")
		shape["writePrevCheckBeforeWrite"] = cp != token.NoPos && cp < wp
		// the batch's blocks are resolved through the stop hash of the message
		byStop := false
		for _, c := range calls(fd.Body) {
			if strings.HasSuffix(c.name, ".FetchHeaderAncestors") && len(c.args) == 2 &&
				nospace(c.args[1]) == "&msg.StopHash" {
				byStop = true
			}
		}
		l.def("writeResolvesBlocksByStopHash", "Bool", lbool(byStop),
			"writeCFHeadersMsg finds the blocks of a batch with FetchHeaderAncestors(n-1, &msg.StopHash): a batch for blocks no longer on the chain is not written")
		shape["writeResolvesBlocksByStopHash"] = byStop
		shape["writeNotifyAfterWrite"] = wp < np
	}

	// detectBadPeers
	if fd := funcDecl(f, "blockManager", "detectBadPeers"); fd == nil {
		fail("blockmanager.go: method blockManager.detectBadPeers")
	} else {
		gp := firstCall(fd, "b.cfg.GetBlock")
		ep := ifReturning(fd, "len(badPeers)!=0")
		if gp == token.NoPos {
			fail("blockmanager.go: detectBadPeers: call b.cfg.GetBlock")
		}
		l.def("detectEarlyReturn", "Bool", lbool(ep != token.NoPos && gp != token.NoPos && ep < gp),
			"detectBadPeers returns the peers found by its first phase (silent / self-inconsistent) before fetching the block (finding F12)")
		shape["detectEarlyReturn"] = ep != token.NoPos && ep < gp
		thr := ""
		for _, c := range calls(fd.Body) {
			if c.name == "resolveFilterMismatchFromBlock" && len(c.args) > 0 {
				thr = nospace(c.args[len(c.args)-1])
			}
		}
		if thr == "" {
			fail("blockmanager.go: detectBadPeers: call resolveFilterMismatchFromBlock(..., threshold)")
		}
		l.def("thresholdExpr", "String", "\""+thr+"\"", "the majority threshold handed to resolveFilterMismatchFromBlock")
		shape["thresholdExpr"] = thr
	}

	// getCFHeadersForAllPeers: how the length of an answer is tested
	if fd := funcDecl(f, "blockManager", "getCFHeadersForAllPeers"); fd == nil {
		fail("blockmanager.go: method blockManager.getCFHeadersForAllPeers")
	} else {
		test := ""
		ast.Inspect(fd.Body, func(n ast.Node) bool {
			be, ok := n.(*ast.BinaryExpr)
			if !ok {
				return true
			}
			x, y := nospace(src(be.X)), nospace(src(be.Y))
			if (x == "len(m.FilterHashes)" && y == "numHeaders") || (y == "len(m.FilterHashes)" && x == "numHeaders") {
				test += x + be.Op.String() + y
			}
			return true
		})
		if test == "" {
			fail("blockmanager.go: getCFHeadersForAllPeers: comparison of len(m.FilterHashes) with numHeaders")
		}
		l.def("responseLengthTest", "String", "\""+test+"\"",
			"how getCFHeadersForAllPeers compares the number of filter hashes of an answer with the number requested (must be equality: longer answers are dropped too)")
		shape["responseLengthTest"] = test
	}

	// resolveConflict: both sanity passes look at the complete checkpoint lists
	if fd := funcDecl(f, "blockManager", "resolveConflict"); fd == nil {
		fail("blockmanager.go: method blockManager.resolveConflict")
	} else {
		n, whole := 0, true
		for _, c := range calls(fd.Body) {
			if c.name == "checkCFCheckptSanity" {
				n++
				if len(c.args) != 2 || nospace(c.args[0]) != "checkpoints" {
					whole = false
				}
			}
		}
		l.def("resolveSanityOnWholeLists", "Bool", lbool(n == 2 && whole),
			"resolveConflict calls checkCFCheckptSanity twice, both times on the complete checkpoint lists")
		shape["resolveSanityOnWholeLists"] = n == 2 && whole
	}

	// resolveConflict: the hard-coded-checkpoint pass ranges over every peer's WHOLE list
	// (index 0 onwards): the innermost loop around chainsync.ValidateCFHeader is a
	// `range` statement over the value variable of a `range checkpoints` statement
	if fd := funcDecl(f, "blockManager", "resolveConflict"); fd != nil {
		whole := false
		ast.Inspect(fd.Body, func(n ast.Node) bool {
			outer, ok := n.(*ast.RangeStmt)
			if !ok || nospace(src(outer.X)) != "checkpoints" || outer.Value == nil {
				return true
			}
			val := nospace(src(outer.Value))
			for _, st := range outer.Body.List {
				inner, ok := st.(*ast.RangeStmt)
				if !ok || nospace(src(inner.X)) != val {
					continue
				}
				if strings.Contains(nospace(src(inner.Body)), "chainsync.ValidateCFHeader(") {
					whole = true
				}
			}
			return true
		})
		// and no other loop form around the call
		nFor := 0
		ast.Inspect(fd.Body, func(n ast.Node) bool {
			if fs, ok := n.(*ast.ForStmt); ok && strings.Contains(nospace(src(fs.Body)), "chainsync.ValidateCFHeader(") {
				nFor++
			}
			return true
		})
		l.def("hardScanWholeLists", "Bool", lbool(whole && nFor == 0),
			"resolveConflict validates every index (from 0) of every peer's checkpoint list against the hard-coded checkpoints: `for peer, cp := range checkpoints { for i, header := range cp { … chainsync.ValidateCFHeader …`")
		shape["hardScanWholeLists"] = whole && nFor == 0
	}

	// cfHandler: the checkpointed phase is entered whenever the block tip has reached the
	// first checkpoint interval (whatever the filter tip), and getCheckpointedCFHeaders is
	// called unconditionally after it
	if fd := funcDecl(f, "blockManager", "cfHandler"); fd == nil {
		fail("blockmanager.go: method blockManager.cfHandler")
	} else {
		cond := ""
		ast.Inspect(fd.Body, func(n ast.Node) bool {
			fs, ok := n.(*ast.ForStmt)
			if ok && fs.Cond != nil && strings.Contains(nospace(src(fs.Body)), "b.resolveConflict(") &&
				!strings.Contains(nospace(src(fs.Cond)), "b.resolveConflict(") {
				if cond == "" {
					cond = nospace(src(fs.Cond))
				}
			}
			return true
		})
		if cond == "" {
			fail("blockmanager.go: cfHandler: the loop around b.resolveConflict")
		}
		uncond := false
		for _, st := range fd.Body.List {
			if es, ok := st.(*ast.ExprStmt); ok && strings.HasPrefix(nospace(src(es.X)), "b.getCheckpointedCFHeaders(") {
				uncond = true
			}
		}
		l.def("checkpointedPhaseCond", "String", "\""+cond+"\"",
			"condition of cfHandler's loop around resolveConflict: the checkpointed phase is entered iff the block tip has reached the first checkpoint interval")
		shape["checkpointedPhaseCond"] = cond
		l.def("checkpointedFetchUnconditional", "Bool", lbool(uncond),
			"cfHandler calls getCheckpointedCFHeaders as a statement of its own body (not under a condition)")
		shape["checkpointedFetchUnconditional"] = uncond
	}

	// resolveFilterMismatchFromBlock
	if fd := funcDecl(f, "", "resolveFilterMismatchFromBlock"); fd == nil {
		fail("blockmanager.go: func resolveFilterMismatchFromBlock")
	} else {
		// numOpReturns, err := VerifyBasicBlockFilter(...) followed by if err != nil { badPeers[peerAddr] = ... }
		ok := false
		ast.Inspect(fd.Body, func(n ast.Node) bool {
			bs, isb := n.(*ast.BlockStmt)
			if !isb {
				return true
			}
			for i, st := range bs.List {
				as, isa := st.(*ast.AssignStmt)
				if !isa || len(as.Rhs) != 1 {
					continue
				}
				ce, isc := as.Rhs[0].(*ast.CallExpr)
				if !isc || src(ce.Fun) != "VerifyBasicBlockFilter" || i+1 >= len(bs.List) {
					continue
				}
				if is, isi := bs.List[i+1].(*ast.IfStmt); isi && nospace(src(is.Cond)) == "err!=nil" &&
					strings.Contains(nospace(src(is.Body)), "badPeers[peerAddr]=") {
					ok = true
				}
			}
			return true
		})
		l.def("verifyCalledInResolve", "Bool", lbool(ok),
			"resolveFilterMismatchFromBlock runs VerifyBasicBlockFilter on every served filter and marks the peer bad when it fails")
		shape["verifyCalledInResolve"] = ok
		thrCmp := strings.Contains(nospace(src(fd.Body)), "best<threshold") &&
			strings.Contains(nospace(src(fd.Body)), "numRemaining>=threshold")
		l.def("thresholdComparisons", "Bool", lbool(thrCmp),
			"the two uses of the threshold are `numRemaining >= threshold` and `best < threshold`")
		shape["thresholdComparisons"] = thrCmp
	}
	facts["cfheaders"] = shape
}
