package main

import (
	"go/ast"
	"go/token"
	"strings"
)

func init() { extractors = append(extractors, extractQuery) }

// stmtHas reports whether the printed statement (without nested function
// literals' bodies being excluded — they are short here) contains s.
func stmtHas(n ast.Node, s string) bool { return strings.Contains(src(n), s) }

// ifParts returns the text of an if statement's init+cond and of its body.
func ifParts(st *ast.IfStmt) (head, body string) {
	if st.Init != nil {
		head = src(st.Init) + "; "
	}
	head += src(st.Cond)
	return head, src(st.Body)
}

// bodyReturnsOnly reports whether the last statement of the block is
// `return <ident>` with the given identifier.
func lastReturnIs(b *ast.BlockStmt, ident string) bool {
	if len(b.List) == 0 {
		return false
	}
	r, ok := b.List[len(b.List)-1].(*ast.ReturnStmt)
	return ok && len(r.Results) == 1 && src(r.Results[0]) == ident
}

// bansSender reports whether the block calls s.BanPeer(<the handler's peer>,
// banman.InvalidBlock) — directly, or inside a same-file unexported helper it
// calls with `peer` as an argument (callsInlined) — and not in a defer.
func bansSender(f *ast.File, b *ast.BlockStmt) bool {
	passesPeer := false
	for _, c := range calls(b) {
		for _, a := range c.args {
			if a == "peer" && !strings.HasPrefix(c.name, "defer ") {
				passesPeer = true
			}
		}
	}
	for _, c := range callsInlined(f, b) {
		if c.name == "s.BanPeer" && len(c.args) == 2 && c.args[1] == "banman.InvalidBlock" && passesPeer {
			return true
		}
	}
	return false
}

// renameIdents renames, in a PRIVATE syntax tree, every identifier whose name is
// a key of m.  The facts below are stated in the vocabulary of the original
// source (response, foundBlock, curHeader, ...); locals are first mapped to that
// vocabulary by the ROLE they play, so that renaming a local is not a change.
func renameIdents(root ast.Node, m map[string]string) {
	ast.Inspect(root, func(n ast.Node) bool {
		if id, ok := n.(*ast.Ident); ok {
			if to, ok := m[id.Name]; ok && to != id.Name {
				id.Name = to
			}
		}
		return true
	})
}

func paramNames(ft *ast.FuncType) []string {
	var out []string
	if ft == nil || ft.Params == nil {
		return out
	}
	for _, fl := range ft.Params.List {
		if len(fl.Names) == 0 {
			out = append(out, "_")
		}
		for _, n := range fl.Names {
			out = append(out, n.Name)
		}
	}
	return out
}

func recvName(fd *ast.FuncDecl) string {
	if fd.Recv != nil && len(fd.Recv.List) == 1 && len(fd.Recv.List[0].Names) == 1 {
		return fd.Recv.List[0].Names[0].Name
	}
	return ""
}

// typeAssertLHS returns the first left-hand name of `x, ok := <param>.(<typ>)`.
func typeAssertLHS(st ast.Stmt, param, typ string) string {
	as, ok := st.(*ast.AssignStmt)
	if !ok || len(as.Rhs) != 1 || len(as.Lhs) == 0 {
		return ""
	}
	ta, ok := as.Rhs[0].(*ast.TypeAssertExpr)
	if !ok || src(ta.X) != param || src(ta.Type) != typ {
		return ""
	}
	return src(as.Lhs[0])
}

// responseHandlerOf finds the response handler of fd by its ROLE: the function
// literal registered as `HandleResp:` in the query.Request literal built in fd
// (resolved by the C18 callback finder on the type-checked package), located in
// the private syntax tree f by its position.
func responseHandlerOf(f *ast.File, fd *ast.FuncDecl) *ast.FuncLit {
	var want token.Position
	if pi := loadPkg(""); pi != nil {
		for _, ci := range findCallbacks(pi, func(b string) string { return b }) {
			if ci.lit != nil && ci.encl != nil && ci.encl.Name.Name == fd.Name.Name && ci.File == "query.go" &&
				recvName(ci.encl) != "" && ci.encl.Recv != nil && src(ci.encl.Recv.List[0].Type) == src(fd.Recv.List[0].Type) {
				want = fset.Position(ci.lit.Pos())
			}
		}
	}
	var found *ast.FuncLit
	if want.IsValid() {
		ast.Inspect(fd.Body, func(n ast.Node) bool {
			if fl, ok := n.(*ast.FuncLit); ok {
				p := fset.Position(fl.Pos())
				if p.Line == want.Line && p.Column == want.Column {
					found = fl
				}
			}
			return true
		})
	}
	if found != nil {
		return found
	}
	// syntactic fallback: HandleResp: <func literal | local bound to one>
	bound := map[string]*ast.FuncLit{}
	ast.Inspect(fd.Body, func(n ast.Node) bool {
		if as, ok := n.(*ast.AssignStmt); ok && len(as.Lhs) == len(as.Rhs) {
			for i, r := range as.Rhs {
				if fl, ok := r.(*ast.FuncLit); ok {
					bound[src(as.Lhs[i])] = fl
				}
			}
		}
		return true
	})
	ast.Inspect(fd.Body, func(n ast.Node) bool {
		if kv, ok := n.(*ast.KeyValueExpr); ok && src(kv.Key) == "HandleResp" {
			switch v := kv.Value.(type) {
			case *ast.FuncLit:
				found = v
			case *ast.Ident:
				found = bound[v.Name]
			}
		}
		return true
	})
	return found
}

// extractQuery records the order of the validation steps of GetBlock's
// response handler and of cfiltersQuery.handleResponse, which failure branches
// ban, where the cache / persistence calls sit, and the range constants of
// prepareCFiltersQuery.
func extractQuery() {
	l := newLean("Query")
	defer l.write()
	f := parse("query.go")
	shape := map[string]any{}

	// ---------------------------------------------------------------- GetBlock
	gb := funcDecl(f, "ChainService", "GetBlock")
	if gb == nil {
		fail("query.go: method ChainService.GetBlock")
	} else {
		handler := responseHandlerOf(f, gb)
		if handler != nil {
			// map the locals to the vocabulary of the facts, by role
			ren := map[string]string{}
			if r := recvName(gb); r != "" {
				ren[r] = "s"
			}
			if ps := paramNames(gb.Type); len(ps) >= 1 {
				ren[ps[0]] = "blockHash"
			}
			hp := paramNames(handler.Type)
			for i, to := range []string{"req", "resp", "peer"} {
				if i < len(hp) && hp[i] != "_" {
					ren[hp[i]] = to
				}
			}
			for _, st := range handler.Body.List {
				if len(hp) >= 2 {
					if x := typeAssertLHS(st, hp[1], "*wire.MsgBlock"); x != "" && x != "_" {
						ren[x] = "response"
					}
				}
				// the captured variable the accepted block is stored in
				if as, ok := st.(*ast.AssignStmt); ok && as.Tok == token.ASSIGN && len(as.Lhs) == 1 && len(as.Rhs) == 1 {
					if id, ok := as.Lhs[0].(*ast.Ident); ok {
						if _, isID := as.Rhs[0].(*ast.Ident); isID {
							ren[id.Name] = "foundBlock"
						}
					}
				}
			}
			renameIdents(gb, ren)
		}
		if handler == nil {
			fail("query.go: GetBlock: the function literal registered as HandleResp of its query.Request")
		} else {
			var steps []string
			flags := map[string]bool{}
			for _, st := range handler.Body.List {
				switch v := st.(type) {
				case *ast.AssignStmt:
					t := src(v)
					switch {
					case strings.Contains(t, "req.(*wire.MsgGetData)"):
						steps = append(steps, "reqtype")
					case strings.Contains(t, "resp.(*wire.MsgBlock)"):
						steps = append(steps, "type")
					case strings.HasPrefix(t, "foundBlock = "):
						steps = append(steps, "found")
					}
				case *ast.IfStmt:
					head, body := ifParts(v)
					name := ""
					switch {
					case strings.Contains(head, "BlockHash() != blockHash"):
						name = "hash"
					case strings.Contains(head, "blockchain.CheckBlockSanity"):
						name = "sanity"
					case strings.Contains(head, "blockchain.ValidateWitnessCommitment"):
						name = "witness"
					case strings.Contains(head, "!ok"):
						name = "" // guard of the preceding type assertion
						flags["typeGuardNoProgress"] = flags["typeGuardNoProgress"] || lastReturnIs(v.Body, "noProgress")
					}
					if name != "" {
						steps = append(steps, name)
						flags[name+"Bans"] = bansSender(f, v.Body)
						flags[name+"NoProgress"] = lastReturnIs(v.Body, "noProgress") && v.Else == nil
						flags[name+"SetsFound"] = strings.Contains(body, "foundBlock")
					}
				case *ast.ReturnStmt:
					t := src(v)
					if strings.Contains(t, "Finished:") && strings.Contains(t, "true") {
						steps = append(steps, "finish")
					}
				}
			}
			l.def("getBlockSteps", "List String", lstrs(steps), "GetBlock's response handler: top-level steps in source order")
			for _, k := range []string{"hashBans", "hashNoProgress", "hashSetsFound", "sanityBans", "sanityNoProgress", "sanitySetsFound",
				"witnessBans", "witnessNoProgress", "witnessSetsFound", "typeGuardNoProgress"} {
				l.def("getBlock_"+k, "Bool", lbool(flags[k]), "")
			}
			shape["getBlockSteps"] = steps
			shape["getBlockFlags"] = flags
		}
		// the cache is written after the `foundBlock == nil` test, and nowhere else
		var nilCheck, put token.Pos
		nput := 0
		ast.Inspect(gb.Body, func(n ast.Node) bool {
			switch v := n.(type) {
			case *ast.IfStmt:
				if src(v.Cond) == "foundBlock == nil" {
					if _, ok := v.Body.List[len(v.Body.List)-1].(*ast.ReturnStmt); ok {
						nilCheck = v.Pos()
					}
				}
			case *ast.CallExpr:
				if src(v.Fun) == "s.BlockCache.Put" {
					put = v.Pos()
					nput++
				}
			}
			return true
		})
		ok := nilCheck.IsValid() && put.IsValid() && nput == 1 && nilCheck < put
		l.def("getBlockCachePutAfterFoundCheck", "Bool", lbool(ok),
			"the only BlockCache.Put of GetBlock comes after `if foundBlock == nil { return … }`")
		shape["getBlockCachePutAfterFoundCheck"] = ok
	}

	extractCFilters(l, f, shape)
	facts["query"] = shape
}

// extractCFilters: cfiltersQuery.handleResponse and prepareCFiltersQuery.
func extractCFilters(l *leanFile, f *ast.File, shape map[string]any) {
	hr := funcDecl(f, "cfiltersQuery", "handleResponse")
	if hr == nil {
		fail("query.go: method cfiltersQuery.handleResponse")
		return
	}
	{
		ren := map[string]string{}
		q := recvName(hr)
		if q != "" {
			ren[q] = "q"
		}
		hp := paramNames(hr.Type)
		for i, to := range []string{"req", "resp"} {
			if i < len(hp) && hp[i] != "_" {
				ren[hp[i]] = to
			}
		}
		respVar, idxVar := "", ""
		for _, st := range hr.Body.List {
			if len(hp) >= 2 {
				if x := typeAssertLHS(st, hp[0], "*wire.MsgGetCFilters"); x != "" && x != "_" {
					ren[x] = "request"
				}
				if x := typeAssertLHS(st, hp[1], "*wire.MsgCFilter"); x != "" && x != "_" {
					ren[x], respVar = "response", x
				}
			}
			switch v := st.(type) {
			case *ast.AssignStmt:
				if len(v.Rhs) != 1 || len(v.Lhs) == 0 {
					continue
				}
				switch r := v.Rhs[0].(type) {
				case *ast.IndexExpr:
					if src(r.X) == q+".headerIndex" && respVar != "" && src(r.Index) == respVar+".BlockHash" {
						idxVar = src(v.Lhs[0])
						ren[idxVar] = "i"
					}
				case *ast.CallExpr:
					switch src(r.Fun) {
					case "gcs.FromNBytes":
						ren[src(v.Lhs[0])] = "filter"
					case "builder.MakeHeaderForFilter":
						ren[src(v.Lhs[0])] = "filterHeader"
					}
				}
			case *ast.DeclStmt:
				if gd, ok := v.Decl.(*ast.GenDecl); ok {
					for _, sp := range gd.Specs {
						vs, ok := sp.(*ast.ValueSpec)
						if !ok {
							continue
						}
						for i, n := range vs.Names {
							if i >= len(vs.Values) {
								continue
							}
							ix, ok := vs.Values[i].(*ast.IndexExpr)
							if !ok || src(ix.X) != q+".filterHeaders" || idxVar == "" {
								continue
							}
							switch strings.ReplaceAll(src(ix.Index), " ", "") {
							case idxVar:
								ren[n.Name] = "curHeader"
							case idxVar + "-1":
								ren[n.Name] = "prevHeader"
							}
						}
					}
				}
			}
		}
		renameIdents(hr, ren)
	}
	var steps []string
	guardsOK := true // every rejecting `if` is exactly { return noProgress }
	nguards := 0
	cur, prev, rehash := "", "", ""
	pending := "" // step whose guard `if` we expect next
	for _, st := range hr.Body.List {
		switch v := st.(type) {
		case *ast.AssignStmt:
			t := src(v)
			switch {
			case strings.Contains(t, "req.(*wire.MsgGetCFilters)"):
				steps, pending = append(steps, "reqtype"), "reqtype"
			case strings.Contains(t, "resp.(*wire.MsgCFilter)"):
				steps, pending = append(steps, "type"), "type"
			case strings.Contains(t, "q.headerIndex[response.BlockHash]"):
				steps, pending = append(steps, "index"), "index"
			case strings.Contains(t, "gcs.FromNBytes("):
				steps, pending = append(steps, "decode"), "decode"
			case strings.Contains(t, "builder.MakeHeaderForFilter("):
				steps, pending = append(steps, "rehash"), "rehash"
				if c, ok := v.Rhs[0].(*ast.CallExpr); ok {
					var a []string
					for _, x := range c.Args {
						a = append(a, src(x))
					}
					rehash = strings.Join(a, ", ")
				}
			case strings.Contains(t, "q.cs.putFilterToCache("):
				steps = append(steps, "cache")
			}
		case *ast.DeclStmt:
			if gd, ok := v.Decl.(*ast.GenDecl); ok {
				for _, sp := range gd.Specs {
					vs, ok := sp.(*ast.ValueSpec)
					if !ok {
						continue
					}
					for i, n := range vs.Names {
						if i < len(vs.Values) {
							switch n.Name {
							case "curHeader":
								cur = src(vs.Values[i])
							case "prevHeader":
								prev = src(vs.Values[i])
							}
						}
					}
				}
				if cur != "" || prev != "" {
					steps = append(steps, "headers")
				}
			}
		case *ast.IfStmt:
			head, body := ifParts(v)
			switch {
			case head == "!ok" || head == "err != nil":
				// guard of the step just before
				if pending == "" || !(len(v.Body.List) == 1 && lastReturnIs(v.Body, "noProgress")) {
					if !strings.Contains(body, "log.") { // the cache-put warning is not a guard
						guardsOK = false
					}
				} else {
					nguards++
				}
				pending = ""
			case head == "q.filterType != request.FilterType":
				steps = append(steps, "reqftype")
				guardsOK = guardsOK && len(v.Body.List) == 1 && lastReturnIs(v.Body, "noProgress")
				nguards++
			case head == "q.filterType != response.FilterType":
				steps = append(steps, "ftype")
				guardsOK = guardsOK && len(v.Body.List) == 1 && lastReturnIs(v.Body, "noProgress")
				nguards++
			case head == "filterHeader != curHeader":
				steps = append(steps, "compare")
				guardsOK = guardsOK && len(v.Body.List) == 1 && lastReturnIs(v.Body, "noProgress")
				nguards++
			case head == "response.BlockHash == q.targetHash":
				steps = append(steps, "target")
			case head == "q.cs.persistToDisk" && strings.Contains(body, "q.cs.filterBatchWriter.AddItem("):
				steps = append(steps, "persist")
			case strings.Contains(head, "len(q.headerIndex) != 0"):
				steps = append(steps, "more")
			}
		case *ast.ExprStmt:
			if strings.HasPrefix(src(v), "delete(q.headerIndex, response.BlockHash)") {
				steps = append(steps, "delete")
			}
		case *ast.ReturnStmt:
			if strings.Contains(src(v), "Finished:") {
				steps = append(steps, "finish")
			}
		}
	}
	l.def("cfSteps", "List String", lstrs(steps), "cfiltersQuery.handleResponse: top-level steps in source order")
	l.def("cfGuards", "Nat", itoa(nguards), "number of rejecting branches that are exactly `{ return noProgress }`")
	l.def("cfGuardsPure", "Bool", lbool(guardsOK), "every rejecting branch is exactly `{ return noProgress }` (no state change)")
	l.def("cfCurHeader", "String", quote(cur), "the committed header the recomputed one is compared with")
	l.def("cfPrevHeader", "String", quote(prev), "the previous header fed into the recomputation")
	l.def("cfRehashArgs", "String", quote(rehash), "arguments of builder.MakeHeaderForFilter")
	shape["cfSteps"], shape["cfGuards"], shape["cfGuardsPure"] = steps, nguards, guardsOK
	shape["cfCurHeader"], shape["cfPrevHeader"], shape["cfRehashArgs"] = cur, prev, rehash

	// prepareCFiltersQuery: its range arithmetic, the store requests and the index loop are no longer pinned as
	// statement texts: the function is TRANSLATED (trans.go -> Gen/TransQuery.lean) and Props/C05Trans.lean proves
	// the translation against the model (C05_trans_*), so the tie rests on what the code computes, not on its spelling.
	if pq := funcDecl(f, "ChainService", "prepareCFiltersQuery"); pq == nil {
		fail("query.go: method ChainService.prepareCFiltersQuery")
		return
	}

	// GetCFilter: order of the lookups
	gc := funcDecl(f, "ChainService", "GetCFilter")
	if gc == nil {
		fail("query.go: method ChainService.GetCFilter")
		return
	}
	var order []string
	for _, c := range calls(gc.Body) {
		switch c.name {
		case "s.getFilterFromCache":
			order = append(order, "cache")
		case "s.FilterDB.FetchFilter":
			order = append(order, "db")
		case "s.mtxCFilter.Lock":
			order = append(order, "lock")
		case "defer s.mtxCFilter.Unlock":
			order = append(order, "deferUnlock")
		case "s.prepareCFiltersQuery":
			order = append(order, "prepare")
		case "s.workManager.Query":
			order = append(order, "query")
		}
	}
	l.def("getCFilterOrder", "List String", lstrs(order), "GetCFilter: lookups in source order")
	shape["getCFilterOrder"] = order
	// the value returned after the query is filterQuery.targetFilter, guarded by a nil test
	body := src(gc.Body)
	guard := strings.Contains(body, "if filterQuery.targetFilter == nil {\n\t\treturn nil, ErrFilterFetchFailed") &&
		strings.Contains(body, "return filterQuery.targetFilter, nil")
	l.def("getCFilterReturnsTargetOrFails", "Bool", lbool(guard), "after the query GetCFilter returns targetFilter or ErrFilterFetchFailed")
	shape["getCFilterReturnsTargetOrFails"] = guard
	filterStoreFacts(l, shape)
}

func itoa(n int) string { return fmtInt(n) }

func fmtInt(n int) string {
	if n == 0 {
		return "0"
	}
	s := ""
	for n > 0 {
		s = string(rune('0'+n%10)) + s
		n /= 10
	}
	return s
}

func quote(s string) string {
	return "\"" + strings.ReplaceAll(strings.ReplaceAll(s, "\\", "\\\\"), "\"", "\\\"") + "\""
}
