package main

// C17: two regenerated facts that the reviewed discharge table rests on.
//
// (1) chanMakes — every `make(chan T[, cap])` of the shutdown-relevant files:
//     the function it is in, the name the channel gets there (a local
//     variable, or the struct field of a keyed composite literal), the struct
//     fields a local channel is stored in by the same function (`F: x` in a
//     composite literal), and its capacity in a canonical spelling.  A
//     discharge reason of the kind "the send cannot block: capacity >= number
//     of sends" is tied to the row of the channel it speaks about
//     (Model/ShutdownDischarge.lean `capDischarge`, theorem
//     `C17_capacity_checked`).
//
//     Canonical capacity: "0" when there is no capacity argument; the value
//     when the type checker folds the expression to a constant; otherwise the
//     expression with every local variable replaced by
//       - its defining expression when it is assigned exactly once,
//       - else the struct field it is stored in by this function (`«T.F»`),
//       - else its type (`‹T›`),
//     so that renaming a local changes nothing, while a capacity that is
//     computed differently does.
//
// (2) workerCallbacks — the functions registered as `HandleResp` of a
//     query.Request: they run synchronously inside the worker goroutine of
//     the peer that answers, so the Wait that has to be able to finish while
//     one of them is parked is the WORK MANAGER's, whichever struct the
//     function is a method of.  Blocking sites inside a callback literal are
//     attributed to "<Func>$func" / "<Func>$<var>" (the names the C18
//     extractor uses); `workerCallbackCallees` lists the repo functions a
//     callback calls directly.

import (
	"go/ast"
	"go/token"
	"go/types"
	"sort"
	"strings"
)

type chanMake struct {
	Fn    string   `json:"fn"`
	Name  string   `json:"name"`
	Field bool     `json:"field"`
	Flows []string `json:"flows"`
	Cap   string   `json:"cap"`
	File  string   `json:"file"`
	Line  int      `json:"line"`
}

// fieldNameOfVar: "pkg.Type.field" of a struct field object of a loaded repo package.
func fieldNameOfVar(v *types.Var) (string, bool) {
	if v == nil {
		return "", false
	}
	v = v.Origin()
	for _, p := range pkgCache {
		if p == nil {
			continue
		}
		if n, ok := p.fieldName[v]; ok {
			return n, true
		}
	}
	return "", false
}

func isMakeChan(pi *pkgInfo, e ast.Expr) (*ast.CallExpr, bool) {
	ce, ok := ast.Unparen(e).(*ast.CallExpr)
	if !ok || len(ce.Args) == 0 || len(ce.Args) > 2 {
		return nil, false
	}
	if id, ok := ce.Fun.(*ast.Ident); !ok || id.Name != "make" {
		return nil, false
	}
	if _, ok := ast.Unparen(ce.Args[0]).(*ast.ChanType); ok {
		return ce, true
	}
	if t := typeOf(pi, ce.Args[0]); t != nil {
		if _, ok := t.Underlying().(*types.Chan); ok {
			return ce, true
		}
	}
	return nil, false
}

// localVar: the object of an identifier that denotes a local variable or parameter.
func localVar(pi *pkgInfo, id *ast.Ident) *types.Var {
	if pi == nil || pi.info == nil {
		return nil
	}
	o := pi.info.ObjectOf(id)
	v, ok := o.(*types.Var)
	if !ok || v.IsField() || v.Pkg() == nil || v.Parent() == nil || v.Parent() == v.Pkg().Scope() {
		return nil
	}
	return v
}

type localFacts struct {
	nassign map[*types.Var]int      // assignments (definitions included), inc/dec, address-of
	def     map[*types.Var]ast.Expr // the right-hand side of a 1:1 definition/assignment
	flows   map[*types.Var][]string // struct fields the variable is stored in (`F: x`)
}

func localFactsOf(pi *pkgInfo, fd *ast.FuncDecl) *localFacts {
	lf := &localFacts{nassign: map[*types.Var]int{}, def: map[*types.Var]ast.Expr{}, flows: map[*types.Var][]string{}}
	note := func(lhs ast.Expr, rhs ast.Expr) {
		id, ok := ast.Unparen(lhs).(*ast.Ident)
		if !ok {
			return
		}
		if v := localVar(pi, id); v != nil {
			lf.nassign[v]++
			if rhs != nil {
				lf.def[v] = rhs
			} else {
				lf.nassign[v]++ // a value we cannot name: never substitute
			}
		}
	}
	ast.Inspect(fd.Body, func(n ast.Node) bool {
		switch v := n.(type) {
		case *ast.AssignStmt:
			for i, l := range v.Lhs {
				if len(v.Lhs) == len(v.Rhs) && v.Tok != token.ADD_ASSIGN && (v.Tok == token.DEFINE || v.Tok == token.ASSIGN) {
					note(l, v.Rhs[i])
				} else {
					note(l, nil)
				}
			}
		case *ast.ValueSpec:
			for i, id := range v.Names {
				if len(v.Values) == len(v.Names) {
					note(id, v.Values[i])
				} else {
					note(id, nil)
				}
			}
		case *ast.IncDecStmt:
			note(v.X, nil)
		case *ast.RangeStmt:
			if v.Key != nil {
				note(v.Key, nil)
			}
			if v.Value != nil {
				note(v.Value, nil)
			}
		case *ast.UnaryExpr:
			if v.Op == token.AND {
				note(v.X, nil)
			}
		case *ast.KeyValueExpr:
			key, ok := v.Key.(*ast.Ident)
			val, ok2 := ast.Unparen(v.Value).(*ast.Ident)
			if !ok || !ok2 || pi.info == nil {
				break
			}
			fv, _ := pi.info.ObjectOf(key).(*types.Var)
			if fv == nil || !fv.IsField() {
				break
			}
			if lv := localVar(pi, val); lv != nil {
				if fname, ok := fieldNameOfVar(fv); ok {
					lf.flows[lv] = append(lf.flows[lv], fname)
				}
			}
		}
		return true
	})
	// parameters are assigned by the caller
	if fd.Type.Params != nil {
		for _, f := range fd.Type.Params.List {
			for _, id := range f.Names {
				if v := localVar(pi, id); v != nil {
					lf.nassign[v] += 2
				}
			}
		}
	}
	return lf
}

func typeText(t types.Type) string {
	if t == nil {
		return "?"
	}
	return types.TypeString(t, func(p *types.Package) string {
		if p.Path() == modPath {
			return ""
		}
		return p.Name()
	})
}

// canonCap spells a capacity expression as described at the top of this file.
func canonCap(pi *pkgInfo, lf *localFacts, e ast.Expr, depth int) string {
	e = ast.Unparen(e)
	if pi.info != nil {
		if tv, ok := pi.info.Types[e]; ok && tv.Value != nil {
			return tv.Value.ExactString()
		}
	}
	switch v := e.(type) {
	case *ast.BasicLit:
		return v.Value
	case *ast.Ident:
		lv := localVar(pi, v)
		if lv == nil {
			return v.Name
		}
		if d, ok := lf.def[lv]; ok && lf.nassign[lv] == 1 && depth < 4 {
			return canonCap(pi, lf, d, depth+1)
		}
		if fl := lf.flows[lv]; len(fl) > 0 {
			s := append([]string(nil), fl...)
			sort.Strings(s)
			return "«" + s[0] + "»"
		}
		return "‹" + typeText(lv.Type()) + "›"
	case *ast.SelectorExpr:
		if n, ok := fieldOf(pi, v); ok {
			return "«" + n + "»"
		}
		return canonCap(pi, lf, v.X, depth) + "." + v.Sel.Name
	case *ast.CallExpr:
		var as []string
		for _, a := range v.Args {
			as = append(as, canonCap(pi, lf, a, depth))
		}
		return canonCap(pi, lf, v.Fun, depth) + "(" + strings.Join(as, ", ") + ")"
	case *ast.BinaryExpr:
		return canonCap(pi, lf, v.X, depth) + " " + v.Op.String() + " " + canonCap(pi, lf, v.Y, depth)
	}
	return strings.Join(strings.Fields(src(e)), " ")
}

func chanMakesOfFunc(pi *pkgInfo, rel string, fd *ast.FuncDecl) []chanMake {
	var out []chanMake
	fn := funcName(pi, fd)
	lf := localFactsOf(pi, fd)
	seen := map[*ast.CallExpr]bool{}
	add := func(ce *ast.CallExpr, name string, field bool, flows []string) {
		seen[ce] = true
		c := "0"
		if len(ce.Args) == 2 {
			c = canonCap(pi, lf, ce.Args[1], 0)
		}
		fl := append([]string{}, flows...)
		sort.Strings(fl)
		out = append(out, chanMake{Fn: fn, Name: name, Field: field, Flows: fl, Cap: c, File: rel, Line: fset.Position(ce.Pos()).Line})
	}
	target := func(lhs ast.Expr) (string, bool, []string) {
		if id, ok := ast.Unparen(lhs).(*ast.Ident); ok {
			if lv := localVar(pi, id); lv != nil {
				return id.Name, false, lf.flows[lv]
			}
			return id.Name, false, nil
		}
		if n, ok := fieldOf(pi, lhs); ok {
			return n, true, nil
		}
		return chanName(pi, lhs), false, nil
	}
	ast.Inspect(fd.Body, func(n ast.Node) bool {
		switch v := n.(type) {
		case *ast.AssignStmt:
			if len(v.Lhs) != len(v.Rhs) {
				break
			}
			for i, r := range v.Rhs {
				if ce, ok := isMakeChan(pi, r); ok {
					name, field, flows := target(v.Lhs[i])
					add(ce, name, field, flows)
				}
			}
		case *ast.ValueSpec:
			if len(v.Names) != len(v.Values) {
				break
			}
			for i, r := range v.Values {
				if ce, ok := isMakeChan(pi, r); ok {
					name, field, flows := target(v.Names[i])
					add(ce, name, field, flows)
				}
			}
		case *ast.KeyValueExpr:
			ce, ok := isMakeChan(pi, v.Value)
			if !ok {
				break
			}
			name, field := "?:"+strings.Join(strings.Fields(src(v.Key)), " "), false
			if key, ok := v.Key.(*ast.Ident); ok && pi.info != nil {
				if fv, _ := pi.info.ObjectOf(key).(*types.Var); fv != nil && fv.IsField() {
					if fname, ok := fieldNameOfVar(fv); ok {
						name, field = fname, true
					}
				}
			}
			add(ce, name, field, nil)
		}
		return true
	})
	// a channel created in any other position (argument, return value, ...) is listed without a name
	ast.Inspect(fd.Body, func(n ast.Node) bool {
		if e, ok := n.(ast.Expr); ok {
			if ce, ok := isMakeChan(pi, e); ok && !seen[ce] {
				add(ce, "?", false, nil)
			}
		}
		return true
	})
	sort.SliceStable(out, func(i, j int) bool { return out[i].Line < out[j].Line })
	return out
}

type cbCallee struct {
	Callback string `json:"callback"`
	Callee   string `json:"callee"`
}

// workerCallbacksOf: the HandleResp callbacks registered in package pi, and the repo functions they call directly.
func workerCallbacksOf(pi *pkgInfo) ([]callbackInfo, []cbCallee) {
	cbs := findCallbacks(pi, func(b string) string {
		if pi.rel == "" {
			return b
		}
		return pi.rel + "/" + b
	})
	prefix := ""
	if pi.rel != "" {
		prefix = pi.name + "."
	}
	decl := map[string]*ast.FuncDecl{}
	for _, f := range pi.files {
		for _, d := range f.Decls {
			if fd, ok := d.(*ast.FuncDecl); ok && fd.Body != nil {
				decl[funcName(pi, fd)] = fd
			}
		}
	}
	var callees []cbCallee
	seen := map[cbCallee]bool{}
	for i := range cbs {
		ci := &cbs[i]
		var body ast.Node
		if ci.lit != nil {
			body = ci.lit.Body
		} else if fd := decl[prefix+ci.Fn]; fd != nil {
			body = fd.Body
		}
		ci.Fn = prefix + strings.TrimPrefix(ci.Fn, prefix)
		if body == nil {
			continue
		}
		ast.Inspect(body, func(n ast.Node) bool {
			if ce, ok := n.(*ast.CallExpr); ok {
				if c := calleeName(pi, ce); c != "" {
					k := cbCallee{ci.Fn, c}
					if !seen[k] {
						seen[k] = true
						callees = append(callees, k)
					}
				}
			}
			return true
		})
	}
	return cbs, callees
}
