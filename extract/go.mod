module verifextract

go 1.23
