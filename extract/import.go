package main

import (
	"go/ast"
	"go/token"
	"strconv"
	"strings"
)

func init() { extractors = append(extractors, extractImport) }

// extractImport records, from chainimport/headers_import.go:
//   - the arguments processBatch passes to the two iterators' ReadBatch (the
//     model transcribes "batchStart" — a target HEIGHT — being passed as the
//     start INDEX; a repair that translates heights to indices changes this fact),
//   - what appendNewHeaders initialises batchStart with and the index arguments
//     it creates the iterators with,
//   - in writeHeadersToTargetStores: the order block write / filter write /
//     block rollback, that the rollback sits in the filter-write failure
//     branch, and how many headers it rolls back.
func extractImport() {
	l := newLean("Import")
	defer l.write()
	f := parse("chainimport/headers_import.go")
	shape := map[string]any{}

	var blockArgs, filterArgs []string
	if fd := funcDecl(f, "headersImport", "processBatch"); fd == nil {
		fail("chainimport/headers_import.go: method headersImport.processBatch")
	} else {
		for _, c := range calls(fd.Body) {
			switch c.name {
			case "blockIter.ReadBatch":
				blockArgs = c.args
			case "filterIter.ReadBatch":
				filterArgs = c.args
			}
		}
		if blockArgs == nil || filterArgs == nil {
			fail("processBatch: calls blockIter.ReadBatch / filterIter.ReadBatch")
		}
	}
	l.def("blockReadArgs", "List String", lstrs(blockArgs), "arguments of blockIter.ReadBatch in processBatch")
	l.def("filterReadArgs", "List String", lstrs(filterArgs), "arguments of filterIter.ReadBatch in processBatch")

	loopStart := ""
	var iterArgs [][]string
	nextStart := ""
	if fd := funcDecl(f, "headersImport", "appendNewHeaders"); fd == nil {
		fail("chainimport/headers_import.go: method headersImport.appendNewHeaders")
	} else {
		ast.Inspect(fd.Body, func(n ast.Node) bool {
			as, ok := n.(*ast.AssignStmt)
			if !ok || len(as.Lhs) != 1 || len(as.Rhs) != 1 || src(as.Lhs[0]) != "batchStart" {
				return true
			}
			if as.Tok == token.DEFINE {
				loopStart = src(as.Rhs[0])
			} else {
				nextStart = src(as.Rhs[0])
			}
			return true
		})
		for _, c := range calls(fd.Body) {
			if strings.HasSuffix(c.name, "ImportSource.Iterator") {
				iterArgs = append(iterArgs, c.args)
			}
		}
		if loopStart == "" || nextStart == "" || len(iterArgs) != 2 {
			fail("appendNewHeaders: batchStart := ..., batchStart = ..., two Iterator(...) calls")
		}
	}
	l.def("loopStart", "String", "\""+loopStart+"\"", "what appendNewHeaders initialises batchStart with")
	l.def("loopNext", "String", "\""+nextStart+"\"", "how appendNewHeaders advances batchStart")
	var ia []string
	for _, a := range iterArgs {
		ia = append(ia, strings.Join(a[:min(2, len(a))], ","))
	}
	l.def("iteratorRanges", "List String", lstrs(ia), "start,end arguments of the two Iterator(...) calls in appendNewHeaders")

	// Import(): the index range the two validators are run over
	var valRanges []string
	if fd := funcDecl(f, "headersImport", "Import"); fd == nil {
		fail("chainimport/headers_import.go: method headersImport.Import")
	} else {
		nval := 0
		for _, c := range calls(fd.Body) {
			if strings.HasSuffix(c.name, "ImportSource.Iterator") && len(c.args) >= 2 {
				valRanges = append(valRanges, c.args[0]+","+c.args[1])
			}
			if strings.HasSuffix(c.name, "Validator.Validate") {
				nval++
			}
		}
		if len(valRanges) != 2 || nval != 2 {
			fail("Import: two Iterator(start, end, batch) calls feeding two Validate calls")
		}
	}
	l.def("validatedRanges", "List String", lstrs(valRanges), "start,end index arguments of the iterators the block and filter validators are run over in Import")
	shape["validatedRanges"] = valRanges

	// appendNewHeaders: where the loop looks at the context, relative to processBatch
	cancelBefore := false
	if fd := funcDecl(f, "headersImport", "appendNewHeaders"); fd != nil {
		var cancelPos, procPos []token.Pos
		ast.Inspect(fd.Body, func(n ast.Node) bool {
			fs, ok := n.(*ast.ForStmt)
			if !ok {
				return true
			}
			for _, c := range calls(fs.Body) {
				switch c.name {
				case "ctxCancelled":
					cancelPos = append(cancelPos, c.pos)
				case "h.processBatch":
					procPos = append(procPos, c.pos)
				}
			}
			return false
		})
		if len(cancelPos) == 0 || len(procPos) != 1 {
			fail("appendNewHeaders: a for loop calling ctxCancelled and h.processBatch")
		} else {
			cancelBefore = len(cancelPos) == 1 && cancelPos[0] < procPos[0]
		}
	}
	l.def("cancelCheckBeforeProcessBatch", "Bool", lbool(cancelBefore), "the write loop of appendNewHeaders looks at the context exactly once per iteration, before processBatch")
	shape["cancelCheckBeforeProcessBatch"] = cancelBefore

	// the write loop's end-of-data test: io.EOF is what ReadBatch returns for an exhausted region, and only that
	// very value may end the loop - a read error that merely WRAPS io.EOF (a short read of the import file) must
	// be reported.  So: in appendNewHeaders and processBatch io.EOF is compared by identity (== or a switch case)
	// and never handed to errors.Is / errors.As.
	eofExact := true
	for _, fn := range []string{"appendNewHeaders", "processBatch"} {
		fd := funcDecl(f, "headersImport", fn)
		if fd == nil {
			fail("headersImport.%s", fn)
			eofExact = false
			continue
		}
		ident, lax := 0, 0
		ast.Inspect(fd.Body, func(n ast.Node) bool {
			switch x := n.(type) {
			case *ast.BinaryExpr:
				if x.Op == token.EQL && (src(x.X) == "io.EOF" || src(x.Y) == "io.EOF") {
					ident++
				}
			case *ast.CaseClause:
				for _, e := range x.List {
					if src(e) == "io.EOF" {
						ident++
					}
				}
			case *ast.CallExpr:
				if name := src(x.Fun); name == "errors.Is" || name == "errors.As" {
					for _, a := range x.Args {
						if src(a) == "io.EOF" {
							lax++
						}
					}
				}
			}
			return true
		})
		if ident == 0 || lax > 0 {
			eofExact = false
		}
	}
	l.def("writeLoopEofBySentinelIdentity", "Bool", lbool(eofExact), "appendNewHeaders / processBatch end the write loop only on the very value io.EOF (compared by ==), never on an error that wraps it (errors.Is)")
	shape["writeLoopEofBySentinelIdentity"] = eofExact

	// the validators: what they do when they see a cancelled context
	nilOnCancel := true
	for _, vf := range [][2]string{{"chainimport/block_headers_validator.go", "blockHeadersImportSourceValidator"},
		{"chainimport/filter_headers_validator.go", "filterHeadersImportSourceValidator"}} {
		pf := parse(vf[0])
		fd := funcDecl(pf, vf[1], "Validate")
		if fd == nil {
			fail("%s: method %s.Validate", vf[0], vf[1])
			nilOnCancel = false
			continue
		}
		found := false
		ast.Inspect(fd.Body, func(n ast.Node) bool {
			is, ok := n.(*ast.IfStmt)
			if !ok || is.Init == nil || !strings.Contains(src(is.Init), "ctxCancelled") {
				return true
			}
			found = true
			if len(is.Body.List) != 1 || strings.TrimSpace(src(is.Body.List[0])) != "return nil" {
				nilOnCancel = false
			}
			return true
		})
		if !found {
			fail("%s: Validate polls ctxCancelled", vf[0])
			nilOnCancel = false
		}
	}
	l.def("validatorsReturnNilOnCancel", "Bool", lbool(nilOnCancel), "both validators return nil (no error) when they see a cancelled context")
	shape["validatorsReturnNilOnCancel"] = nilOnCancel

	// NewHeadersImport: the default batch size, and that it is filled in on the very options value the importer keeps
	defBatch := ""
	if f != nil {
		ast.Inspect(f, func(n ast.Node) bool {
			vs, ok := n.(*ast.ValueSpec)
			if ok && len(vs.Names) == 1 && vs.Names[0].Name == "defaultWriteBatchSizePerRegion" && len(vs.Values) == 1 {
				defBatch = src(vs.Values[0])
			}
			return true
		})
	}
	defaultKept := false
	if fd := funcDecl(f, "", "NewHeadersImport"); fd == nil {
		fail("chainimport/headers_import.go: func NewHeadersImport")
	} else {
		target, guard := "", ""
		ast.Inspect(fd.Body, func(n ast.Node) bool {
			is, ok := n.(*ast.IfStmt)
			if !ok {
				return true
			}
			for _, st := range is.Body.List {
				as, ok := st.(*ast.AssignStmt)
				if ok && len(as.Lhs) == 1 && len(as.Rhs) == 1 && src(as.Rhs[0]) == "defaultWriteBatchSizePerRegion" &&
					strings.HasSuffix(src(as.Lhs[0]), ".WriteBatchSizePerRegion") {

					target = strings.TrimSuffix(src(as.Lhs[0]), ".WriteBatchSizePerRegion")
					guard = strings.ReplaceAll(src(is.Cond), " ", "")
				}
			}
			return true
		})
		kept := ""
		ast.Inspect(fd.Body, func(n ast.Node) bool {
			kv, ok := n.(*ast.KeyValueExpr)
			if ok && src(kv.Key) == "options" {
				kept = src(kv.Value)
			}
			return true
		})
		if target == "" || kept == "" {
			fail("NewHeadersImport: default batch size assignment and the importer's options field")
		}
		// the importer keeps the pointer it was given (options) or the address of the defaulted copy (&opts)
		defaultKept = target != "" && (kept == target || kept == "&"+target) && guard == target+".WriteBatchSizePerRegion<=0"
	}
	defN := strings.ReplaceAll(defBatch, "_", "")
	if _, err := strconv.Atoi(defN); err != nil {
		fail("defaultWriteBatchSizePerRegion: a numeric constant")
		defN = "0"
	}
	l.def("defaultWriteBatchSize", "Nat", defN, "defaultWriteBatchSizePerRegion")
	l.def("defaultBatchAppliedToKeptOptions", "Bool", lbool(defaultKept), "NewHeadersImport fills the default batch size (when the option is <= 0) into the options value the importer keeps and Import reads")
	shape["defaultWriteBatchSize"], shape["defaultBatchAppliedToKeptOptions"] = defN, defaultKept

	var order []string
	rollbackInBranch := false
	rollbackCount := ""
	if fd := funcDecl(f, "headersImport", "writeHeadersToTargetStores"); fd == nil {
		fail("chainimport/headers_import.go: method headersImport.writeHeadersToTargetStores")
	} else {
		for _, c := range calls(fd.Body) {
			switch {
			case strings.HasSuffix(c.name, "TargetBlockHeaderStore.WriteHeaders"):
				order = append(order, "block.WriteHeaders")
			case strings.HasSuffix(c.name, "TargetFilterHeaderStore.WriteHeaders"):
				order = append(order, "filter.WriteHeaders")
			case strings.HasSuffix(c.name, ".RollbackBlockHeaders"):
				order = append(order, "block.RollbackBlockHeaders")
			}
		}
		// the rollback must sit on the path taken when the filter write returned an error - however that path is
		// spelled - and the filter write must not sit on the failure path of the block write
		ffail, ok1 := failurePath(fd.Body.List, "TargetFilterHeaderStore.WriteHeaders")
		bfail, ok2 := failurePath(fd.Body.List, "TargetBlockHeaderStore.WriteHeaders")
		if !ok1 || !ok2 {
			fail("writeHeadersToTargetStores: error checks of the two WriteHeaders calls")
		}
		has := func(stmts []ast.Stmt, suffix string) int {
			n := 0
			for _, st := range stmts {
				for _, c := range calls(st) {
					if strings.HasSuffix(c.name, suffix) {
						n++
					}
				}
			}
			return n
		}
		total := 0
		for _, c := range calls(fd.Body) {
			if strings.HasSuffix(c.name, ".RollbackBlockHeaders") {
				total++
			}
		}
		rollbackInBranch = ok1 && ok2 && total == 1 && has(ffail, ".RollbackBlockHeaders") == 1 &&
			has(bfail, "TargetFilterHeaderStore.WriteHeaders") == 0 && has(bfail, ".RollbackBlockHeaders") == 0
		// the number of headers rolled back: the call's argument, resolved through a local variable
		for _, c := range calls(fd.Body) {
			if strings.HasSuffix(c.name, ".RollbackBlockHeaders") && len(c.args) == 1 {
				rollbackCount = c.args[0]
				ast.Inspect(fd.Body, func(m ast.Node) bool {
					as, ok := m.(*ast.AssignStmt)
					if ok && len(as.Lhs) == 1 && len(as.Rhs) == 1 && src(as.Lhs[0]) == c.args[0] {
						rollbackCount = src(as.Rhs[0])
					}
					return true
				})
			}
		}
	}
	l.def("writeOrder", "List String", lstrs(order), "store calls of writeHeadersToTargetStores in source order")
	l.def("rollbackInFilterFailure", "Bool", lbool(rollbackInBranch), "RollbackBlockHeaders is called in the failure branch of the filter WriteHeaders")
	l.def("rollbackCount", "String", "\""+strings.ReplaceAll(rollbackCount, "\"", "'")+"\"", "number of block headers rolled back")

	shape["blockReadArgs"], shape["filterReadArgs"] = blockArgs, filterArgs
	shape["loopStart"], shape["loopNext"], shape["iteratorRanges"] = loopStart, nextStart, ia
	shape["writeOrder"], shape["rollbackInFilterFailure"], shape["rollbackCount"] = order, rollbackInBranch, rollbackCount
	facts["import"] = shape
}

// failurePath returns the statements executed when the call whose callee ends in
// suffix has returned a non-nil error, for the spellings
//
//	if err := call; err != nil { A }            -> A
//	err := call (or err = call); if err != nil { A }   -> A
//	...; if err == nil { ...; return }; A...    -> A... (the rest of the block)
//
// searched in stmts and, recursively, in nested blocks.
func failurePath(stmts []ast.Stmt, suffix string) ([]ast.Stmt, bool) {
	containsCall := func(n ast.Node) bool {
		if n == nil {
			return false
		}
		for _, c := range calls(n) {
			if strings.HasSuffix(c.name, suffix) {
				return true
			}
		}
		return false
	}
	endsInReturn := func(b *ast.BlockStmt) bool {
		if b == nil || len(b.List) == 0 {
			return false
		}
		_, ok := b.List[len(b.List)-1].(*ast.ReturnStmt)
		return ok
	}
	elseStmts := func(is *ast.IfStmt) []ast.Stmt {
		if eb, ok := is.Else.(*ast.BlockStmt); ok {
			return eb.List
		}
		if is.Else != nil {
			return []ast.Stmt{is.Else}
		}
		return nil
	}
	decide := func(is *ast.IfStmt, rest []ast.Stmt) ([]ast.Stmt, bool) {
		cond := strings.ReplaceAll(src(is.Cond), " ", "")
		switch {
		case strings.HasSuffix(cond, "!=nil") && !strings.Contains(cond, "&&") && !strings.Contains(cond, "||"):
			return is.Body.List, true
		case strings.HasSuffix(cond, "==nil") && !strings.Contains(cond, "&&") && !strings.Contains(cond, "||"):
			if !endsInReturn(is.Body) {
				return nil, false
			}
			return append(append([]ast.Stmt{}, elseStmts(is)...), rest...), true
		}
		return nil, false
	}
	for i, st := range stmts {
		switch v := st.(type) {
		case *ast.IfStmt:
			if v.Init != nil && containsCall(v.Init) {
				return decide(v, stmts[i+1:])
			}
			if p, ok := failurePath(v.Body.List, suffix); ok {
				return p, true
			}
			if p, ok := failurePath(elseStmts(v), suffix); ok {
				return p, true
			}
		case *ast.AssignStmt, *ast.ExprStmt, *ast.DeclStmt:
			if containsCall(st) {
				if i+1 < len(stmts) {
					if is, ok := stmts[i+1].(*ast.IfStmt); ok && is.Init == nil {
						return decide(is, stmts[i+2:])
					}
				}
				return nil, false
			}
		case *ast.BlockStmt:
			if p, ok := failurePath(v.List, suffix); ok {
				return p, true
			}
		}
	}
	return nil, false
}
