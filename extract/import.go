package main

import (
	"go/ast"
	"go/token"
	"strings"
)

func init() { extractors = append(extractors, extractImport) }

// extractImport records, from chainimport/headers_import.go:
//   - the arguments processBatch passes to the two iterators' ReadBatch (the
//     model transcribes "batchStart" — a target HEIGHT — being passed as the
//     start INDEX; a repair that translates heights to indices changes this fact),
//   - what appendNewHeaders initialises batchStart with and the index arguments
//     it creates the iterators with,
//   - in writeHeadersToTargetStores: the order block write / filter write /
//     block rollback, that the rollback sits in the filter-write failure
//     branch, and how many headers it rolls back.
func extractImport() {
	l := newLean("Import")
	defer l.write()
	f := parse("chainimport/headers_import.go")
	shape := map[string]any{}

	var blockArgs, filterArgs []string
	if fd := funcDecl(f, "headersImport", "processBatch"); fd == nil {
		fail("chainimport/headers_import.go: method headersImport.processBatch")
	} else {
		for _, c := range calls(fd.Body) {
			switch c.name {
			case "blockIter.ReadBatch":
				blockArgs = c.args
			case "filterIter.ReadBatch":
				filterArgs = c.args
			}
		}
		if blockArgs == nil || filterArgs == nil {
			fail("processBatch: calls blockIter.ReadBatch / filterIter.ReadBatch")
		}
	}
	l.def("blockReadArgs", "List String", lstrs(blockArgs), "arguments of blockIter.ReadBatch in processBatch")
	l.def("filterReadArgs", "List String", lstrs(filterArgs), "arguments of filterIter.ReadBatch in processBatch")

	loopStart := ""
	var iterArgs [][]string
	nextStart := ""
	if fd := funcDecl(f, "headersImport", "appendNewHeaders"); fd == nil {
		fail("chainimport/headers_import.go: method headersImport.appendNewHeaders")
	} else {
		ast.Inspect(fd.Body, func(n ast.Node) bool {
			as, ok := n.(*ast.AssignStmt)
			if !ok || len(as.Lhs) != 1 || len(as.Rhs) != 1 || src(as.Lhs[0]) != "batchStart" {
				return true
			}
			if as.Tok == token.DEFINE {
				loopStart = src(as.Rhs[0])
			} else {
				nextStart = src(as.Rhs[0])
			}
			return true
		})
		for _, c := range calls(fd.Body) {
			if strings.HasSuffix(c.name, "ImportSource.Iterator") {
				iterArgs = append(iterArgs, c.args)
			}
		}
		if loopStart == "" || nextStart == "" || len(iterArgs) != 2 {
			fail("appendNewHeaders: batchStart := ..., batchStart = ..., two Iterator(...) calls")
		}
	}
	l.def("loopStart", "String", "\""+loopStart+"\"", "what appendNewHeaders initialises batchStart with")
	l.def("loopNext", "String", "\""+nextStart+"\"", "how appendNewHeaders advances batchStart")
	var ia []string
	for _, a := range iterArgs {
		ia = append(ia, strings.Join(a[:min(2, len(a))], ","))
	}
	l.def("iteratorRanges", "List String", lstrs(ia), "start,end arguments of the two Iterator(...) calls in appendNewHeaders")

	// Import(): the index range the two validators are run over
	var valRanges []string
	if fd := funcDecl(f, "headersImport", "Import"); fd == nil {
		fail("chainimport/headers_import.go: method headersImport.Import")
	} else {
		nval := 0
		for _, c := range calls(fd.Body) {
			if strings.HasSuffix(c.name, "ImportSource.Iterator") && len(c.args) >= 2 {
				valRanges = append(valRanges, c.args[0]+","+c.args[1])
			}
			if strings.HasSuffix(c.name, "Validator.Validate") {
				nval++
			}
		}
		if len(valRanges) != 2 || nval != 2 {
			fail("Import: two Iterator(start, end, batch) calls feeding two Validate calls")
		}
	}
	l.def("validatedRanges", "List String", lstrs(valRanges), "start,end index arguments of the iterators the block and filter validators are run over in Import")
	shape["validatedRanges"] = valRanges

	// appendNewHeaders: where the loop looks at the context, relative to processBatch
	cancelBefore := false
	if fd := funcDecl(f, "headersImport", "appendNewHeaders"); fd != nil {
		var cancelPos, procPos []token.Pos
		ast.Inspect(fd.Body, func(n ast.Node) bool {
			fs, ok := n.(*ast.ForStmt)
			if !ok {
				return true
			}
			for _, c := range calls(fs.Body) {
				switch c.name {
				case "ctxCancelled":
					cancelPos = append(cancelPos, c.pos)
				case "h.processBatch":
					procPos = append(procPos, c.pos)
				}
			}
			return false
		})
		if len(cancelPos) == 0 || len(procPos) != 1 {
			fail("appendNewHeaders: a for loop calling ctxCancelled and h.processBatch")
		} else {
			cancelBefore = len(cancelPos) == 1 && cancelPos[0] < procPos[0]
		}
	}
	l.def("cancelCheckBeforeProcessBatch", "Bool", lbool(cancelBefore), "the write loop of appendNewHeaders looks at the context exactly once per iteration, before processBatch")
	shape["cancelCheckBeforeProcessBatch"] = cancelBefore

	// the validators: what they do when they see a cancelled context
	nilOnCancel := true
	for _, vf := range [][2]string{{"chainimport/block_headers_validator.go", "blockHeadersImportSourceValidator"},
		{"chainimport/filter_headers_validator.go", "filterHeadersImportSourceValidator"}} {
		pf := parse(vf[0])
		fd := funcDecl(pf, vf[1], "Validate")
		if fd == nil {
			fail("%s: method %s.Validate", vf[0], vf[1])
			nilOnCancel = false
			continue
		}
		found := false
		ast.Inspect(fd.Body, func(n ast.Node) bool {
			is, ok := n.(*ast.IfStmt)
			if !ok || is.Init == nil || !strings.Contains(src(is.Init), "ctxCancelled") {
				return true
			}
			found = true
			if len(is.Body.List) != 1 || strings.TrimSpace(src(is.Body.List[0])) != "return nil" {
				nilOnCancel = false
			}
			return true
		})
		if !found {
			fail("%s: Validate polls ctxCancelled", vf[0])
			nilOnCancel = false
		}
	}
	l.def("validatorsReturnNilOnCancel", "Bool", lbool(nilOnCancel), "both validators return nil (no error) when they see a cancelled context")
	shape["validatorsReturnNilOnCancel"] = nilOnCancel

	var order []string
	rollbackInBranch := false
	rollbackCount := ""
	if fd := funcDecl(f, "headersImport", "writeHeadersToTargetStores"); fd == nil {
		fail("chainimport/headers_import.go: method headersImport.writeHeadersToTargetStores")
	} else {
		for _, c := range calls(fd.Body) {
			switch {
			case strings.HasSuffix(c.name, "TargetBlockHeaderStore.WriteHeaders"):
				order = append(order, "block.WriteHeaders")
			case strings.HasSuffix(c.name, "TargetFilterHeaderStore.WriteHeaders"):
				order = append(order, "filter.WriteHeaders")
			case strings.HasSuffix(c.name, ".RollbackBlockHeaders"):
				order = append(order, "block.RollbackBlockHeaders")
			}
		}
		ast.Inspect(fd.Body, func(n ast.Node) bool {
			is, ok := n.(*ast.IfStmt)
			if !ok || is.Init == nil || !strings.Contains(src(is.Init), "TargetFilterHeaderStore.WriteHeaders") {
				return true
			}
			if !strings.Contains(src(is.Cond), "err != nil") {
				return true
			}
			for _, c := range calls(is.Body) {
				if strings.HasSuffix(c.name, ".RollbackBlockHeaders") {
					rollbackInBranch = true
				}
			}
			ast.Inspect(is.Body, func(m ast.Node) bool {
				as, ok := m.(*ast.AssignStmt)
				if ok && len(as.Lhs) == 1 && src(as.Lhs[0]) == "blockHeadersToTruncate" {
					rollbackCount = src(as.Rhs[0])
				}
				return true
			})
			return true
		})
	}
	l.def("writeOrder", "List String", lstrs(order), "store calls of writeHeadersToTargetStores in source order")
	l.def("rollbackInFilterFailure", "Bool", lbool(rollbackInBranch), "RollbackBlockHeaders is called in the failure branch of the filter WriteHeaders")
	l.def("rollbackCount", "String", "\""+strings.ReplaceAll(rollbackCount, "\"", "'")+"\"", "number of block headers rolled back")

	shape["blockReadArgs"], shape["filterReadArgs"] = blockArgs, filterArgs
	shape["loopStart"], shape["loopNext"], shape["iteratorRanges"] = loopStart, nextStart, ia
	shape["writeOrder"], shape["rollbackInFilterFailure"], shape["rollbackCount"] = order, rollbackInBranch, rollbackCount
	facts["import"] = shape
}
