package main

import (
	"fmt"
	"go/ast"
	"os"
	"sort"
	"strings"
)

// transTryAll: debugging aid (TRANS_TRY=dir1,dir2): try to translate every function of the packages and report
func transTryAll() {
	dirs := os.Getenv("TRANS_TRY")
	if dirs == "" {
		return
	}
	for _, rel := range strings.Split(dirs, ",") {
		if rel == "." {
			rel = ""
		}
		pi := loadPkg(rel)
		if pi == nil {
			continue
		}
		var fns []string
		for n := range pi.files {
			fns = append(fns, n)
		}
		sort.Strings(fns)
		for _, fn := range fns {
			for _, d := range pi.files[fn].Decls {
				fd, ok := d.(*ast.FuncDecl)
				if !ok || fd.Body == nil {
					continue
				}
				tg := transTarget{"Try", rel, recvTypeName(fd), fd.Name.Name, "try_" + fd.Name.Name}
				saved := failed
				transTargets = append(transTargets, tg)
				g := &tgen{mod: "Try", done: map[string]*tfunc{}, structs: map[string]*structInfo{}, active: map[string]bool{}, consts: map[string]string{}}
				f := g.translate(tg)
				transTargets = transTargets[:len(transTargets)-1]
				if f != nil {
					fmt.Printf("TRY ok   %s %s.%s (%d opaque params, %d lines)\n", fn, tg.recv, tg.name, len(f.oparams), len(f.text))
					// TRANS_DUMP=name1,name2: also print the generated text of these functions
					for _, d := range strings.Split(os.Getenv("TRANS_DUMP"), ",") {
						if d == tg.name || d == tg.recv+"."+tg.name {
							for _, a := range f.aux {
								fmt.Println(strings.Join(a, "\n"))
							}
							fmt.Println(strings.Join(f.text, "\n"))
						}
					}
				} else if len(failed) > len(saved) {
					fmt.Printf("TRY fail %s %s.%s: %s\n", fn, tg.recv, tg.name, failed[len(failed)-1][strings.Index(failed[len(failed)-1], ":")+1:])
				}
				failed = saved
			}
		}
	}
}
