package main

import (
	"go/ast"
	"go/token"
	"sort"
	"strings"
)

func init() { extractors = append(extractors, extractUtxo) }

// bodiesInlined returns the body of fd and the bodies of the same-file unexported helpers (unique name, lower
// case) it calls, depth levels deep.
func bodiesInlined(f *ast.File, fd *ast.FuncDecl, depth int) []*ast.BlockStmt {
	out := []*ast.BlockStmt{fd.Body}
	if f == nil || depth == 0 {
		return out
	}
	byName := map[string][]*ast.FuncDecl{}
	for _, d := range f.Decls {
		if g, ok := d.(*ast.FuncDecl); ok && g.Body != nil {
			byName[g.Name.Name] = append(byName[g.Name.Name], g)
		}
	}
	seen := map[string]bool{fd.Name.Name: true}
	for _, c := range calls(fd.Body) {
		name := strings.TrimPrefix(c.name, "defer ")
		if i := strings.LastIndex(name, "."); i >= 0 {
			name = name[i+1:]
		}
		if name == "" || !(name[0] >= 'a' && name[0] <= 'z') || seen[name] {
			continue
		}
		if gs := byName[name]; len(gs) == 1 {
			seen[name] = true
			out = append(out, bodiesInlined(f, gs[0], depth-1)...)
		}
	}
	return out
}

// extractUtxo records the source facts the C10 model relies on:
//   - the order of the three steps of batchSpendReporter.ProcessBlock;
//   - the comparison operators of the two loops of UtxoScanner.dequeueAtHeight and where each loop puts
//     the request it pops;
//   - the callbacks / reporter calls of scanFromHeight in source order (ends with NotifyUnspentAndUnfound,
//     fresh reporter per scan);
//   - notifyRequests forgets the outpoint in all three maps before delivering;
//   - findInitialTransactions does not overwrite a non-nil initial report with nil (the F5 repair);
//   - GetUtxoRequest.deliver is a select with a send on r.resultChan and a default arm (non-blocking), and
//     Enqueue makes that channel with capacity 1.
func extractUtxo() {
	l := newLean("Utxo")
	defer l.write()
	fs := parse("utxoscanner.go")
	fr := parse("batch_spend_reporter.go")
	shape := map[string]any{}

	// 1. ProcessBlock steps
	var steps []string
	if fd := funcDecl(fr, "batchSpendReporter", "ProcessBlock"); fd == nil {
		fail("batch_spend_reporter.go: method batchSpendReporter.ProcessBlock")
	} else {
		// only the relative order of the three steps matters; calls made through same-file unexported
		// helpers count as made at the call site, other reporter calls (e.g. a helper that rebuilds the
		// watch list) are not part of the fact
		for _, c := range callsInlined(fr, fd.Body) {
			switch c.name {
			case "b.addNewRequests", "b.findInitialTransactions", "b.notifySpends":
				if len(steps) == 0 || steps[len(steps)-1] != c.name {
					steps = append(steps, c.name)
				}
			}
		}
	}
	l.def("processBlockSteps", "List String", lstrs(steps), "order in which ProcessBlock (helpers inlined) runs addNewRequests, findInitialTransactions and notifySpends")
	shape["processBlockSteps"] = steps

	// 2. dequeueAtHeight loops
	var ops, targets []string
	if fd := funcDecl(fs, "UtxoScanner", "dequeueAtHeight"); fd == nil {
		fail("utxoscanner.go: method UtxoScanner.dequeueAtHeight")
	} else {
		for _, st := range fd.Body.List {
			loop, ok := st.(*ast.ForStmt)
			if !ok || loop.Cond == nil {
				continue
			}
			op := ""
			ast.Inspect(loop.Cond, func(x ast.Node) bool {
				if be, ok := x.(*ast.BinaryExpr); ok && strings.HasSuffix(src(be.X), ".BirthHeight") && src(be.Y) == "height" {
					op = be.Op.String()
				}
				return true
			})
			target := ""
			ast.Inspect(loop.Body, func(x ast.Node) bool {
				if as, ok := x.(*ast.AssignStmt); ok && len(as.Rhs) == 1 {
					if ce, ok := as.Rhs[0].(*ast.CallExpr); ok && src(ce.Fun) == "append" {
						target = src(as.Lhs[0])
					}
				}
				return true
			})
			ops = append(ops, op)
			targets = append(targets, target)
		}
		if len(ops) != 2 {
			fail("utxoscanner.go: dequeueAtHeight: expected two for-loops over the queue, found %d", len(ops))
		}
	}
	l.def("dequeueOps", "List String", lstrs(ops), "comparison `Peek().BirthHeight <op> height` of the loops of dequeueAtHeight, in order")
	l.def("dequeueTargets", "List String", lstrs(targets), "slice each loop appends the popped request to")
	shape["dequeueOps"], shape["dequeueTargets"] = ops, targets

	// 3. scanFromHeight call sequence
	var seq []string
	if fd := funcDecl(fs, "UtxoScanner", "scanFromHeight"); fd == nil {
		fail("utxoscanner.go: method UtxoScanner.scanFromHeight")
	} else {
		for _, c := range callsInlined(fs, fd.Body) {
			if strings.HasPrefix(c.name, "reporter.") || strings.HasPrefix(c.name, "s.cfg.") ||
				c.name == "s.dequeueAtHeight" || c.name == "newBatchSpendReporter" || c.name == "failRequests" {
				seq = append(seq, c.name)
			}
		}
	}
	l.def("scanSeq", "List String", lstrs(seq), "callbacks, dequeue and reporter calls of scanFromHeight in source order")
	shape["scanSeq"] = seq

	// 4. notifyRequests: deletes, then deliver
	var nseq []string
	if fd := funcDecl(fr, "batchSpendReporter", "notifyRequests"); fd == nil {
		fail("batch_spend_reporter.go: method batchSpendReporter.notifyRequests")
	} else {
		for _, c := range callsInlined(fr, fd.Body) {
			switch {
			case c.name == "delete" && len(c.args) == 2:
				nseq = append(nseq, "delete "+c.args[0])
			case strings.HasSuffix(c.name, ".deliver"):
				nseq = append(nseq, "deliver")
			}
		}
	}
	// the deletions before the first delivery are independent of one another (three different
	// maps, one key): list them sorted, so that only "which maps, all before deliver" is pinned
	for i := 0; i < len(nseq); i++ {
		if nseq[i] == "deliver" {
			sort.Strings(nseq[:i])
			break
		}
	}
	l.def("notifyRequestsSeq", "List String", lstrs(nseq), "map deletions (sorted: their order is immaterial) and deliveries of notifyRequests, deletions before the first delivery")
	shape["notifyRequestsSeq"] = nseq

	// 4b. what the watch list is rebuilt from: `for _, entry := range <X> { b.filterEntries = append(b.filterEntries, entry) }`
	// in ProcessBlock or in a same-file unexported helper it calls
	var sources []string
	if fd := funcDecl(fr, "batchSpendReporter", "ProcessBlock"); fd != nil {
		for _, body := range bodiesInlined(fr, fd, 2) {
			ast.Inspect(body, func(x ast.Node) bool {
				rs, ok := x.(*ast.RangeStmt)
				if !ok {
					return true
				}
				// the rebuild loop appends unconditionally (the incremental add of addNewRequests is
				// guarded by a first-time test and is not meant here)
				appends := false
				for _, st := range rs.Body.List {
					if as, ok := st.(*ast.AssignStmt); ok && len(as.Lhs) == 1 && src(as.Lhs[0]) == "b.filterEntries" {
						appends = true
					}
				}
				if appends {
					sources = append(sources, src(rs.X))
				}
				return true
			})
		}
	}
	l.def("watchListSources", "List String", lstrs(sources), "maps the watch list (filterEntries) is rebuilt from after a block was processed")
	shape["watchListSources"] = sources

	// 5. F5 repair: `if tx == nil && b.initialTxns[...] != nil { continue }` before `b.initialTxns[...] = tx`
	keeps := false
	if fd := funcDecl(fr, "batchSpendReporter", "findInitialTransactions"); fd == nil {
		fail("batch_spend_reporter.go: method batchSpendReporter.findInitialTransactions")
	} else {
		ast.Inspect(fd.Body, func(x ast.Node) bool {
			blk, ok := x.(*ast.BlockStmt)
			if !ok {
				return true
			}
			for i, st := range blk.List {
				as, ok := st.(*ast.AssignStmt)
				if !ok || len(as.Lhs) != 1 || !strings.HasPrefix(src(as.Lhs[0]), "b.initialTxns[") || src(as.Rhs[0]) != "tx" {
					continue
				}
				if i == 0 {
					continue
				}
				is, ok := blk.List[i-1].(*ast.IfStmt)
				if !ok || len(is.Body.List) != 1 {
					continue
				}
				br, ok := is.Body.List[0].(*ast.BranchStmt)
				cond := strings.Join(strings.Fields(src(is.Cond)), " ")
				if ok && br.Tok == token.CONTINUE && strings.HasPrefix(cond, "tx == nil && b.initialTxns[") && strings.HasSuffix(cond, "] != nil") {
					keeps = true
				}
			}
			return true
		})
	}
	l.def("initialKeepsNonNil", "Bool", lbool(keeps), "findInitialTransactions skips the store when the new report is nil and a non-nil one is recorded")
	shape["initialKeepsNonNil"] = keeps

	// 6. deliver: select { case r.resultChan <- ...: default: }, channel capacity
	nonBlocking := false
	if fd := funcDecl(fs, "GetUtxoRequest", "deliver"); fd == nil {
		fail("utxoscanner.go: method GetUtxoRequest.deliver")
	} else if len(fd.Body.List) == 1 {
		if sel, ok := fd.Body.List[0].(*ast.SelectStmt); ok {
			send, def := false, false
			for _, cc := range sel.Body.List {
				c := cc.(*ast.CommClause)
				if c.Comm == nil {
					def = true
				} else if s, ok := c.Comm.(*ast.SendStmt); ok && src(s.Chan) == "r.resultChan" {
					send = true
				}
			}
			nonBlocking = send && def && len(sel.Body.List) == 2
		}
	}
	l.def("deliverNonBlocking", "Bool", lbool(nonBlocking), "deliver is exactly one select with a send on r.resultChan and a default arm")
	capacity := ""
	if fd := funcDecl(fs, "UtxoScanner", "Enqueue"); fd == nil {
		fail("utxoscanner.go: method UtxoScanner.Enqueue")
	} else {
		ast.Inspect(fd.Body, func(x ast.Node) bool {
			if kv, ok := x.(*ast.KeyValueExpr); ok && src(kv.Key) == "resultChan" {
				if ce, ok := kv.Value.(*ast.CallExpr); ok && src(ce.Fun) == "make" && len(ce.Args) == 2 {
					capacity = src(ce.Args[1])
				}
			}
			return true
		})
	}
	if capacity == "" {
		capacity = "0"
	}
	// 7. Result: `if r.result != nil { return ... }` before the select
	cacheFirst := false
	if fd := funcDecl(fs, "GetUtxoRequest", "Result"); fd == nil {
		fail("utxoscanner.go: method GetUtxoRequest.Result")
	} else {
		seenIf := false
		for _, st := range fd.Body.List {
			switch v := st.(type) {
			case *ast.IfStmt:
				if strings.Join(strings.Fields(src(v.Cond)), " ") == "r.result != nil" && len(v.Body.List) == 1 {
					if _, ok := v.Body.List[0].(*ast.ReturnStmt); ok {
						seenIf = true
					}
				}
			case *ast.SelectStmt:
				cacheFirst = seenIf
			}
		}
	}
	l.def("resultChecksCacheFirst", "Bool", lbool(cacheFirst), "Result returns the cached result, when there is one, before it selects on the channel")
	shape["resultChecksCacheFirst"] = cacheFirst
	l.def("resultChanCap", "Nat", capacity, "capacity of the request's result channel as made by Enqueue")
	shape["deliverNonBlocking"], shape["resultChanCap"] = nonBlocking, capacity
	facts["utxo"] = shape
}
