package main

// A small, tolerant go/types loader used by the C17/C18 extractors.
//
// It type-checks the packages of the repo from their sources.  Imports inside
// the repo's module are loaded recursively from the working tree; a handful of
// standard packages (sync, time, context, ...) come from GOROOT's sources when
// that works; everything else (btcd, bbolt, ...) is an empty stand-in package.
// Type errors are ignored: go/types still resolves everything that only
// involves repo-local struct types, which is all the extractors ask for
// (identity of struct fields, "is this a channel", "is this a sync.WaitGroup").
// When nothing resolves the extractors fall back to the expression text.

import (
	"fmt"
	"go/ast"
	"go/importer"
	"go/parser"
	"go/token"
	"go/types"
	"os"
	"path/filepath"
	"sort"
	"strings"
)

const modPath = "github.com/lightninglabs/neutrino"

type pkgInfo struct {
	rel   string               // directory relative to the repo ("" = root)
	name  string               // package name
	files map[string]*ast.File // base file name -> syntax
	pkg   *types.Package
	info  *types.Info
	// fieldName maps a struct field object to "pkg.Type.field" ("Type.field" in the root package).
	fieldName map[*types.Var]string
	// stableName maps a struct field object to a name that survives a rename of the field: exported fields keep their
	// Go name; an unexported field is "pkg.Type.<type of the field>#<k>", k counting the fields of that type in the
	// struct's declaration in source order ("mutex" / "cond" stand for the sync types); the C18 extractor overrides
	// the entries of the fields that have a role name (extract/accesstable.go fieldRoles).
	stableName map[*types.Var]string
	// chanCap maps "Type.field" to the textual capacity of the make(chan) that initialises it ("" = unbuffered), when found.
}

var (
	pkgCache  = map[string]*pkgInfo{}
	pkgActive = map[string]bool{}
	stdSrc    types.Importer
	stdCache  = map[string]*types.Package{}
	stdWanted = map[string]bool{"sync": true, "sync/atomic": true, "time": true, "context": true, "container/list": true}
)

type repoImporter struct{}

func fakeName(path string) string {
	parts := strings.Split(path, "/")
	n := parts[len(parts)-1]
	if len(parts) > 1 && len(n) >= 2 && n[0] == 'v' && strings.Trim(n[1:], "0123456789") == "" {
		n = parts[len(parts)-2]
	}
	n = strings.TrimPrefix(n, "go-")
	if i := strings.Index(n, "."); i >= 0 {
		n = n[:i]
	}
	return strings.ReplaceAll(n, "-", "_")
}

func (repoImporter) Import(path string) (p *types.Package, err error) {
	if path == "unsafe" {
		return types.Unsafe, nil
	}
	if path == modPath || strings.HasPrefix(path, modPath+"/") {
		rel := strings.TrimPrefix(strings.TrimPrefix(path, modPath), "/")
		if st, e := os.Stat(filepath.Join(repo, rel)); e == nil && st.IsDir() && !pkgActive[rel] {
			if pi := loadPkg(rel); pi != nil && pi.pkg != nil {
				return pi.pkg, nil
			}
		}
	}
	if extRealOn && transExtReal[path] {
		if pi := loadExt(path); pi != nil && pi.pkg != nil {
			return pi.pkg, nil
		}
	}
	if c, ok := stdCache[path]; ok {
		return c, nil
	}
	if stdWanted[path] || (extRealOn && transStd[path]) {
		func() {
			defer func() {
				if recover() != nil {
					p = nil
				}
			}()
			if stdSrc == nil {
				stdSrc = importer.ForCompiler(token.NewFileSet(), "source", nil)
			}
			p, err = stdSrc.Import(path)
		}()
		if p != nil && err == nil {
			stdCache[path] = p
			return p, nil
		}
	}
	fp := types.NewPackage(path, fakeName(path))
	fp.MarkComplete()
	stdCache[path] = fp
	return fp, nil
}

// verifOnly reports whether the file carries a build constraint that needs the
// `verif` tag (harness hooks): those are not part of the shipped program.
func verifOnly(f *ast.File) bool {
	for _, cg := range f.Comments {
		if cg.Pos() > f.Package {
			break
		}
		for _, c := range cg.List {
			t := strings.TrimSpace(c.Text)
			if strings.HasPrefix(t, "//go:build") {
				e := strings.TrimPrefix(t, "//go:build")
				if strings.Contains(e, "verif") && !strings.Contains(e, "!verif") {
					return true
				}
				if strings.Contains(e, "ignore") {
					return true
				}
			}
		}
	}
	return false
}

// loadExt type-checks a whitelisted external package from the module cache
// (only while the translator runs; see trans.go).
func loadExt(path string) *pkgInfo {
	key := "ext:" + path
	if pi, ok := pkgCache[key]; ok {
		return pi
	}
	if pkgActive[key] {
		return nil
	}
	dir := modCacheDir(path)
	if dir == "" {
		return nil
	}
	if st, err := os.Stat(dir); err != nil || !st.IsDir() {
		return nil
	}
	return loadPkgDir(key, dir, path)
}

// loadPkg parses and type-checks the package in repo/rel (non-test files).
// It returns nil (after fail) when the directory cannot be read.
func loadPkg(rel string) *pkgInfo {
	if pi, ok := pkgCache[rel]; ok {
		return pi
	}
	path := modPath
	if rel != "" {
		path += "/" + filepath.ToSlash(rel)
	}
	return loadPkgDir(rel, filepath.Join(repo, rel), path)
}

func loadPkgDir(rel, dir, path string) *pkgInfo {
	pkgActive[rel] = true
	defer delete(pkgActive, rel)
	ents, err := os.ReadDir(dir)
	if err != nil {
		fail("cannot read package directory %s: %v", rel, err)
		pkgCache[rel] = nil
		return nil
	}
	pi := &pkgInfo{rel: rel, files: map[string]*ast.File{}, fieldName: map[*types.Var]string{}, stableName: map[*types.Var]string{}}
	var names []string
	for _, e := range ents {
		n := e.Name()
		if e.IsDir() || !strings.HasSuffix(n, ".go") || strings.HasSuffix(n, "_test.go") {
			continue
		}
		names = append(names, n)
	}
	sort.Strings(names)
	var files []*ast.File
	for _, n := range names {
		f, err := parser.ParseFile(fset, filepath.Join(dir, n), nil, parser.ParseComments)
		if err != nil {
			fail("cannot parse %s: %v", filepath.Join(rel, n), err)
			continue
		}
		if verifOnly(f) {
			continue
		}
		if pi.name == "" {
			pi.name = f.Name.Name
		}
		if f.Name.Name != pi.name {
			continue
		}
		pi.files[n] = f
		files = append(files, f)
	}
	pi.info = &types.Info{
		Types:      map[ast.Expr]types.TypeAndValue{},
		Defs:       map[*ast.Ident]types.Object{},
		Uses:       map[*ast.Ident]types.Object{},
		Selections: map[*ast.SelectorExpr]*types.Selection{},
	}
	conf := types.Config{Importer: repoImporter{}, Error: func(error) {}, FakeImportC: true, DisableUnusedImportCheck: true}
	func() {
		defer func() {
			if r := recover(); r != nil {
				fail("type checker gave up on package %s: %v", rel, r)
			}
		}()
		pi.pkg, _ = conf.Check(path, fset, files, pi.info)
	}()
	if pi.pkg != nil {
		prefix := ""
		if rel != "" {
			prefix = pi.name + "."
		}
		sc := pi.pkg.Scope()
		for _, n := range sc.Names() {
			tn, ok := sc.Lookup(n).(*types.TypeName)
			if !ok {
				continue
			}
			st, ok := tn.Type().Underlying().(*types.Struct)
			if !ok {
				continue
			}
			for i := 0; i < st.NumFields(); i++ {
				pi.fieldName[st.Field(i)] = prefix + n + "." + st.Field(i).Name()
			}
		}
		stableFieldNames(pi, prefix)
	}
	pkgCache[rel] = pi
	return pi
}

// useStableNames makes fieldOf (and with it chanName) answer with the rename-proof name of a field instead of its Go
// name.  The C18 extractor switches it on for its own run: the reviewed lockset / ownership tables then do not depend
// on how an unexported field or mutex is called.
var useStableNames bool

// stableDisplay: rename-proof name -> what the thing is called in the source today (display only; emitted as
// Gen/AccessNames.lean so that diagnostics can print the Go identifier next to the stable name)
var stableDisplay = map[string]string{}

// fieldTypeKey spells the type of a struct field: the type checker's spelling when it resolved the type, else the
// source text (types of the stand-in packages do not resolve).
func fieldTypeKey(pi *pkgInfo, f *ast.Field) string {
	if t := typeOf(pi, f.Type); t != nil {
		if s := typeText(t); !strings.Contains(s, "invalid type") {
			return s
		}
	}
	return strings.Join(strings.Fields(src(f.Type)), "")
}

// stableFieldNames fills pi.stableName for the struct types declared at package level.
func stableFieldNames(pi *pkgInfo, prefix string) {
	var bases []string
	for b := range pi.files {
		bases = append(bases, b)
	}
	sort.Strings(bases)
	for _, b := range bases {
		for _, d := range pi.files[b].Decls {
			gd, ok := d.(*ast.GenDecl)
			if !ok || gd.Tok != token.TYPE {
				continue
			}
			for _, sp := range gd.Specs {
				ts, ok := sp.(*ast.TypeSpec)
				if !ok {
					continue
				}
				st, ok := ts.Type.(*ast.StructType)
				if !ok || st.Fields == nil {
					continue
				}
				count := map[string]int{}
				for _, f := range st.Fields.List {
					key := fieldTypeKey(pi, f)
					// a mutex is a mutex and a condition variable a condition variable, whichever flavour
					switch key {
					case "sync.Mutex", "sync.RWMutex", "*sync.Mutex", "*sync.RWMutex":
						key = "mutex"
					case "sync.Cond", "*sync.Cond":
						key = "cond"
					}
					for _, id := range f.Names {
						count[key]++
						v, _ := pi.info.Defs[id].(*types.Var)
						if v == nil {
							continue
						}
						if id.IsExported() {
							pi.stableName[v] = prefix + ts.Name.Name + "." + id.Name
						} else {
							pi.stableName[v] = fmt.Sprintf("%s%s.%s#%d", prefix, ts.Name.Name, key, count[key])
						}
					}
					if len(f.Names) == 0 {
						// embedded field: its name is the type's name, which a rename of the type changes anyway
						count[key]++
					}
				}
			}
		}
	}
}

// goNameOfStable returns the current Go name ("pkg.Type.field") of a stable field name, "" when there is none.
func goNameOfStable(stable string) string {
	for _, p := range pkgCache {
		if p == nil {
			continue
		}
		for v, n := range p.stableName {
			if n == stable {
				return p.fieldName[v]
			}
		}
	}
	return ""
}

// fieldOf returns "pkg.Type.field" when e is a selector that denotes a field of
// a struct type declared in one of the loaded repo packages.
func fieldOf(pi *pkgInfo, e ast.Expr) (string, bool) {
	se, ok := ast.Unparen(e).(*ast.SelectorExpr)
	if !ok || pi == nil || pi.info == nil {
		return "", false
	}
	sel := pi.info.Selections[se]
	if sel == nil || sel.Kind() != types.FieldVal {
		return "", false
	}
	v, ok := sel.Obj().(*types.Var)
	if !ok {
		return "", false
	}
	v = v.Origin()
	for _, p := range pkgCache {
		if p == nil {
			continue
		}
		if useStableNames {
			if n, ok := p.stableName[v]; ok {
				if g := p.fieldName[v]; g != n {
					stableDisplay[n] = g
				}
				return n, true
			}
		}
		if n, ok := p.fieldName[v]; ok {
			return n, true
		}
	}
	return "", false
}

// typeOf returns the type of e, or nil when unknown/invalid.
func typeOf(pi *pkgInfo, e ast.Expr) types.Type {
	if pi == nil || pi.info == nil {
		return nil
	}
	tv, ok := pi.info.Types[e]
	if !ok || tv.Type == nil {
		return nil
	}
	if b, ok := tv.Type.(*types.Basic); ok && b.Kind() == types.Invalid {
		return nil
	}
	return tv.Type
}

// namedIs reports whether t (or *t) is the named type pkgpath.name.
func namedIs(t types.Type, pkgpath, name string) bool {
	if t == nil {
		return false
	}
	if p, ok := t.(*types.Pointer); ok {
		t = p.Elem()
	}
	n, ok := t.(*types.Named)
	if !ok || n.Obj() == nil || n.Obj().Pkg() == nil {
		return false
	}
	return n.Obj().Pkg().Path() == pkgpath && n.Obj().Name() == name
}

// recvTypeName gives "Type" for a method declaration's receiver ("" for functions).
func recvTypeName(fd *ast.FuncDecl) string {
	if fd.Recv == nil || len(fd.Recv.List) != 1 {
		return ""
	}
	t := fd.Recv.List[0].Type
	for {
		switch v := t.(type) {
		case *ast.StarExpr:
			t = v.X
			continue
		case *ast.IndexExpr:
			t = v.X
			continue
		case *ast.IndexListExpr:
			t = v.X
			continue
		case *ast.ParenExpr:
			t = v.X
			continue
		case *ast.Ident:
			return v.Name
		}
		return src(t)
	}
}

// funcName gives the table name of a declaration: "pkg.Type.Method" / "pkg.Func"
// (no "pkg." in the root package).
func funcName(pi *pkgInfo, fd *ast.FuncDecl) string {
	prefix := ""
	if pi != nil && pi.rel != "" {
		prefix = pi.name + "."
	}
	if r := recvTypeName(fd); r != "" {
		return prefix + r + "." + fd.Name.Name
	}
	return prefix + fd.Name.Name
}
