package main

import (
	"go/ast"
	"strings"
)

func init() { extractors = append(extractors, extractStore) }

// callIndex returns the position (in source order) of the first call whose
// name contains sub, or -1.
func callIndex(cs []call, sub string) int {
	for i, c := range cs {
		if strings.Contains(c.name, sub) {
			return i
		}
	}
	return -1
}

// extractStore records the order of the durable steps of the header stores
// (headerfs) and of the block manager's rollback, the whence appendRaw seeks
// with, and whether start-up trims a partial header before looking at the size.
func extractStore() {
	l := newLean("Store")
	defer l.write()
	st := map[string]any{}
	fFile := parse("headerfs/file.go")
	fStore := parse("headerfs/store.go")
	fIndex := parse("headerfs/index.go")
	fBM := parse("blockmanager.go")

	before := func(name string, fd *ast.FuncDecl, first, second string, where string) {
		ok := false
		if fd == nil {
			fail("%s: function for fact %s", where, name)
		} else {
			cs := calls(fd.Body)
			i, j := callIndex(cs, first), callIndex(cs, second)
			if i < 0 || j < 0 {
				fail("%s: calls %q and %q for fact %s", where, first, second, name)
			}
			ok = i >= 0 && j >= 0 && i < j
		}
		l.def(name, "Bool", lbool(ok), where+": "+first+" precedes "+second)
		st[name] = ok
	}

	// appendRaw: which whence
	whence := ""
	if fd := funcDecl(fFile, "headerStore", "appendRaw"); fd != nil {
		for _, c := range calls(fd.Body) {
			if c.name == "h.file.Seek" && len(c.args) == 2 {
				whence = c.args[1]
			}
		}
		cs := calls(fd.Body)
		l.def("appendRawTruncatesOnShortWrite", "Bool", lbool(callIndex(cs, "h.file.Truncate") > callIndex(cs, "h.file.Write") && callIndex(cs, "h.file.Write") >= 0),
			"appendRaw truncates after a failed Write")
	} else {
		fail("headerfs/file.go: headerStore.appendRaw")
	}
	l.def("appendRawSeeksEnd", "Bool", lbool(whence == "io.SeekEnd"), "appendRaw remembers the END of the file (whence = "+whence+")")
	st["appendRawWhence"] = whence

	before("blockWriteFileFirst", funcDecl(fStore, "blockHeaderStore", "WriteHeaders"), "h.appendRaw", "h.addHeaders", "blockHeaderStore.WriteHeaders")
	before("blockWriteRepairSyncThenTruncate", funcDecl(fStore, "blockHeaderStore", "WriteHeaders"), "h.file.Sync", "h.truncateHeaders", "blockHeaderStore.WriteHeaders")
	before("filterWriteFileFirst", funcDecl(fStore, "filterHeaderStore", "WriteHeaders"), "f.appendRaw", "f.truncateIndices", "filterHeaderStore.WriteHeaders")
	before("filterWriteRepairSyncThenTruncate", funcDecl(fStore, "filterHeaderStore", "WriteHeaders"), "f.file.Sync", "f.truncateHeaders", "filterHeaderStore.WriteHeaders")
	before("blockRollbackIndexFirst", funcDecl(fStore, "blockHeaderStore", "RollbackBlockHeaders"), "h.truncateIndices", "h.truncateHeaders", "blockHeaderStore.RollbackBlockHeaders")
	before("filterRollbackIndexFirst", funcDecl(fStore, "filterHeaderStore", "RollbackLastBlock"), "f.truncateIndices", "f.truncateHeaders", "filterHeaderStore.RollbackLastBlock")
	before("blockOpenTrimsFirst", funcDecl(fStore, "", "NewBlockHeaderStore"), "trimPartialHeader", "file.Stat", "NewBlockHeaderStore")
	before("filterOpenTrimsFirst", funcDecl(fStore, "", "NewFilterHeaderStore"), "trimPartialHeader", "file.Stat", "NewFilterHeaderStore")
	before("rollbackFilterStoreFirst", funcDecl(fBM, "blockManager", "rollBackToHeight"), "RegFilterHeaders.RollbackLastBlock", "BlockHeaders.RollbackLastBlock", "blockManager.rollBackToHeight")

	// header sizes
	sizes := map[string]string{}
	if fIndex != nil {
		ast.Inspect(fIndex, func(n ast.Node) bool {
			vs, ok := n.(*ast.ValueSpec)
			if !ok {
				return true
			}
			for i, name := range vs.Names {
				if (name.Name == "BlockHeaderSize" || name.Name == "RegularFilterHeaderSize") && i < len(vs.Values) {
					sizes[name.Name] = src(vs.Values[i])
				}
			}
			return true
		})
	}
	for _, k := range []string{"BlockHeaderSize", "RegularFilterHeaderSize"} {
		v, ok := sizes[k]
		if !ok {
			fail("headerfs/index.go: const %s", k)
			v = "0"
		}
		l.def(strings.ToLower(k[:1])+k[1:], "Nat", v, "headerfs."+k)
		st[k] = v
	}
	facts["store"] = st
}
