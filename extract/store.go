package main

import (
	"go/ast"
	"strings"
)

func init() { extractors = append(extractors, extractStore) }

// callIndex returns the position (in source order) of the first call whose
// name contains sub, or -1.
func callIndex(cs []call, sub string) int {
	for i, c := range cs {
		if strings.Contains(c.name, sub) {
			return i
		}
	}
	return -1
}

// extractStore records the order of the durable steps of the header stores
// (headerfs) and of the block manager's rollback, the whence appendRaw seeks
// with, and whether start-up trims a partial header before looking at the size.
func extractStore() {
	l := newLean("Store")
	defer l.write()
	st := map[string]any{}
	fFile := parse("headerfs/file.go")
	fStore := parse("headerfs/store.go")
	fIndex := parse("headerfs/index.go")
	fBM := parse("blockmanager.go")

	fileOf := func(fd *ast.FuncDecl) *ast.File {
		for _, f := range []*ast.File{fFile, fStore, fIndex, fBM} {
			if f == nil {
				continue
			}
			for _, d := range f.Decls {
				if d == ast.Decl(fd) {
					return f
				}
			}
		}
		return nil
	}
	before := func(name string, fd *ast.FuncDecl, first, second string, where string) {
		ok := false
		if fd == nil {
			fail("%s: function for fact %s", where, name)
		} else {
			// (calls of same-file unexported helpers count where the helper is called)
			cs := callsInlined(fileOf(fd), fd.Body)
			i, j := callIndex(cs, first), callIndex(cs, second)
			if i < 0 || j < 0 {
				fail("%s: calls %q and %q for fact %s", where, first, second, name)
			}
			ok = i >= 0 && j >= 0 && i < j
		}
		l.def(name, "Bool", lbool(ok), where+": "+first+" precedes "+second)
		st[name] = ok
	}

	// appendRaw: which whence
	whence := ""
	if fd := funcDecl(fFile, "headerStore", "appendRaw"); fd != nil {
		for _, c := range calls(fd.Body) {
			if c.name == "h.file.Seek" && len(c.args) == 2 {
				whence = c.args[1]
			}
		}
		cs := calls(fd.Body)
		l.def("appendRawTruncatesOnShortWrite", "Bool", lbool(callIndex(cs, "h.file.Truncate") > callIndex(cs, "h.file.Write") && callIndex(cs, "h.file.Write") >= 0),
			"appendRaw truncates after a failed Write")
	} else {
		fail("headerfs/file.go: headerStore.appendRaw")
	}
	l.def("appendRawSeeksEnd", "Bool", lbool(whence == "io.SeekEnd"), "appendRaw remembers the END of the file (whence = "+whence+")")
	st["appendRawWhence"] = whence

	before("blockWriteFileFirst", funcDecl(fStore, "blockHeaderStore", "WriteHeaders"), "h.appendRaw", "h.addHeaders", "blockHeaderStore.WriteHeaders")
	before("blockWriteRepairSyncThenTruncate", funcDecl(fStore, "blockHeaderStore", "WriteHeaders"), "h.file.Sync", "h.truncateHeaders", "blockHeaderStore.WriteHeaders")
	before("filterWriteFileFirst", funcDecl(fStore, "filterHeaderStore", "WriteHeaders"), "f.appendRaw", "f.truncateIndices", "filterHeaderStore.WriteHeaders")
	before("filterWriteRepairSyncThenTruncate", funcDecl(fStore, "filterHeaderStore", "WriteHeaders"), "f.file.Sync", "f.truncateHeaders", "filterHeaderStore.WriteHeaders")
	before("blockRollbackIndexFirst", funcDecl(fStore, "blockHeaderStore", "RollbackBlockHeaders"), "h.truncateIndices", "h.truncateHeaders", "blockHeaderStore.RollbackBlockHeaders")
	before("filterRollbackIndexFirst", funcDecl(fStore, "filterHeaderStore", "RollbackLastBlock"), "f.truncateIndices", "f.truncateHeaders", "filterHeaderStore.RollbackLastBlock")
	before("blockOpenTrimsFirst", funcDecl(fStore, "", "NewBlockHeaderStore"), "trimPartialHeader", "file.Stat", "NewBlockHeaderStore")
	before("filterOpenTrimsFirst", funcDecl(fStore, "", "NewFilterHeaderStore"), "trimPartialHeader", "file.Stat", "NewFilterHeaderStore")
	before("rollbackFilterStoreFirst", funcDecl(fBM, "blockManager", "rollBackToHeight"), "RegFilterHeaders.RollbackLastBlock", "BlockHeaders.RollbackLastBlock", "blockManager.rollBackToHeight")

	// header sizes
	sizes := map[string]string{}
	if fIndex != nil {
		ast.Inspect(fIndex, func(n ast.Node) bool {
			vs, ok := n.(*ast.ValueSpec)
			if !ok {
				return true
			}
			for i, name := range vs.Names {
				if (name.Name == "BlockHeaderSize" || name.Name == "RegularFilterHeaderSize") && i < len(vs.Values) {
					sizes[name.Name] = src(vs.Values[i])
				}
			}
			return true
		})
	}
	for _, k := range []string{"BlockHeaderSize", "RegularFilterHeaderSize"} {
		v, ok := sizes[k]
		if !ok {
			fail("headerfs/index.go: const %s", k)
			v = "0"
		}
		l.def(strings.ToLower(k[:1])+k[1:], "Nat", v, "headerfs."+k)
		st[k] = v
	}
	// the two-place layout of the index (root bucket for entries of older versions, hash-prefix sub-buckets)
	count := func(cs []call, name string) int {
		n := 0
		for _, c := range cs {
			if c.name == name {
				n++
			}
		}
		return n
	}
	layout := func(name string, ok bool, comment string) {
		l.def(name, "Bool", lbool(ok), comment)
		st[name] = ok
	}
	if fd := funcDecl(fIndex, "", "getHeaderEntry"); fd != nil {
		cs := calls(fd.Body)
		body := squeeze(src(fd.Body))
		layout("indexGetSubThenRoot", count(cs, "getHeaderEntryFallback") == 2 && count(cs, "rootBucket.NestedReadBucket") == 1 &&
			count(cs, "subBucket.Get") == 1 && strings.Contains(body, "ifsubBucket==nil{") && strings.Contains(body, "ifheightBytes==nil{"),
			"getHeaderEntry: the sub-bucket first; the root bucket when the sub-bucket or the key is missing")
	} else {
		fail("headerfs/index.go: getHeaderEntry")
	}
	if fd := funcDecl(fIndex, "", "getHeaderEntryFallback"); fd != nil {
		layout("indexFallbackReadsRoot", count(calls(fd.Body), "rootBucket.Get") == 1, "getHeaderEntryFallback reads the root bucket")
	} else {
		fail("headerfs/index.go: getHeaderEntryFallback")
	}
	if fd := funcDecl(fIndex, "headerIndex", "addHeaders"); fd != nil {
		cs := calls(fd.Body)
		tipOnly := true
		for _, c := range cs {
			if c.name == "rootBucket.Put" && (len(c.args) != 2 || c.args[0] != "tipKey") {
				tipOnly = false
			}
		}
		layout("indexAddIntoSubBucket", count(cs, "putHeaderEntryInBucket") == 1 && count(cs, "rootBucket.NestedReadWriteBucket") == 1 &&
			count(cs, "rootBucket.Put") == 1 && tipOnly && strings.Contains(squeeze(src(fd.Body)), "prefix:=header.hash[0:numSubBucketBytes]"),
			"addHeaders: every entry goes into the sub-bucket named by the hash prefix; the root bucket only receives the tip key")
		// the whole batch, tip included, is ONE transaction: exactly one walletdb.Update reachable from addHeaders
		// (helpers of the same file followed), not inside a loop, and the tip key is put inside that transaction
		nUpd, inLoop := 0, false
		var walk func(n ast.Node, loop bool, depth int)
		walk = func(n ast.Node, loop bool, depth int) {
			ast.Inspect(n, func(m ast.Node) bool {
				switch x := m.(type) {
				case *ast.ForStmt:
					walk(x.Body, true, depth)
					return false
				case *ast.RangeStmt:
					walk(x.Body, true, depth)
					return false
				case *ast.CallExpr:
					name := src(x.Fun)
					if name == "walletdb.Update" || strings.HasSuffix(name, ".db.Update") {
						nUpd++
						if loop {
							inLoop = true
						}
					} else if strings.HasPrefix(name, "h.") && depth < 3 {
						if hd := funcDecl(fIndex, "headerIndex", strings.TrimPrefix(name, "h.")); hd != nil {
							walk(hd.Body, loop, depth+1)
						}
					}
				}
				return true
			})
		}
		walk(fd.Body, false, 0)
		layout("indexAddOneTransaction", nUpd == 1 && !inLoop && count(cs, "rootBucket.Put") == 1,
			"addHeaders: the entries of a batch and the new tip are written by exactly one database transaction (no loop over transactions)")
	} else {
		fail("headerfs/index.go: headerIndex.addHeaders")
	}
	if fd := funcDecl(fIndex, "", "putHeaderEntryInBucket"); fd != nil {
		layout("indexPutKeyIsHash", strings.Contains(squeeze(src(fd.Body)), "subBucket.Put(header.hash[:],heightBytes[:])"), "putHeaderEntryInBucket: key = hash, value = height")
	} else {
		fail("headerfs/index.go: putHeaderEntryInBucket")
	}
	if fd := funcDecl(fIndex, "", "deleteHeaderEntries"); fd != nil {
		cs := calls(fd.Body)
		body := squeeze(src(fd.Body))
		layout("indexDeleteRootElseSub", strings.Contains(body, "iflen(rootBucket.Get(hashBytes))==4{rootBucketHashes=append(rootBucketHashes,hash)continue}") &&
			count(cs, "rootBucket.Delete") == 1 && count(cs, "subBucket.Delete") == 1 && count(cs, "rootBucket.NestedReadWriteBucket") == 1 &&
			strings.Contains(body, "ifsubBucket==nil{returnfmt.Errorf("),
			"deleteHeaderEntries: hashes found in the root bucket are deleted there, the others from their sub-bucket; a missing sub-bucket is an error")
	} else {
		fail("headerfs/index.go: deleteHeaderEntries")
	}
	if fd := funcDecl(fIndex, "", "newHeaderIndex"); fd != nil {
		layout("indexOpenEnsuresSubBuckets", count(calls(fd.Body), "ensureIndexSubBuckets") == 1, "newHeaderIndex creates every sub-bucket")
	} else {
		fail("headerfs/index.go: newHeaderIndex")
	}
	if fd := funcDecl(fIndex, "", "ensureIndexSubBuckets"); fd != nil {
		body := squeeze(src(fd.Body))
		nb, _ := constInt(fIndex, "numSubBucketBytes")
		layout("indexEnsureAllPrefixes", nb == 2 && strings.Contains(body, "fori:=0;i<=0xffff;i++{") && strings.Contains(body, "rootBucket.CreateBucketIfNotExists(prefix[:])"),
			"ensureIndexSubBuckets creates all 2^16 two-byte prefixes")
	} else {
		fail("headerfs/index.go: ensureIndexSubBuckets")
	}
	if fd := funcDecl(fStore, "headerStore", "resetInterruptedInit"); fd != nil {
		cs := calls(fd.Body)
		layout("openResetsInterruptedInit", callIndex(cs, "h.hasChainTip") >= 0 && callIndex(cs, "h.file.Truncate") > callIndex(cs, "h.hasChainTip") &&
			strings.Contains(squeeze(src(fd.Body)), "iffileSize!=int64(headerSize){returnfileSize,nil}"),
			"resetInterruptedInit: only a file of exactly one header with no tip in the index is emptied")
	} else {
		layout("openResetsInterruptedInit", false, "resetInterruptedInit missing")
	}
	before("blockOpenResetBeforeSizeTest", funcDecl(fStore, "", "NewBlockHeaderStore"), "resetInterruptedInit", "bhs.WriteHeaders", "NewBlockHeaderStore")
	before("filterOpenResetBeforeSizeTest", funcDecl(fStore, "", "NewFilterHeaderStore"), "resetInterruptedInit", "fhs.WriteHeaders", "NewFilterHeaderStore")
	// the read side: ancestor ranges and the block locator
	if fd := funcDecl(fStore, "blockHeaderStore", "FetchHeaderAncestors"); fd != nil {
		body := squeeze(src(fd.Body))
		layout("ancestorsRangeEndsAtHash", strings.Contains(body, "endHeight,err:=h.heightFromHash(stopHash)") &&
			strings.Contains(body, "startHeight:=endHeight-numHeaders") && strings.Contains(body, "h.readHeaderRange(startHeight,endHeight)"),
			"FetchHeaderAncestors reads the range [height(stopHash) - numHeaders, height(stopHash)]")
	} else {
		fail("headerfs/store.go: blockHeaderStore.FetchHeaderAncestors")
	}
	if fd := funcDecl(fStore, "blockHeaderStore", "blockLocatorFromHash"); fd != nil {
		body := squeeze(src(fd.Body))
		layout("locatorStepsBackDoubling", strings.Contains(body, "decrement:=uint32(1)") &&
			strings.Contains(body, "forheight>0&&len(locator)<wire.MaxBlockLocatorsPerMsg{") &&
			strings.Contains(body, "iflen(locator)>10{decrement*=2}") &&
			strings.Contains(body, "ifdecrement>height{height=0}else{height-=decrement}") &&
			strings.Contains(body, "locator=append(locator,hash)"),
			"blockLocatorFromHash: the given hash, then one step back for the first ten entries, doubling afterwards, floor at genesis, at most wire.MaxBlockLocatorsPerMsg entries")
	} else {
		fail("headerfs/store.go: blockHeaderStore.blockLocatorFromHash")
	}
	facts["store"] = st
}
