package main

// C17: WaitGroup balance.  A `Stop` that waits on a WaitGroup returns only if
// every slot taken by `wg.Add` is given back.  For every `X.Add(n)` on a
// sync.WaitGroup in the shutdown-relevant files this records how the slot is
// released, judged from the statements that follow the Add in the same block:
//
//   go-defer       n == 1 (or n literal) and the next n statements are `go` statements whose function
//                  body (literal, or the called function/method of the package) has `defer X.Done()`
//                  among its top-level statements: released when the goroutine returns, whatever it does
//   loop-go-defer  `X.Add(len(xs))` followed by a loop whose body starts such a goroutine
//   go-done        as go-defer, but the goroutine's function calls `X.Done()` explicitly (not deferred)
//   timer-defer    the next statement creates a timer (time.AfterFunc) whose callback defers X.Done():
//                  released only if the timer fires - every path that stops it must release the slot itself
//   none           nothing recognisable releases the slot
//
// and every `X.Done()` that is not a top-level `defer` of a goroutine's function
// (an explicit hand-back on some path).

import (
	"go/ast"
	"go/token"
)

type wgAdd struct {
	Fn      string `json:"fn"`
	Wg      string `json:"wg"`
	Count   string `json:"count"`
	Release string `json:"release"`
	File    string `json:"file"`
	Line    int    `json:"line"`
}

type wgDone struct {
	Fn   string `json:"fn"`
	Wg   string `json:"wg"`
	File string `json:"file"`
	Line int    `json:"line"`
}

func isWaitGroup(pi *pkgInfo, x ast.Expr) bool {
	t := typeOf(pi, x)
	if t != nil {
		return namedIs(t, "sync", "WaitGroup")
	}
	s := src(x)
	return len(s) >= 2 && (s[len(s)-2:] == "wg" || s[len(s)-2:] == "Wg")
}

// wgCall matches `X.<name>(...)` on a WaitGroup and returns X.
func wgCall(pi *pkgInfo, n ast.Node, name string) (ast.Expr, *ast.CallExpr) {
	ce, ok := n.(*ast.CallExpr)
	if !ok {
		return nil, nil
	}
	se, ok := ce.Fun.(*ast.SelectorExpr)
	if !ok || se.Sel.Name != name || !isWaitGroup(pi, se.X) {
		return nil, nil
	}
	return se.X, ce
}

// deferDone: how the top-level statements of body hand the slot of wg back: "defer", "explicit" or "".
func doneIn(pi *pkgInfo, body *ast.BlockStmt, wg string) string {
	if body == nil {
		return ""
	}
	for _, s := range body.List {
		if ds, ok := s.(*ast.DeferStmt); ok {
			if x, _ := wgCall(pi, ds.Call, "Done"); x != nil && chanName(pi, x) == wg {
				return "defer"
			}
		}
	}
	found := ""
	ast.Inspect(body, func(n ast.Node) bool {
		if _, isLit := n.(*ast.FuncLit); isLit {
			return false
		}
		if x, _ := wgCall(pi, n, "Done"); x != nil && chanName(pi, x) == wg {
			found = "explicit"
		}
		return true
	})
	return found
}

// bodyOfCall: the body of the function a `go f(...)` / `go x.m(...)` statement starts.
func bodyOfCall(pi *pkgInfo, ce *ast.CallExpr) *ast.BlockStmt {
	if fl, ok := ce.Fun.(*ast.FuncLit); ok {
		return fl.Body
	}
	name := calleeName(pi, ce)
	if name == "" {
		return nil
	}
	for _, f := range pi.files {
		for _, d := range f.Decls {
			if fd, ok := d.(*ast.FuncDecl); ok && fd.Body != nil && funcName(pi, fd) == name {
				return fd.Body
			}
		}
	}
	return nil
}

func timerCallback(st ast.Stmt) *ast.FuncLit {
	var lit *ast.FuncLit
	ast.Inspect(st, func(n ast.Node) bool {
		ce, ok := n.(*ast.CallExpr)
		if !ok || lit != nil {
			return lit == nil
		}
		if src(ce.Fun) == "time.AfterFunc" && len(ce.Args) == 2 {
			if fl, ok := ce.Args[1].(*ast.FuncLit); ok {
				lit = fl
			}
			return false
		}
		return true
	})
	return lit
}

func waitGroupsOfFunc(pi *pkgInfo, rel string, fd *ast.FuncDecl) ([]wgAdd, []wgDone) {
	var adds []wgAdd
	var dones []wgDone
	fn := funcName(pi, fd)
	// every statement list of the function, including those of nested literals
	var lists [][]ast.Stmt
	ast.Inspect(fd.Body, func(n ast.Node) bool {
		switch v := n.(type) {
		case *ast.BlockStmt:
			lists = append(lists, v.List)
		case *ast.CaseClause:
			lists = append(lists, v.Body)
		case *ast.CommClause:
			lists = append(lists, v.Body)
		}
		return true
	})
	for _, list := range lists {
		for i, st := range list {
			es, ok := st.(*ast.ExprStmt)
			if !ok {
				continue
			}
			x, ce := wgCall(pi, es.X, "Add")
			if x == nil || len(ce.Args) != 1 {
				continue
			}
			wg := chanName(pi, x)
			a := wgAdd{Fn: fn, Wg: wg, Count: src(ce.Args[0]), Release: "none", File: rel, Line: fset.Position(ce.Pos()).Line}
			n := 1
			if bl, ok := ce.Args[0].(*ast.BasicLit); ok && bl.Kind == token.INT {
				n = 0
				for _, c := range bl.Value {
					n = n*10 + int(c-'0')
				}
			}
			rest := list[i+1:]
			switch {
			case len(rest) > 0 && timerCallback(rest[0]) != nil:
				if doneIn(pi, timerCallback(rest[0]).Body, wg) == "defer" {
					a.Release = "timer-defer"
				}
			case len(rest) > 0 && isLoop(rest[0]):
				var inner *ast.GoStmt
				ast.Inspect(rest[0], func(m ast.Node) bool {
					if g, ok := m.(*ast.GoStmt); ok && inner == nil {
						inner = g
					}
					return inner == nil
				})
				if inner != nil && doneIn(pi, bodyOfCall(pi, inner.Call), wg) == "defer" {
					a.Release = "loop-go-defer"
				}
			default:
				// the next n `go` statements, allowing up to two plain statements in between
				kinds := map[string]int{}
				skipped, launched := 0, 0
				for k := 0; k < len(rest) && launched < n; k++ {
					g, ok := rest[k].(*ast.GoStmt)
					if !ok {
						if skipped++; skipped > 2 {
							break
						}
						continue
					}
					launched++
					kinds[doneIn(pi, bodyOfCall(pi, g.Call), wg)]++
				}
				switch {
				case n > 0 && kinds["defer"] == n:
					a.Release = "go-defer"
				case n > 0 && kinds["defer"]+kinds["explicit"] == n:
					a.Release = "go-done"
				}
			}
			adds = append(adds, a)
		}
	}
	// explicit Done calls: every X.Done() that is not a top-level defer of a function / literal body
	topDefer := map[*ast.CallExpr]bool{}
	markTop := func(body *ast.BlockStmt) {
		if body == nil {
			return
		}
		for _, s := range body.List {
			if ds, ok := s.(*ast.DeferStmt); ok {
				topDefer[ds.Call] = true
			}
		}
	}
	markTop(fd.Body)
	ast.Inspect(fd.Body, func(n ast.Node) bool {
		if fl, ok := n.(*ast.FuncLit); ok {
			markTop(fl.Body)
		}
		return true
	})
	ast.Inspect(fd.Body, func(n ast.Node) bool {
		if x, ce := wgCall(pi, n, "Done"); x != nil && !topDefer[ce] {
			dones = append(dones, wgDone{Fn: fn, Wg: chanName(pi, x), File: rel, Line: fset.Position(ce.Pos()).Line})
		}
		return true
	})
	return adds, dones
}

func isLoop(s ast.Stmt) bool {
	switch s.(type) {
	case *ast.ForStmt, *ast.RangeStmt:
		return true
	}
	return false
}
