package main

// C17: every blocking channel operation of the shutdown-relevant files, the
// channels the Stop methods close, and the order of ChainService.Stop.
//
// A *site* is one statement at which a goroutine can park for an unbounded time:
//   send    bare `ch <- v`                         (not a select case)
//   recv    bare `<-ch` / `v := <-ch`              (not a select case)
//   range   `for ... := range ch`
//   select  a select statement: all its cases, and whether it has a default
//   wait    `x.Wait()` on a sync.WaitGroup (or anything that is not a sync.Cond)
//   cond    `x.Wait()` on a sync.Cond
// Channels are named by the struct field they denote ("blockManager.quit",
// "pushtx.Broadcaster.quit") when go/types can tell, otherwise by their source
// text ("quit", "ctx.Done()", "time.After()").

import (
	"fmt"
	"go/ast"
	"go/token"
	"go/types"
	"os"
	"path/filepath"
	"regexp"
	"sort"
	"strings"
)

func init() { extractors = append(extractors, extractStopSites) }

// files of C17's anchors, plus notifications.go (the request/reply methods that
// talk to peerHandler live there) and query/worker.go (the goroutines the work
// manager's Stop waits for).
var stopFiles = []string{
	"neutrino.go", "notifications.go", "blockmanager.go", "query.go", "query/workmanager.go", "query/worker.go",
	"utxoscanner.go", "rescan.go", "pushtx/broadcaster.go", "blockntfns/manager.go", "chanutils/batch_writer.go",
}

type siteAlt struct {
	Send bool   `json:"send"`
	Chan string `json:"chan"`
}

type stopSite struct {
	Fn         string    `json:"fn"`
	Recv       string    `json:"recv"`
	File       string    `json:"file"`
	Line       int       `json:"line"`
	Kind       string    `json:"kind"`
	Alts       []siteAlt `json:"alts"`
	HasDefault bool      `json:"default"`

	pos token.Pos
}

type stopEv struct {
	Fn   string `json:"fn"`
	Kind string `json:"kind"` // close | wait | call
	Arg  string `json:"arg"`
	Line int    `json:"line"`
}

// chanName canonicalises a channel (or wait-group, or mutex) expression.
func chanName(pi *pkgInfo, e ast.Expr) string {
	e = ast.Unparen(e)
	if n, ok := fieldOf(pi, e); ok {
		return n
	}
	if c, ok := e.(*ast.CallExpr); ok {
		return chanName(pi, c.Fun) + "()"
	}
	if se, ok := e.(*ast.SelectorExpr); ok {
		// x.f where x is itself a known field: keep the field path readable
		if n, ok := fieldOf(pi, se.X); ok {
			return n + "." + se.Sel.Name
		}
	}
	return strings.Join(strings.Fields(src(e)), " ")
}

func isChan(pi *pkgInfo, e ast.Expr) bool {
	t := typeOf(pi, e)
	if t == nil {
		return false
	}
	_, ok := t.Underlying().(*types.Chan)
	return ok
}

func splitRel(rel string) (dir, base string) {
	if i := strings.LastIndex(rel, "/"); i >= 0 {
		return rel[:i], rel[i+1:]
	}
	return "", rel
}

func sitesOfFunc(pi *pkgInfo, rel string, fd *ast.FuncDecl) []stopSite {
	var out []stopSite
	fn := funcName(pi, fd)
	recv := ""
	if i := strings.LastIndex(fn, "."); i >= 0 && fd.Recv != nil {
		recv = fn[:i]
	}
	comm := map[ast.Node]bool{}
	add := func(kind string, pos token.Pos, alts []siteAlt, def bool) {
		out = append(out, stopSite{Fn: fn, Recv: recv, File: rel, Line: fset.Position(pos).Line, Kind: kind, Alts: alts, HasDefault: def, pos: pos})
	}
	recvOf := func(n ast.Node) (ast.Expr, bool) {
		var e ast.Expr
		switch v := n.(type) {
		case *ast.ExprStmt:
			e = v.X
		case *ast.AssignStmt:
			if len(v.Rhs) == 1 {
				e = v.Rhs[0]
			}
		}
		if e == nil {
			return nil, false
		}
		if u, ok := ast.Unparen(e).(*ast.UnaryExpr); ok && u.Op == token.ARROW {
			return u.X, true
		}
		return nil, false
	}
	ast.Inspect(fd.Body, func(n ast.Node) bool {
		switch v := n.(type) {
		case *ast.SelectStmt:
			var alts []siteAlt
			def := false
			for _, c := range v.Body.List {
				cc, ok := c.(*ast.CommClause)
				if !ok {
					continue
				}
				if cc.Comm == nil {
					def = true
					continue
				}
				if s, ok := cc.Comm.(*ast.SendStmt); ok {
					comm[s] = true
					alts = append(alts, siteAlt{true, chanName(pi, s.Chan)})
					continue
				}
				if ch, ok := recvOf(cc.Comm); ok {
					// mark the unary expression so that it is not reported as a bare receive
					ast.Inspect(cc.Comm, func(m ast.Node) bool {
						if u, ok := m.(*ast.UnaryExpr); ok && u.Op == token.ARROW && u.X == ch {
							comm[u] = true
						}
						return true
					})
					alts = append(alts, siteAlt{false, chanName(pi, ch)})
				}
			}
			add("select", v.Pos(), alts, def)
		case *ast.SendStmt:
			if !comm[v] {
				add("send", v.Pos(), []siteAlt{{true, chanName(pi, v.Chan)}}, false)
			}
		case *ast.UnaryExpr:
			if v.Op == token.ARROW && !comm[v] {
				add("recv", v.Pos(), []siteAlt{{false, chanName(pi, v.X)}}, false)
			}
		case *ast.RangeStmt:
			if isChan(pi, v.X) {
				add("range", v.Pos(), []siteAlt{{false, chanName(pi, v.X)}}, false)
			}
		case *ast.CallExpr:
			se, ok := v.Fun.(*ast.SelectorExpr)
			if !ok || se.Sel.Name != "Wait" || len(v.Args) != 0 {
				break
			}
			t := typeOf(pi, se.X)
			switch {
			case namedIs(t, "sync", "Cond"):
				add("cond", v.Pos(), []siteAlt{{false, chanName(pi, se.X)}}, false)
			case namedIs(t, "sync", "WaitGroup"):
				add("wait", v.Pos(), []siteAlt{{false, chanName(pi, se.X)}}, false)
			case t == nil:
				// unknown receiver: keep it if it looks like a wait group / condition
				low := strings.ToLower(src(se.X))
				if strings.HasSuffix(low, "wg") || strings.Contains(low, "waitgroup") {
					add("wait", v.Pos(), []siteAlt{{false, chanName(pi, se.X)}}, false)
				} else if strings.Contains(low, "cond") {
					add("cond", v.Pos(), []siteAlt{{false, chanName(pi, se.X)}}, false)
				}
			}
		}
		return true
	})
	sort.SliceStable(out, func(i, j int) bool { return out[i].Line < out[j].Line })
	return out
}

func isStopName(n string) bool {
	switch n {
	case "Stop", "stop", "Shutdown", "shutdown":
		return true
	}
	return false
}

// stopEvents lists, in source order, close(x), x.Wait() and x.Stop()-like calls
// of a Stop method.
func stopEventsOf(pi *pkgInfo, fd *ast.FuncDecl) []stopEv {
	var out []stopEv
	fn := funcName(pi, fd)
	ast.Inspect(fd.Body, func(n ast.Node) bool {
		ce, ok := n.(*ast.CallExpr)
		if !ok {
			return true
		}
		line := fset.Position(ce.Pos()).Line
		if id, ok := ce.Fun.(*ast.Ident); ok && id.Name == "close" && len(ce.Args) == 1 {
			out = append(out, stopEv{fn, "close", chanName(pi, ce.Args[0]), line})
			return true
		}
		if se, ok := ce.Fun.(*ast.SelectorExpr); ok {
			switch {
			case se.Sel.Name == "Wait" && len(ce.Args) == 0:
				out = append(out, stopEv{fn, "wait", chanName(pi, se.X), line})
			case isStopName(se.Sel.Name) || se.Sel.Name == "Broadcast" || se.Sel.Name == "Signal":
				out = append(out, stopEv{fn, "call", chanName(pi, se.X) + "." + se.Sel.Name, line})
			}
		}
		return true
	})
	sort.SliceStable(out, func(i, j int) bool { return out[i].Line < out[j].Line })
	return out
}

func lq(s string) string { return fmt.Sprintf("%q", s) }

func extractStopSites() {
	l := newLean("StopSites")
	defer l.write()
	var sites []stopSite
	var events []stopEv
	closedSet := map[string]bool{}
	var wgAdds []wgAdd
	var wgDones []wgDone
	var makes []chanMake
	var cbs []callbackInfo
	var cbCallees []cbCallee
	cbDone := map[string]bool{}
	for _, rel := range stopFiles {
		dir, base := splitRel(rel)
		pi := loadPkg(dir)
		if pi == nil {
			continue
		}
		f := pi.files[base]
		if f == nil {
			fail("%s: file is missing (C17 anchor)", rel)
			continue
		}
		if !cbDone[dir] {
			// per-response callbacks of the work manager registered anywhere in this package
			cbDone[dir] = true
			c, ce := workerCallbacksOf(pi)
			cbs, cbCallees = append(cbs, c...), append(cbCallees, ce...)
		}
		nStop := 0
		for _, d := range f.Decls {
			fd, ok := d.(*ast.FuncDecl)
			if !ok || fd.Body == nil {
				continue
			}
			for _, s := range sitesOfFunc(pi, rel, fd) {
				// a site inside a callback literal runs on a worker goroutine, not on the goroutine of the function
				// that registers the callback
				for _, cb := range cbs {
					if cb.lit != nil && cb.encl == fd && s.pos >= cb.lit.Pos() && s.pos < cb.lit.End() {
						s.Fn = cb.Fn
					}
				}
				sites = append(sites, s)
			}
			makes = append(makes, chanMakesOfFunc(pi, rel, fd)...)
			as, ds := waitGroupsOfFunc(pi, rel, fd)
			wgAdds, wgDones = append(wgAdds, as...), append(wgDones, ds...)
			if isStopName(fd.Name.Name) && fd.Recv != nil {
				nStop++
				evs := stopEventsOf(pi, fd)
				events = append(events, evs...)
				for _, e := range evs {
					if e.Kind == "close" {
						closedSet[e.Arg] = true
					}
				}
			}
		}
		_ = nStop
	}
	// anchors the argument depends on
	need := []string{"ChainService.Stop", "blockManager.Stop", "query.peerWorkManager.Stop", "UtxoScanner.Stop",
		"pushtx.Broadcaster.Stop", "blockntfns.SubscriptionManager.Stop", "chanutils.BatchWriter.Stop"}
	have := map[string]bool{}
	for _, e := range events {
		have[e.Fn] = true
	}
	for _, n := range need {
		if !have[n] {
			fail("C17: method %s not found or has no close/Wait/Stop call", n)
		}
	}
	var closed []string
	for c := range closedSet {
		closed = append(closed, c)
	}
	sort.Strings(closed)

	// All names are interned: the Lean side compares small naturals (kernel `decide` on strings is slow), and the
	// hand-written tables refer to them as N.«name», so a name that disappears from the source breaks elaboration
	// of the table that mentions it.
	in := newInterner()
	var rows []string
	for _, s := range sites {
		var as []string
		for _, a := range s.Alts {
			as = append(as, fmt.Sprintf("⟨%s, %s⟩", lbool(a.Send), in.ref(a.Chan)))
		}
		rows = append(rows, fmt.Sprintf("  ⟨%s, %s, %s, %d, %s, [%s], %s⟩", in.ref(s.Fn), in.ref(s.Recv), lq(s.File), s.Line, lq(s.Kind), strings.Join(as, ", "), lbool(s.HasDefault)))
	}
	var evs []string
	var csStop, csStopRefs []string
	for _, e := range events {
		evs = append(evs, fmt.Sprintf("  ⟨%s, %s, %s⟩", in.ref(e.Fn), lq(e.Kind), in.ref(e.Arg)))
		if e.Fn == "ChainService.Stop" {
			csStop = append(csStop, e.Kind+" "+e.Arg)
			csStopRefs = append(csStopRefs, in.ref(e.Kind+" "+e.Arg))
		}
	}
	var closedRefs []string
	for _, c := range closed {
		closedRefs = append(closedRefs, in.ref(c))
	}
	var was, wds []string
	for _, a := range wgAdds {
		was = append(was, fmt.Sprintf("  ⟨%s, %s, %s, %s, %s, %d⟩", in.ref(a.Fn), in.ref(a.Wg), lq(a.Count), lq(a.Release), lq(a.File), a.Line))
	}
	for _, d := range wgDones {
		wds = append(wds, fmt.Sprintf("  ⟨%s, %s, %s, %d⟩", in.ref(d.Fn), in.ref(d.Wg), lq(d.File), d.Line))
	}
	var mks []string
	for _, m := range makes {
		var fl []string
		for _, f := range m.Flows {
			fl = append(fl, in.ref(f))
		}
		mks = append(mks, fmt.Sprintf("  ⟨%s, %s, %s, [%s], %s, %s, %d⟩", in.ref(m.Fn), in.ref(m.Name), lbool(m.Field), strings.Join(fl, ", "), lq(m.Cap), lq(m.File), m.Line))
	}
	var cbNames []string
	cbSeen := map[string]bool{}
	for _, cb := range cbs {
		if !cbSeen[cb.Fn] {
			cbSeen[cb.Fn] = true
			cbNames = append(cbNames, cb.Fn)
		}
	}
	sort.Strings(cbNames)
	var cbRefs, cbCalleeRows []string
	for _, n := range cbNames {
		cbRefs = append(cbRefs, in.ref(n))
	}
	sort.SliceStable(cbCallees, func(i, j int) bool {
		if cbCallees[i].Callback != cbCallees[j].Callback {
			return cbCallees[i].Callback < cbCallees[j].Callback
		}
		return cbCallees[i].Callee < cbCallees[j].Callee
	})
	for _, c := range cbCallees {
		cbCalleeRows = append(cbCalleeRows, fmt.Sprintf("(%s, %s)", in.ref(c.Callback), in.ref(c.Callee)))
	}
	in.emit(l)
	l.sb.WriteString("/-- `name := make(chan T, cap)` (or `F: make(chan T, cap)` in a composite literal) in `fn`; `field`: `name` is a struct field (the make is the value of a keyed composite-literal entry), else a local / an expression; `flows`: the struct fields a local channel is stored in by `fn`; `cap` in the canonical spelling of extract/chanmakes.go (\"0\" = unbuffered) -/\nstructure ChanMake where\n  fn : Nat\n  name : Nat\n  field : Bool\n  flows : List Nat\n  cap : String\n  file : String\n  line : Nat\n  deriving Repr\n\n")
	l.sb.WriteString("/-- `wg.Add(count)` in `fn`; `release`: go-defer | loop-go-defer | go-done | timer-defer | none (see extract/waitgroups.go) -/\nstructure WgAdd where\n  fn : Nat\n  wg : Nat\n  count : String\n  release : String\n  file : String\n  line : Nat\n  deriving Repr\n\n")
	l.sb.WriteString("/-- a `wg.Done()` that is not the top-level `defer` of a goroutine's function: an explicit hand-back on some path -/\nstructure WgDone where\n  fn : Nat\n  wg : Nat\n  file : String\n  line : Nat\n  deriving Repr\n\n")
	l.sb.WriteString("structure Alt where\n  send : Bool\n  chan : Nat\n  deriving Repr, DecidableEq\n\n")
	l.sb.WriteString("structure Site where\n  fn : Nat\n  recv : Nat\n  file : String\n  line : Nat\n  kind : String\n  alts : List Alt\n  hasDefault : Bool\n  deriving Repr\n\n")
	l.sb.WriteString("/-- kind: close | wait | call -/\nstructure StopEv where\n  fn : Nat\n  kind : String\n  arg : Nat\n  deriving Repr, DecidableEq\n\n")
	l.def("sites", "List Site", "[\n"+strings.Join(rows, ",\n")+"]",
		"every blocking channel operation / Wait of the files "+strings.Join(stopFiles, ", "))
	l.def("stopEvents", "List StopEv", "[\n"+strings.Join(evs, ",\n")+"]",
		"close(x) / x.Wait() / x.Stop() / x.Broadcast() / x.Signal() calls of every Stop method, in source order")
	l.def("chainServiceStop", "List Nat", "["+strings.Join(csStopRefs, ", ")+"]", "ChainService.Stop: its close/Wait/Stop calls in source order")
	l.def("wgAdds", "List WgAdd", "[\n"+strings.Join(was, ",\n")+"]", "every WaitGroup.Add of the shutdown-relevant files and how its slot is released")
	l.def("wgDones", "List WgDone", "[\n"+strings.Join(wds, ",\n")+"]", "explicit WaitGroup.Done calls (not the top-level defer of a goroutine)")
	l.def("stopClosed", "List Nat", "["+strings.Join(closedRefs, ", ")+"]", "channels closed by some Stop method")
	l.def("chanMakes", "List ChanMake", "[\n"+strings.Join(mks, ",\n")+"]", "every make(chan ...) of the shutdown-relevant files with its canonical capacity")
	l.def("workerCallbacks", "List Nat", "["+strings.Join(cbRefs, ", ")+"]",
		"functions registered as HandleResp of a query.Request: they run synchronously on a work-manager worker goroutine")
	l.def("workerCallbackCallees", "List (Nat × Nat)", "["+strings.Join(cbCalleeRows, ", ")+"]",
		"(callback, repo function it calls directly): the callee runs on a worker goroutine too")
	facts["stopsites"] = map[string]any{"wgAdds": wgAdds, "wgDones": wgDones, "sites": sites, "stopEvents": events, "chainServiceStop": csStop, "stopClosed": closed,
		"chanMakes": makes, "workerCallbacks": cbNames, "workerCallbackCallees": cbCallees}
	reportUndischarged(sites, closedSet)
	fmt.Printf("extract: C17 %d blocking sites in %d files; ChainService.Stop order: %s\n", len(sites), len(stopFiles), strings.Join(csStop, " ; "))
}

// interner numbers strings in order of first use and emits `namespace N`, one
// `abbrev N.«s» : Nat := i` per string, plus the table `names`.
type interner struct {
	ids   map[string]int
	names []string
}

func newInterner() *interner { return &interner{ids: map[string]int{}} }

func leanIdent(s string) string {
	s = strings.NewReplacer("«", "<", "»", ">", "\n", " ").Replace(s)
	return "N.«" + s + "»"
}

func (in *interner) ref(s string) string {
	if s == "" {
		s = "-"
	}
	if _, ok := in.ids[s]; !ok {
		in.ids[s] = len(in.names)
		in.names = append(in.names, s)
	}
	return leanIdent(s)
}

func (in *interner) emit(l *leanFile) {
	for i, n := range in.names {
		fmt.Fprintf(&l.sb, "abbrev %s : Nat := %d\n", leanIdent(n), i)
	}
	fmt.Fprintf(&l.sb, "\n/-- id -> source name (display only) -/\ndef names : List String := %s\n\n", lstrs(in.names))
}

// reportUndischarged is a convenience for the evidence log (the Lean theorem is the authority): it prints the sites
// that have no default, no alternative on a Stop-closed channel, and no (function, channel) entry in the hand-written
// tables of lean/Neutrino/Model/Shutdown*.lean, when those files can be found next to the extractor binary.
func reportUndischarged(sites []stopSite, closed map[string]bool) {
	exe, err := os.Executable()
	if err != nil {
		return
	}
	root := filepath.Dir(filepath.Dir(exe))
	if v := os.Getenv("VERIF_DIR"); v != "" {
		root = v
	}
	var text string
	for _, f := range []string{"ShutdownDischarge.lean", "Shutdown.lean"} {
		b, err := os.ReadFile(filepath.Join(root, "lean", "Neutrino", "Model", f))
		if err != nil {
			return
		}
		text += string(b)
	}
	re := regexp.MustCompile("N\\.«([^»]*)», N\\.«([^»]*)»")
	listed := map[string]bool{}
	for _, m := range re.FindAllStringSubmatch(text, -1) {
		listed[m[1]+"\x00"+m[2]] = true
	}
	for _, s := range sites {
		ok := s.HasDefault
		for _, a := range s.Alts {
			if (!a.Send && closed[a.Chan]) || listed[s.Fn+"\x00"+a.Chan] {
				ok = true
			}
		}
		if !ok {
			ch := ""
			if len(s.Alts) > 0 {
				ch = s.Alts[0].Chan
			}
			fmt.Printf("extract: C17 site with no default, no Stop-closed quit alternative and no table entry: %s:%s (%s at %s:%d)\n", s.Fn, ch, s.Kind, s.File, s.Line)
		}
	}
}
