package main

import (
	"go/ast"
	"go/parser"
	"go/token"
	"os"
	"path/filepath"
	"strconv"
	"strings"
)

func init() { extractors = append(extractors, extractRescan) }

// extractRescan records the syntactic shape of the rescan state machine in
// <repo>/rescan.go: where the PrevBlock continuity check is (and is not) made,
// how the catch-up arm advances, how the block retry queue is used by the
// notification arm, and which watch sets are only ever appended to.
//
// Everything is read off the AST of the named function bodies.  A function,
// labelled loop, switch or clause that cannot be located is a missing anchor.
func extractRescan() {
	l := newLean("Rescan")
	defer l.write()
	const file = "rescan.go"
	f := parse(file)
	shape := map[string]any{}
	defer func() { facts["rescan"] = shape }()

	emit := func(name string, v bool, comment string) {
		l.def(name, "Bool", lbool(v), comment)
		shape[name] = v
	}
	method := func(recv, name string) *ast.FuncDecl {
		fd := funcDecl(f, recv, name)
		if f != nil && (fd == nil || fd.Body == nil) {
			fail("%s: method (*%s).%s", file, recv, name)
			return nil
		}
		return fd
	}

	// ---- small AST predicates -------------------------------------------
	none := token.NoPos
	// callsNamed: positions of the calls in n whose callee prints as name.
	callsNamed := func(n ast.Node, name string) []call {
		var out []call
		if n == nil {
			return nil
		}
		for _, c := range calls(n) {
			if c.name == name {
				out = append(out, c)
			}
		}
		return out
	}
	firstCall := func(n ast.Node, name string) token.Pos {
		if cs := callsNamed(n, name); len(cs) > 0 {
			return cs[0].pos
		}
		return none
	}
	firstCallArgs := func(n ast.Node, name string, args ...string) token.Pos {
	next:
		for _, c := range callsNamed(n, name) {
			if len(c.args) != len(args) {
				continue
			}
			for i := range args {
				if c.args[i] != args[i] {
					continue next
				}
			}
			return c.pos
		}
		return none
	}
	isIdent := func(e ast.Expr, name string) bool {
		id, ok := e.(*ast.Ident)
		return ok && id.Name == name
	}
	selEndsIn := func(e ast.Expr, name string) bool {
		s, ok := e.(*ast.SelectorExpr)
		return ok && s.Sel.Name == name
	}
	// cmp reports whether e is a binary comparison with one of the given
	// operators whose operands satisfy (a, b) in either order.
	cmp := func(e ast.Expr, ops []token.Token, a, b func(ast.Expr) bool) bool {
		be, ok := e.(*ast.BinaryExpr)
		if !ok {
			return false
		}
		okOp := false
		for _, op := range ops {
			okOp = okOp || be.Op == op
		}
		return okOp && ((a(be.X) && b(be.Y)) || (a(be.Y) && b(be.X)))
	}
	isCurHash := func(e ast.Expr) bool { return src(e) == "rs.curStamp.Hash" }
	// appendTo: positions of `<lhs> = append(<lhs>, ...)`; if second != "" the
	// call must be exactly append(<lhs>, <second>).  loopDepth is the number
	// of enclosing for/range statements (within n) of each hit.
	type hit struct {
		pos   token.Pos
		depth int
	}
	appendTo := func(n ast.Node, lhs, second string) []hit {
		var out []hit
		if n == nil {
			return nil
		}
		var walk func(x ast.Node, depth int)
		walk = func(x ast.Node, depth int) {
			ast.Inspect(x, func(y ast.Node) bool {
				if y == x {
					return true
				}
				switch v := y.(type) {
				case *ast.ForStmt:
					walk(v, depth+1)
					return false
				case *ast.RangeStmt:
					walk(v, depth+1)
					return false
				case *ast.AssignStmt:
					if v.Tok != token.ASSIGN || len(v.Lhs) != 1 || len(v.Rhs) != 1 || src(v.Lhs[0]) != lhs {
						return true
					}
					ce, ok := v.Rhs[0].(*ast.CallExpr)
					if !ok || !isIdent(ce.Fun, "append") || len(ce.Args) < 2 || src(ce.Args[0]) != lhs {
						return true
					}
					if second != "" && (len(ce.Args) != 2 || ce.Ellipsis.IsValid() || src(ce.Args[1]) != second) {
						return true
					}
					out = append(out, hit{v.Pos(), depth})
				}
				return true
			})
		}
		walk(n, 0)
		return out
	}
	// assigns: positions of the plain assignments `<lhs> = <rhs>` in n.
	assigns := func(n ast.Node, lhs, rhs string) []token.Pos {
		var out []token.Pos
		if n == nil {
			return nil
		}
		ast.Inspect(n, func(x ast.Node) bool {
			if as, ok := x.(*ast.AssignStmt); ok && as.Tok == token.ASSIGN &&
				len(as.Lhs) == 1 && len(as.Rhs) == 1 && src(as.Lhs[0]) == lhs && src(as.Rhs[0]) == rhs {
				out = append(out, as.Pos())
			}
			return true
		})
		return out
	}
	hasReturn := func(b *ast.BlockStmt, wantErr bool) bool {
		found := false
		ast.Inspect(b, func(x ast.Node) bool {
			if _, ok := x.(*ast.FuncLit); ok {
				return false
			}
			if r, ok := x.(*ast.ReturnStmt); ok {
				if !wantErr {
					found = true
				} else if len(r.Results) == 1 && !isIdent(r.Results[0], "nil") {
					found = true
				}
			}
			return true
		})
		return found
	}
	// body avoids storing a typed nil *ast.BlockStmt in an ast.Node.
	body := func(fd *ast.FuncDecl) ast.Node {
		if fd == nil {
			return nil
		}
		return fd.Body
	}

	// ---- handleBlockConnected -------------------------------------------
	hbc := method("rescanState", "handleBlockConnected")
	connectedChecksPrev, connectedPrevCheckFirst, connectedCurAdvanceAfterNotify := false, false, false
	if hbc != nil {
		prevIf := none
		ast.Inspect(hbc.Body, func(x ast.Node) bool {
			is, ok := x.(*ast.IfStmt)
			if !ok || prevIf != none {
				return true
			}
			if cmp(is.Cond, []token.Token{token.NEQ, token.EQL},
				func(e ast.Expr) bool { return selEndsIn(e, "PrevBlock") }, isCurHash) &&
				hasReturn(is.Body, true) {
				prevIf = is.Pos()
			}
			return true
		})
		connectedChecksPrev = prevIf != none
		firstFetch := none
		for _, n := range []string{"chain.GetCFilter", "chain.GetFilterHeaderByHeight"} {
			if p := firstCall(hbc.Body, n); p != none && (firstFetch == none || p < firstFetch) {
				firstFetch = p
			}
		}
		if firstFetch == none {
			fail("%s: handleBlockConnected: call chain.GetCFilter / chain.GetFilterHeaderByHeight", file)
		} else {
			connectedPrevCheckFirst = connectedChecksPrev && prevIf < firstFetch
		}
		notify := firstCall(hbc.Body, "rs.notifyBlockWithFilter")
		if notify == none {
			fail("%s: handleBlockConnected: call rs.notifyBlockWithFilter", file)
		} else {
			hs := assigns(hbc.Body, "rs.curHeader", "header")
			ss := assigns(hbc.Body, "rs.curStamp", "newStamp")
			connectedCurAdvanceAfterNotify = len(hs) > 0 && len(ss) > 0 &&
				hs[len(hs)-1] > notify && ss[len(ss)-1] > notify
		}
	}

	// ---- rescan: locate rescanLoop / switch current / its clauses ---------
	rescan := method("rescanState", "rescan")
	var caseTrue, caseFalse *ast.CaseClause
	if rescan != nil {
		var loop *ast.ForStmt
		ast.Inspect(rescan.Body, func(x ast.Node) bool {
			if ls, ok := x.(*ast.LabeledStmt); ok && ls.Label.Name == "rescanLoop" && loop == nil {
				loop, _ = ls.Stmt.(*ast.ForStmt)
			}
			return true
		})
		if loop == nil {
			fail("%s: rescan: labelled for-loop rescanLoop", file)
		} else {
			var sw *ast.SwitchStmt
			ast.Inspect(loop.Body, func(x ast.Node) bool {
				if _, ok := x.(*ast.FuncLit); ok {
					return false
				}
				if s, ok := x.(*ast.SwitchStmt); ok && sw == nil && s.Init == nil && s.Tag != nil && isIdent(s.Tag, "current") {
					sw = s
				}
				return true
			})
			if sw == nil {
				fail("%s: rescan: `switch current` inside rescanLoop", file)
			} else {
				for _, st := range sw.Body.List {
					cc := st.(*ast.CaseClause)
					if len(cc.List) != 1 {
						continue
					}
					switch {
					case isIdent(cc.List[0], "true") && caseTrue == nil:
						caseTrue = cc
					case isIdent(cc.List[0], "false") && caseFalse == nil:
						caseFalse = cc
					}
				}
				if caseFalse == nil {
					fail("%s: rescan: `case false:` of switch current", file)
				}
				if caseTrue == nil {
					fail("%s: rescan: `case true:` of switch current", file)
				}
			}
		}
	}

	// ---- rescan: the catch-up arm (case false) ---------------------------
	catchUpChecksPrev, catchUpReadsByHeight, catchUpSubscribeClearsQueue := false, false, false
	if caseFalse != nil {
		ast.Inspect(caseFalse, func(x ast.Node) bool {
			if id, ok := x.(*ast.Ident); ok && id.Name == "PrevBlock" {
				catchUpChecksPrev = true
			}
			return true
		})
		catchUpReadsByHeight = firstCall(caseFalse, "chain.GetBlockHeaderByHeight") != none &&
			firstCallArgs(caseFalse, "rs.notifyBlock") != none
		catchUpSubscribeClearsQueue = firstCall(caseFalse, "chain.Subscribe") != none &&
			firstCallArgs(caseFalse, "blockRetryQueue.clear") != none
	}

	// ---- rescan: the notification arm (case true) ------------------------
	stashWhenQueueNonEmpty, disconnectRemovesFromQueue, retryPopsOnlyOnSuccess := false, false, false
	if caseTrue != nil {
		var connCase, discCase *ast.CaseClause
		var retryComm *ast.CommClause
		ast.Inspect(caseTrue, func(x ast.Node) bool {
			switch v := x.(type) {
			case *ast.FuncLit:
				return false
			case *ast.TypeSwitchStmt:
				for _, st := range v.Body.List {
					cc := st.(*ast.CaseClause)
					for _, t := range cc.List {
						switch src(t) {
						case "*blockntfns.Connected":
							if connCase == nil {
								connCase = cc
							}
						case "*blockntfns.Disconnected":
							if discCase == nil {
								discCase = cc
							}
						}
					}
				}
			case *ast.CommClause:
				if es, ok := v.Comm.(*ast.ExprStmt); ok && retryComm == nil {
					if u, ok := es.X.(*ast.UnaryExpr); ok && u.Op == token.ARROW && isIdent(u.X, "blockRetrySignal") {
						retryComm = v
					}
				}
			}
			return true
		})
		if connCase == nil {
			fail("%s: rescan: type-switch case *blockntfns.Connected in the case-true arm", file)
		} else {
			stash := none
			ast.Inspect(connCase, func(x ast.Node) bool {
				is, ok := x.(*ast.IfStmt)
				if !ok || stash != none || is.Init != nil {
					return true
				}
				be, ok := is.Cond.(*ast.BinaryExpr)
				if !ok || be.Op != token.NEQ || !isIdent(be.Y, "nil") {
					return true
				}
				ce, ok := be.X.(*ast.CallExpr)
				if !ok || src(ce.Fun) != "blockRetryQueue.peek" || len(ce.Args) != 0 {
					return true
				}
				cont := false
				ast.Inspect(is.Body, func(y ast.Node) bool {
					if b, ok := y.(*ast.BranchStmt); ok && b.Tok == token.CONTINUE && b.Label != nil && b.Label.Name == "rescanLoop" {
						cont = true
					}
					return true
				})
				if cont && firstCall(is.Body, "blockRetryQueue.push") != none {
					stash = is.Pos()
				}
				return true
			})
			handle := firstCallArgs(connCase, "rs.handleBlockConnected", "ntfn")
			if handle == none {
				fail("%s: rescan: call rs.handleBlockConnected(ntfn) in case *blockntfns.Connected", file)
			} else {
				stashWhenQueueNonEmpty = stash != none && stash < handle
			}
		}
		if discCase == nil {
			fail("%s: rescan: type-switch case *blockntfns.Disconnected in the case-true arm", file)
		} else {
			handle := firstCallArgs(discCase, "rs.handleBlockDisconnected", "ntfn")
			if handle == none {
				fail("%s: rescan: call rs.handleBlockDisconnected(ntfn) in case *blockntfns.Disconnected", file)
			} else {
				rm := firstCallArgs(discCase, "blockRetryQueue.remove", "ntfn.Header()")
				disconnectRemovesFromQueue = rm != none && rm < handle &&
					firstCall(discCase, "blockRetryQueue.clear") == none
			}
		}
		if retryComm == nil {
			fail("%s: rescan: select clause `case <-blockRetrySignal:` in the case-true arm", file)
		} else {
			type span struct{ lo, hi token.Pos }
			var okSpans []span
			ast.Inspect(retryComm, func(x ast.Node) bool {
				if s, ok := x.(*ast.SwitchStmt); ok && s.Tag != nil && isIdent(s.Tag, "err") {
					for _, st := range s.Body.List {
						cc := st.(*ast.CaseClause)
						if len(cc.List) == 1 && isIdent(cc.List[0], "nil") {
							okSpans = append(okSpans, span{cc.Pos(), cc.End()})
						}
					}
				}
				return true
			})
			pops := callsNamed(retryComm, "blockRetryQueue.pop")
			retryPopsOnlyOnSuccess = len(pops) > 0
			for _, p := range pops {
				in := false
				for _, s := range okSpans {
					in = in || (s.lo <= p.pos && p.pos < s.hi)
				}
				retryPopsOnlyOnSuccess = retryPopsOnlyOnSuccess && in
			}
		}
	}

	// ---- rescan: retry interval, BY VALUE -----------------------------------
	// The duration handed to time.After(..) where blockRetrySignal is armed, constant-folded: literals, time.<Unit>,
	// * + and time.Duration(..) conversions, identifiers resolved through the locals of rescan() and the package-level
	// const/var declarations of the root package (any file).  Where and under which name it is written does not matter.
	retryIntervalMs := 0
	if rescan != nil {
		units := map[string]int64{"time.Nanosecond": 1, "time.Microsecond": 1e3, "time.Millisecond": 1e6,
			"time.Second": 1e9, "time.Minute": 60e9, "time.Hour": 3600e9}
		localDecl := func(name string) ast.Expr {
			var val ast.Expr
			ast.Inspect(rescan.Body, func(x ast.Node) bool {
				switch v := x.(type) {
				case *ast.ValueSpec:
					for i, n := range v.Names {
						if n.Name == name && val == nil && len(v.Values) == len(v.Names) {
							val = v.Values[i]
						}
					}
				case *ast.AssignStmt:
					for i, n := range v.Lhs {
						if v.Tok == token.DEFINE && isIdent(n, name) && val == nil && len(v.Rhs) == len(v.Lhs) {
							val = v.Rhs[i]
						}
					}
				}
				return true
			})
			return val
		}
		var pkgFiles []*ast.File
		pkgDecl := func(name string) ast.Expr {
			if pkgFiles == nil {
				pkgFiles = []*ast.File{f}
				ents, _ := os.ReadDir(repo)
				for _, e := range ents {
					n := e.Name()
					if e.IsDir() || !strings.HasSuffix(n, ".go") || strings.HasSuffix(n, "_test.go") || n == file {
						continue
					}
					if pf, err := parser.ParseFile(fset, filepath.Join(repo, n), nil, 0); err == nil &&
						pf.Name.Name == f.Name.Name {
						pkgFiles = append(pkgFiles, pf)
					}
				}
			}
			for _, pf := range pkgFiles {
				for _, d := range pf.Decls {
					gd, ok := d.(*ast.GenDecl)
					if !ok || (gd.Tok != token.CONST && gd.Tok != token.VAR) {
						continue
					}
					for _, sp := range gd.Specs {
						vs := sp.(*ast.ValueSpec)
						for i, n := range vs.Names {
							if n.Name == name && len(vs.Values) == len(vs.Names) {
								return vs.Values[i]
							}
						}
					}
				}
			}
			return nil
		}
		var eval func(e ast.Expr, depth int) (int64, bool)
		eval = func(e ast.Expr, depth int) (int64, bool) {
			if e == nil || depth > 8 {
				return 0, false
			}
			switch v := e.(type) {
			case *ast.ParenExpr:
				return eval(v.X, depth+1)
			case *ast.BasicLit:
				if v.Kind == token.INT {
					n, err := strconv.ParseInt(v.Value, 0, 64)
					return n, err == nil
				}
			case *ast.SelectorExpr:
				u, ok := units[src(v)]
				return u, ok
			case *ast.BinaryExpr:
				a, ok1 := eval(v.X, depth+1)
				b, ok2 := eval(v.Y, depth+1)
				if ok1 && ok2 {
					switch v.Op {
					case token.MUL:
						return a * b, true
					case token.ADD:
						return a + b, true
					case token.QUO:
						if b != 0 {
							return a / b, true
						}
					}
				}
			case *ast.CallExpr:
				if src(v.Fun) == "time.Duration" && len(v.Args) == 1 {
					return eval(v.Args[0], depth+1)
				}
			case *ast.Ident:
				if d := localDecl(v.Name); d != nil {
					return eval(d, depth+1)
				}
				return eval(pkgDecl(v.Name), depth+1)
			}
			return 0, false
		}
		// every time.After(..) whose result arms blockRetrySignal
		var durs []ast.Expr
		ast.Inspect(rescan.Body, func(x ast.Node) bool {
			as, ok := x.(*ast.AssignStmt)
			if !ok || len(as.Lhs) != 1 || len(as.Rhs) != 1 || !isIdent(as.Lhs[0], "blockRetrySignal") {
				return true
			}
			if c, ok := as.Rhs[0].(*ast.CallExpr); ok && src(c.Fun) == "time.After" && len(c.Args) == 1 {
				durs = append(durs, c.Args[0])
			}
			return true
		})
		ok := len(durs) > 0
		var ns int64 = -1
		for _, d := range durs {
			v, good := eval(d, 0)
			if !good || (ns >= 0 && v != ns) {
				ok = false
			}
			ns = v
		}
		if ok && ns > 0 && ns%1e6 == 0 {
			retryIntervalMs = int(ns / 1e6)
		} else {
			fail("%s: rescan: blockRetrySignal = time.After(<duration that folds to one whole number of milliseconds>)", file)
		}
	}

	// ---- handleBlockDisconnected ------------------------------------------
	disconnectedChecksCur := false
	if hbd := method("rescanState", "handleBlockDisconnected"); hbd != nil {
		ast.Inspect(hbd.Body, func(x ast.Node) bool {
			is, ok := x.(*ast.IfStmt)
			if !ok {
				return true
			}
			isHashCall := func(e ast.Expr) bool {
				ce, ok := e.(*ast.CallExpr)
				return ok && len(ce.Args) == 0 && selEndsIn(ce.Fun, "BlockHash")
			}
			if cmp(is.Cond, []token.Token{token.NEQ}, isHashCall, isCurHash) && is.Else == nil && len(is.Body.List) == 1 {
				if r, ok := is.Body.List[0].(*ast.ReturnStmt); ok && len(r.Results) == 0 {
					disconnectedChecksCur = true
				}
			}
			return true
		})
	}

	// ---- blockRetryQueue.remove -------------------------------------------
	queueRemoveTruncates := len(assigns(body(method("blockRetryQueue", "remove")), "q.blocks", "q.blocks[:headerIdx]")) > 0

	// ---- watch sets only grow ----------------------------------------------
	inLoop := func(hs []hit) bool {
		for _, h := range hs {
			if h.depth > 0 {
				return true
			}
		}
		return false
	}
	pays := body(method("rescanOptions", "paysWatchedAddr"))
	paysAppendsInput := inLoop(appendTo(pays, "ro.watchInputs", ""))
	paysAppendsWatchList := inLoop(appendTo(pays, "ro.watchList", "pkScript"))
	upd := body(method("rescanOptions", "updateFilter"))
	updateAppendsWatchList := len(appendTo(upd, "ro.watchAddrs", "")) > 0 &&
		len(appendTo(upd, "ro.watchInputs", "")) > 0 &&
		len(appendTo(upd, "ro.watchList", "")) > 0

	// ---- emit, in the agreed order -----------------------------------------
	emit("connectedChecksPrev", connectedChecksPrev,
		"handleBlockConnected has `if <x>.PrevBlock != rs.curStamp.Hash { return <error> }`")
	emit("connectedPrevCheckFirst", connectedPrevCheckFirst,
		"that PrevBlock check precedes the first chain.GetCFilter / chain.GetFilterHeaderByHeight call of handleBlockConnected")
	emit("catchUpChecksPrev", catchUpChecksPrev,
		"the catch-up arm (`case false:` of `switch current` in rescan) mentions PrevBlock anywhere")
	emit("catchUpReadsByHeight", catchUpReadsByHeight,
		"the catch-up arm calls chain.GetBlockHeaderByHeight(..) and rs.notifyBlock()")
	emit("catchUpSubscribeClearsQueue", catchUpSubscribeClearsQueue,
		"the catch-up arm calls chain.Subscribe(..) and blockRetryQueue.clear()")
	emit("disconnectedChecksCur", disconnectedChecksCur,
		"handleBlockDisconnected has `if <x>.BlockHash() != rs.curStamp.Hash { return }`")
	emit("stashWhenQueueNonEmpty", stashWhenQueueNonEmpty,
		"case *blockntfns.Connected: `if blockRetryQueue.peek() != nil { push; continue rescanLoop }` precedes rs.handleBlockConnected(ntfn)")
	emit("disconnectRemovesFromQueue", disconnectRemovesFromQueue,
		"case *blockntfns.Disconnected: blockRetryQueue.remove(ntfn.Header()) precedes rs.handleBlockDisconnected(ntfn), and no blockRetryQueue.clear()")
	emit("retryPopsOnlyOnSuccess", retryPopsOnlyOnSuccess,
		"case <-blockRetrySignal: blockRetryQueue.pop() is called, and only inside `case nil:` of a `switch err`")
	emit("queueRemoveTruncates", queueRemoveTruncates,
		"blockRetryQueue.remove assigns q.blocks = q.blocks[:headerIdx]")
	emit("paysAppendsInput", paysAppendsInput,
		"paysWatchedAddr does ro.watchInputs = append(ro.watchInputs, ..) inside its loops")
	emit("paysAppendsWatchList", paysAppendsWatchList,
		"paysWatchedAddr does ro.watchList = append(ro.watchList, pkScript) inside its loops")
	emit("updateAppendsWatchList", updateAppendsWatchList,
		"updateFilter appends to each of ro.watchAddrs, ro.watchInputs and ro.watchList")
	l.def("retryIntervalMs", "Nat", strconv.Itoa(retryIntervalMs),
		"the retry interval of rescan in milliseconds: the value of the duration every blockRetrySignal = time.After(..) is armed with, constant-folded wherever it is declared")
	shape["retryIntervalMs"] = retryIntervalMs
	emit("connectedCurAdvanceAfterNotify", connectedCurAdvanceAfterNotify,
		"in handleBlockConnected the last rs.curHeader = header and rs.curStamp = newStamp both follow the rs.notifyBlockWithFilter(..) call")
}
