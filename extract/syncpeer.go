package main

import (
	"fmt"
	"go/ast"
	"sort"
	"strings"
)

func init() { extractors = append(extractors, extractSyncPeer) }

// extractSyncPeer lists every function of blockmanager.go that assigns the
// block manager's syncPeer field, with the number of assignments and what is
// assigned (nil / a peer expression).  C04's model has exactly three ways in
// which the sync peer changes (selection in startSync, reset + reselection in
// handleDonePeerMsg, the switch to the peer whose heavier branch is adopted in
// the reorg arm of handleHeadersMsg); a new assignment site changes the table.
func extractSyncPeer() {
	f := parse("blockmanager.go")
	if f == nil {
		return
	}
	type site struct {
		fn   string
		n    int
		nils int
	}
	var sites []site
	total := 0
	for _, d := range f.Decls {
		fd, ok := d.(*ast.FuncDecl)
		if !ok || fd.Body == nil {
			continue
		}
		s := site{fn: fd.Name.Name}
		ast.Inspect(fd.Body, func(x ast.Node) bool {
			as, ok := x.(*ast.AssignStmt)
			if !ok {
				return true
			}
			for i, lhs := range as.Lhs {
				sel, ok := lhs.(*ast.SelectorExpr)
				if !ok || sel.Sel.Name != "syncPeer" {
					continue
				}
				s.n++
				if i < len(as.Rhs) && strings.TrimSpace(src(as.Rhs[i])) == "nil" {
					s.nils++
				}
			}
			return true
		})
		if s.n > 0 {
			sites = append(sites, s)
			total += s.n
		}
	}
	if total == 0 {
		fail("blockmanager.go: no assignment to the syncPeer field found")
		return
	}
	sort.Slice(sites, func(i, j int) bool { return sites[i].fn < sites[j].fn })
	var rows []string
	for _, s := range sites {
		rows = append(rows, fmt.Sprintf("(%q, %d, %d)", s.fn, s.n, s.nils))
	}
	l := newLean("SyncPeer")
	l.def("assignSites", "List (String × Nat × Nat)", "["+strings.Join(rows, ", ")+"]",
		"functions of blockmanager.go assigning the syncPeer field: (function, assignments, of which `= nil`)")
	// handleDonePeerMsg re-runs startSync after clearing the departing sync peer
	done := funcDecl(f, "blockManager", "handleDonePeerMsg")
	l.def("donePeerReselects", "Bool", lbool(done != nil && hasCall(done, "b.startSync")),
		"handleDonePeerMsg calls b.startSync")
	newp := funcDecl(f, "blockManager", "handleNewPeerMsg")
	l.def("newPeerSelects", "Bool", lbool(newp != nil && hasCall(newp, "b.startSync")),
		"handleNewPeerMsg calls b.startSync")
	// early returns of startSync: conditions of its top-level `if … { …; return }` statements, in source order
	var guards []string
	if ss := funcDecl(f, "blockManager", "startSync"); ss != nil {
		for _, st := range ss.Body.List {
			if is, ok := st.(*ast.IfStmt); ok && is.Else == nil && endsWithReturn(is.Body) {
				guards = append(guards, squeeze(src(is.Cond)))
			}
		}
	} else {
		fail("blockmanager.go: startSync not found")
	}
	l.def("startSyncEarlyReturns", "List String", lstrs(guards),
		"conditions of the top-level early returns of startSync, in source order")
	// the condition under which handleNewPeerMsg asks the new peer for headers on the spot
	ask := ""
	if newp != nil {
		for _, is := range ifStmts(newp.Body) {
			if hasCall(is.Body, "sp.PushGetHeadersMsg") {
				ask = squeeze(src(is.Cond))
				break
			}
		}
	}
	if ask == "" {
		fail("blockmanager.go: handleNewPeerMsg no longer sends getheaders to the new peer under an if")
	}
	l.def("newPeerAskCond", "String", fmt.Sprintf("%q", ask),
		"handleNewPeerMsg sends getheaders to the new peer iff this holds")
	// the condition under which handleInvMsg ignores an announcement
	ign := ""
	if inv := funcDecl(f, "blockManager", "handleInvMsg"); inv != nil {
		for _, st := range inv.Body.List {
			if is, ok := st.(*ast.IfStmt); ok && len(is.Body.List) == 1 && endsWithReturn(is.Body) {
				ign = squeeze(src(is.Cond))
				break
			}
		}
	}
	if ign == "" {
		fail("blockmanager.go: handleInvMsg has no top-level `if … { return }`")
	}
	l.def("invIgnoreCond", "String", fmt.Sprintf("%q", ign), "handleInvMsg returns without reacting iff this holds")
	// how peer messages are handed to the block handler: the select around `b.peerChan <- …` in the four entry points
	var sends []string
	for _, fn := range []string{"DonePeer", "NewPeer", "QueueHeaders", "QueueInv"} {
		fd := funcDecl(f, "blockManager", fn)
		if fd == nil {
			fail("blockmanager.go: %s not found", fn)
			continue
		}
		found := false
		ast.Inspect(fd.Body, func(x ast.Node) bool {
			sel, ok := x.(*ast.SelectStmt)
			if !ok {
				return true
			}
			send, quit, dflt := false, false, false
			for _, c := range sel.Body.List {
				cc := c.(*ast.CommClause)
				switch comm := cc.Comm.(type) {
				case nil:
					dflt = true
				case *ast.SendStmt:
					if squeeze(src(comm.Chan)) == "b.peerChan" {
						send = true
					}
				case *ast.ExprStmt:
					if squeeze(src(comm.X)) == "<-b.quit" {
						quit = true
					}
				}
			}
			if send {
				found = true
				sends = append(sends, fmt.Sprintf("(%q, %s, %s)", fn, lbool(quit), lbool(dflt)))
			}
			return true
		})
		if !found {
			// a bare send, or no send at all
			bare := false
			ast.Inspect(fd.Body, func(x ast.Node) bool {
				if st, ok := x.(*ast.SendStmt); ok && squeeze(src(st.Chan)) == "b.peerChan" {
					bare = true
				}
				return true
			})
			if bare {
				sends = append(sends, fmt.Sprintf("(%q, false, false)", fn))
			} else {
				fail("blockmanager.go: %s no longer sends on b.peerChan", fn)
			}
		}
	}
	l.def("peerChanSends", "List (String × Bool × Bool)", "["+strings.Join(sends, ", ")+"]",
		"entry points handing a peer message to the block handler: (function, the select has `case <-b.quit`, the select has a `default` arm)")
	l.write()
	facts["syncpeer.sites"] = rows
}
