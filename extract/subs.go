package main

import (
	"go/ast"
	"go/token"
	"strconv"
	"strings"
)

func init() { extractors = append(extractors, extractSubs) }

// extractSubs records the facts of blockntfns/manager.go that the C11 model
// (lean/Neutrino/Model/Subs.lean) relies on:
//
//   - the capacity of a subscriber's outgoing channel and of its queue's output buffer,
//   - NewSubscription hands the subscription to the handler goroutine through the
//     newSubscriptions channel and never touches the client map itself; the
//     client map is only mutated by the two handler-side functions, which are
//     only called from subscriptionHandler,
//   - handleNewSubscription pushes the whole backlog before it inserts the
//     client into the map,
//   - notifySubscribers pushes to every client of the map unconditionally, and
//     the push / the forwarder's send are blocking (no `default:` = nothing dropped),
//   - cancel runs under a sync.Once and is: stop queue, close quit, wait for the
//     forwarder, close the channel; that is the only close of the channel.
func extractSubs() {
	l := newLean("Subs")
	defer l.write()
	const file = "blockntfns/manager.go"
	f := parse(file)
	shape := map[string]any{}
	defer func() { facts["subs"] = shape }()

	nat := func(name string, v int, ok bool, doc string) {
		if !ok {
			fail("%s: %s", file, doc)
		}
		l.def(name, "Nat", strconv.Itoa(v), doc)
		shape[name] = v
	}
	boolean := func(name string, v bool, doc string) {
		l.def(name, "Bool", lbool(v), doc)
		shape[name] = v
	}

	newSub := funcDecl(f, "SubscriptionManager", "NewSubscription")
	if newSub == nil {
		fail("%s: method SubscriptionManager.NewSubscription", file)
	}

	// intValue: an integer literal, or an identifier bound to one by a `const` of this file
	intValue := func(e ast.Expr) (int, bool) {
		if v, err := strconv.Atoi(src(e)); err == nil {
			return v, true
		}
		id, ok := e.(*ast.Ident)
		if !ok || f == nil {
			return 0, false
		}
		val, found := 0, false
		ast.Inspect(f, func(n ast.Node) bool {
			gd, ok := n.(*ast.GenDecl)
			if !ok || gd.Tok != token.CONST {
				return true
			}
			for _, sp := range gd.Specs {
				vs := sp.(*ast.ValueSpec)
				for i, nm := range vs.Names {
					if nm.Name == id.Name && i < len(vs.Values) {
						if v, err := strconv.Atoi(src(vs.Values[i])); err == nil {
							val, found = v, true
						}
					}
				}
			}
			return false
		})
		return val, found
	}

	// --- buffer sizes -------------------------------------------------------
	chanCap, chanOK, queueBuf, queueOK := 0, false, 0, false
	replyCap, replyOK, replySends := 0, false, 0
	if f != nil {
		// sends of the handler's reply to a registration: `<x>.errChan <- ...`
		ast.Inspect(f, func(n ast.Node) bool {
			if snd, ok := n.(*ast.SendStmt); ok && strings.HasSuffix(src(snd.Chan), ".errChan") {
				replySends++
			}
			return true
		})
	}
	if f != nil {
		// the `newSubscription{...}` literal, wherever in the file it is built
		ast.Inspect(f, func(n ast.Node) bool {
			kv, ok := n.(*ast.KeyValueExpr)
			if !ok {
				return true
			}
			key := src(kv.Key)
			c, ok := kv.Value.(*ast.CallExpr)
			if !ok {
				return true
			}
			switch {
			case key == "ntfnChan" && src(c.Fun) == "make" && len(c.Args) == 2:
				if v, ok := intValue(c.Args[1]); ok {
					chanCap, chanOK = v, true
				}
			case key == "ntfnChan" && src(c.Fun) == "make" && len(c.Args) == 1:
				chanCap, chanOK = 0, true // unbuffered
			case key == "errChan" && src(c.Fun) == "make" && len(c.Args) == 2:
				if v, ok := intValue(c.Args[1]); ok {
					replyCap, replyOK = v, true
				}
			case key == "errChan" && src(c.Fun) == "make" && len(c.Args) == 1:
				replyCap, replyOK = 0, true // unbuffered
			case key == "ntfnQueue" && strings.HasSuffix(src(c.Fun), "NewConcurrentQueue") && len(c.Args) == 1:
				if v, ok := intValue(c.Args[0]); ok {
					queueBuf, queueOK = v, true
				}
			}
			return true
		})
	}
	nat("ntfnChanCap", chanCap, chanOK, "capacity of a subscriber's outgoing channel: `ntfnChan: make(chan BlockNtfn, N)` in NewSubscription")
	nat("replyChanCap", replyCap, replyOK, "capacity of the channel on which the handler answers a registration: `errChan: make(chan error, N)` in the newSubscription literal")
	nat("replySendSites", replySends, f != nil, "number of send statements into a `.errChan` in blockntfns/manager.go (the handler's one reply per registration)")
	nat("queueOutBuf", queueBuf, queueOK, "output buffer of the per-subscriber queue: `queue.NewConcurrentQueue(N)` in NewSubscription")

	// --- who touches the client map ----------------------------------------
	var mutators []string
	callersOf := map[string][]string{}
	if f != nil {
		for _, d := range f.Decls {
			fd, ok := d.(*ast.FuncDecl)
			if !ok || fd.Body == nil {
				continue
			}
			mut := false
			ast.Inspect(fd.Body, func(n ast.Node) bool {
				switch v := n.(type) {
				case *ast.AssignStmt:
					for _, lhs := range v.Lhs {
						if ix, ok := lhs.(*ast.IndexExpr); ok && src(ix.X) == "m.subscribers" {
							mut = true
						}
						if src(lhs) == "m.subscribers" {
							mut = true
						}
					}
				case *ast.CallExpr:
					if src(v.Fun) == "delete" && len(v.Args) == 2 && src(v.Args[0]) == "m.subscribers" {
						mut = true
					}
					name := src(v.Fun)
					if strings.HasPrefix(name, "m.") {
						callersOf[strings.TrimPrefix(name, "m.")] = append(callersOf[strings.TrimPrefix(name, "m.")], fd.Name.Name)
					}
				}
				return true
			})
			if mut {
				mutators = append(mutators, fd.Name.Name)
			}
		}
	}
	l.def("mapMutators", "List String", lstrs(mutators), "functions that assign to or delete from m.subscribers")
	shape["mapMutators"] = mutators
	var mutCallers []string
	seen := map[string]bool{}
	for _, mfn := range mutators {
		for _, c := range callersOf[mfn] {
			if !seen[c] {
				seen[c] = true
				mutCallers = append(mutCallers, c)
			}
		}
	}
	l.def("mapMutatorCallers", "List String", lstrs(mutCallers), "functions that call one of mapMutators")
	shape["mapMutatorCallers"] = mutCallers

	// who consults the source for the backlog: must be the handler-side
	// registration function only, so that snapshot, backlog push and map insert
	// are one step of the handler goroutine (no notification can be taken by
	// the handler between the snapshot and the insert)
	var lookupCallers []string
	if f != nil {
		for _, d := range f.Decls {
			fd, ok := d.(*ast.FuncDecl)
			if !ok || fd.Body == nil {
				continue
			}
			for _, c := range calls(fd.Body) {
				if strings.HasSuffix(c.name, ".NotificationsSinceHeight") {
					lookupCallers = append(lookupCallers, fd.Name.Name)
				}
			}
		}
	}
	l.def("backlogLookupCallers", "List String", lstrs(lookupCallers), "functions that call NotificationsSinceHeight (one entry per call site)")
	shape["backlogLookupCallers"] = lookupCallers

	// NewSubscription: sends sub on m.newSubscriptions
	sendsToHandler := false
	if newSub != nil {
		ast.Inspect(newSub.Body, func(n ast.Node) bool {
			if s, ok := n.(*ast.SendStmt); ok && src(s.Chan) == "m.newSubscriptions" && src(s.Value) == "sub" {
				sendsToHandler = true
			}
			return true
		})
	}
	// the delivery goroutine exists before the handler can know the client: the
	// `go` that starts it precedes the hand-over, so that cancel()'s wait for it
	// (sub.wg) covers it from the moment the client can be cancelled or stopped
	fwdFirst := false
	if newSub != nil {
		var goPos, sendPos token.Pos
		nGo := 0
		ast.Inspect(newSub.Body, func(n ast.Node) bool {
			switch v := n.(type) {
			case *ast.GoStmt:
				nGo++
				goPos = v.Pos()
				return false
			case *ast.SendStmt:
				if src(v.Chan) == "m.newSubscriptions" && sendPos == token.NoPos {
					sendPos = v.Pos()
				}
			}
			return true
		})
		fwdFirst = nGo == 1 && sendPos != token.NoPos && goPos < sendPos
	}
	boolean("forwarderBeforeRegistration", fwdFirst, "NewSubscription starts its one goroutine (the forwarder) before it sends the subscription to the handler")

	boolean("registersViaHandler", sendsToHandler, "NewSubscription hands the subscription to the handler goroutine: `m.newSubscriptions <- sub`")

	// handleNewSubscription: backlog loop (calls notifySubscriber) strictly before the map insert
	backlogFirst := false
	if h := funcDecl(f, "SubscriptionManager", "handleNewSubscription"); h == nil {
		fail("%s: method SubscriptionManager.handleNewSubscription", file)
	} else {
		var loopEnd, insertPos token.Pos
		nInsert, nLoop, inGo := 0, 0, false
		ast.Inspect(h.Body, func(n ast.Node) bool {
			switch v := n.(type) {
			case *ast.GoStmt:
				inGo = true
			case *ast.RangeStmt:
				for _, c := range calls(v.Body) {
					if c.name == "m.notifySubscriber" {
						loopEnd = v.End()
						nLoop++
					}
				}
			case *ast.AssignStmt:
				for _, lhs := range v.Lhs {
					if ix, ok := lhs.(*ast.IndexExpr); ok && src(ix.X) == "m.subscribers" {
						insertPos = v.Pos()
						nInsert++
					}
				}
			}
			return true
		})
		backlogFirst = nLoop == 1 && nInsert == 1 && loopEnd < insertPos && !inGo
	}
	boolean("backlogBeforeInsert", backlogFirst, "handleNewSubscription pushes the whole backlog (synchronously, no goroutine) before `m.subscribers[sub.id] = sub`")

	// notifySubscribers: `for _, s := range m.subscribers { m.notifySubscriber(s, ntfn) }` and nothing conditional
	fanoutAll := false
	if h := funcDecl(f, "SubscriptionManager", "notifySubscribers"); h == nil {
		fail("%s: method SubscriptionManager.notifySubscribers", file)
	} else {
		for _, st := range h.Body.List {
			r, ok := st.(*ast.RangeStmt)
			if !ok || src(r.X) != "m.subscribers" || len(r.Body.List) != 1 {
				continue
			}
			if es, ok := r.Body.List[0].(*ast.ExprStmt); ok {
				if c, ok := es.X.(*ast.CallExpr); ok && src(c.Fun) == "m.notifySubscriber" {
					fanoutAll = true
				}
			}
		}
	}
	boolean("fanoutEveryClient", fanoutAll, "notifySubscribers calls notifySubscriber unconditionally for every entry of m.subscribers")

	// blocking sends: select statements containing the send have no default clause
	blockingSend := func(fd *ast.FuncDecl, chanText string) bool {
		if fd == nil {
			return false
		}
		found, ok := 0, true
		ast.Inspect(fd.Body, func(n ast.Node) bool {
			sel, isSel := n.(*ast.SelectStmt)
			if !isSel {
				return true
			}
			hasSend, hasDefault := false, false
			for _, cl := range sel.Body.List {
				cc := cl.(*ast.CommClause)
				if cc.Comm == nil {
					hasDefault = true
					continue
				}
				if s, isSend := cc.Comm.(*ast.SendStmt); isSend && src(s.Chan) == chanText {
					hasSend = true
				}
			}
			if hasSend {
				found++
				if hasDefault {
					ok = false
				}
			}
			return true
		})
		return found == 1 && ok
	}
	boolean("pushBlocking", blockingSend(funcDecl(f, "SubscriptionManager", "notifySubscriber"), "sub.ntfnQueue.ChanIn()"),
		"notifySubscriber's send into the client's queue is in a select without `default` (never dropped while the client and the manager are live)")
	// The forwarder is the goroutine NewSubscription starts: `go func(){ body }()`
	// or, equivalently, `go m.helper(sub)` / `go helper(sub)` with the body in a
	// function or method of the same file.  Follow the `go` to the body and look
	// there (and in same-file helpers it calls) for the send into `<x>.ntfnChan`,
	// whatever the subscription variable is called.
	goBodies := func(fd *ast.FuncDecl) []ast.Node {
		var out []ast.Node
		if fd == nil || f == nil {
			return nil
		}
		byName := map[string][]*ast.FuncDecl{}
		for _, d := range f.Decls {
			if g, ok := d.(*ast.FuncDecl); ok && g.Body != nil {
				byName[g.Name.Name] = append(byName[g.Name.Name], g)
			}
		}
		var follow func(body ast.Node, depth int)
		follow = func(body ast.Node, depth int) {
			out = append(out, body)
			if depth == 0 {
				return
			}
			// same-file helpers called from the goroutine's body
			for _, c := range calls(body) {
				name := strings.TrimPrefix(c.name, "defer ")
				if i := strings.LastIndex(name, "."); i >= 0 {
					name = name[i+1:]
				}
				if g := byName[name]; len(g) == 1 && g[0] != fd && g[0].Body != body {
					follow(g[0].Body, depth-1)
				}
			}
		}
		ast.Inspect(fd.Body, func(n ast.Node) bool {
			g, ok := n.(*ast.GoStmt)
			if !ok {
				return true
			}
			switch fun := g.Call.Fun.(type) {
			case *ast.FuncLit:
				follow(fun.Body, 2)
			default:
				name := src(fun)
				if i := strings.LastIndex(name, "."); i >= 0 {
					name = name[i+1:]
				}
				if t := byName[name]; len(t) == 1 && t[0] != fd {
					follow(t[0].Body, 2)
				}
			}
			return false
		})
		return out
	}
	fwdSends, fwdOK := 0, true
	var fwdQuits []string
	seenSel := map[*ast.SelectStmt]bool{}
	for _, body := range goBodies(newSub) {
		ast.Inspect(body, func(n ast.Node) bool {
			switch v := n.(type) {
			case *ast.SelectStmt:
				if seenSel[v] {
					return true
				}
				hasSend, hasDefault := false, false
				for _, cl := range v.Body.List {
					cc := cl.(*ast.CommClause)
					if cc.Comm == nil {
						hasDefault = true
						continue
					}
					if snd, isSend := cc.Comm.(*ast.SendStmt); isSend {
						if se, ok := snd.Chan.(*ast.SelectorExpr); ok && se.Sel.Name == "ntfnChan" {
							hasSend = true
						}
					}
				}
				if hasSend {
					// the same select must also listen to both quit channels (the
					// client's and the manager's): cancel() waits for this goroutine
					for _, cl := range v.Body.List {
						cc := cl.(*ast.CommClause)
						var rx ast.Expr
						switch c := cc.Comm.(type) {
						case *ast.ExprStmt:
							rx = c.X
						case *ast.AssignStmt:
							if len(c.Rhs) == 1 {
								rx = c.Rhs[0]
							}
						}
						if u, ok := rx.(*ast.UnaryExpr); ok && u.Op == token.ARROW {
							if se, ok := u.X.(*ast.SelectorExpr); ok && se.Sel.Name == "quit" {
								fwdQuits = append(fwdQuits, src(se.X))
							}
						}
					}
					seenSel[v] = true
					fwdSends++
					if hasDefault {
						fwdOK = false
					}
				}
			}
			return true
		})
	}
	// a send into ntfnChan that is not a select case (bare `x.ntfnChan <- n`) is blocking too,
	// but it cannot be interrupted by quit: count it so that the fact flips
	bareSends := 0
	if f != nil {
		inSelect := map[*ast.SendStmt]bool{}
		ast.Inspect(f, func(n ast.Node) bool {
			if cc, ok := n.(*ast.CommClause); ok {
				if snd, ok := cc.Comm.(*ast.SendStmt); ok {
					inSelect[snd] = true
				}
			}
			return true
		})
		ast.Inspect(f, func(n ast.Node) bool {
			if snd, ok := n.(*ast.SendStmt); ok && !inSelect[snd] {
				if se, ok := snd.Chan.(*ast.SelectorExpr); ok && se.Sel.Name == "ntfnChan" {
					bareSends++
				}
			}
			return true
		})
	}
	boolean("forwardBlocking", fwdSends == 1 && fwdOK && bareSends == 0,
		"the goroutine started by NewSubscription (inline literal or a same-file function/method it `go`es) has exactly one send into the client's channel, in a select without `default`")
	nat("forwardSendQuitCases", len(fwdQuits), true, "number of `<-x.quit` cases in the select that holds the forwarder's send (the client's quit and the manager's)")

	// every send into a client's channel, anywhere in the file, is that one
	allSends := 0
	if f != nil {
		ast.Inspect(f, func(n ast.Node) bool {
			if snd, ok := n.(*ast.SendStmt); ok {
				if se, ok := snd.Chan.(*ast.SelectorExpr); ok && se.Sel.Name == "ntfnChan" {
					allSends++
				}
			}
			return true
		})
	}
	nat("ntfnChanSendSites", allSends, true, "number of send statements into a `.ntfnChan` in blockntfns/manager.go (the forwarder's)")

	// cancel
	cancelOnce := false
	var cancelSeq []string
	if c := funcDecl(f, "newSubscription", "cancel"); c == nil {
		fail("%s: method newSubscription.cancel", file)
	} else if len(c.Body.List) == 1 {
		if es, ok := c.Body.List[0].(*ast.ExprStmt); ok {
			if call, ok := es.X.(*ast.CallExpr); ok && src(call.Fun) == "s.canceled.Do" && len(call.Args) == 1 {
				if fl, ok := call.Args[0].(*ast.FuncLit); ok {
					cancelOnce = true
					for _, st := range fl.Body.List {
						cancelSeq = append(cancelSeq, strings.Join(strings.Fields(src(st)), " "))
					}
				}
			}
		}
	}
	// the field must be a sync.Once
	onceField := false
	if f != nil {
		ast.Inspect(f, func(n ast.Node) bool {
			ts, ok := n.(*ast.TypeSpec)
			if !ok || ts.Name.Name != "newSubscription" {
				return true
			}
			if st, ok := ts.Type.(*ast.StructType); ok {
				for _, fld := range st.Fields.List {
					for _, nm := range fld.Names {
						if nm.Name == "canceled" && src(fld.Type) == "sync.Once" {
							onceField = true
						}
					}
				}
			}
			return false
		})
	}
	boolean("cancelOnce", cancelOnce && onceField, "newSubscription.cancel is exactly `s.canceled.Do(func(){...})` with `canceled sync.Once`")
	l.def("cancelSeq", "List String", lstrs(cancelSeq), "statements of the once-guarded cancel body, in order")
	shape["cancelSeq"] = cancelSeq

	// close(…ntfnChan) sites in the whole file
	closeSites := 0
	if f != nil {
		ast.Inspect(f, func(n ast.Node) bool {
			if c, ok := n.(*ast.CallExpr); ok && src(c.Fun) == "close" && len(c.Args) == 1 && strings.HasSuffix(src(c.Args[0]), "ntfnChan") {
				closeSites++
			}
			return true
		})
	}
	nat("closeChanSites", closeSites, true, "number of `close(….ntfnChan)` call sites in blockntfns/manager.go")
}
