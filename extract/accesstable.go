package main

// C18: the access table of the shared state named by the property's anchors.
//
// One row per selector expression that denotes one of the tracked struct
// fields (identity by go/types, so `c.ll` of lru.Cache is never confused with
// another `ll`): read or write, the enclosing function, and the mutexes
// lexically held at that point.
//
//   write = left-hand side of an assignment / op-assignment / ++ / --, `&x.f`,
//           `x.f[k] = v`, `delete(x.f, k)`, a mutating method call on the field
//           (`x.f.PushFront(..)`, `heap.Push(&x.f, ..)` via `&`), everything else is a read.
//   held  = `m.Lock()` / `m.RLock()` seen earlier in source order and not yet
//           released by `m.Unlock()` / `m.RUnlock()`; `defer m.Unlock()` keeps it to
//           the end of the function; a block that ends in return/break/continue/goto
//           /panic does not leak its unlocks to the code after it; the body of a `go func`
//           starts with nothing held, other function literals inherit.
// Call rows (callee, caller, held) let the Lean side check the hand-written claim
// "every caller of helper f holds lock L".

import (
	"fmt"
	"go/ast"
	"go/token"
	"go/types"
	"os"
	"sort"
	"strings"
)

func init() { extractors = append(extractors, extractAccessTable) }

// A field the reviewed tables (or this file) speak about has a ROLE name.  The role name is what the generated
// table and the reviewed tables use; it is the Go name the field had when the role was introduced.  The field that
// plays the role today is found by that name if the struct still has a field called so, else — the field was renamed
// — by its type and its ordinal among the struct's fields of that type (typeKey as in typeload.go stableFieldNames:
// "mutex" / "cond" for the sync types).  Renaming an unexported field therefore changes nothing in the generated
// table; inserting a field of the same type before it does not either, as long as the name is still there.
// Fields without a role are named by type and ordinal alone ("ServerPeer.mutex#1").
type fieldRole struct {
	Role    string // "pkg.Type.name"
	Type    string // type key of the field
	Ord     int    // 1-based ordinal among the struct's fields with that type key
	Tracked bool   // accesses to it are rows of the table (else the role only gives it a stable name)
}

// roles, by package directory
var fieldRoles = map[string][]fieldRole{
	"": {
		{"blockManager.headerTip", "uint32", 1, true}, {"blockManager.headerTipHash", "chainhash.Hash", 2, true},
		{"blockManager.filterHeaderTip", "uint32", 2, true}, {"blockManager.filterHeaderTipHash", "chainhash.Hash", 3, true},
		{"blockManager.syncPeer", "*ServerPeer", 1, true}, {"blockManager.lastRequested", "chainhash.Hash", 4, true},
		{"ServerPeer.recvSubscribers", "map[spMsgSubscription]struct{}", 1, true},
		{"ServerPeer.recvSubscribers2", "map[msgSubscription]struct{}", 1, true},
		{"UtxoScanner.pq", "GetUtxoRequestPQ", 1, true}, {"UtxoScanner.nextBatch", "[]*GetUtxoRequest", 1, true},
		{"GetUtxoRequest.result", "*getUtxoResult", 1, true},
		{"Rescan.err", "error", 1, true}, {"ChainService.peerSubscribers", "[]*peerSubscription", 1, true},
		{"ChainService.firstPeerConnect", "chan struct{}", 1, true},
		// named by the reviewed `ordered` table (tracked anyway: fields of a callback's receiver struct)
		{"cfiltersQuery.targetFilter", "*gcs.Filter", 1, false}, {"cfiltersQuery.headerIndex", "map[chainhash.Hash]int", 1, false},
		// named by the reviewed lock-alias table (sync.NewCond(&bm.newHeadersMtx))
		{"blockManager.newHeadersMtx", "mutex", 1, false}, {"blockManager.newHeadersSignal", "cond", 1, false},
	},
	"headerfs": {
		{"headerfs.headerFile.file", "headerfs.File", 1, true}, {"headerfs.headerIndex.db", "walletdb.DB", 1, true},
		{"headerfs.headerIndex.indexType", "headerfs.HeaderType", 1, true},
		// named by the reviewed caller-holds table
		{"headerfs.headerStore.mtx", "mutex", 1, false},
	},
	"cache/lru":  {{"lru.Cache.ll", "*lru.List[lru.entry[K, V]]", 1, true}, {"lru.Cache.size", "uint64", 2, true}},
	"blockntfns": {{"blockntfns.SubscriptionManager.subscribers", "map[uint64]*blockntfns.newSubscription", 1, true}},
}

// captured local variables of callback closures that the reviewed tables name: (enclosing function, variable) with
// the same name-first / type-and-ordinal-second resolution among the variables the closure writes
var capturedRoles = []fieldRole{
	{"ChainService.GetBlock.foundBlock", "*btcutil.Block", 1, false},
}

// resolveRoles overrides pi.stableName for the fields of package dir that have a role; it returns the tracked roles.
func resolveRoles(pi *pkgInfo, dir string) []string {
	var tracked []string
	// struct -> fields in declaration order is what stableName encodes; invert the two maps once
	byGo := map[string]*types.Var{}
	byStable := map[string]*types.Var{}
	for v, n := range pi.fieldName {
		byGo[n] = v
	}
	for v, n := range pi.stableName {
		byStable[n] = v
	}
	claimed := map[*types.Var]string{}
	var later []fieldRole
	for _, r := range fieldRoles[dir] {
		if v := byGo[r.Role]; v != nil {
			claimed[v] = r.Role
		} else {
			later = append(later, r)
		}
	}
	for _, r := range later {
		i := strings.LastIndex(r.Role, ".")
		v := byStable[fmt.Sprintf("%s.%s#%d", r.Role[:i], r.Type, r.Ord)]
		if v == nil || claimed[v] != "" {
			fail("C18: no field of %s plays the role %s any more (not by name, not as field #%d of type %s)", r.Role[:i], r.Role, r.Ord, r.Type)
			continue
		}
		claimed[v] = r.Role
		fmt.Printf("extract: C18 role %s is now played by field %s\n", r.Role, pi.fieldName[v])
	}
	for v, role := range claimed {
		pi.stableName[v] = role
	}
	for _, r := range fieldRoles[dir] {
		if r.Tracked {
			tracked = append(tracked, r.Role)
		}
	}
	return tracked
}

// Packages in which mutex-guarded state is found from the source instead of being listed: every field of a struct
// that also has a sync.Mutex / sync.RWMutex field (other than mutexes, condition variables, channels, wait groups
// and atomics) is a tracked field, under its rename-proof name.  A struct that gains a mutex and a map tomorrow is
// in the table the same day.  (Packages whose guarded structs are covered by the reviewed roles above, or whose
// structs need reviewed ownership entries first, are listed in DESIGN section 11.)
var autoGuardDirs = []string{"banman", "pushtx", "filterdb", "chainimport"}

func autoGuarded(pi *pkgInfo) []string {
	byStruct := map[string][]*types.Var{}
	hasMutex := map[string]bool{}
	// the struct a field belongs to: from its Go name "pkg.Type.field" (the type key inside a stable name may
	// contain dots itself: "banStore.map[string]banman.Status#1")
	structOf := func(v *types.Var) string {
		g := pi.fieldName[v]
		if i := strings.LastIndex(g, "."); i >= 0 {
			return g[:i]
		}
		return ""
	}
	for v, n := range pi.stableName {
		st := structOf(v)
		if st == "" || !strings.HasPrefix(n, st+".") {
			continue
		}
		byStruct[st] = append(byStruct[st], v)
		if strings.HasPrefix(n[len(st)+1:], "mutex#") {
			hasMutex[st] = true
		}
	}
	var out []string
	for st, vs := range byStruct {
		if !hasMutex[st] {
			continue
		}
		for _, v := range vs {
			n := pi.stableName[v]
			key := n[len(st)+1:]
			ts := v.Type().String()
			if strings.HasPrefix(key, "mutex#") || strings.HasPrefix(key, "cond#") || strings.HasPrefix(ts, "chan ") ||
				strings.HasPrefix(ts, "<-chan ") || strings.HasPrefix(ts, "chan<- ") || strings.HasPrefix(ts, "sync.") ||
				strings.HasPrefix(ts, "sync/atomic.") || strings.HasPrefix(ts, "func(") {
				continue
			}
			out = append(out, n)
		}
	}
	sort.Strings(out)
	return out
}

// freshLocals: local variables of fd initialised from a composite literal (or its address) or new(T)
func freshLocals(pi *pkgInfo, fd *ast.FuncDecl) map[types.Object]bool {
	out := map[types.Object]bool{}
	isFresh := func(e ast.Expr) bool {
		if u, ok := e.(*ast.UnaryExpr); ok && u.Op == token.AND {
			e = u.X
		}
		switch c := e.(type) {
		case *ast.CompositeLit:
			return true
		case *ast.CallExpr:
			if id, ok := c.Fun.(*ast.Ident); ok && id.Name == "new" {
				return true
			}
		}
		return false
	}
	ast.Inspect(fd.Body, func(n ast.Node) bool {
		if as, ok := n.(*ast.AssignStmt); ok && as.Tok == token.DEFINE && len(as.Lhs) == len(as.Rhs) {
			for i, l := range as.Lhs {
				if id, ok := l.(*ast.Ident); ok && isFresh(as.Rhs[i]) {
					if o := pi.info.ObjectOf(id); o != nil {
						out[o] = true
					}
				}
			}
		}
		return true
	})
	return out
}

var mutatingMethods = map[string]bool{
	"PushFront": true, "PushBack": true, "Remove": true, "MoveToFront": true, "MoveToBack": true, "MoveBefore": true,
	"MoveAfter": true, "InsertBefore": true, "InsertAfter": true, "Init": true, "PushBackList": true, "PushFrontList": true,
	"Store": true, "Delete": true, "Add": true, "Set": true, "Reset": true, "Push": true, "Pop": true, "Swap": true,
}

type heldLock struct {
	Name string `json:"name"`
	Excl bool   `json:"excl"`
}

type accessRow struct {
	Field string     `json:"field"`
	Write bool       `json:"write"`
	Fn    string     `json:"fn"`
	File  string     `json:"file"`
	Line  int        `json:"line"`
	Locks []heldLock `json:"locks"`
	InGo  bool       `json:"ingo"`
	pos   token.Pos
}

type callRow struct {
	Callee string     `json:"callee"`
	Caller string     `json:"caller"`
	Line   int        `json:"line"`
	Locks  []heldLock `json:"locks"`
	// Async: a `go` or `defer` call - it does not run at this point of the caller, so what the caller holds here
	// says nothing about what is held when the callee runs
	Async bool `json:"async"`
}

type lockSet []heldLock

func (ls lockSet) clone() lockSet { return append(lockSet(nil), ls...) }
func (ls lockSet) add(n string, excl bool) lockSet {
	return append(ls.clone(), heldLock{n, excl})
}
func (ls lockSet) drop(n string, excl bool) lockSet {
	out := ls.clone()
	for i := len(out) - 1; i >= 0; i-- {
		if out[i].Name == n && out[i].Excl == excl {
			return append(out[:i], out[i+1:]...)
		}
	}
	return out
}
func (ls lockSet) sorted() []heldLock {
	out := []heldLock(ls.clone())
	sort.Slice(out, func(i, j int) bool { return out[i].Name < out[j].Name })
	var ded []heldLock
	for _, l := range out {
		if len(ded) > 0 && ded[len(ded)-1].Name == l.Name {
			if l.Excl {
				ded[len(ded)-1].Excl = true
			}
			continue
		}
		ded = append(ded, l)
	}
	return ded
}

type acqRow struct {
	Fn   string `json:"fn"`
	Lock string `json:"lock"`
	Excl bool   `json:"excl"`
}

type accessWalker struct {
	// auto-tracked fields (mutex-guarded state found in the source) and the local variables of this function that
	// hold an object it has just built itself (`x := &T{...}` / `T{...}` / `new(T)`): accesses to auto-tracked
	// fields through such a variable are made before the object is shared and are not rows
	auto    map[string]bool
	fresh   map[types.Object]bool
	rels    *[]acqRow
	async   bool
	acqs    *[]acqRow
	pi      *pkgInfo
	rel     string
	fn      string
	tracked map[string]bool
	writes  map[*ast.SelectorExpr]bool
	rows    *[]accessRow
	calls   *[]callRow
	inGo    bool
}

// rootSel strips index/slice/star/paren and selector-of-selector to find the
// tracked field selector an lvalue is rooted at.
func (w *accessWalker) markWrite(e ast.Expr) {
	for {
		switch v := e.(type) {
		case *ast.ParenExpr:
			e = v.X
		case *ast.IndexExpr:
			e = v.X
		case *ast.SliceExpr:
			e = v.X
		case *ast.StarExpr:
			e = v.X
		case *ast.SelectorExpr:
			if n, ok := fieldOf(w.pi, v); ok && w.tracked[n] {
				w.writes[v] = true
				return
			}
			// x.p.f with p a pointer: the write goes to what p points to, not to the field p itself
			if t := typeOf(w.pi, v.X); t != nil {
				if _, isPtr := t.Underlying().(*types.Pointer); isPtr {
					if _, inner := ast.Unparen(v.X).(*ast.SelectorExpr); inner {
						return
					}
				}
			}
			e = v.X
		default:
			return
		}
	}
}

func (w *accessWalker) findWrites(body ast.Node) {
	ast.Inspect(body, func(n ast.Node) bool {
		switch v := n.(type) {
		case *ast.AssignStmt:
			for _, l := range v.Lhs {
				w.markWrite(l)
			}
		case *ast.IncDecStmt:
			w.markWrite(v.X)
		case *ast.UnaryExpr:
			if v.Op == token.AND {
				w.markWrite(v.X)
			}
		case *ast.RangeStmt:
			if v.Tok == token.ASSIGN {
				if v.Key != nil {
					w.markWrite(v.Key)
				}
				if v.Value != nil {
					w.markWrite(v.Value)
				}
			}
		case *ast.CallExpr:
			if id, ok := v.Fun.(*ast.Ident); ok && (id.Name == "delete" || id.Name == "clear") && len(v.Args) > 0 {
				w.markWrite(v.Args[0])
			}
			if se, ok := v.Fun.(*ast.SelectorExpr); ok && mutatingMethods[se.Sel.Name] {
				// x.f.M(...): the receiver is the tracked field itself (not a field of it reached through a call)
				if inner, ok := ast.Unparen(se.X).(*ast.SelectorExpr); ok {
					if n, ok := fieldOf(w.pi, inner); ok && w.tracked[n] {
						w.writes[inner] = true
					}
				}
			}
		}
		return true
	})
}

func lockOp(pi *pkgInfo, s ast.Stmt) (name string, op string, ok bool) {
	es, isExpr := s.(*ast.ExprStmt)
	if !isExpr {
		return "", "", false
	}
	ce, isCall := es.X.(*ast.CallExpr)
	if !isCall || len(ce.Args) != 0 {
		return "", "", false
	}
	se, isSel := ce.Fun.(*ast.SelectorExpr)
	if !isSel {
		return "", "", false
	}
	switch se.Sel.Name {
	case "Lock", "Unlock", "RLock", "RUnlock":
		return chanName(pi, se.X), se.Sel.Name, true
	}
	return "", "", false
}

func terminates(list []ast.Stmt) bool {
	if len(list) == 0 {
		return false
	}
	switch v := list[len(list)-1].(type) {
	case *ast.ReturnStmt, *ast.BranchStmt:
		return true
	case *ast.ExprStmt:
		if ce, ok := v.X.(*ast.CallExpr); ok {
			if id, ok := ce.Fun.(*ast.Ident); ok && id.Name == "panic" {
				return true
			}
		}
	}
	return false
}

func calleeName(pi *pkgInfo, ce *ast.CallExpr) string {
	var id *ast.Ident
	switch f := ast.Unparen(ce.Fun).(type) {
	case *ast.Ident:
		id = f
	case *ast.SelectorExpr:
		id = f.Sel
	case *ast.IndexExpr:
		if s, ok := f.X.(*ast.SelectorExpr); ok {
			id = s.Sel
		} else if i, ok := f.X.(*ast.Ident); ok {
			id = i
		}
	}
	if id == nil || pi.info == nil {
		return ""
	}
	fn, ok := pi.info.Uses[id].(*types.Func)
	if !ok || fn.Pkg() == nil {
		return ""
	}
	fn = fn.Origin()
	path := fn.Pkg().Path()
	if path != modPath && !strings.HasPrefix(path, modPath+"/") {
		return ""
	}
	prefix := ""
	if path != modPath {
		prefix = fn.Pkg().Name() + "."
	}
	sig, _ := fn.Type().(*types.Signature)
	if sig != nil && sig.Recv() != nil {
		t := sig.Recv().Type()
		if p, ok := t.(*types.Pointer); ok {
			t = p.Elem()
		}
		if n, ok := t.(*types.Named); ok {
			return prefix + n.Obj().Name() + "." + fn.Name()
		}
		return "" // interface method: unknown target
	}
	return prefix + fn.Name()
}

// exprs records the accesses and calls inside one non-block node.
func (w *accessWalker) exprs(n ast.Node, held lockSet) {
	if n == nil {
		return
	}
	ast.Inspect(n, func(x ast.Node) bool {
		switch v := x.(type) {
		case *ast.FuncLit:
			w.block(v.Body.List, held.clone())
			return false
		case *ast.CallExpr:
			if c := calleeName(w.pi, v); c != "" {
				*w.calls = append(*w.calls, callRow{c, w.fn, fset.Position(v.Pos()).Line, held.sorted(), w.async})
			}
		case *ast.SelectorExpr:
			if name, ok := fieldOf(w.pi, v); ok && w.tracked[name] {
				if w.auto[name] {
					if id, isID := v.X.(*ast.Ident); isID && w.fresh[w.pi.info.ObjectOf(id)] {
						return true
					}
				}
				*w.rows = append(*w.rows, accessRow{name, w.writes[v], w.fn, w.rel, fset.Position(v.Pos()).Line, held.sorted(), w.inGo, v.Pos()})
			}
		}
		return true
	})
}

// block walks statements in source order, threading the held set.
func (w *accessWalker) block(list []ast.Stmt, held lockSet) lockSet {
	for _, s := range list {
		held = w.stmt(s, held)
	}
	return held
}

func (w *accessWalker) nested(list []ast.Stmt, held lockSet) lockSet {
	after := w.block(list, held.clone())
	if terminates(list) {
		return held
	}
	return after
}

func (w *accessWalker) stmt(s ast.Stmt, held lockSet) lockSet {
	if name, op, ok := lockOp(w.pi, s); ok {
		switch op {
		case "Lock":
			*w.acqs = append(*w.acqs, acqRow{w.fn, name, true})
			return held.add(name, true)
		case "RLock":
			*w.acqs = append(*w.acqs, acqRow{w.fn, name, false})
			return held.add(name, false)
		case "Unlock", "RUnlock":
			excl := op == "Unlock"
			has := false
			for _, h := range held {
				has = has || (h.Name == name && h.Excl == excl)
			}
			if !has && w.rels != nil {
				// releases a mutex this function did not take: it opens a window in its callers' regions
				*w.rels = append(*w.rels, acqRow{w.fn, name, excl})
			}
			return held.drop(name, excl)
		}
	}
	switch v := s.(type) {
	case *ast.BlockStmt:
		return w.nested(v.List, held)
	case *ast.LabeledStmt:
		return w.stmt(v.Stmt, held)
	case *ast.IfStmt:
		if v.Init != nil {
			held = w.stmt(v.Init, held)
		}
		w.exprs(v.Cond, held)
		a := w.nested(v.Body.List, held)
		b := held
		if v.Else != nil {
			b = w.stmt(v.Else, held.clone())
		}
		// keep what both branches agree on falling through with; prefer the then-branch result when it does not terminate
		if terminates(v.Body.List) {
			return b
		}
		return a
	case *ast.ForStmt:
		if v.Init != nil {
			held = w.stmt(v.Init, held)
		}
		w.exprs(v.Cond, held)
		after := w.nested(v.Body.List, held)
		if v.Post != nil {
			w.stmt(v.Post, after)
		}
		return after
	case *ast.RangeStmt:
		w.exprs(v.Key, held)
		w.exprs(v.Value, held)
		w.exprs(v.X, held)
		return w.nested(v.Body.List, held)
	case *ast.SwitchStmt:
		if v.Init != nil {
			held = w.stmt(v.Init, held)
		}
		w.exprs(v.Tag, held)
		for _, c := range v.Body.List {
			cc := c.(*ast.CaseClause)
			for _, e := range cc.List {
				w.exprs(e, held)
			}
			w.nested(cc.Body, held)
		}
		return held
	case *ast.TypeSwitchStmt:
		if v.Init != nil {
			held = w.stmt(v.Init, held)
		}
		w.exprs(v.Assign, held)
		for _, c := range v.Body.List {
			w.nested(c.(*ast.CaseClause).Body, held)
		}
		return held
	case *ast.SelectStmt:
		for _, c := range v.Body.List {
			cc := c.(*ast.CommClause)
			if cc.Comm != nil {
				w.exprs(cc.Comm, held)
			}
			w.nested(cc.Body, held)
		}
		return held
	case *ast.GoStmt:
		for _, a := range v.Call.Args {
			w.exprs(a, held)
		}
		if fl, ok := v.Call.Fun.(*ast.FuncLit); ok {
			sub := *w
			sub.inGo = true
			sub.block(fl.Body.List, nil)
		} else {
			w.exprs(v.Call.Fun, held)
			if c := calleeName(w.pi, v.Call); c != "" {
				*w.calls = append(*w.calls, callRow{c, w.fn + " (go)", fset.Position(v.Pos()).Line, nil, true})
			}
		}
		return held
	case *ast.DeferStmt:
		// defer m.Unlock(): the lock stays held to the end; other deferred calls run with whatever is held now
		if se, ok := v.Call.Fun.(*ast.SelectorExpr); ok {
			switch se.Sel.Name {
			case "Unlock", "RUnlock":
				return held
			}
		}
		sub := *w
		sub.async = true
		sub.exprs(v.Call, held)
		return held
	default:
		w.exprs(s, held)
		return held
	}
}

func extractAccessTable() {
	l := newLean("AccessTable")
	defer l.write()
	useStableNames = true
	defer func() { useStableNames = false }()
	var rows []accessRow
	var calls []callRow
	var acqs, rels []acqRow
	var callbacks []callbackInfo
	var dynFields []string
	funcs := map[string]*funcFacts{}
	dirs := make([]string, 0, len(fieldRoles))
	for d := range fieldRoles {
		dirs = append(dirs, d)
	}
	autoDirs := append([]string(nil), autoGuardDirs...)
	if try := os.Getenv("C18_AUTO_TRY"); try != "" {
		// exploration only (like TRANS_TRY): which mutex-guarded fields the listed packages would add
		for _, d := range strings.Split(try, ",") {
			if d == "." {
				d = ""
			}
			autoDirs = append(autoDirs, d)
		}
	}
	isAutoDir := map[string]bool{}
	for _, d := range autoDirs {
		if _, ok := fieldRoles[d]; !ok && !isAutoDir[d] {
			dirs = append(dirs, d)
		}
		isAutoDir[d] = true
	}
	sort.Strings(dirs)
	seenField := map[string]bool{}
	trackedRoles := map[string][]string{}
	for _, dir := range dirs {
		pi := loadPkg(dir)
		if pi == nil || pi.pkg == nil {
			fail("C18: package %q cannot be loaded", dir)
			continue
		}
		tracked := map[string]bool{}
		trackedRoles[dir] = resolveRoles(pi, dir)
		for _, f := range trackedRoles[dir] {
			tracked[f] = true
		}
		auto := map[string]bool{}
		if isAutoDir[dir] {
			for _, n := range autoGuarded(pi) {
				if !tracked[n] {
					tracked[n], auto[n] = true, true
					dynFields = append(dynFields, n)
					fmt.Printf("extract: C18 mutex-guarded field found in the source: %s\n", n)
				}
			}
		}
		// per-response callbacks of the work manager (root package): the receiver structs' fields are tracked too
		relOf := func(base string) string {
			if dir != "" {
				return dir + "/" + base
			}
			return base
		}
		var cbs []callbackInfo
		if dir == "" {
			cbs = findCallbacks(pi, relOf)
			for _, cb := range cbs {
				if cb.Recv == "" {
					continue
				}
				for v, goName := range pi.fieldName {
					n := pi.stableName[v]
					if strings.HasPrefix(goName, cb.Recv+".") && n != "" && !tracked[n] {
						tracked[n] = true
						dynFields = append(dynFields, n)
					}
				}
			}
			callbacks = append(callbacks, cbs...)
		}
		// fields of one package may be touched from any loaded package that can name them; unexported
		// fields only from their own package, and all tracked fields are unexported.
		var fnames []string
		for n := range pi.files {
			fnames = append(fnames, n)
		}
		sort.Strings(fnames)
		for _, base := range fnames {
			f := pi.files[base]
			rel := base
			if dir != "" {
				rel = dir + "/" + base
			}
			for _, d := range f.Decls {
				fd, ok := d.(*ast.FuncDecl)
				if !ok || fd.Body == nil {
					continue
				}
				noteFunc(funcs, pi, fd)
				w := &accessWalker{auto: auto, fresh: freshLocals(pi, fd), pi: pi, rel: rel, fn: funcName(pi, fd), tracked: tracked,
					writes: map[*ast.SelectorExpr]bool{}, rows: &rows, calls: &calls, acqs: &acqs, rels: &rels}
				w.findWrites(fd.Body)
				w.block(fd.Body.List, nil)
			}
		}
	}
	for _, dir := range dirs {
		if pi := loadPkg(dir); pi != nil {
			noteFuncValues(funcs, pi)
		}
	}
	for _, cb := range callbacks {
		if cb.lit != nil {
			cr := closureRows(loadPkg(""), cb)
			seen := map[string]bool{}
			for _, r := range cr {
				if !seen[r.Field] {
					seen[r.Field] = true
					dynFields = append(dynFields, r.Field)
				}
			}
			rows = append(rows, cr...)
		}
	}
	for _, r := range rows {
		seenField[r.Field] = true
	}
	unguarded := unguardedAccesses(rows, callbacks)
	inferred := inferCallerHolds(calls, funcs)
	// keep the call rows whose callee touches tracked state directly, or reaches (through at most two
	// intermediate functions) something that does: enough to justify "helper of a helper" lock claims
	direct := map[string]bool{}
	for _, r := range rows {
		direct[r.Fn] = true
	}
	reach := map[string]bool{}
	for f := range direct {
		reach[f] = true
	}
	for depth := 0; depth < 2; depth++ {
		next := map[string]bool{}
		for _, c := range calls {
			if reach[c.Callee] {
				next[strings.TrimSuffix(c.Caller, " (go)")] = true
			}
		}
		for f := range next {
			reach[f] = true
		}
	}
	var keep []callRow
	for _, c := range calls {
		if reach[c.Callee] || len(inferred[c.Callee]) > 0 {
			keep = append(keep, c)
		}
	}
	calls = keep

	in := newInterner()
	locks := func(ls []heldLock) string {
		var q []string
		for _, x := range ls {
			q = append(q, fmt.Sprintf("⟨%s, %s⟩", in.ref(x.Name), lbool(x.Excl)))
		}
		return "[" + strings.Join(q, ", ") + "]"
	}
	var rs, cs []string
	for _, r := range rows {
		rs = append(rs, fmt.Sprintf("  ⟨%s, %s, %s, %s, %d, %s, %s⟩", in.ref(r.Field), lbool(r.Write), in.ref(r.Fn), lq(r.File), r.Line, locks(r.Locks), lbool(r.InGo)))
	}
	for _, c := range calls {
		cs = append(cs, fmt.Sprintf("  ⟨%s, %s, %d, %s, %s⟩", in.ref(c.Callee), in.ref(strings.TrimSuffix(c.Caller, " (go)")), c.Line, locks(c.Locks), lbool(c.Async)))
	}
	// lock acquisitions of the functions that occur as callees of the kept call rows (re-entrant locking check)
	callee := map[string]bool{}
	for _, c := range calls {
		callee[c.Callee] = true
	}
	var as []string
	seenAcq := map[acqRow]bool{}
	for _, a := range acqs {
		if callee[a.Fn] && !seenAcq[a] {
			seenAcq[a] = true
			as = append(as, fmt.Sprintf("  ⟨%s, %s, %s⟩", in.ref(a.Fn), in.ref(a.Lock), lbool(a.Excl)))
		}
	}
	var fields []string
	for _, dir := range dirs {
		for _, f := range trackedRoles[dir] {
			fields = append(fields, in.ref(f))
		}
	}
	var rls []string
	seenRel := map[acqRow]bool{}
	for _, a := range rels {
		if !seenRel[a] {
			seenRel[a] = true
			rls = append(rls, fmt.Sprintf("  ⟨%s, %s, %s⟩", in.ref(a.Fn), in.ref(a.Lock), lbool(a.Excl)))
			fmt.Printf("extract: C18 %s unlocks %s without having locked it\n", a.Fn, a.Lock)
		}
	}
	var ugs []string
	for _, u := range unguarded {
		ugs = append(ugs, fmt.Sprintf("  ⟨%s, %s, %d⟩", in.ref(u.Field), in.ref(u.Fn), u.Line))
		fmt.Printf("extract: C18 %s is accessed in %s (%s:%d) where the query's verdict may be an error\n", u.Field, u.Fn, u.File, u.Line)
	}
	var infs []string
	var infNames []string
	for fn := range inferred {
		infNames = append(infNames, fn)
	}
	sort.Strings(infNames)
	for _, fn := range infNames {
		for _, h := range inferred[fn] {
			infs = append(infs, fmt.Sprintf("  ⟨%s, %s, %s⟩", in.ref(fn), in.ref(h.Name), lbool(h.Excl)))
		}
	}
	sort.Strings(dynFields)
	for _, f := range dynFields {
		if seenField[f] {
			fields = append(fields, in.ref(f))
		}
	}
	var cbs []string
	for _, cb := range callbacks {
		cbs = append(cbs, fmt.Sprintf("  ⟨%s, %s⟩", in.ref(cb.Fn), lbool(cb.Multi)))
		fmt.Printf("extract: C18 work-manager callback %s (multi=%v) registered at %s:%d\n", cb.Fn, cb.Multi, cb.File, cb.Line)
	}
	// display only, in a module of its own: what the rename-proof names are called in the source today.  The table
	// module above does not change when an unexported field, a mutex or a closure variable is renamed; this one does.
	ln := newLean("AccessNames")
	var disp []string
	for _, n := range in.names {
		g, ok := stableDisplay[n]
		if !ok {
			// "Struct.cond#1.L": the field path continues behind the stable part
			for st, gn := range stableDisplay {
				if strings.HasPrefix(n, st+".") {
					g, ok = gn+n[len(st):], true
				}
			}
		}
		if ok {
			disp = append(disp, fmt.Sprintf("(%s, %s)", lq(n), lq(g)))
		}
	}
	ln.def("goNames", "List (String × String)", "["+strings.Join(disp, ",\n  ")+"]",
		"stable name of Gen.AccessTable -> the Go identifier it stands for in the working tree (display only)")
	ln.write()
	component = l.name
	in.emit(l)
	l.sb.WriteString("/-- a per-response callback handed to the work manager (query.Request.HandleResp); `multi`: registered in a loop, so the callbacks of one query can run on several worker goroutines at once -/\nstructure Callback where\n  fn : Nat\n  multi : Bool\n  deriving Repr, DecidableEq\n\n")
	l.sb.WriteString("structure Held where\n  lock : Nat\n  excl : Bool\n  deriving Repr, DecidableEq\n\n")
	l.sb.WriteString("structure Access where\n  field : Nat\n  write : Bool\n  fn : Nat\n  file : String\n  line : Nat\n  held : List Held\n  inGo : Bool\n  deriving Repr\n\n")
	l.sb.WriteString("structure Call where\n  callee : Nat\n  caller : Nat\n  line : Nat\n  held : List Held\n  async : Bool\n  deriving Repr\n\n")
	l.def("rows", "List Access", "[\n"+strings.Join(rs, ",\n")+"]", "every access to a tracked field")
	l.def("calls", "List Call", "[\n"+strings.Join(cs, ",\n")+"]", "calls to the functions that touch tracked fields (and to their direct callers), with the locks held at the call")
	l.sb.WriteString("structure Acq where\n  fn : Nat\n  lock : Nat\n  excl : Bool\n  deriving Repr\n\n")
	l.def("acquires", "List Acq", "[\n"+strings.Join(as, ",\n")+"]", "mutexes the called functions lock themselves (Lock / RLock in their own body)")
	l.sb.WriteString("/-- helper `fn` is only ever called with `lock` held (exclusively if `excl`) -/\nstructure Holds where\n  fn : Nat\n  lock : Nat\n  excl : Bool\n  deriving Repr\n\n")
	l.def("foreignUnlocks", "List Holds", "[\n"+strings.Join(rls, ",\n")+"]", "functions that unlock a mutex they did not lock themselves (Unlock / RUnlock with nothing lexically held): the lock regions of their callers are not what they look like")
	l.def("inferredHolds", "List Holds", "[\n"+strings.Join(infs, ",\n")+"]", "computed by the extractor: unexported functions, never used as a value, ALL of whose call sites (none of them `go`/`defer`) lie in a region where the lock is held, lexically or because the caller is such a helper itself; re-checked against the call rows by C18_caller_holds")
	l.sb.WriteString("structure RowRef where\n  field : Nat\n  fn : Nat\n  line : Nat\n  deriving Repr\n\n")
	l.def("unguardedAccesses", "List RowRef", "[\n"+strings.Join(ugs, ",\n")+"]", "accesses, outside the callbacks, to state a work-manager callback writes that are NOT confined to the success verdict of the query: not before the query is issued, and not after a `if err != nil { return }` on the verdict received from the query's error channel (see extract/callbacks.go)")
	l.def("callbacks", "List Callback", "[\n"+strings.Join(cbs, ",\n")+"]", "per-response callbacks registered with the work manager; their receiver fields / captured variables are tracked fields")
	l.def("fields", "List Nat", "["+strings.Join(fields, ", ")+"]", "the tracked fields")
	facts["accesstable"] = map[string]any{"rows": rows, "calls": calls, "callbacks": callbacks}
	fmt.Printf("extract: C18 %d accesses to %d tracked fields, %d call rows\n", len(rows), len(fields), len(calls))
	// rows with no lock at all in functions that also have locked rows are the usual suspects: print them
	for _, r := range rows {
		if len(r.Locks) == 0 && r.Write {
			fmt.Printf("extract: C18 unlocked write %s in %s (%s:%d)\n", r.Field, r.Fn, r.File, r.Line)
		}
	}
}

// ---- caller-holds inference ------------------------------------------------

type funcFacts struct {
	exported bool // exported name: callable from other packages
	asValue  bool // used other than as the callee of a call (method value, callback, ...)
}

func noteFunc(funcs map[string]*funcFacts, pi *pkgInfo, fd *ast.FuncDecl) {
	funcs[funcName(pi, fd)] = &funcFacts{exported: fd.Name.IsExported()}
}

// noteFuncValues marks the functions of the loaded packages that are referenced as values.
func noteFuncValues(funcs map[string]*funcFacts, pi *pkgInfo) {
	if pi.info == nil {
		return
	}
	for _, f := range pi.files {
		callee := map[*ast.Ident]bool{}
		ast.Inspect(f, func(n ast.Node) bool {
			if ce, ok := n.(*ast.CallExpr); ok {
				switch v := ast.Unparen(ce.Fun).(type) {
				case *ast.Ident:
					callee[v] = true
				case *ast.SelectorExpr:
					callee[v.Sel] = true
				case *ast.IndexExpr:
					if se, ok := v.X.(*ast.SelectorExpr); ok {
						callee[se.Sel] = true
					} else if id, ok := v.X.(*ast.Ident); ok {
						callee[id] = true
					}
				}
			}
			return true
		})
		ast.Inspect(f, func(n ast.Node) bool {
			id, ok := n.(*ast.Ident)
			if !ok || callee[id] {
				return true
			}
			fn, ok := pi.info.Uses[id].(*types.Func)
			if !ok {
				return true
			}
			name := funcObjName(fn)
			if ff := funcs[name]; ff != nil {
				ff.asValue = true
			}
			return true
		})
	}
}

// funcObjName: the table name of a function object (same scheme as calleeName).
func funcObjName(fn *types.Func) string {
	if fn == nil || fn.Pkg() == nil {
		return ""
	}
	fn = fn.Origin()
	path := fn.Pkg().Path()
	if path != modPath && !strings.HasPrefix(path, modPath+"/") {
		return ""
	}
	prefix := ""
	if path != modPath {
		prefix = fn.Pkg().Name() + "."
	}
	if sig, _ := fn.Type().(*types.Signature); sig != nil && sig.Recv() != nil {
		t := sig.Recv().Type()
		if p, ok := t.(*types.Pointer); ok {
			t = p.Elem()
		}
		if n, ok := t.(*types.Named); ok {
			return prefix + n.Obj().Name() + "." + fn.Name()
		}
		return ""
	}
	return prefix + fn.Name()
}

// inferCallerHolds: for every unexported function that is never used as a value and has at least one call
// site, the mutexes held at ALL its call sites (lexically, or because the caller is itself such a function);
// `go` and `defer` call sites hold nothing.  Least fixpoint from the empty assignment.
func inferCallerHolds(calls []callRow, funcs map[string]*funcFacts) map[string][]heldLock {
	sites := map[string][]callRow{}
	for _, c := range calls {
		sites[c.Callee] = append(sites[c.Callee], c)
	}
	holds := map[string][]heldLock{}
	for round := 0; round < 6; round++ {
		changed := false
		for fn, cs := range sites {
			ff := funcs[fn]
			if ff == nil || ff.exported || ff.asValue {
				continue
			}
			var inter []heldLock
			for i, c := range cs {
				var eff []heldLock
				if !c.Async {
					eff = append(append(eff, c.Locks...), holds[strings.TrimSuffix(c.Caller, " (go)")]...)
				}
				if i == 0 {
					inter = lockSet(eff).sorted()
					continue
				}
				var keep []heldLock
				for _, a := range inter {
					for _, b := range eff {
						if a.Name == b.Name {
							keep = append(keep, heldLock{a.Name, a.Excl && b.Excl})
							break
						}
					}
				}
				inter = keep
			}
			if len(inter) != len(holds[fn]) {
				changed = true
			} else {
				for i := range inter {
					if inter[i] != holds[fn][i] {
						changed = true
					}
				}
			}
			holds[fn] = inter
		}
		if !changed {
			break
		}
	}
	for fn, h := range holds {
		if len(h) == 0 {
			delete(holds, fn)
		}
	}
	return holds
}
