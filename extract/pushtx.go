package main

import (
	"fmt"
	"go/ast"
	"go/token"
	"strconv"
	"strings"
)

func init() { extractors = append(extractors, extractPushTx) }

// extractPushTx records, for C15:
//   - every blocking operation (channel send/receive, WaitGroup.Wait) of
//     Broadcaster.{Broadcast, MarkAsConfirmed, Stop, broadcastHandler, rebroadcast}:
//     the channel, whether it sits in a select that also has a `<-b.quit` case or a
//     default, and whether the channel is created with a buffer;
//   - the switch of ParseBroadcastError as a first-match table;
//   - the verdict computation at the end of ChainService.sendTransaction as the list
//     (path condition, returned expression), the operator and operands of the
//     threshold comparison, and the default threshold as a fraction.
func extractPushTx() {
	l := newLean("PushTx", "Neutrino.Model.PushTx")
	defer l.write()
	out := map[string]any{}

	// ---- select sites ------------------------------------------------------
	f := parse("pushtx/broadcaster.go")
	buffered := map[string]bool{}
	if f != nil {
		ast.Inspect(f, func(n ast.Node) bool {
			// x := make(chan T, n) / x = make(chan T, n) / field: make(chan T, n)
			record := func(name string, rhs ast.Expr) {
				c, ok := rhs.(*ast.CallExpr)
				if !ok || src(c.Fun) != "make" || len(c.Args) < 1 {
					return
				}
				if _, ok := c.Args[0].(*ast.ChanType); !ok {
					return
				}
				if len(c.Args) == 2 && src(c.Args[1]) != "0" {
					buffered[name] = true
				} else {
					buffered[name] = false
				}
			}
			switch v := n.(type) {
			case *ast.AssignStmt:
				if len(v.Lhs) == 1 && len(v.Rhs) == 1 {
					record(base(src(v.Lhs[0])), v.Rhs[0])
				}
			case *ast.KeyValueExpr:
				record(base(src(v.Key)), v.Value)
			}
			return true
		})
	}
	type site struct {
		fn, kind, ch             string
		quit, dflt, buf, inSelect bool
	}
	var sites []site
	isQuitRecv := func(s ast.Stmt) bool {
		var e ast.Expr
		switch v := s.(type) {
		case *ast.ExprStmt:
			e = v.X
		case *ast.AssignStmt:
			if len(v.Rhs) == 1 {
				e = v.Rhs[0]
			}
		}
		u, ok := e.(*ast.UnaryExpr)
		return ok && u.Op == token.ARROW && src(u.X) == "b.quit"
	}
	var walk func(fn string, n ast.Node)
	walk = func(fn string, n ast.Node) {
		if n == nil {
			return
		}
		ast.Inspect(n, func(x ast.Node) bool {
			switch v := x.(type) {
			case *ast.SelectStmt:
				quit, dflt := false, false
				for _, c := range v.Body.List {
					cc := c.(*ast.CommClause)
					if cc.Comm == nil {
						dflt = true
					} else if isQuitRecv(cc.Comm) {
						quit = true
					}
				}
				for _, c := range v.Body.List {
					cc := c.(*ast.CommClause)
					if cc.Comm != nil && !isQuitRecv(cc.Comm) {
						kind, ch := "", ""
						switch s := cc.Comm.(type) {
						case *ast.SendStmt:
							kind, ch = "send", src(s.Chan)
						case *ast.ExprStmt:
							if u, ok := s.X.(*ast.UnaryExpr); ok && u.Op == token.ARROW {
								kind, ch = "recv", src(u.X)
							}
						case *ast.AssignStmt:
							if u, ok := s.Rhs[0].(*ast.UnaryExpr); ok && u.Op == token.ARROW {
								kind, ch = "recv", src(u.X)
							}
						}
						if kind == "" {
							fail("pushtx/broadcaster.go: %s: select case of unknown shape %q", fn, src(cc.Comm))
						}
						sites = append(sites, site{fn, kind, ch, quit, dflt, buffered[base(ch)], true})
					}
					for _, st := range cc.Body {
						walk(fn, st)
					}
				}
				return false
			case *ast.SendStmt:
				ch := src(v.Chan)
				sites = append(sites, site{fn, "send", ch, false, false, buffered[base(ch)], false})
			case *ast.UnaryExpr:
				if v.Op == token.ARROW {
					ch := src(v.X)
					sites = append(sites, site{fn, "recv", ch, false, false, buffered[base(ch)], false})
				}
			case *ast.RangeStmt:
				if t := src(v.X); strings.Contains(strings.ToLower(t), "chan") {
					sites = append(sites, site{fn, "range", t, false, false, false, false})
				}
			case *ast.CallExpr:
				if strings.HasSuffix(src(v.Fun), ".Wait") {
					sites = append(sites, site{fn, "wait", strings.TrimSuffix(src(v.Fun), ".Wait"), false, false, false, false})
				}
			}
			return true
		})
	}
	for _, fn := range []string{"Broadcast", "MarkAsConfirmed", "Stop", "broadcastHandler", "rebroadcast"} {
		fd := funcDecl(f, "Broadcaster", fn)
		if fd == nil {
			fail("pushtx/broadcaster.go: method Broadcaster.%s", fn)
			continue
		}
		walk(fn, fd.Body)
	}
	var rows []string
	var jsites []map[string]any
	for _, s := range sites {
		rows = append(rows, fmt.Sprintf("(%q, %q, %q, %s, %s, %s)", s.fn, s.kind, s.ch, lbool(s.quit), lbool(s.dflt), lbool(s.buf)))
		jsites = append(jsites, map[string]any{"fn": s.fn, "kind": s.kind, "chan": s.ch, "quit": s.quit, "default": s.dflt, "buffered": s.buf})
	}
	l.def("sites", "List (String × String × String × Bool × Bool × Bool)", "[\n  "+strings.Join(rows, ",\n  ")+"]",
		"blocking operations of the Broadcaster: (method, send|recv|wait, channel, select has a `<-b.quit` case, select has a default, channel is created with a buffer)")
	out["sites"] = jsites
	// what the handler goroutine does in its request arm: is the map store after the Broadcast call and guarded by the error test?
	if fd := funcDecl(f, "Broadcaster", "broadcastHandler"); fd != nil {
		body := src(fd.Body)
		iB := strings.Index(body, "b.cfg.Broadcast(req.tx)")
		iS := strings.Index(body, "transactions[req.tx.TxHash()] = req.tx")
		iG := strings.Index(body, "!IsBroadcastError(err, Mempool)")
		l.def("storeAfterResult", "Bool", lbool(iB >= 0 && iG > iB && iS > iG), "the handler stores the tx in its map only after cfg.Broadcast returned and the error test")
		// the arm for a CLOSED subscription channel: `case _, ok := <-sub.Notifications: if !ok { ...; continue }`
		arm := "missing"
		ast.Inspect(fd.Body, func(n ast.Node) bool {
			cc, ok := n.(*ast.CommClause)
			if !ok || cc.Comm == nil {
				return true
			}
			as, ok := cc.Comm.(*ast.AssignStmt)
			if !ok || len(as.Lhs) != 2 || src(as.Lhs[1]) != "ok" || src(as.Rhs[0]) != "<-sub.Notifications" {
				return true
			}
			arm = "no-closed-test"
			for _, st := range cc.Body {
				is, ok := st.(*ast.IfStmt)
				if !ok || src(is.Cond) != "!ok" || len(is.Body.List) == 0 {
					continue
				}
				switch last := is.Body.List[len(is.Body.List)-1].(type) {
				case *ast.BranchStmt:
					arm = last.Tok.String() // continue | break | goto
				case *ast.ReturnStmt:
					arm = "return"
				default:
					arm = "falls-through"
				}
			}
			return false
		})
		if arm == "missing" {
			fail("pushtx/broadcaster.go: broadcastHandler: case _, ok := <-sub.Notifications")
		}
		l.def("closedSubArm", "String", fmt.Sprintf("%q", arm), "how the handler's select arm for the block subscription ends when the channel is closed (ok == false)")
		out["closedSubArm"] = arm
		l.def("handlerDeletesOnConf", "Bool", lbool(strings.Contains(body, "delete(transactions, txHash)")), "the handler deletes a tx reported on confChan")
	}
	if fd := funcDecl(f, "Broadcaster", "broadcastHandler"); fd != nil {
		iv, kind := intervalSource(fd)
		l.def("intervalSrcKind", "String", fmt.Sprintf("%q", kind), "what feeds the interval arm of the handler's select loop")
		l.def("intervalSrc", "Neutrino.PushTx.IntervalSrc", iv,
			"does the source of interval ticks stay armed: self re-arming (a ticker created once before the loop), or - for a one-shot timer - is Reset called on EVERY path through the interval arm / the block arm that obtains the rebroadcast semaphore / that finds a rebroadcast running")
		out["intervalSrc"] = map[string]any{"kind": kind, "value": iv}
	}
	if fd := funcDecl(f, "Broadcaster", "rebroadcast"); fd != nil {
		body := src(fd.Body)
		l.def("rebroadcastSorts", "Bool", lbool(strings.Contains(body, "wtxmgr.DependencySort(txs)") && strings.Contains(body, "range sortedTxs")),
			"rebroadcast iterates over wtxmgr.DependencySort of its snapshot")
	}

	// ---- ParseBroadcastError ----------------------------------------------
	ef := parse("pushtx/error.go")
	var prow []string
	var jrows []map[string]any
	dflt := ""
	if fd := funcDecl(ef, "", "ParseBroadcastError"); fd == nil {
		fail("pushtx/error.go: func ParseBroadcastError")
	} else {
		var sw *ast.SwitchStmt
		ast.Inspect(fd.Body, func(n ast.Node) bool {
			if s, ok := n.(*ast.SwitchStmt); ok && sw == nil {
				sw = s
			}
			return true
		})
		if sw == nil || sw.Tag != nil {
			fail("pushtx/error.go: ParseBroadcastError: tagless switch")
		} else {
			for _, c := range sw.Body.List {
				cc := c.(*ast.CaseClause)
				res := ""
				if len(cc.Body) == 1 {
					if a, ok := cc.Body[0].(*ast.AssignStmt); ok && src(a.Lhs[0]) == "code" {
						res = src(a.Rhs[0])
					}
				}
				if res == "" {
					fail("pushtx/error.go: ParseBroadcastError: case body is not `code = X`: %s", src(cc))
					continue
				}
				if cc.List == nil {
					dflt = res
					continue
				}
				if len(cc.List) != 1 {
					fail("pushtx/error.go: ParseBroadcastError: case with several expressions")
					continue
				}
				var codes []string
				sub := ""
				okShape := true
				var disj func(e ast.Expr) []ast.Expr
				disj = func(e ast.Expr) []ast.Expr {
					if b, ok := e.(*ast.BinaryExpr); ok && b.Op == token.LOR {
						return append(disj(b.X), disj(b.Y)...)
					}
					if p, ok := e.(*ast.ParenExpr); ok {
						return disj(p.X)
					}
					return []ast.Expr{e}
				}
				var conj func(e ast.Expr) []ast.Expr
				conj = func(e ast.Expr) []ast.Expr {
					if b, ok := e.(*ast.BinaryExpr); ok && b.Op == token.LAND {
						return append(conj(b.X), conj(b.Y)...)
					}
					if p, ok := e.(*ast.ParenExpr); ok {
						return conj(p.X)
					}
					return []ast.Expr{e}
				}
				ds := disj(cc.List[0])
				for _, d := range ds {
					atoms := conj(d)
					if len(ds) > 1 && len(atoms) != 1 {
						okShape = false
					}
					for _, a := range atoms {
						switch v := a.(type) {
						case *ast.BinaryExpr:
							if v.Op == token.EQL && src(v.X) == "msg.Code" && strings.HasPrefix(src(v.Y), "wire.") {
								codes = append(codes, strings.TrimPrefix(src(v.Y), "wire."))
							} else {
								okShape = false
							}
						case *ast.CallExpr:
							if src(v.Fun) == "strings.Contains" && len(v.Args) == 2 && src(v.Args[0]) == "msg.Reason" {
								if lit, ok := v.Args[1].(*ast.BasicLit); ok && sub == "" {
									sub, _ = strconv.Unquote(lit.Value)
								} else {
									okShape = false
								}
							} else {
								okShape = false
							}
						default:
							okShape = false
						}
					}
				}
				if !okShape || len(codes) == 0 {
					fail("pushtx/error.go: ParseBroadcastError: case of unknown shape: %s", src(cc.List[0]))
					continue
				}
				ls := "none"
				if sub != "" {
					ls = fmt.Sprintf("some %q", sub)
				}
				prow = append(prow, fmt.Sprintf("(%s, %s, %q)", lstrs(codes), ls, res))
				jrows = append(jrows, map[string]any{"codes": codes, "substr": sub, "result": res})
			}
		}
	}
	l.def("parseTable", "List (List String × Option String × String)", "[\n  "+strings.Join(prow, ",\n  ")+"]",
		"ParseBroadcastError: first matching row wins: (wire reject codes, required substring of the reason, BroadcastErrorCode)")
	l.def("parseDefault", "String", fmt.Sprintf("%q", dflt), "ParseBroadcastError: default case")
	out["parseTable"], out["parseDefault"] = jrows, dflt

	// ---- sendTransaction verdict ------------------------------------------
	qf := parse("query.go")
	var paths []string
	var jpaths [][2]string
	thrOp, thrL, thrR, mostCmp, mostSel := "", "", "", "", ""
	defs := map[string]string{}
	if fd := funcDecl(qf, "ChainService", "sendTransaction"); fd == nil {
		fail("query.go: method ChainService.sendTransaction")
	} else {
		after := false
		var walkS func(path []string, ss []ast.Stmt)
		walkS = func(path []string, ss []ast.Stmt) {
			for _, s := range ss {
				switch v := s.(type) {
				case *ast.IfStmt:
					if v.Else != nil || v.Init != nil {
						fail("query.go: sendTransaction: verdict `if` with else/init: %s", src(v.Cond))
					}
					walkS(append(append([]string{}, path...), src(v.Cond)), v.Body.List)
					if b, ok := v.Cond.(*ast.BinaryExpr); ok && strings.Contains(src(b), "invalidTxThreshold") {
						thrOp, thrL, thrR = b.Op.String(), src(b.X), src(b.Y)
					}
				case *ast.ReturnStmt:
					r := ""
					if len(v.Results) == 1 {
						r = src(v.Results[0])
						// `firstRejectWithCode(<the most frequent code>)`: the argument is either the
						// variable the tally loop selects, or a call of a same-file unexported helper
						// that contains that loop and returns its selection ("extract function")
						if c, ok := v.Results[0].(*ast.CallExpr); ok && src(c.Fun) == "firstRejectWithCode" && len(c.Args) == 1 {
							switch a := c.Args[0].(type) {
							case *ast.Ident:
								if a.Name == mostSel && mostSel != "" {
									r = "firstRejectWithCode(mostRejectedCode)"
								}
							case *ast.CallExpr:
								if h := helperDecl(qf, src(a.Fun)); h != nil && len(a.Args) == 1 && src(a.Args[0]) == "rejectCodes" &&
									h.Type.Params != nil && len(h.Type.Params.List) == 1 && len(h.Type.Params.List[0].Names) == 1 {
									param := h.Type.Params.List[0].Names[0].Name
									ast.Inspect(h.Body, func(n ast.Node) bool {
										if rs, ok := n.(*ast.RangeStmt); ok && src(rs.X) == param {
											if cmp, sel, ok := tallyLoop(rs); ok {
												if last, ok := h.Body.List[len(h.Body.List)-1].(*ast.ReturnStmt); ok &&
													len(last.Results) == 1 && src(last.Results[0]) == sel {
													mostCmp, mostSel = cmp, sel
													r = "firstRejectWithCode(mostRejectedCode)"
												}
											}
										}
										return true
									})
								}
							}
						}
					}
					paths = append(paths, fmt.Sprintf("(%q, %q)", strings.Join(path, " && "), r))
					jpaths = append(jpaths, [2]string{strings.Join(path, " && "), r})
				case *ast.AssignStmt:
					if len(v.Lhs) == 1 && len(v.Rhs) == 1 {
						if _, isFn := v.Rhs[0].(*ast.FuncLit); !isFn {
							defs[src(v.Lhs[0])] = src(v.Rhs[0])
						}
					}
				case *ast.RangeStmt:
					if src(v.X) == "rejectCodes" {
						if cmp, sel, ok := tallyLoop(v); ok {
							mostCmp, mostSel = cmp, sel
						} else {
							for _, st := range v.Body.List {
								if i, ok := st.(*ast.IfStmt); ok {
									mostCmp = src(i.Cond)
								}
							}
						}
					}
				case *ast.BlockStmt:
					walkS(path, v.List)
				}
			}
		}
		var tail []ast.Stmt
		for _, s := range fd.Body.List {
			if after {
				tail = append(tail, s)
			}
			if e, ok := s.(*ast.ExprStmt); ok {
				if c, ok := e.X.(*ast.CallExpr); ok && src(c.Fun) == "s.queryAllPeers" {
					after = true
					// how the two sets are filled
					body := src(c)
					// the reject arm of the response handler: is a rejection only
					// recorded for a peer already in `replies`, and is the peer's
					// sub-query closed after a recorded rejection?
					guard, rec, inc, cls := -1, -1, -1, -1
					ast.Inspect(c, func(n ast.Node) bool {
						cc, ok := n.(*ast.CaseClause)
						if !ok || len(cc.List) != 1 || src(cc.List[0]) != "*wire.MsgReject" {
							return true
						}
						for i, st := range cc.Body {
							switch v := st.(type) {
							case *ast.IfStmt:
								if v.Init != nil && src(v.Init) == "_, ok := replies[sp.ID()]" && src(v.Cond) == "!ok" &&
									v.Else == nil && len(v.Body.List) == 1 && src(v.Body.List[0]) == "return" && guard < 0 {
									guard = i
								}
							case *ast.AssignStmt:
								if src(v.Lhs[0]) == "rejections[sp.ID()]" && rec < 0 {
									rec = i
								}
							case *ast.IncDecStmt:
								if src(v.X) == "rejectCodes[broadcastErr.Code]" && inc < 0 {
									inc = i
								}
							case *ast.ExprStmt:
								if src(v.X) == "closer.closeNow()" && cls < 0 {
									cls = i
								}
							}
						}
						return false
					})
					// the getdata arm: which entries of the peer's getdata make it a replying peer
					gdCond := ""
					ast.Inspect(c, func(n ast.Node) bool {
						cc, ok := n.(*ast.CaseClause)
						if !ok || len(cc.List) != 1 || src(cc.List[0]) != "*wire.MsgGetData" {
							return true
						}
						ast.Inspect(cc, func(m ast.Node) bool {
							if is, ok := m.(*ast.IfStmt); ok && gdCond == "" && strings.Contains(src(is.Body), "replies[sp.ID()]") {
								gdCond = src(is.Cond)
							}
							return true
						})
						return false
					})
					if gdCond == "" {
						fail("query.go: sendTransaction: getdata arm recording replies[sp.ID()] under a condition")
					}
					defs["getdataMatch"] = gdCond
					if rec < 0 || inc < 0 {
						fail("query.go: sendTransaction: reject arm recording rejections[sp.ID()] and rejectCodes[...]++")
					}
					defs["rejectGuard"] = lbool(guard >= 0 && guard < rec && guard < inc && (cls < 0 || guard < cls))
					defs["rejectCloses"] = lbool(cls >= 0 && cls > rec)
					defs["repliesFill"] = lbool(strings.Contains(body, "replies[sp.ID()] = struct{}{}"))
					defs["rejectionsFill"] = lbool(strings.Contains(body, "rejections[sp.ID()] = broadcastErr") &&
						strings.Contains(body, "rejectCodes[broadcastErr.Code]++"))
				}
			}
		}
		if !after {
			fail("query.go: sendTransaction: call of s.queryAllPeers")
		}
		walkS(nil, tail)
	}
	if thrOp == "" {
		fail("query.go: sendTransaction: threshold comparison against qo.invalidTxThreshold")
	}
	l.def("verdictPaths", "List (String × String)", "[\n  "+strings.Join(paths, ",\n  ")+"]",
		"end of sendTransaction: (conjunction of the enclosing if-conditions, returned expression) in source order")
	l.def("thresholdOp", "String", fmt.Sprintf("%q", thrOp), "operator of the threshold comparison")
	l.def("thresholdLhs", "String", fmt.Sprintf("%q", thrL), "")
	l.def("thresholdRhs", "String", fmt.Sprintf("%q", thrR), "")
	l.def("numInvalidDef", "String", fmt.Sprintf("%q", defs["numInvalid"]), "")
	l.def("numPeersRespondedDef", "String", fmt.Sprintf("%q", defs["numPeersResponded"]), "")
	l.def("mostRejectedCmp", "String", fmt.Sprintf("%q", mostCmp), "comparison inside the loop over rejectCodes")
	l.def("repliesKeyedByPeer", "Bool", defs["repliesFill"]+"", "replies[sp.ID()] = struct{}{} on a getdata naming the tx")
	l.def("rejectionsKeyedByPeer", "Bool", defs["rejectionsFill"]+"", "rejections[sp.ID()] = err; rejectCodes[err.Code]++ on a reject naming the tx")
	l.def("getdataMatch", "String", fmt.Sprintf("%q", defs["getdataMatch"]), "condition under which an entry of a peer's getdata makes it a replying peer (and gets it the transaction)")
	l.def("rejectRequiresReply", "Bool", orFalse(defs["rejectGuard"]), "the reject arm returns before recording anything when the peer is not in `replies` (it never requested the tx)")
	l.def("rejectClosesPeer", "Bool", orFalse(defs["rejectCloses"]), "after a recorded rejection the peer's sub-query is closed (closer.closeNow())")
	// queryAllPeers: messages of a peer whose sub-query is closed are not handed to the handler
	skip := false
	if fd := funcDecl(qf, "ChainService", "queryAllPeers"); fd == nil {
		fail("query.go: method ChainService.queryAllPeers")
	} else {
		ast.Inspect(fd.Body, func(n ast.Node) bool {
			sel, ok := n.(*ast.SelectStmt)
			if !ok {
				return true
			}
			closedCase, dfltCalls := false, false
			for _, c := range sel.Body.List {
				cc := c.(*ast.CommClause)
				if cc.Comm == nil {
					for _, st := range cc.Body {
						if strings.HasPrefix(src(st), "checkResponse(") {
							dfltCalls = true
						}
					}
				} else if src(cc.Comm) == "<-peerQuits[sm.sp.Addr()]" && len(cc.Body) == 0 {
					closedCase = true
				}
			}
			if closedCase && dfltCalls {
				skip = true
			}
			return true
		})
	}
	l.def("closedPeerSkipped", "Bool", lbool(skip), "queryAllPeers drops messages of a peer whose peerQuit is closed instead of calling the handler")
	// default threshold literal
	num, den := 0, 0
	if qf != nil {
		ast.Inspect(qf, func(n ast.Node) bool {
			vs, ok := n.(*ast.ValueSpec)
			if !ok || len(vs.Names) != 1 || vs.Names[0].Name != "QueryInvalidTxThreshold" || len(vs.Values) != 1 {
				return true
			}
			if lit, ok := vs.Values[0].(*ast.BasicLit); ok && lit.Kind == token.FLOAT {
				parts := strings.SplitN(lit.Value, ".", 2)
				if len(parts) == 2 && len(parts[1]) <= 6 {
					n, err1 := strconv.Atoi(parts[0] + parts[1])
					if err1 == nil {
						num, den = n, 1
						for range parts[1] {
							den *= 10
						}
					}
				}
			}
			return true
		})
	}
	if den == 0 {
		fail("query.go: var QueryInvalidTxThreshold float32 = <decimal literal>")
	}
	l.def("thresholdNum", "Nat", strconv.Itoa(num), "QueryInvalidTxThreshold as a fraction")
	l.def("thresholdDen", "Nat", strconv.Itoa(den), "")
	out["verdictPaths"], out["thresholdOp"], out["threshold"] = jpaths, thrOp, []int{num, den}
	facts["pushtx"] = out
}

// helperDecl: the unique function of f with this (lower-case, unqualified) name.
func helperDecl(f *ast.File, name string) *ast.FuncDecl {
	if f == nil || name == "" || strings.Contains(name, ".") || !(name[0] >= 'a' && name[0] <= 'z') {
		return nil
	}
	var found *ast.FuncDecl
	for _, d := range f.Decls {
		if fd, ok := d.(*ast.FuncDecl); ok && fd.Name.Name == name && fd.Body != nil {
			if found != nil {
				return nil
			}
			found = fd
		}
	}
	return found
}

// tallyLoop recognises `for k, v := range m { if v OP best { best = v; sel = k } }` (either
// operand order) and returns the comparison in the canonical spelling
// "count OP mostRejectedCount" (value on the left) and the name of the selected-key variable.
func tallyLoop(rs *ast.RangeStmt) (string, string, bool) {
	k, kok := rs.Key.(*ast.Ident)
	v, vok := rs.Value.(*ast.Ident)
	if !kok || !vok || len(rs.Body.List) != 1 {
		return "", "", false
	}
	is, ok := rs.Body.List[0].(*ast.IfStmt)
	if !ok || is.Else != nil || is.Init != nil {
		return "", "", false
	}
	b, ok := is.Cond.(*ast.BinaryExpr)
	if !ok {
		return "", "", false
	}
	best, sel := "", ""
	for _, st := range is.Body.List {
		as, ok := st.(*ast.AssignStmt)
		if !ok || len(as.Lhs) != 1 || len(as.Rhs) != 1 {
			return "", "", false
		}
		switch src(as.Rhs[0]) {
		case v.Name:
			best = src(as.Lhs[0])
		case k.Name:
			sel = src(as.Lhs[0])
		default:
			return "", "", false
		}
	}
	if best == "" || sel == "" {
		return "", "", false
	}
	op := b.Op.String()
	flip := map[string]string{">": "<", "<": ">", ">=": "<=", "<=": ">="}
	switch {
	case src(b.X) == v.Name && src(b.Y) == best:
	case src(b.X) == best && src(b.Y) == v.Name && flip[op] != "":
		op = flip[op]
	default:
		return "", "", false
	}
	return "count " + op + " mostRejectedCount", sel, true
}

func orFalse(s string) string {
	if s == "" {
		return "false"
	}
	return s
}

func base(s string) string {
	if i := strings.LastIndex(s, "."); i >= 0 {
		return s[i+1:]
	}
	return s
}

// ---- the handler's interval source ------------------------------------------

// ivPath is one path through an arm of the handler's select: whether it went through the
// non-blocking semaphore select (and on which side), and whether it re-armed the timer.
type ivPath struct {
	sem   string // "" (no semaphore select on the path), "acquired", "busy"
	reset bool
	ended bool // the path left the arm (return inside the arm itself / continue / break)
}

// intervalSource analyses broadcastHandler: which select arm of its loop is fed by a timer or ticker
// created before the loop, and whether that source stays armed on every path through the arm.  It
// follows calls of closures bound to local variables (triggerRebroadcast), both branches of every
// if, every clause of an inner select; statements inside `go func(){...}()` run elsewhere and do not
// count; a loop body may run zero times and does not count either.
func intervalSource(fd *ast.FuncDecl) (string, string) {
	none := "{ periodic := false }"
	closures := map[string]*ast.FuncLit{}
	ctor := map[string]string{} // local variable -> time.NewTicker | time.NewTimer
	var loop *ast.ForStmt
	for _, st := range fd.Body.List {
		switch v := st.(type) {
		case *ast.AssignStmt:
			if len(v.Lhs) == 1 && len(v.Rhs) == 1 {
				if id, ok := v.Lhs[0].(*ast.Ident); ok {
					switch r := v.Rhs[0].(type) {
					case *ast.FuncLit:
						closures[id.Name] = r
					case *ast.CallExpr:
						if fn := src(r.Fun); fn == "time.NewTicker" || fn == "time.NewTimer" {
							ctor[id.Name] = fn
						}
					}
				}
			}
		case *ast.ForStmt:
			if v.Cond == nil && v.Init == nil && v.Post == nil && loop == nil {
				loop = v
			}
		}
	}
	var sel *ast.SelectStmt
	if loop != nil {
		for _, st := range loop.Body.List {
			if s, ok := st.(*ast.SelectStmt); ok {
				sel = s
			}
		}
	}
	if sel == nil {
		fail("pushtx/broadcaster.go: broadcastHandler: for { select { ... } }")
		return none, "missing"
	}
	recvOf := func(cc *ast.CommClause) string {
		var e ast.Expr
		switch c := cc.Comm.(type) {
		case *ast.ExprStmt:
			e = c.X
		case *ast.AssignStmt:
			if len(c.Rhs) == 1 {
				e = c.Rhs[0]
			}
		}
		if u, ok := e.(*ast.UnaryExpr); ok && u.Op == token.ARROW {
			return src(u.X)
		}
		return ""
	}
	var tickArm, blockArm *ast.CommClause
	timer := ""
	for _, c := range sel.Body.List {
		cc := c.(*ast.CommClause)
		if cc.Comm == nil {
			continue
		}
		ch := recvOf(cc)
		if strings.HasSuffix(ch, ".C") && ctor[strings.TrimSuffix(ch, ".C")] != "" {
			if tickArm != nil {
				fail("pushtx/broadcaster.go: broadcastHandler: one select arm fed by a timer or ticker")
			}
			tickArm, timer = cc, strings.TrimSuffix(ch, ".C")
		}
		if ch == "sub.Notifications" {
			blockArm = cc
		}
	}
	if tickArm == nil || blockArm == nil {
		fail("pushtx/broadcaster.go: broadcastHandler: a select arm receiving from <ticker or timer created before the loop>.C, and one receiving from sub.Notifications")
		return none, "missing"
	}
	// non-deferred Stop / Reset / re-assignment of the source anywhere in the handler
	stops, resets, reassigned := 0, 0, 0
	ast.Inspect(fd.Body, func(n ast.Node) bool {
		switch v := n.(type) {
		case *ast.DeferStmt:
			return false
		case *ast.CallExpr:
			switch src(v.Fun) {
			case timer + ".Stop":
				stops++
			case timer + ".Reset":
				resets++
			}
		case *ast.AssignStmt:
			for _, lh := range v.Lhs {
				if src(lh) == timer {
					reassigned++
				}
			}
		}
		return true
	})
	reassigned-- // its definition
	if ctor[timer] == "time.NewTicker" {
		return fmt.Sprintf("{ periodic := %s }", lbool(stops == 0 && reassigned == 0)), "time.NewTicker"
	}
	// one-shot timer: enumerate the paths through the two arms
	var walk func(stmts []ast.Stmt, in []ivPath, depth int, inClosure bool) []ivPath
	walk = func(stmts []ast.Stmt, in []ivPath, depth int, inClosure bool) []ivPath {
		live := in
		var done []ivPath // paths that already left (the closure or the arm)
		for _, st := range stmts {
			if len(live) == 0 {
				break
			}
			switch v := st.(type) {
			case *ast.ExprStmt:
				call, ok := v.X.(*ast.CallExpr)
				if !ok {
					continue
				}
				if src(call.Fun) == timer+".Reset" {
					for i := range live {
						live[i].reset = true
					}
				} else if id, ok := call.Fun.(*ast.Ident); ok && closures[id.Name] != nil && depth < 3 {
					// a return inside the closure ends the closure, not the arm: back here every path goes on
					live = walk(closures[id.Name].Body.List, live, depth+1, true)
					for i := range live {
						live[i].ended = false
					}
				}
			case *ast.BlockStmt:
				live = walk(v.List, live, depth, inClosure)
			case *ast.IfStmt:
				a := walk(v.Body.List, append([]ivPath(nil), live...), depth, inClosure)
				var b []ivPath
				switch e := v.Else.(type) {
				case *ast.BlockStmt:
					b = walk(e.List, append([]ivPath(nil), live...), depth, inClosure)
				case *ast.IfStmt:
					b = walk([]ast.Stmt{e}, append([]ivPath(nil), live...), depth, inClosure)
				default:
					b = append([]ivPath(nil), live...)
				}
				live = nil
				for _, p := range append(a, b...) {
					if p.ended {
						done = append(done, p)
					} else {
						live = append(live, p)
					}
				}
			case *ast.SelectStmt:
				hasDefault := false
				for _, c := range v.Body.List {
					if c.(*ast.CommClause).Comm == nil {
						hasDefault = true
					}
				}
				var outp []ivPath
				for _, c := range v.Body.List {
					cc := c.(*ast.CommClause)
					br := append([]ivPath(nil), live...)
					if hasDefault {
						for i := range br {
							if cc.Comm == nil {
								br[i].sem = "busy"
							} else {
								br[i].sem = "acquired"
							}
						}
					}
					outp = append(outp, walk(cc.Body, br, depth, inClosure)...)
				}
				live = nil
				for _, p := range outp {
					if p.ended {
						done = append(done, p)
					} else {
						live = append(live, p)
					}
				}
			case *ast.ReturnStmt, *ast.BranchStmt: // return / continue / break
				for i := range live {
					live[i].ended = true
				}
				done = append(done, live...)
				live = nil
			}
		}
		return append(live, done...)
	}
	flags := func(arm *ast.CommClause) (acq, busy bool, ok bool) {
		paths := walk(arm.Body, []ivPath{{}}, 0, false)
		acq, busy = true, true
		nAcq, nBusy := 0, 0
		for _, p := range paths {
			switch p.sem {
			case "acquired":
				nAcq++
				acq = acq && p.reset
			case "busy":
				nBusy++
				busy = busy && p.reset
			}
		}
		return acq, busy, nAcq > 0 && nBusy > 0
	}
	ta, tb, ok1 := flags(tickArm)
	ba, bb, ok2 := flags(blockArm)
	if !ok1 || !ok2 {
		fail("pushtx/broadcaster.go: broadcastHandler: the interval arm and the block arm reach the non-blocking semaphore select of triggerRebroadcast")
	}
	return fmt.Sprintf("{ periodic := false, tickRearmAcquired := %s, tickRearmBusy := %s, blockRearmAcquired := %s, blockRearmBusy := %s }",
		lbool(ta), lbool(tb), lbool(ba), lbool(bb)), "time.NewTimer"
}
