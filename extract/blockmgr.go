package main

import (
	"fmt"
	"go/ast"
	"go/token"
	"strings"
)

func init() { extractors = append(extractors, extractBlockMgr) }

// extractBlockMgr records the shape of blockmanager.go's header path that the
// model in lean/Neutrino/Model/BlockMgr.lean transcribes: the argument of the
// two findPreviousHeaderCheckpoint calls in handleHeadersMsg, the presence of
// the re-anchor call on every early return that follows pushes, the order
// rollback -> write -> list reset in the reorg arm, store write before
// notifications in writeCFHeadersMsg, the in-memory filter tip being lowered
// in rollBackToHeight, and numMaxMemHeaders.
func extractBlockMgr() {
	l := newLean("BlockMgr")
	defer l.write()
	f := parse("blockmanager.go")
	hh := funcDecl(f, "blockManager", "handleHeadersMsg")
	if hh == nil {
		fail("blockmanager.go: method blockManager.handleHeadersMsg")
		return
	}
	// callsBefore: does block b call `name` before its first return statement?
	callsBeforeReturn := func(b *ast.BlockStmt, name string) bool {
		if b == nil {
			return false
		}
		ret := token.Pos(-1)
		ast.Inspect(b, func(x ast.Node) bool {
			if r, ok := x.(*ast.ReturnStmt); ok && ret < 0 {
				ret = r.Pos()
			}
			return true
		})
		if ret < 0 {
			return false
		}
		for _, c := range calls(b) {
			if c.name == name && c.pos < ret {
				return true
			}
		}
		return false
	}
	findIf := func(n ast.Node, condSub string) *ast.IfStmt {
		var out *ast.IfStmt
		ast.Inspect(n, func(x ast.Node) bool {
			if i, ok := x.(*ast.IfStmt); ok && out == nil && strings.Contains(src(i.Cond), condSub) {
				out = i
			}
			return out == nil
		})
		return out
	}
	// the statement `if err != nil {…}` that follows (in block b) the statement containing a call to callee
	errBlockAfter := func(b *ast.BlockStmt, callee string) *ast.BlockStmt {
		if b == nil {
			return nil
		}
		seen := false
		for _, st := range b.List {
			if seen {
				if i, ok := st.(*ast.IfStmt); ok && strings.Contains(src(i.Cond), "err != nil") {
					return i.Body
				}
			}
			for _, c := range calls(st) {
				if c.name == callee {
					if i, ok := st.(*ast.IfStmt); ok && strings.Contains(src(i.Cond), "err != nil") {
						return i.Body // `if err := f(); err != nil`
					}
					seen = true
				}
			}
		}
		return nil
	}

	arms := findIf(hh.Body, "prevHash.IsEqual")
	if arms == nil || arms.Else == nil {
		fail("handleHeadersMsg: if prevHash.IsEqual(&blockHeader.PrevBlock) {connect} else {reorg}")
		return
	}
	connect := arms.Body
	reorg, _ := arms.Else.(*ast.BlockStmt)
	if reorg == nil {
		fail("handleHeadersMsg: else block of the connect test")
		return
	}

	// findPreviousHeaderCheckpoint arguments
	floorArg, mismatchArg := "", ""
	for _, c := range calls(reorg) {
		if c.name == "b.findPreviousHeaderCheckpoint" && len(c.args) == 1 {
			floorArg = c.args[0]
		}
	}
	cpIf := findIf(hh.Body, "node.Height == b.nextCheckpoint.Height")
	if cpIf == nil {
		fail("handleHeadersMsg: checkpoint test `node.Height == b.nextCheckpoint.Height`")
		return
	}
	for _, c := range calls(cpIf) {
		if c.name == "b.findPreviousHeaderCheckpoint" && len(c.args) == 1 {
			mismatchArg = c.args[0]
		}
	}
	if floorArg == "" || mismatchArg == "" {
		fail("handleHeadersMsg: the two findPreviousHeaderCheckpoint calls")
	}
	l.def("reorgFloorArg", "String", fmt.Sprintf("%q", floorArg), "argument of findPreviousHeaderCheckpoint in the reorg arm")
	l.def("mismatchFloorArg", "String", fmt.Sprintf("%q", mismatchArg), "argument of findPreviousHeaderCheckpoint on a checkpoint mismatch")

	// connect arm: sanity check present, its failure block re-anchors
	sanity := false
	for _, c := range calls(connect) {
		if c.name == "b.checkHeaderSanity" && len(c.args) == 4 && c.args[1] == "false" {
			sanity = true
		}
	}
	l.def("connectArmChecksSanity", "Bool", lbool(sanity), "the connect arm calls checkHeaderSanity(blockHeader, false, …)")
	l.def("reanchorOnSanityFailure", "Bool",
		lbool(callsBeforeReturn(errBlockAfter(connect, "b.checkHeaderSanity"), "b.resetHeaderListToTip")),
		"the connect arm's sanity-failure return re-anchors headerList on the stored tip")

	// reorg arm validates against reorgList
	reorgSanity := false
	for _, c := range calls(reorg) {
		if c.name == "b.checkHeaderSanity" && len(c.args) == 4 && c.args[1] == "true" {
			reorgSanity = true
		}
	}
	chs := funcDecl(f, "blockManager", "checkHeaderSanity")
	usesReorgList := false
	if chs != nil {
		// which list reaches newLightHeaderCtx's header-list argument when the flag (second
		// parameter of checkHeaderSanity) is true / false - whether it is selected by an
		// `if`, a switch or a helper method
		flag := ""
		n := 0
		for _, fl := range chs.Type.Params.List {
			for _, nm := range fl.Names {
				if n == 1 {
					flag = nm.Name
				}
				n++
			}
		}
		ast.Inspect(chs.Body, func(nd ast.Node) bool {
			if ce, ok := nd.(*ast.CallExpr); ok && src(ce.Fun) == "newLightHeaderCtx" && len(ce.Args) == 4 && flag != "" {
				recv := "b"
				if chs.Recv != nil && len(chs.Recv.List) == 1 && len(chs.Recv.List[0].Names) == 1 {
					recv = chs.Recv.List[0].Names[0].Name
				}
				usesReorgList = valueUnder(f, chs, ce.Args[3], flag, true, 0) == recv+".reorgList" &&
					valueUnder(f, chs, ce.Args[3], flag, false, 0) == recv+".headerList"
			}
			return true
		})
	}
	l.def("reorgArmUsesReorgList", "Bool", lbool(reorgSanity && usesReorgList),
		"the reorg arm calls checkHeaderSanity(…, true, …) and that selects b.reorgList as the context")

	// checkpoint mismatch: rollback, then re-anchor, then return
	var mismatch *ast.BlockStmt
	if inner := findIf(cpIf.Body, "nodeHash.IsEqual"); inner != nil {
		mismatch, _ = inner.Else.(*ast.BlockStmt)
	}
	okMis := false
	if mismatch != nil {
		rb, ra := token.Pos(-1), token.Pos(-1)
		for _, c := range calls(mismatch) {
			if c.name == "b.rollBackToHeight" {
				rb = c.pos
			}
			if c.name == "b.resetHeaderListToTip" {
				ra = c.pos
			}
		}
		okMis = rb >= 0 && ra > rb && callsBeforeReturn(mismatch, "b.resetHeaderListToTip")
	}
	l.def("reanchorOnCheckpointMismatch", "Bool", lbool(okMis), "checkpoint mismatch: rollBackToHeight, then re-anchor, then return")

	// failed batch write
	okW := false
	if w := findIf(hh.Body, "len(headerWriteBatch) > 0"); w != nil {
		okW = callsBeforeReturn(errBlockAfter(w.Body, "b.cfg.BlockHeaders.WriteHeaders"), "b.resetHeaderListToTip")
	}
	l.def("reanchorOnFailedWrite", "Bool", lbool(okW), "a failed batch write re-anchors before returning")

	// reorg arm order
	var order []string
	for _, c := range calls(reorg) {
		switch c.name {
		case "b.rollBackToHeight":
			order = append(order, "rollBackToHeight")
		case "b.cfg.BlockHeaders.WriteHeaders":
			order = append(order, "WriteHeaders")
		case "b.headerList.ResetHeaderState":
			order = append(order, "ResetHeaderState")
		}
	}
	l.def("reorgOrder", "List String", lstrs(order), "store/list operations of the reorg arm in source order")

	// equal work returns without reorganising: evaluate the statements between the work comparison
	// and the rollback for cmp = knownWork.Cmp(totalWork) in {-1, 0, 1} and see whether control
	// returns.  Spelling-independent: `switch cmp {case 1: …; fallthrough; case 0: return}`, an
	// `if` chain over a variable holding the comparison, or the call written out in the conditions.
	eq := workCmpReturns(reorg)
	l.def("equalWorkReturns", "Bool", lbool(eq), "between the work comparison and the rollback control returns for knownWork.Cmp(totalWork) = 1 and = 0 and goes on for -1 (equal work is not adopted)")

	// writeCFHeadersMsg: store write before notifications
	wf := funcDecl(f, "blockManager", "writeCFHeadersMsg")
	before := false
	if wf == nil {
		fail("blockmanager.go: method blockManager.writeCFHeadersMsg")
	} else {
		wp, np := token.Pos(-1), token.Pos(-1)
		for _, c := range calls(wf.Body) {
			if c.name == "store.WriteHeaders" && wp < 0 {
				wp = c.pos
			}
			if c.name == "b.onBlockConnected" && np < 0 {
				np = c.pos
			}
		}
		before = wp >= 0 && np > wp
	}
	l.def("cfWriteBeforeNotify", "Bool", lbool(before), "writeCFHeadersMsg writes the filter-header store before the first onBlockConnected")

	// ... and raises the in-memory filter tip (under its mutex) between the store write and the
	// first notification
	tipFirst := false
	if wf != nil {
		var asg, lock, unlock, firstNtf, write token.Pos = -1, -1, -1, -1, -1
		ast.Inspect(wf.Body, func(x ast.Node) bool {
			if a, ok := x.(*ast.AssignStmt); ok && len(a.Lhs) == 1 && src(a.Lhs[0]) == "b.filterHeaderTip" && asg < 0 {
				asg = a.Pos()
			}
			return true
		})
		for _, c := range calls(wf.Body) {
			switch {
			case c.name == "store.WriteHeaders" && write < 0:
				write = c.pos
			case c.name == "b.newFilterHeadersMtx.Lock" && lock < 0:
				lock = c.pos
			case c.name == "b.newFilterHeadersMtx.Unlock" && unlock < 0:
				unlock = c.pos
			case c.name == "b.onBlockConnected" && firstNtf < 0:
				firstNtf = c.pos
			}
		}
		tipFirst = write >= 0 && lock > write && asg > lock && unlock > asg && firstNtf > unlock &&
			strings.Contains(src(wf.Body), "b.filterHeaderTipHash = ")
	}
	// the mutex guarding the in-memory tip is RELEASED before the first notification: a backlog
	// request (NotificationsSinceHeight takes the read lock) is never kept waiting by the loop that
	// hands the events over
	unlockFirst := false
	if wf != nil {
		var unlock, firstNtf token.Pos = -1, -1
		nLocks, nUnlocks := 0, 0
		for _, c := range calls(wf.Body) {
			switch {
			case c.name == "b.newFilterHeadersMtx.Lock":
				nLocks++
			case c.name == "b.newFilterHeadersMtx.Unlock":
				nUnlocks++
				if unlock < 0 {
					unlock = c.pos
				}
			case c.name == "defer b.newFilterHeadersMtx.Unlock":
				nUnlocks = -100 // released only when the function returns
			case c.name == "b.onBlockConnected" && firstNtf < 0:
				firstNtf = c.pos
			}
		}
		unlockFirst = nLocks == 1 && nUnlocks == 1 && unlock >= 0 && firstNtf > unlock
	}
	l.def("cfUnlockBeforeNotify", "Bool", lbool(unlockFirst), "writeCFHeadersMsg releases newFilterHeadersMtx before the first onBlockConnected (one Lock, one Unlock, no defer)")

	l.def("cfTipBeforeNotify", "Bool", lbool(tipFirst), "writeCFHeadersMsg raises filterHeaderTip(+Hash) under newFilterHeadersMtx after the store write and before the first onBlockConnected")

	// rollBackToHeight lowers the in-memory filter tip under its mutex
	rb := funcDecl(f, "blockManager", "rollBackToHeight")
	lowers := false
	if rb == nil {
		fail("blockmanager.go: method blockManager.rollBackToHeight")
	} else {
		// the `if` whose body rolls the filter-header store back (found by that call, not by the
		// names of the locals in its condition): inside it, in this order, the filter store's
		// RollbackLastBlock, the mutex, the two assignments to the in-memory tip, the unlock
		var blk *ast.BlockStmt
		ast.Inspect(rb.Body, func(x ast.Node) bool {
			if i, ok := x.(*ast.IfStmt); ok && blk == nil {
				for _, c := range calls(i.Body) {
					if c.name == "b.cfg.RegFilterHeaders.RollbackLastBlock" {
						blk = i.Body
					}
				}
			}
			return blk == nil
		})
		if blk != nil {
			var r, a, u, m, mh token.Pos = -1, -1, -1, -1, -1
			for _, c := range calls(blk) {
				switch {
				case c.name == "b.cfg.RegFilterHeaders.RollbackLastBlock" && r < 0:
					r = c.pos
				case c.name == "b.newFilterHeadersMtx.Lock" && a < 0:
					a = c.pos
				case c.name == "b.newFilterHeadersMtx.Unlock" && u < 0:
					u = c.pos
				}
			}
			ast.Inspect(blk, func(x ast.Node) bool {
				if as, ok := x.(*ast.AssignStmt); ok && len(as.Lhs) == 1 {
					switch src(as.Lhs[0]) {
					case "b.filterHeaderTip":
						m = as.Pos()
					case "b.filterHeaderTipHash":
						mh = as.Pos()
					}
				}
				return true
			})
			lowers = r >= 0 && a > r && m > a && mh > a && u > m && u > mh
		}
	}
	// ... and removes the block header from the store BEFORE it announces the block as disconnected
	removeFirst := false
	if rb != nil {
		rm, nt := token.Pos(-1), token.Pos(-1)
		for _, c := range calls(rb.Body) {
			if c.name == "b.cfg.BlockHeaders.RollbackLastBlock" && rm < 0 {
				rm = c.pos
			}
			if c.name == "b.onBlockDisconnected" && nt < 0 {
				nt = c.pos
			}
		}
		removeFirst = rm >= 0 && nt > rm
	}
	l.def("rollbackRemovesBeforeNotify", "Bool", lbool(removeFirst), "rollBackToHeight calls BlockHeaders.RollbackLastBlock before onBlockDisconnected")

	l.def("rollbackLowersFilterTip", "Bool", lbool(lowers), "rollBackToHeight lowers filterHeaderTip(+Hash) under newFilterHeadersMtx after rolling the filter store back")

	// the notification channel is a rendezvous: `blockNtfnChan: make(chan blockntfns.BlockNtfn)` with
	// no capacity argument, in the composite literal of newBlockManager
	ntfnCap := "?"
	if nb := funcDecl(f, "", "newBlockManager"); nb == nil {
		fail("blockmanager.go: func newBlockManager")
	} else {
		ast.Inspect(nb.Body, func(x ast.Node) bool {
			kv, ok := x.(*ast.KeyValueExpr)
			if !ok || src(kv.Key) != "blockNtfnChan" {
				return true
			}
			if c, ok := kv.Value.(*ast.CallExpr); ok && src(c.Fun) == "make" && len(c.Args) >= 1 &&
				strings.HasPrefix(src(c.Args[0]), "chan ") {
				if len(c.Args) == 1 {
					ntfnCap = "0"
				} else {
					ntfnCap = src(c.Args[1])
				}
			}
			return false
		})
		if ntfnCap == "?" {
			fail("newBlockManager: blockNtfnChan: make(chan …)")
		}
	}
	l.def("blockNtfnChanCap", "String", fmt.Sprintf("%q", ntfnCap), "capacity argument of make(chan blockntfns.BlockNtfn …) for blockNtfnChan (\"0\" = none given: unbuffered)")
	l.def("blockNtfnChanUnbuffered", "Bool", lbool(ntfnCap == "0"), "blockNtfnChan is unbuffered: every event is handed over before the handler goes on")

	// numMaxMemHeaders
	num := ""
	for _, d := range f.Decls {
		if gd, ok := d.(*ast.GenDecl); ok && gd.Tok == token.CONST {
			for _, sp := range gd.Specs {
				vs := sp.(*ast.ValueSpec)
				for i, n := range vs.Names {
					if n.Name == "numMaxMemHeaders" && i < len(vs.Values) {
						num = src(vs.Values[i])
					}
				}
			}
		}
	}
	if num == "" {
		fail("blockmanager.go: const numMaxMemHeaders")
		num = "0"
	}
	l.def("numMaxMemHeaders", "Nat", num, "window of the in-memory header list")
	facts["blockmgr"] = map[string]any{"reorgFloorArg": floorArg, "mismatchFloorArg": mismatchArg, "reorgOrder": order}
}

// workCmpReturns interprets the statements of the reorg arm that follow the first mention of
// knownWork.Cmp(totalWork) up to the call of b.rollBackToHeight, for each of the three outcomes of
// the comparison.  It understands switch statements on the comparison (or on a variable assigned
// from it) with constant cases and fallthrough, if / else-if chains whose conditions are boolean
// combinations of comparisons of it with integer literals, return statements and anything that
// does not affect control.  It answers true iff control returns for 1 and 0 and reaches the rollback for -1.
func workCmpReturns(reorg *ast.BlockStmt) bool {
	const cmpCall = "knownWork.Cmp(totalWork)"
	var stmts []ast.Stmt
	started := false
	for _, st := range reorg.List {
		if !started && strings.Contains(src(st), cmpCall) {
			started = true
		}
		if started {
			if strings.Contains(src(st), "b.rollBackToHeight(") {
				break
			}
			stmts = append(stmts, st)
		}
	}
	if len(stmts) == 0 {
		fail("handleHeadersMsg reorg arm: knownWork.Cmp(totalWork) before b.rollBackToHeight")
		return false
	}
	ok := true
	returns := func(cmp int) bool {
		vars := map[string]bool{} // names holding the comparison
		var evalInt func(e ast.Expr) (int, bool)
		evalInt = func(e ast.Expr) (int, bool) {
			switch v := e.(type) {
			case *ast.ParenExpr:
				return evalInt(v.X)
			case *ast.BasicLit:
				n := 0
				if _, err := fmt.Sscanf(v.Value, "%d", &n); err == nil {
					return n, true
				}
			case *ast.UnaryExpr:
				if v.Op == token.SUB {
					if n, k := evalInt(v.X); k {
						return -n, true
					}
				}
			case *ast.Ident:
				if vars[v.Name] {
					return cmp, true
				}
			case *ast.CallExpr:
				if src(v) == cmpCall {
					return cmp, true
				}
			}
			return 0, false
		}
		var evalBool func(e ast.Expr) (bool, bool)
		evalBool = func(e ast.Expr) (bool, bool) {
			switch v := e.(type) {
			case *ast.ParenExpr:
				return evalBool(v.X)
			case *ast.UnaryExpr:
				if v.Op == token.NOT {
					b, k := evalBool(v.X)
					return !b, k
				}
			case *ast.BinaryExpr:
				switch v.Op {
				case token.LAND, token.LOR:
					a, ka := evalBool(v.X)
					b, kb := evalBool(v.Y)
					if v.Op == token.LAND {
						return a && b, ka && kb
					}
					return a || b, ka && kb
				}
				a, ka := evalInt(v.X)
				b, kb := evalInt(v.Y)
				if !ka || !kb {
					return false, false
				}
				switch v.Op {
				case token.EQL:
					return a == b, true
				case token.NEQ:
					return a != b, true
				case token.LSS:
					return a < b, true
				case token.LEQ:
					return a <= b, true
				case token.GTR:
					return a > b, true
				case token.GEQ:
					return a >= b, true
				}
			}
			return false, false
		}
		var run func(list []ast.Stmt) bool // true = returned
		run = func(list []ast.Stmt) bool {
			for _, st := range list {
				switch v := st.(type) {
				case *ast.ReturnStmt:
					return true
				case *ast.AssignStmt:
					if len(v.Lhs) == 1 && len(v.Rhs) == 1 && src(v.Rhs[0]) == cmpCall {
						if id, isID := v.Lhs[0].(*ast.Ident); isID {
							vars[id.Name] = true
						}
					}
				case *ast.BlockStmt:
					if run(v.List) {
						return true
					}
				case *ast.IfStmt:
					if v.Init != nil && run([]ast.Stmt{v.Init}) {
						return true
					}
					c, known := evalBool(v.Cond)
					if !known {
						if strings.Contains(src(v.Cond), "Cmp") || mentions(v.Cond, vars) {
							ok = false
						}
						continue // a condition that has nothing to do with the comparison (none expected here)
					}
					if c {
						if run(v.Body.List) {
							return true
						}
					} else if v.Else != nil {
						if run([]ast.Stmt{v.Else}) {
							return true
						}
					}
				case *ast.SwitchStmt:
					if v.Init != nil && run([]ast.Stmt{v.Init}) {
						return true
					}
					tag, known := 0, false
					if v.Tag != nil {
						tag, known = evalInt(v.Tag)
					}
					if !known {
						ok = false
						continue
					}
					matched, dflt := -1, -1
					for i, cl := range v.Body.List {
						cc := cl.(*ast.CaseClause)
						if cc.List == nil {
							dflt = i
						}
						for _, e := range cc.List {
							if n, k := evalInt(e); k && n == tag && matched < 0 {
								matched = i
							}
						}
					}
					if matched < 0 {
						matched = dflt
					}
					for i := matched; i >= 0 && i < len(v.Body.List); i++ {
						cc := v.Body.List[i].(*ast.CaseClause)
						ft := false
						body := cc.Body
						if n := len(body); n > 0 {
							if br, isBr := body[n-1].(*ast.BranchStmt); isBr && br.Tok == token.FALLTHROUGH {
								ft, body = true, body[:n-1]
							}
						}
						if run(body) {
							return true
						}
						if !ft {
							break
						}
					}
				}
			}
			return false
		}
		return run(stmts)
	}
	r1, r0, rm := returns(1), returns(0), returns(-1)
	if !ok {
		fail("handleHeadersMsg reorg arm: a condition on knownWork.Cmp(totalWork) the extractor cannot evaluate")
	}
	return ok && r1 && r0 && !rm
}

func mentions(e ast.Expr, vars map[string]bool) bool {
	found := false
	ast.Inspect(e, func(x ast.Node) bool {
		if id, ok := x.(*ast.Ident); ok && vars[id.Name] {
			found = true
		}
		return true
	})
	return found
}
