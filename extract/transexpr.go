package main

// Expression translation of the Go → Lean translator (see trans.go).

import (
	"fmt"
	"go/ast"
	"go/token"
	"go/types"
	"strings"
)

func isNilIdent(info *types.Info, e ast.Expr) bool {
	id, ok := ast.Unparen(e).(*ast.Ident)
	if !ok {
		return false
	}
	_, isNil := info.Uses[id].(*types.Nil)
	return isNil
}

func basicOf(t types.Type) *types.Basic {
	if t == nil {
		return nil
	}
	b, _ := t.Underlying().(*types.Basic)
	return b
}

// cond: a condition as a decidable Prop, normalised: negations and `≤` are turned into a swap
// of the branches, `>` into `<`.
func (t *tfunc) cond(e ast.Expr) (string, bool) {
	e = ast.Unparen(e)
	if tv, ok := t.info().Types[e]; ok && tv.Value != nil {
		return t.prop(e), false
	}
	switch v := e.(type) {
	case *ast.UnaryExpr:
		if v.Op == token.NOT {
			p, s := t.cond(v.X)
			return p, !s
		}
	case *ast.BinaryExpr:
		switch v.Op {
		case token.NEQ:
			return t.cmp(v, token.EQL), true
		case token.LEQ:
			if t.ordered(v) {
				return t.cmp(v, token.GTR), true
			}
		case token.GEQ:
			if t.ordered(v) {
				return t.cmp(v, token.LSS), true
			}
		}
	}
	return t.prop(e), false
}

func (t *tfunc) ordered(v *ast.BinaryExpr) bool {
	b := basicOf(typeOf(t.pi, v.X))
	return b != nil && b.Info()&types.IsInteger != 0
}

// cmp renders the comparison of v's operands under operator op (only `<`, `≤`, `=`, `≠` appear in the output)
func (t *tfunc) cmp(v *ast.BinaryExpr, op token.Token) string {
	info := t.info()
	xt, yt := typeOf(t.pi, v.X), typeOf(t.pi, v.Y)
	if op == token.EQL || op == token.NEQ {
		sym := " = "
		if op == token.NEQ {
			sym = " ≠ "
		}
		var other ast.Expr
		if isNilIdent(info, v.Y) {
			other = v.X
		} else if isNilIdent(info, v.X) {
			other = v.Y
		}
		if other != nil {
			if path, ok := t.recvPath(other); ok && path != "" {
				if op := t.okey[path+" == nil"]; op != nil {
					if op2 := sym; op2 == " = " {
						return t.use(op.name) + " = true"
					}
					return t.use(op.name) + " = false"
				}
			}
			ot := typeOf(t.pi, other)
			lt := t.g.leanType(ot)
			o := t.expr(other, nil)
			switch {
			case ot != nil && isErrorType(ot):
				return o + sym + "false"
			case strings.HasPrefix(lt, "Option "):
				return o + sym + "none"
			case strings.HasPrefix(lt, "List "):
				return o + sym + "[]" // idealisation: a nil slice and an empty slice are the same list
			}
			t.bad(v, "nil comparison of an opaque value")
		}
		if (xt != nil && isErrorType(xt)) || (yt != nil && isErrorType(yt)) {
			t.bad(v, "comparison of error values")
		}
		ty := xt
		if b := basicOf(xt); b != nil && b.Info()&types.IsUntyped != 0 {
			ty = yt
		}
		return paren(t.expr(v.X, ty)) + sym + paren(t.expr(v.Y, ty))
	}
	if !t.ordered(v) {
		t.bad(v, "ordering comparison of non-integers")
	}
	ty := xt
	if b := basicOf(xt); b != nil && b.Info()&types.IsUntyped != 0 {
		ty = yt
	}
	x, y := paren(t.expr(v.X, ty)), paren(t.expr(v.Y, ty))
	switch op {
	case token.LSS:
		return x + " < " + y
	case token.GTR:
		return y + " < " + x
	case token.LEQ:
		return x + " ≤ " + y
	case token.GEQ:
		return y + " ≤ " + x
	}
	t.bad(v, "comparison")
	return ""
}

// prop: a bool-typed Go expression as a decidable Prop
func (t *tfunc) prop(e ast.Expr) string {
	e = ast.Unparen(e)
	if tv, ok := t.info().Types[e]; ok && tv.Value != nil {
		if s, ok := constLit(tv.Value); ok {
			if s == "true" {
				return "True"
			}
			return "False"
		}
	}
	switch v := e.(type) {
	case *ast.UnaryExpr:
		if v.Op == token.NOT {
			return "¬ " + paren(t.prop(v.X))
		}
	case *ast.BinaryExpr:
		switch v.Op {
		case token.LAND:
			return paren(t.prop(v.X)) + " ∧ " + paren(t.prop(v.Y))
		case token.LOR:
			return paren(t.prop(v.X)) + " ∨ " + paren(t.prop(v.Y))
		case token.EQL, token.NEQ, token.LSS, token.GTR, token.LEQ, token.GEQ:
			return t.cmp(v, v.Op)
		}
	}
	return paren(t.expr(e, nil)) + " = true"
}

func (t *tfunc) intIndex(e ast.Expr) string {
	b := basicOf(typeOf(t.pi, e))
	s := t.expr(e, types.Typ[types.Int])
	if b != nil && b.Info()&types.IsUnsigned != 0 {
		return "(" + s + " : Int)"
	}
	return s
}

// arith: x op y on values of type ty
func (t *tfunc) arith(at ast.Node, op token.Token, ty types.Type, x, y string) string {
	b := basicOf(ty)
	if b == nil {
		t.bad(at, "operator %s on a value without basic type", op)
	}
	x, y = paren(x), paren(y)
	switch {
	case b.Info()&types.IsString != 0:
		if op == token.ADD {
			return x + " ++ " + y
		}
	case b.Info()&types.IsUnsigned != 0:
		w := uwidth(b)
		switch op {
		case token.ADD:
			return fmt.Sprintf("GoInt.uadd %d %s %s", w, x, y)
		case token.SUB:
			return fmt.Sprintf("GoInt.usub %d %s %s", w, x, y)
		case token.MUL:
			return fmt.Sprintf("GoInt.umul %d %s %s", w, x, y)
		case token.QUO:
			return x + " / " + y
		case token.REM:
			return x + " % " + y
		case token.AND:
			return x + " &&& " + y
		case token.OR:
			return x + " ||| " + y
		case token.XOR:
			return x + " ^^^ " + y
		case token.SHR:
			return x + " >>> " + y
		case token.SHL:
			return fmt.Sprintf("GoInt.ushl %d %s %s", w, x, y)
		}
	case b.Info()&types.IsInteger != 0:
		switch op {
		case token.ADD:
			return x + " + " + y
		case token.SUB:
			return x + " - " + y
		case token.MUL:
			return x + " * " + y
		case token.QUO:
			return "Int.tdiv " + x + " " + y
		case token.REM:
			return "Int.tmod " + x + " " + y
		case token.AND:
			return "GoInt.iand " + x + " " + y
		case token.OR:
			return "GoInt.ior " + x + " " + y
		}
	}
	t.bad(at, "operator %s on %s", op, ty)
	return ""
}

// expr translates e; want (may be nil) is the type the context expects (for nil / untyped constants)
func (t *tfunc) expr(e ast.Expr, want types.Type) string {
	info := t.info()
	e = ast.Unparen(e)
	tv := info.Types[e]
	if tv.Value != nil {
		if s, ok := constLit(tv.Value); ok {
			t.noteConst(e, s)
			return s
		}
		t.bad(e, "constant of an unsupported kind")
	}
	switch v := e.(type) {
	case *ast.Ident:
		switch o := info.Uses[v].(type) {
		case *types.Nil:
			ty := want
			if ty == nil {
				t.bad(e, "nil without a known type")
			}
			lt := t.g.leanType(ty)
			switch {
			case isErrorType(ty):
				return "false"
			case strings.HasPrefix(lt, "Option "):
				return "none"
			case strings.HasPrefix(lt, "List "):
				return "[]"
			case lt == "GoInt.Atom":
				return "0" // the nil pointer / interface of an opaque type is atom 0
			}
			t.bad(e, "nil of an opaque type")
		case *types.Var:
			if o == t.recvObj {
				if op := t.okey["(self)"]; op != nil {
					return t.use(op.name)
				}
				t.bad(e, "the receiver as a value")
			}
			if _, isElem := t.elem[o]; isElem {
				t.bad(e, "internal: loop counter of an element loop used as a value")
			}
			if o.Parent() == t.pi.pkg.Scope() || (o.Pkg() != nil && o.Parent() == o.Pkg().Scope()) {
				t.bad(e, "read of a package-level variable")
			}
			n, ok := t.names[o]
			if !ok {
				t.bad(e, "variable read before it is bound")
			}
			return t.use(n)
		}
		t.bad(e, "identifier of an unsupported kind")
	case *ast.SelectorExpr:
		if path, ok := t.recvPath(v); ok && path != "" {
			if op := t.okey[path]; op != nil {
				return t.use(op.name)
			}
			t.bad(e, "internal: receiver path not collected")
		}
		sel := info.Selections[v]
		if sel == nil || sel.Kind() != types.FieldVal {
			t.bad(e, "selector that is neither a field nor a constant")
		}
		base := t.expr(v.X, nil)
		cur := typeOf(t.pi, v.X)
		for _, ix := range sel.Index() {
			if cur == nil {
				t.bad(e, "field of a value without type")
			}
			if p, ok := cur.Underlying().(*types.Pointer); ok {
				if !strings.HasPrefix(t.g.leanType(cur), "Option ") {
					t.bad(e, "field of a pointer to an opaque type")
				}
				base = "(GoInt.deref " + paren(base) + ")"
				cur = p.Elem()
			}
			st, ok := cur.Underlying().(*types.Struct)
			if !ok || t.g.leanType(cur) == "GoInt.Atom" {
				t.bad(e, "field of an opaque type")
			}
			f := st.Field(ix)
			base = paren(base) + "." + fieldIdent(f.Name())
			cur = f.Type()
		}
		return base
	case *ast.StarExpr:
		xt := typeOf(t.pi, v.X)
		if strings.HasPrefix(t.g.leanType(xt), "Option ") {
			return "GoInt.deref " + paren(t.expr(v.X, nil))
		}
		return t.expr(v.X, nil)
	case *ast.UnaryExpr:
		switch v.Op {
		case token.NOT:
			return "decide (" + t.prop(e) + ")"
		case token.SUB:
			b := basicOf(tv.Type)
			if b != nil && b.Info()&types.IsUnsigned != 0 {
				return fmt.Sprintf("GoInt.usub %d 0 %s", uwidth(b), paren(t.expr(v.X, tv.Type)))
			}
			return "-" + paren(t.expr(v.X, tv.Type))
		case token.ADD:
			return t.expr(v.X, tv.Type)
		case token.AND:
			if strings.HasPrefix(t.g.leanType(tv.Type), "Option ") {
				return "some " + paren(t.expr(v.X, nil))
			}
			return t.expr(v.X, nil) // pointer to an opaque value: the same atom
		}
		t.bad(e, "unary operator %s", v.Op)
	case *ast.BinaryExpr:
		switch v.Op {
		case token.LAND, token.LOR, token.EQL, token.NEQ, token.LSS, token.GTR, token.LEQ, token.GEQ:
			return "decide (" + t.prop(e) + ")"
		}
		ty := tv.Type
		if v.Op == token.SHL || v.Op == token.SHR {
			return t.arith(e, v.Op, ty, t.expr(v.X, ty), t.shiftCount(v.Y))
		}
		return t.arith(e, v.Op, ty, t.expr(v.X, ty), t.expr(v.Y, ty))
	case *ast.IndexExpr:
		xt := typeOf(t.pi, v.X)
		if xt == nil {
			t.bad(e, "index of a value without type")
		}
		switch u := xt.Underlying().(type) {
		case *types.Map:
			return fmt.Sprintf("GoInt.mlookup %s %s", paren(t.expr(v.X, nil)), paren(t.expr(v.Index, u.Key())))
		case *types.Slice, *types.Array:
			if id, ok := ast.Unparen(v.Index).(*ast.Ident); ok {
				if es, ok := t.elem[info.Uses[id]]; ok && es.xsrc == src(v.X) {
					return t.use(es.name)
				}
			}
			ib := basicOf(typeOf(t.pi, v.Index))
			if ib != nil && ib.Info()&types.IsUnsigned != 0 {
				return fmt.Sprintf("GoInt.idxN %s %s", paren(t.expr(v.X, nil)), paren(t.expr(v.Index, nil)))
			}
			return fmt.Sprintf("GoInt.idx %s %s", paren(t.expr(v.X, nil)), paren(t.expr(v.Index, types.Typ[types.Int])))
		}
		t.bad(e, "index of this kind of value")
	case *ast.SliceExpr:
		if v.Slice3 {
			t.bad(e, "3-index slice")
		}
		xs := t.expr(v.X, nil)
		lo, hi := "0", "GoInt.len "+paren(xs)
		if v.Low != nil {
			lo = t.intIndex(v.Low)
		}
		if v.High != nil {
			hi = t.intIndex(v.High)
		}
		if _, ok := typeOf(t.pi, v.X).Underlying().(*types.Slice); !ok {
			t.bad(e, "slice of something that is not a slice")
		}
		return fmt.Sprintf("GoInt.slice %s %s %s", paren(xs), paren(lo), paren(hi))
	case *ast.CompositeLit:
		ty := tv.Type
		switch u := ty.Underlying().(type) {
		case *types.Struct:
			lt := t.g.leanType(ty)
			if lt == "GoInt.Atom" {
				t.bad(e, "composite literal of an opaque type")
			}
			vals := make([]string, u.NumFields())
			for i := range vals {
				vals[i] = zeroOf(u.Field(i).Type())
			}
			for i, el := range v.Elts {
				if kv, ok := el.(*ast.KeyValueExpr); ok {
					found := false
					for j := 0; j < u.NumFields(); j++ {
						if u.Field(j).Name() == kv.Key.(*ast.Ident).Name {
							vals[j] = t.expr(kv.Value, u.Field(j).Type())
							found = true
						}
					}
					if !found {
						t.bad(e, "unknown field in composite literal")
					}
				} else {
					vals[i] = t.expr(el, u.Field(i).Type())
				}
			}
			var fs []string
			for j := 0; j < u.NumFields(); j++ {
				fs = append(fs, fieldIdent(u.Field(j).Name())+" := "+vals[j])
			}
			return "({ " + strings.Join(fs, ", ") + " } : " + lt + ")"
		case *types.Slice:
			var xs []string
			for _, el := range v.Elts {
				if _, ok := el.(*ast.KeyValueExpr); ok {
					t.bad(e, "keyed slice literal")
				}
				xs = append(xs, t.expr(el, u.Elem()))
			}
			return "[" + strings.Join(xs, ", ") + "]"
		case *types.Map:
			if len(v.Elts) == 0 {
				return "[]"
			}
		}
		t.bad(e, "composite literal of this type")
	case *ast.CallExpr:
		return t.call(v, want)
	}
	t.bad(e, "unsupported expression %T", e)
	return ""
}

func (t *tfunc) shiftCount(e ast.Expr) string {
	b := basicOf(typeOf(t.pi, e))
	s := t.expr(e, types.Typ[types.Uint])
	if b != nil && b.Info()&types.IsUnsigned == 0 && b.Info()&types.IsUntyped == 0 {
		return "Int.toNat " + paren(s)
	}
	return s
}

func (t *tfunc) call(v *ast.CallExpr, want types.Type) string {
	info := t.info()
	kind, key, recvArg, tg := t.callee(v)
	switch kind {
	case ckClosure:
		t.bad(v, "call of a local closure inside an expression (only `x, y := f(…)` is inlined)")
	case ckErrCtor:
		return "true"
	case ckConv:
		if len(v.Args) != 1 {
			t.bad(v, "conversion arity")
		}
		to, from := info.Types[v].Type, typeOf(t.pi, v.Args[0])
		tb, fb := basicOf(to), basicOf(from)
		x := t.expr(v.Args[0], to)
		if tb != nil && fb != nil && tb.Info()&types.IsInteger != 0 && fb.Info()&types.IsInteger != 0 {
			tu, fu := tb.Info()&types.IsUnsigned != 0, fb.Info()&types.IsUnsigned != 0
			switch {
			case !tu && !fu:
				return x // signed → signed: overflow / narrowing not modelled
			case tu && !fu:
				return fmt.Sprintf("GoInt.toU %d %s", uwidth(tb), paren(x))
			case !tu && fu:
				return "(" + x + " : Int)"
			default:
				if uwidth(tb) >= uwidth(fb) {
					return x
				}
				return fmt.Sprintf("GoInt.wrap %d %s", uwidth(tb), paren(x))
			}
		}
		if t.g.leanType(to) == t.g.leanType(from) {
			return x
		}
		t.bad(v, "conversion between these types")
	case ckBuiltin:
		switch key {
		case "len":
			at := typeOf(t.pi, v.Args[0])
			if at != nil {
				switch at.Underlying().(type) {
				case *types.Slice, *types.Map:
					return "GoInt.len " + paren(t.expr(v.Args[0], nil))
				}
			}
			t.bad(v, "len of this kind of value")
		case "min", "max":
			ty := info.Types[v].Type
			b := basicOf(ty)
			if b == nil || b.Info()&types.IsInteger == 0 {
				t.bad(v, "%s of non-integers", key)
			}
			s := t.expr(v.Args[0], ty)
			for _, a := range v.Args[1:] {
				s = fmt.Sprintf("%s %s %s", key, paren(s), paren(t.expr(a, ty)))
			}
			return s
		case "append":
			st, ok := info.Types[v].Type.Underlying().(*types.Slice)
			if !ok {
				t.bad(v, "append")
			}
			xs := t.expr(v.Args[0], info.Types[v].Type)
			if v.Ellipsis.IsValid() {
				return paren(xs) + " ++ " + paren(t.expr(v.Args[1], info.Types[v].Type))
			}
			var els []string
			for _, a := range v.Args[1:] {
				el := t.expr(a, st.Elem())
				if t.g.leanType(st.Elem()) == "GoInt.Atom" && !isNilIdent(info, a) {
					if at := t.g.leanType(typeOf(t.pi, a)); at != "GoInt.Atom" {
						op := t.okey[ifaceKey(at)]
						if op == nil {
							t.bad(a, "implicit conversion of a data value to an interface")
						}
						el = t.use(op.name) + " " + paren(el)
					}
				}
				els = append(els, el)
			}
			return paren(xs) + " ++ [" + strings.Join(els, ", ") + "]"
		case "make":
			switch info.Types[v].Type.Underlying().(type) {
			case *types.Map:
				return "[]"
			case *types.Slice:
				if len(v.Args) >= 2 {
					if tv := info.Types[v.Args[1]]; tv.Value != nil && tv.Value.ExactString() == "0" {
						return "[]"
					}
					if b := basicOf(typeOf(t.pi, v.Args[1])); b != nil && b.Info()&types.IsUnsigned != 0 {
						return "List.replicate " + paren(t.expr(v.Args[1], nil)) + " default"
					}
					return "List.replicate (Int.toNat " + paren(t.intIndex(v.Args[1])) + ") default"
				}
			}
		}
		t.bad(v, "builtin %s", key)
	case ckTranslated:
		cf := t.g.translate(tg)
		if cf == nil {
			t.bad(v, "callee %s could not be translated", tg.name)
		}
		sig, _ := typeOf(t.pi, v.Fun).(*types.Signature)
		var args []string
		for i, a := range v.Args {
			var pt types.Type
			if sig != nil && i < sig.Params().Len() {
				pt = sig.Params().At(i).Type()
			}
			args = append(args, paren(t.expr(a, pt)))
		}
		for _, o := range cf.oparams {
			mine := t.okey[o.key]
			if mine == nil {
				t.bad(v, "internal: callee parameter %s not collected", o.key)
			}
			args = append(args, t.use(mine.name))
		}
		if len(args) == 0 {
			return cf.tg.lean
		}
		return cf.tg.lean + " " + strings.Join(args, " ")
	case ckOpaque:
		op := t.okey[key]
		if op == nil {
			t.bad(v, "internal: callee %s not collected", key)
		}
		sig, _ := typeOf(t.pi, v.Fun).(*types.Signature)
		var args []string
		if recvArg != nil {
			args = append(args, paren(t.expr(recvArg, nil)))
		}
		for i, a := range v.Args {
			var pt types.Type
			if sig != nil && i < sig.Params().Len() {
				pt = sig.Params().At(i).Type()
			}
			args = append(args, paren(t.expr(a, pt)))
		}
		t.use(op.name)
		for i, a := range v.Args {
			if t.refArg(a) {
				hk := fmt.Sprintf("%s ⇒ contents of argument %d afterwards", key, i+1)
				hop := t.okey[hk]
				if hop == nil {
					continue // inside a return statement
				}
				t.havoc = append(t.havoc, havoc{a, t.use(hop.name) + " " + strings.Join(args, " ")})
			} else if ty := typeOf(t.pi, a); ty != nil {
				switch ty.Underlying().(type) {
				case *types.Slice, *types.Map:
					switch ast.Unparen(a).(type) {
					case *ast.SelectorExpr, *ast.IndexExpr, *ast.SliceExpr:
						t.bad(v, "a slice that is part of a variable is handed to an untranslated callee (it may write it)")
					}
				}
			}
		}
		if len(args) == 0 {
			return op.name
		}
		return op.name + " " + strings.Join(args, " ")
	}
	t.bad(v, "call")
	return ""
}

// zeroOf: Go's zero value of a type (Lean's `default` coincides with it for every rendered type)
func zeroOf(ty types.Type) string {
	if isErrorType(ty) {
		return "false"
	}
	if b := basicOf(ty); b != nil {
		switch {
		case b.Info()&types.IsInteger != 0:
			return "0"
		case b.Info()&types.IsBoolean != 0:
			return "false"
		case b.Info()&types.IsString != 0:
			return `""`
		}
	}
	return "default"
}

// noteConst: a named constant of a named integer type of the repo (an enum member) is also emitted as
// `def K_<pkg>_<name>`, so that abstraction functions in the lemma files can name it instead of its value.
func (t *tfunc) noteConst(e ast.Expr, val string) {
	var id *ast.Ident
	switch v := e.(type) {
	case *ast.Ident:
		id = v
	case *ast.SelectorExpr:
		id = v.Sel
	default:
		return
	}
	c, ok := t.info().Uses[id].(*types.Const)
	if !ok || c.Pkg() == nil {
		return
	}
	n, ok := types.Unalias(c.Type()).(*types.Named)
	if !ok || !structOK(n) {
		return
	}
	b := basicOf(n)
	if b == nil || b.Info()&types.IsInteger == 0 {
		return
	}
	t.g.consts["K_"+c.Pkg().Name()+"_"+c.Name()] = t.g.leanType(n) + " := " + val
	// and with it every other member of the same enum, whether the translated code mentions it or not
	sc := c.Pkg().Scope()
	for _, name := range sc.Names() {
		if oc, ok := sc.Lookup(name).(*types.Const); ok && types.Identical(oc.Type(), c.Type()) {
			if lit, ok := constLit(oc.Val()); ok {
				t.g.consts["K_"+oc.Pkg().Name()+"_"+oc.Name()] = t.g.leanType(n) + " := " + lit
			}
		}
	}
}
