package main

import (
	"go/ast"
	"go/token"
	"strings"
)

// valueUnder evaluates, for one value of a boolean parameter, which expression reaches `e`
// in `fn`: a mini interpreter over the statements of the function body that assign the
// variable (`x := A`, `x = B` under `if p` / `if !p` / else), over helper methods of the
// same file that are called with the parameter (`b.helper(p)` whose body returns A or B
// depending on its own parameter), and over parenthesised / negated uses of the parameter.
// The answer is the source text of the selected expression ("" = cannot tell).  It depends
// on what value flows into the place, not on how the selection is spelled.
func valueUnder(f *ast.File, fn *ast.FuncDecl, e ast.Expr, param string, val bool, depth int) string {
	if depth > 3 || fn == nil || e == nil {
		return ""
	}
	switch x := e.(type) {
	case *ast.ParenExpr:
		return valueUnder(f, fn, x.X, param, val, depth)
	case *ast.Ident:
		if v, ok := identUnder(f, fn, x.Name, param, val, depth); ok {
			return v
		}
		return x.Name
	case *ast.CallExpr:
		// a same-file helper called with the parameter
		name := src(x.Fun)
		short := name
		if i := strings.LastIndex(short, "."); i >= 0 {
			short = short[i+1:]
		}
		var helper *ast.FuncDecl
		for _, d := range f.Decls {
			if fd, ok := d.(*ast.FuncDecl); ok && fd.Name.Name == short && fd.Body != nil {
				helper = fd
			}
		}
		if helper == nil || helper.Type.Results == nil || len(helper.Type.Results.List) != 1 {
			return src(e)
		}
		// which helper parameter receives our parameter (possibly negated)
		var hparams []string
		for _, fl := range helper.Type.Params.List {
			for _, n := range fl.Names {
				hparams = append(hparams, n.Name)
			}
		}
		for i, a := range x.Args {
			if i >= len(hparams) {
				break
			}
			if b, ok := boolOf(a, param, val); ok {
				if r := returnUnder(f, helper, hparams[i], b, depth+1); r != "" {
					return r
				}
			}
		}
		return src(e)
	}
	return src(e)
}

// boolOf: the value of a boolean expression built from the parameter alone.
func boolOf(e ast.Expr, param string, val bool) (bool, bool) {
	switch x := e.(type) {
	case *ast.ParenExpr:
		return boolOf(x.X, param, val)
	case *ast.Ident:
		switch x.Name {
		case param:
			return val, true
		case "true":
			return true, true
		case "false":
			return false, true
		}
	case *ast.UnaryExpr:
		if x.Op == token.NOT {
			if b, ok := boolOf(x.X, param, val); ok {
				return !b, true
			}
		}
	case *ast.BinaryExpr:
		l, lok := boolOf(x.X, param, val)
		r, rok := boolOf(x.Y, param, val)
		if lok && rok {
			switch x.Op {
			case token.EQL:
				return l == r, true
			case token.NEQ:
				return l != r, true
			case token.LAND:
				return l && r, true
			case token.LOR:
				return l || r, true
			}
		}
	}
	return false, false
}

// identUnder walks the top-level statements of fn and tracks the last assignment to `name`
// that is executed when param = val.
func identUnder(f *ast.File, fn *ast.FuncDecl, name, param string, val bool, depth int) (string, bool) {
	cur, found := "", false
	var walk func(list []ast.Stmt)
	assign := func(s *ast.AssignStmt) {
		for i, l := range s.Lhs {
			if id, ok := l.(*ast.Ident); ok && id.Name == name && i < len(s.Rhs) {
				cur, found = valueUnder(f, fn, s.Rhs[i], param, val, depth+1), true
			}
		}
	}
	walk = func(list []ast.Stmt) {
		for _, st := range list {
			switch s := st.(type) {
			case *ast.AssignStmt:
				assign(s)
			case *ast.DeclStmt:
				if gd, ok := s.Decl.(*ast.GenDecl); ok {
					for _, sp := range gd.Specs {
						if vs, ok := sp.(*ast.ValueSpec); ok {
							for i, n := range vs.Names {
								if n.Name == name && i < len(vs.Values) {
									cur, found = valueUnder(f, fn, vs.Values[i], param, val, depth+1), true
								}
							}
						}
					}
				}
			case *ast.IfStmt:
				if b, ok := boolOf(s.Cond, param, val); ok {
					if b {
						walk(s.Body.List)
					} else if s.Else != nil {
						switch el := s.Else.(type) {
						case *ast.BlockStmt:
							walk(el.List)
						case *ast.IfStmt:
							walk([]ast.Stmt{el})
						}
					}
				}
			case *ast.SwitchStmt:
				if s.Tag == nil {
					for _, c := range s.Body.List {
						cc := c.(*ast.CaseClause)
						if cc.List == nil {
							walk(cc.Body)
							break
						}
						if b, ok := boolOf(cc.List[0], param, val); ok && b {
							walk(cc.Body)
							break
						}
					}
				}
			}
		}
	}
	walk(fn.Body.List)
	return cur, found
}

// returnUnder: the expression a single-result helper returns when its parameter has the value.
func returnUnder(f *ast.File, fn *ast.FuncDecl, param string, val bool, depth int) string {
	var res string
	var walk func(list []ast.Stmt) bool
	walk = func(list []ast.Stmt) bool {
		for _, st := range list {
			switch s := st.(type) {
			case *ast.ReturnStmt:
				if len(s.Results) == 1 {
					res = valueUnder(f, fn, s.Results[0], param, val, depth)
				}
				return true
			case *ast.IfStmt:
				if b, ok := boolOf(s.Cond, param, val); ok {
					if b {
						if walk(s.Body.List) {
							return true
						}
					} else if s.Else != nil {
						switch el := s.Else.(type) {
						case *ast.BlockStmt:
							if walk(el.List) {
								return true
							}
						case *ast.IfStmt:
							if walk([]ast.Stmt{el}) {
								return true
							}
						}
					}
				}
			case *ast.SwitchStmt:
				if s.Tag == nil {
					for _, c := range s.Body.List {
						cc := c.(*ast.CaseClause)
						b, ok := true, true
						if cc.List != nil {
							b, ok = boolOf(cc.List[0], param, val)
						}
						if ok && b {
							if walk(cc.Body) {
								return true
							}
							break
						}
					}
				}
			}
		}
		return false
	}
	walk(fn.Body.List)
	return res
}
