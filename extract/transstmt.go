package main

// Statement and expression translation of the Go → Lean translator (see trans.go).

import (
	"fmt"
	"go/ast"
	"go/token"
	"go/types"
	"sort"
	"strconv"
	"strings"
)

type ctx struct {
	ret  func(v string) block // `return v` (v: a one-line term of the function's result type)
	brk  func() block
	cont func() block
	resT string // result type of the def being generated (what ret/brk/cont produce)
	// the function-like thing `return` returns from: the translated function, or a closure being
	// inlined (its own result types; no receiver state appended)
	retT    string
	results []types.Type
	named   []types.Object
	closure bool
}

func (c *ctx) derive() *ctx {
	return &ctx{resT: c.resT, retT: c.retT, results: c.results, named: c.named, closure: c.closure}
}

func wrapRet(b block) block {
	if s, ok := one(b); ok {
		return block{"GoInt.Ctl.ret " + paren(s)}
	}
	o := block{"GoInt.Ctl.ret ("}
	o = append(o, ind(b)...)
	o[len(o)-1] += ")"
	return o
}

func memo(k func() block) func() block {
	var b block
	done := false
	return func() block {
		if !done {
			b, done = k(), true
		}
		return b
	}
}

// br is a piece of control flow that can be generated against a context and a continuation
type br struct {
	gen      func(c *ctx, k func() block, cheap bool) block
	canFall  bool
	esc      bool // contains return / break / continue that leave it
	assigned []types.Object
}

func (t *tfunc) stmts(list []ast.Stmt, c *ctx, k func() block) block {
	if len(list) == 0 {
		return k()
	}
	return t.stmt(list[0], c, func() block { return t.stmts(list[1:], c, k) })
}

func tupleOf(names []string) string {
	switch len(names) {
	case 0:
		return "()"
	case 1:
		return names[0]
	}
	return "(" + strings.Join(names, ", ") + ")"
}

func tupleType(ts []string) string {
	switch len(ts) {
	case 0:
		return "Unit"
	case 1:
		return ts[0]
	}
	p := make([]string, len(ts))
	for i, s := range ts {
		p[i] = paren(s)
	}
	return strings.Join(p, " × ")
}

func proj(base string, i, n int) string {
	if n == 1 {
		return base
	}
	s := base
	for j := 0; j < i; j++ {
		s += ".2"
	}
	if i < n-1 {
		s += ".1"
	}
	return s
}

func letLine(name, typ string, val block, body block) block {
	if s, ok := one(val); ok {
		return append(block{fmt.Sprintf("let %s : %s := %s", name, typ, s)}, body...)
	}
	o := block{fmt.Sprintf("let %s : %s :=", name, typ)}
	o = append(o, ind(val)...)
	return append(o, body...)
}

func ifBlock(cond string, a, b block) block {
	o := block{"if " + cond + " then"}
	o = append(o, ind(a)...)
	o = append(o, "else")
	return append(o, ind(b)...)
}

// ---- flow analysis -----------------------------------------------------------------

// flow of a statement list.  breakIsFall: a `break` at nesting depth 0 leaves to the continuation
// (switch bodies); otherwise it escapes.
func (t *tfunc) flow(list []ast.Stmt, breakIsFall bool) (canFall, esc bool) {
	canFall = true
	for _, s := range list {
		if !canFall {
			break
		}
		f, e := t.flow1(s, breakIsFall)
		esc = esc || e
		canFall = f
	}
	return
}

func (t *tfunc) flow1(s ast.Stmt, breakIsFall bool) (canFall, esc bool) {
	switch v := s.(type) {
	case *ast.ReturnStmt:
		return false, true
	case *ast.BranchStmt:
		if v.Tok == token.BREAK && breakIsFall {
			return true, false // modelled as a jump to the continuation
		}
		return false, true
	case *ast.BlockStmt:
		return t.flow(v.List, breakIsFall)
	case *ast.IfStmt:
		f1, e1 := t.flow(v.Body.List, breakIsFall)
		f2, e2 := true, false
		if v.Else != nil {
			f2, e2 = t.flow1(v.Else, breakIsFall)
		}
		return f1 || f2, e1 || e2
	case *ast.SwitchStmt:
		hasDefault := false
		for _, cc := range v.Body.List {
			cl := cc.(*ast.CaseClause)
			if cl.List == nil {
				hasDefault = true
			}
			f, e := t.flow(cl.Body, true)
			canFall = canFall || f
			// a `continue` or `return` inside still escapes
			esc = esc || e
		}
		return canFall || !hasDefault, esc
	case *ast.ForStmt:
		return true, t.hasReturn(v.Body.List)
	case *ast.RangeStmt:
		return true, t.hasReturn(v.Body.List)
	}
	return true, false
}

func (t *tfunc) hasReturn(list []ast.Stmt) bool {
	found := false
	for _, s := range list {
		ast.Inspect(s, func(n ast.Node) bool {
			switch n.(type) {
			case *ast.ReturnStmt:
				found = true
			case *ast.FuncLit:
				return false
			}
			return true
		})
	}
	return found
}

func rootIdent(e ast.Expr) *ast.Ident {
	for {
		switch v := ast.Unparen(e).(type) {
		case *ast.Ident:
			return v
		case *ast.SelectorExpr:
			e = v.X
		case *ast.IndexExpr:
			e = v.X
		case *ast.StarExpr:
			e = v.X
		default:
			return nil
		}
	}
}

// assignedOuter: variables assigned in the nodes that are declared outside them, in declaration order
func (t *tfunc) assignedOuter(nodes ...ast.Node) []types.Object {
	info := t.info()
	set := map[types.Object]bool{}
	var lo, hi token.Pos
	for _, n := range nodes {
		if n == nil || !n.Pos().IsValid() {
			continue // synthesised statements carry no position
		}
		if lo == 0 || n.Pos() < lo {
			lo = n.Pos()
		}
		if n.End() > hi {
			hi = n.End()
		}
	}
	mark := func(e ast.Expr) {
		// written receiver state counts as a variable declared outside everything
		for x := e; ; {
			if ix, ok := ast.Unparen(x).(*ast.IndexExpr); ok {
				x = ix.X
				continue
			}
			if path, ok := t.recvPath(x); ok && path != "" {
				if op := t.okey[path]; op != nil && op.written {
					set[op.obj] = true
				}
				return
			}
			break
		}
		id := rootIdent(e)
		if id == nil || id.Name == "_" {
			return
		}
		o := info.Uses[id]
		if o == nil {
			o = info.Defs[id]
		}
		if v, ok := o.(*types.Var); ok && v != t.recvObj {
			set[v] = true
		}
	}
	for _, n := range nodes {
		if n == nil {
			continue
		}
		ast.Inspect(n, func(x ast.Node) bool {
			switch v := x.(type) {
			case *ast.AssignStmt:
				for _, l := range v.Lhs {
					mark(l)
				}
			case *ast.IncDecStmt:
				mark(v.X)
			case *ast.RangeStmt:
				if v.Tok == token.ASSIGN {
					if v.Key != nil {
						mark(v.Key)
					}
					if v.Value != nil {
						mark(v.Value)
					}
				}
			case *ast.ExprStmt:
				if c, ok := v.X.(*ast.CallExpr); ok {
					if id, ok := c.Fun.(*ast.Ident); ok && id.Name == "delete" && len(c.Args) == 2 {
						mark(c.Args[0])
					}
				}
			case *ast.FuncLit:
				return false
			}
			return true
		})
	}
	var out []types.Object
	for o := range set {
		if o.Pos() >= lo && o.Pos() < hi {
			continue // declared inside
		}
		out = append(out, o)
	}
	sort.Slice(out, func(i, j int) bool { return out[i].Pos() < out[j].Pos() })
	return out
}

func stmtNodes(list []ast.Stmt) []ast.Node {
	o := make([]ast.Node, len(list))
	for i, s := range list {
		o[i] = s
	}
	return o
}

func (t *tfunc) brOf(list []ast.Stmt, switchBody bool) br {
	f, e := t.flow(list, switchBody)
	return br{
		gen: func(c *ctx, k func() block, cheap bool) block {
			if switchBody {
				c2 := *c
				c2.brk = k
				return t.stmts(list, &c2, k)
			}
			return t.stmts(list, c, k)
		},
		canFall: f, esc: e, assigned: t.assignedOuter(stmtNodes(list)...),
	}
}

func unionObjs(a, b []types.Object) []types.Object {
	seen := map[types.Object]bool{}
	var o []types.Object
	for _, x := range append(append([]types.Object{}, a...), b...) {
		if !seen[x] {
			seen[x] = true
			o = append(o, x)
		}
	}
	sort.Slice(o, func(i, j int) bool { return o[i].Pos() < o[j].Pos() })
	return o
}

// mkIf: `if cond then a else b` as a br; implements the join of the two branches
func (t *tfunc) mkIf(cond string, swap bool, a, b br) br {
	if swap {
		a, b = b, a
	}
	return br{
		canFall: a.canFall || b.canFall, esc: a.esc || b.esc, assigned: unionObjs(a.assigned, b.assigned),
		gen: func(c *ctx, k func() block, cheap bool) block {
			nft := 0
			if a.canFall {
				nft++
			}
			if b.canFall {
				nft++
			}
			if nft <= 1 || cheap {
				return ifBlock(cond, a.gen(c, k, cheap), b.gen(c, k, cheap))
			}
			if !a.esc && !b.esc {
				as := unionObjs(a.assigned, b.assigned)
				if len(as) == 0 {
					return k() // nothing the continuation can see happens in the branches
				}
				var names, typs []string
				for _, o := range as {
					n := t.name(o)
					names = append(names, n)
					ty, ok := t.vtype[n]
					if !ok {
						ty = t.g.leanType(o.Type())
					}
					typs = append(typs, ty)
				}
				k2 := func() block {
					for _, n := range names {
						t.use(n)
					}
					return block{tupleOf(names)}
				}
				val := ifBlock(cond, a.gen(c, k2, true), b.gen(c, k2, true))
				if len(names) == 1 {
					t.declare(names[0], typs[0])
					return letLine(names[0], typs[0], val, k())
				}
				tn := t.tmp()
				t.declare(tn, tupleType(typs))
				var rest block
				for i, n := range names {
					t.declare(n, typs[i])
					rest = append(rest, fmt.Sprintf("let %s : %s := %s", n, typs[i], proj(tn, i, len(names))))
				}
				return letLine(tn, tupleType(typs), val, append(rest, k()...))
			}
			// both branches can fall through and something in them leaves (return / break / continue):
			// the branches yield either the joined variables or the value the enclosing def ends with
			as := unionObjs(a.assigned, b.assigned)
			var names, typs []string
			for _, o := range as {
				n := t.name(o)
				names = append(names, n)
				ty, ok := t.vtype[n]
				if !ok {
					ty = t.g.leanType(o.Type())
				}
				typs = append(typs, ty)
			}
			k2 := func() block {
				for _, n := range names {
					t.use(n)
				}
				return block{"GoInt.Ctl.fall " + paren(tupleOf(names))}
			}
			c2 := c.derive()
			c2.resT = fmt.Sprintf("GoInt.Ctl %s %s", paren(tupleType(typs)), paren(c.resT)) // what the branches produce
			c2.ret = func(v string) block { return wrapRet(c.ret(v)) }
			if c.brk != nil {
				c2.brk = func() block { return wrapRet(c.brk()) }
			}
			if c.cont != nil {
				c2.cont = func() block { return wrapRet(c.cont()) }
			}
			val := ifBlock(cond, a.gen(c2, k2, true), b.gen(c2, k2, true))
			tn, sn := t.tmp(), t.tmp()
			tt := fmt.Sprintf("GoInt.Ctl %s %s", paren(tupleType(typs)), paren(c.resT))
			t.declare(tn, tt)
			t.declare(sn, tupleType(typs))
			var rest block
			for i, n := range names {
				t.declare(n, typs[i])
				rest = append(rest, fmt.Sprintf("let %s : %s := %s", n, typs[i], proj(sn, i, len(names))))
			}
			out := letLine(tn, tt, val, block{"match " + tn + " with", "| GoInt.Ctl.ret r" + tn + " => r" + tn, "| GoInt.Ctl.fall " + sn + " =>"})
			if t.inLoop > 0 {
				return append(out, ind(append(rest, k()...))...)
			}
			// outside loops the continuation becomes a def of its own (`<fn>_k<i>`), so that the lemmas
			// about the function can be stated and proved piecewise
			t.nk++
			kname := fmt.Sprintf("%s_k%d", t.tg.lean, t.nk)
			t.used = append(t.used, map[string]bool{})
			t.decl = append(t.decl, map[string]bool{})
			kb := k()
			used := t.used[len(t.used)-1]
			t.used, t.decl = t.used[:len(t.used)-1], t.decl[:len(t.decl)-1]
			var frees []string
			for n := range used {
				if !contains(names, n) {
					frees = append(frees, n)
				}
			}
			sortNames(frees)
			if len(kb) <= 3 {
				// too small to be worth a def of its own
				for _, n := range frees {
					t.use(n)
				}
				t.nk--
				return append(out, ind(append(rest, kb...))...)
			}
			sig, args := "", ""
			for _, n := range frees {
				sig += fmt.Sprintf(" (%s : %s)", n, t.vtype[n])
				args += " " + t.use(n)
			}
			for i, n := range names {
				sig += fmt.Sprintf(" (%s : %s)", n, typs[i])
				args += " " + proj(sn, i, len(names))
			}
			def := block{fmt.Sprintf("def %s%s : %s :=", kname, sig, c.resT)}
			t.aux = append(t.aux, append(def, ind(kb)...))
			return append(out, "  "+kname+args)
		},
	}
}

// ---- statements ----------------------------------------------------------------------

func (t *tfunc) stmt(s ast.Stmt, c *ctx, k func() block) block {
	switch s.(type) {
	case *ast.AssignStmt, *ast.DeclStmt, *ast.IncDecStmt:
		// simple statements: slices handed to untranslated callees are re-bound afterwards
		t.havoc = nil
		return t.stmt1(s, c, func() block {
			var out block
			hs := t.havoc
			t.havoc = nil
			for _, h := range hs {
				out = append(out, t.assign(h.arg, h.term)...)
			}
			return append(out, k()...)
		})
	case *ast.ReturnStmt:
		return t.stmt1(s, c, k)
	}
	t.havoc = nil
	b := t.stmt1(s, c, func() block {
		if len(t.havoc) > 0 {
			t.bad(s, "a slice is handed to an untranslated callee inside a compound statement's header")
		}
		return k()
	})
	return b
}

func (t *tfunc) stmt1(s ast.Stmt, c *ctx, k func() block) block {
	switch v := s.(type) {
	case *ast.EmptyStmt:
		return k()
	case *ast.BlockStmt:
		return t.stmts(v.List, c, k)
	case *ast.ExprStmt:
		if call, ok := v.X.(*ast.CallExpr); ok {
			if d, ok := t.isDroppable(call); ok {
				t.dropped[d] = true
				return k()
			}
			if id, ok := call.Fun.(*ast.Ident); ok && id.Name == "delete" && len(call.Args) == 2 {
				if _, isB := t.info().Uses[id].(*types.Builtin); isB {
					m := t.expr(call.Args[0], nil)
					key := t.expr(call.Args[1], nil)
					return append(t.assign(call.Args[0], fmt.Sprintf("GoInt.merase %s %s", paren(m), paren(key))), k()...)
				}
			}
		}
		t.bad(v, "statement with effects that are not translated")
	case *ast.DeferStmt:
		if d, ok := t.isDroppable(v.Call); ok {
			t.dropped[d] = true
			return k()
		}
		t.bad(v, "defer")
	case *ast.DeclStmt:
		gd, ok := v.Decl.(*ast.GenDecl)
		if !ok || gd.Tok != token.VAR {
			t.bad(v, "declaration")
		}
		var out block
		for _, sp := range gd.Specs {
			vs := sp.(*ast.ValueSpec)
			if len(vs.Values) != 0 && len(vs.Values) != len(vs.Names) {
				t.bad(v, "var with a multi-value initialiser")
			}
			for i, n := range vs.Names {
				o := t.info().Defs[n]
				if n.Name == "_" || o == nil {
					continue
				}
				val := zeroOf(o.Type())
				if len(vs.Values) > 0 {
					val = t.expr(vs.Values[i], o.Type())
				}
				out = append(out, t.bind(o, val)...)
			}
		}
		return append(out, k()...)
	case *ast.AssignStmt:
		return append(t.assignStmt(v), k()...)
	case *ast.IncDecStmt:
		op := token.ADD
		if v.Tok == token.DEC {
			op = token.SUB
		}
		ty := typeOf(t.pi, v.X)
		val := t.arith(v, op, ty, t.expr(v.X, nil), "1")
		return append(t.assign(v.X, val), k()...)
	case *ast.ReturnStmt:
		return t.ret(v, c)
	case *ast.BranchStmt:
		if v.Label != nil {
			t.bad(v, "labelled branch")
		}
		switch v.Tok {
		case token.BREAK:
			if c.brk == nil {
				t.bad(v, "break outside loop/switch")
			}
			return c.brk()
		case token.CONTINUE:
			if c.cont == nil {
				t.bad(v, "continue outside loop")
			}
			return c.cont()
		}
		t.bad(v, "%s", v.Tok)
	case *ast.IfStmt:
		gen := func() block {
			cond, swap := t.cond(v.Cond)
			a := t.brOf(v.Body.List, false)
			var b br
			if v.Else == nil {
				b = t.brOf(nil, false)
			} else {
				b = t.brOf([]ast.Stmt{v.Else}, false)
			}
			return t.mkIf(cond, swap, a, b).gen(c, k, false)
		}
		if v.Init != nil {
			return t.stmt(v.Init, c, gen)
		}
		return gen()
	case *ast.SwitchStmt:
		gen := func() block { return t.switchStmt(v, c, k) }
		if v.Init != nil {
			return t.stmt(v.Init, c, gen)
		}
		return gen()
	case *ast.ForStmt:
		return t.forStmt(v, c, k)
	case *ast.RangeStmt:
		return t.rangeStmt(v, c, k)
	}
	t.bad(s, "unsupported statement %T", s)
	return nil
}

func (t *tfunc) switchStmt(v *ast.SwitchStmt, c *ctx, k func() block) block {
	var pre block
	tag := ""
	var tagT types.Type
	if v.Tag != nil {
		tagT = typeOf(t.pi, v.Tag)
		tag = t.expr(v.Tag, nil)
		if _, isId := ast.Unparen(v.Tag).(*ast.Ident); !isId {
			tn := t.tmp()
			lt := t.g.leanType(tagT)
			t.declare(tn, lt)
			pre = block{fmt.Sprintf("let %s : %s := %s", tn, lt, tag)}
			tag = tn
		}
	}
	var def *ast.CaseClause
	var cases []*ast.CaseClause
	for _, s := range v.Body.List {
		cl := s.(*ast.CaseClause)
		for _, b := range cl.Body {
			if bs, ok := b.(*ast.BranchStmt); ok && bs.Tok == token.FALLTHROUGH {
				t.bad(bs, "fallthrough")
			}
		}
		if cl.List == nil {
			def = cl
		} else {
			cases = append(cases, cl)
		}
	}
	var chain br
	if def != nil {
		chain = t.brOf(def.Body, true)
	} else {
		chain = t.brOf(nil, true)
	}
	for i := len(cases) - 1; i >= 0; i-- {
		cl := cases[i]
		var ps []string
		swap := false
		for _, e := range cl.List {
			if tag == "" {
				if len(cl.List) == 1 {
					var p string
					p, swap = t.cond(e)
					ps = append(ps, p)
				} else {
					ps = append(ps, t.prop(e))
				}
			} else {
				ps = append(ps, tag+" = "+paren(t.expr(e, tagT)))
			}
		}
		cond := strings.Join(ps, " ∨ ")
		chain = t.mkIf(cond, swap, t.brOf(cl.Body, true), chain)
	}
	return append(pre, chain.gen(c, k, false)...)
}

func (t *tfunc) ret(v *ast.ReturnStmt, c *ctx) block {
	var vals []string
	switch {
	case len(v.Results) == 0:
		for _, o := range c.named {
			vals = append(vals, t.use(t.name(o)))
		}
	case len(v.Results) == 1 && len(c.results) > 1:
		if len(t.state) > 0 && !c.closure {
			t.bad(v, "return of a call's whole result in a function that writes receiver state")
		}
		return c.ret(t.expr(v.Results[0], nil)) // f() returning the whole tuple
	default:
		if len(v.Results) != len(c.results) {
			t.bad(v, "return arity")
		}
		for i, e := range v.Results {
			vals = append(vals, t.expr(e, c.results[i]))
		}
	}
	if len(t.state) > 0 && !c.closure {
		if len(vals) > 1 {
			vals = []string{tupleOf(vals)}
		}
		return c.ret(t.withState(vals))
	}
	return c.ret(tupleOf(vals))
}

// inlineClosure: `f(args)` for a function literal bound to a local: the literal's body as a term of
// its result type, with the parameters bound to the arguments.  The literal may read what it
// captures but must not assign it.
func (t *tfunc) inlineClosure(call *ast.CallExpr) (block, string) {
	id := ast.Unparen(call.Fun).(*ast.Ident)
	fl := t.closures[t.info().Uses[id]]
	sig, _ := typeOf(t.pi, fl).(*types.Signature)
	if sig == nil {
		t.bad(call, "closure without type information")
	}
	for _, o := range t.assignedOuter(fl.Body) {
		if o.Pos() < fl.Pos() || o.Pos() >= fl.End() {
			t.bad(call, "closure assigns a variable it captures")
		}
	}
	var out block
	i := 0
	for _, f := range fl.Type.Params.List {
		for _, n := range f.Names {
			if i >= len(call.Args) {
				t.bad(call, "closure call arity")
			}
			if o := t.info().Defs[n]; o != nil && n.Name != "_" {
				out = append(out, t.bind(o, t.expr(call.Args[i], o.Type()))...)
			}
			i++
		}
	}
	var results []types.Type
	var named []types.Object
	var rts []string
	if fl.Type.Results != nil {
		for _, f := range fl.Type.Results.List {
			ty := typeOf(t.pi, f.Type)
			if len(f.Names) == 0 {
				results = append(results, ty)
				rts = append(rts, t.g.leanType(ty))
			}
			for _, n := range f.Names {
				results = append(results, ty)
				rts = append(rts, t.g.leanType(ty))
				o := t.info().Defs[n]
				named = append(named, o)
				out = append(out, t.bind(o, zeroOf(ty))...)
			}
		}
	}
	rt := tupleType(rts)
	c := &ctx{resT: rt, retT: rt, results: results, named: named, closure: true, ret: func(v string) block { return block{v} }}
	t.inClosure++
	body := t.stmts(fl.Body.List, c, func() block {
		if len(results) == 0 {
			return block{"()"}
		}
		t.bad(fl, "control reaches the end of a closure with results")
		return nil
	})
	t.inClosure--
	return append(out, body...), rt
}

// bind: `let <name of o> : T := val`
func (t *tfunc) bind(o types.Object, val string) block {
	n := t.name(o)
	ty, ok := t.vtype[n]
	if !ok {
		ty = t.g.leanType(o.Type())
	}
	t.declare(n, ty)
	return block{fmt.Sprintf("let %s : %s := %s", n, ty, val)}
}

func (t *tfunc) assignStmt(v *ast.AssignStmt) block {
	info := t.info()
	if len(v.Rhs) == 1 {
		if _, ok := ast.Unparen(v.Rhs[0]).(*ast.FuncLit); ok && len(v.Lhs) == 1 {
			if id, ok := v.Lhs[0].(*ast.Ident); ok && t.closures[info.Defs[id]] != nil {
				return nil // a closure bound to a local: inlined where it is called
			}
		}
		if call, ok := ast.Unparen(v.Rhs[0]).(*ast.CallExpr); ok && t.isClosureCall(call) && (v.Tok == token.DEFINE || v.Tok == token.ASSIGN) {
			body, rt := t.inlineClosure(call)
			tn := t.tmp()
			t.declare(tn, rt)
			out := letLine(tn, rt, body, nil)
			for i, l := range v.Lhs {
				out = append(out, t.assign(l, proj(tn, i, len(v.Lhs)))...)
			}
			return out
		}
	}
	if v.Tok != token.DEFINE && v.Tok != token.ASSIGN {
		ops := map[token.Token]token.Token{token.ADD_ASSIGN: token.ADD, token.SUB_ASSIGN: token.SUB, token.MUL_ASSIGN: token.MUL,
			token.QUO_ASSIGN: token.QUO, token.REM_ASSIGN: token.REM, token.AND_ASSIGN: token.AND, token.OR_ASSIGN: token.OR,
			token.SHL_ASSIGN: token.SHL, token.SHR_ASSIGN: token.SHR}
		op, ok := ops[v.Tok]
		if !ok || len(v.Lhs) != 1 {
			t.bad(v, "assignment operator")
		}
		ty := typeOf(t.pi, v.Lhs[0])
		return t.assign(v.Lhs[0], t.arith(v, op, ty, t.expr(v.Lhs[0], nil), t.expr(v.Rhs[0], ty)))
	}
	if len(v.Lhs) == len(v.Rhs) {
		if len(v.Lhs) == 1 {
			return t.assign(v.Lhs[0], t.expr(v.Rhs[0], typeOf(t.pi, v.Lhs[0])))
		}
		// parallel assignment: evaluate all right-hand sides first
		var out block
		var tmps []string
		for i, r := range v.Rhs {
			lt := typeOf(t.pi, v.Lhs[i])
			if lt == nil {
				lt = typeOf(t.pi, r)
			}
			tn := t.tmp()
			ty := t.g.leanType(lt)
			t.declare(tn, ty)
			out = append(out, fmt.Sprintf("let %s : %s := %s", tn, ty, t.expr(r, lt)))
			tmps = append(tmps, tn)
		}
		for i, l := range v.Lhs {
			out = append(out, t.assign(l, tmps[i])...)
		}
		return out
	}
	if len(v.Rhs) != 1 {
		t.bad(v, "assignment shape")
	}
	// a, b := f(...)   or   v, ok := m[k]
	var val, ty string
	n := len(v.Lhs)
	switch r := ast.Unparen(v.Rhs[0]).(type) {
	case *ast.CallExpr:
		val = t.expr(r, nil)
		ty = t.g.leanType(info.Types[r].Type)
	case *ast.IndexExpr:
		mt, ok := typeOf(t.pi, r.X).Underlying().(*types.Map)
		if !ok || n != 2 {
			t.bad(v, "comma-ok form")
		}
		m, key := t.expr(r.X, nil), t.expr(r.Index, mt.Key())
		val = fmt.Sprintf("(GoInt.mlookup %s %s, GoInt.mhas %s %s)", paren(m), paren(key), paren(m), paren(key))
		ty = paren(t.g.leanType(mt.Elem())) + " × Bool"
	default:
		t.bad(v, "multi-value right-hand side")
	}
	tn := t.tmp()
	t.declare(tn, ty)
	out := block{fmt.Sprintf("let %s : %s := %s", tn, ty, val)}
	for i, l := range v.Lhs {
		out = append(out, t.assign(l, proj(tn, i, n))...)
	}
	return out
}

// assign: lhs = val (val already translated)
func (t *tfunc) assign(lhs ast.Expr, val string) block {
	info := t.info()
	lhs = ast.Unparen(lhs)
	switch l := lhs.(type) {
	case *ast.Ident:
		if l.Name == "_" {
			return nil
		}
		o := info.Defs[l]
		if o == nil {
			o = info.Uses[l]
		}
		if _, ok := o.(*types.Var); !ok || o.Parent() == t.pi.pkg.Scope() {
			t.bad(lhs, "assignment to something that is not a local variable")
		}
		return t.bind(o, val)
	case *ast.SelectorExpr:
		if path, ok := t.recvPath(l); ok {
			if op := t.okey[path]; op != nil && op.written {
				t.declare(op.name, op.typ)
				return block{fmt.Sprintf("let %s : %s := %s", op.name, op.typ, val)}
			}
			t.bad(lhs, "write to receiver state")
		}
		// x.a.b = val  with x a local struct (or an owned pointer to one)
		var path []string
		var e ast.Expr = l
		for {
			s, ok := ast.Unparen(e).(*ast.SelectorExpr)
			if !ok {
				break
			}
			sel := info.Selections[s]
			if sel == nil || sel.Kind() != types.FieldVal || len(sel.Index()) != 1 {
				t.bad(lhs, "field write through an embedded or unknown field")
			}
			if len(path) > 0 {
				if _, isPtr := typeOf(t.pi, s).Underlying().(*types.Pointer); isPtr {
					t.bad(lhs, "field write through a pointer-typed field")
				}
			}
			path = append([]string{fieldIdent(s.Sel.Name)}, path...)
			e = s.X
		}
		id, ok := ast.Unparen(e).(*ast.Ident)
		if !ok {
			t.bad(lhs, "field write whose base is not a variable")
		}
		o := info.Uses[id]
		base := t.expr(id, nil)
		if _, isPtr := o.Type().Underlying().(*types.Pointer); isPtr {
			t.checkOwned(o, lhs)
			return t.bind(o, fmt.Sprintf("some { GoInt.deref %s with %s := %s }", base, strings.Join(path, "."), val))
		}
		return t.bind(o, fmt.Sprintf("{ %s with %s := %s }", base, strings.Join(path, "."), val))
	case *ast.IndexExpr:
		xt := typeOf(t.pi, l.X)
		if xt == nil {
			t.bad(lhs, "index write on a value without type")
		}
		switch u := xt.Underlying().(type) {
		case *types.Map:
			return t.assign(l.X, fmt.Sprintf("GoInt.minsert %s %s %s", paren(t.expr(l.X, nil)), paren(t.expr(l.Index, u.Key())), paren(val)))
		case *types.Slice:
			return t.assign(l.X, fmt.Sprintf("GoInt.setIdx %s %s %s", paren(t.expr(l.X, nil)), paren(t.intIndex(l.Index)), paren(val)))
		}
	}
	t.bad(lhs, "assignment target")
	return nil
}

// checkOwned: a pointer variable written through must hold a fresh object nobody else sees:
// every assignment to it is `&T{…}` and it is never copied into another variable.
func (t *tfunc) checkOwned(o types.Object, at ast.Node) {
	if t.owned[o] {
		return
	}
	info := t.info()
	for _, pn := range t.pnames {
		if t.names[o] == pn {
			t.bad(at, "field write through a pointer parameter")
		}
	}
	ast.Inspect(t.fd.Body, func(n ast.Node) bool {
		as, ok := n.(*ast.AssignStmt)
		if !ok {
			return true
		}
		for i, l := range as.Lhs {
			id, ok := l.(*ast.Ident)
			if !ok || len(as.Rhs) != len(as.Lhs) {
				continue
			}
			lo := info.Defs[id]
			if lo == nil {
				lo = info.Uses[id]
			}
			r := ast.Unparen(as.Rhs[i])
			if lo == o {
				u, ok := r.(*ast.UnaryExpr)
				if !ok || u.Op != token.AND {
					t.bad(at, "field write through a pointer that is not a fresh &T{…}")
				}
				if _, ok := u.X.(*ast.CompositeLit); !ok {
					t.bad(at, "field write through a pointer that is not a fresh &T{…}")
				}
			} else if rid, ok := r.(*ast.Ident); ok && info.Uses[rid] == o {
				t.bad(at, "field write through a pointer that is copied elsewhere")
			}
		}
		return true
	})
	t.owned[o] = true
}

// ---- loops ------------------------------------------------------------------------------

func nameRank(n string) (int, int) {
	kinds := "prfvtes"
	k := strings.IndexByte(kinds, n[0])
	i := 0
	for i < len(n) && (n[i] < '0' || n[i] > '9') {
		i++
	}
	num, _ := strconv.Atoi(n[i:])
	return k, num
}

func (t *tfunc) loop(list string, elemType string, bind func(elem string) block, body []ast.Stmt, extra []ast.Node, c *ctx, k func() block) block {
	t.nloop++
	id := t.nloop
	fname := fmt.Sprintf("%s_loop%d", t.tg.lean, id)
	nodes := append(stmtNodes(body), extra...)
	var sNames, sTypes []string
	for _, o := range t.assignedOuter(nodes...) {
		n := t.name(o)
		ty, ok := t.vtype[n]
		if !ok {
			ty = t.g.leanType(o.Type())
			t.vtype[n] = ty
		}
		sNames = append(sNames, n)
		sTypes = append(sTypes, ty)
	}
	hasRet := t.hasReturn(body)
	sT := tupleType(sTypes)
	resT := sT
	if hasRet {
		resT = fmt.Sprintf("GoInt.Ctl %s %s", paren(sT), paren(c.retT))
	}
	elem, rest, st := fmt.Sprintf("e%d", id), fmt.Sprintf("rest%d", id), fmt.Sprintf("s%d", id)
	ph := fmt.Sprintf("\x00F%d\x00", id)
	fall := func(s string) string {
		if hasRet {
			return "GoInt.Ctl.fall " + paren(s)
		}
		return s
	}
	t.used = append(t.used, map[string]bool{})
	t.decl = append(t.decl, map[string]bool{})
	t.inLoop++
	defer func() { t.inLoop-- }()
	t.declare(elem, elemType)
	cur := func() string {
		for _, n := range sNames {
			t.use(n)
		}
		return tupleOf(sNames)
	}
	lc := c.derive()
	*lc = ctx{retT: c.retT, results: c.results, named: c.named, closure: c.closure,
		resT: resT,
		ret:  func(v string) block { return block{"GoInt.Ctl.ret " + paren(v)} },
		brk:  func() block { return block{fall(cur())} },
		cont: func() block { return block{fmt.Sprintf("%s%s %s %s", fname, ph, rest, paren(cur()))} },
	}
	var bodyB block
	for i, n := range sNames {
		bodyB = append(bodyB, fmt.Sprintf("let %s : %s := %s", n, sTypes[i], proj(st, i, len(sNames))))
	}
	bodyB = append(bodyB, bind(elem)...)
	bodyB = append(bodyB, t.stmts(body, lc, lc.cont)...)
	used, decl := t.used[len(t.used)-1], t.decl[len(t.decl)-1]
	t.used, t.decl = t.used[:len(t.used)-1], t.decl[:len(t.decl)-1]
	_ = decl
	var frees []string
	for n := range used {
		if contains(sNames, n) || n == elem {
			continue
		}
		frees = append(frees, n)
	}
	sortNames(frees)
	var fsig, fargs string
	for _, n := range frees {
		ty, ok := t.vtype[n]
		if !ok {
			t.bad(nil, "internal: no type for %s", n)
		}
		fsig += fmt.Sprintf(" (%s : %s)", n, ty)
		fargs += " " + n
		t.use(n)
	}
	for _, n := range sNames {
		t.use(n)
	}
	def := block{fmt.Sprintf("def %s%s : List %s → %s → %s", fname, fsig, paren(elemType), paren(sT), resT)}
	def = append(def, fmt.Sprintf("  | [], %s => %s", st, fall(st)))
	def = append(def, fmt.Sprintf("  | %s :: %s, %s =>", elem, rest, st))
	for _, l := range bodyB {
		def = append(def, "    "+strings.ReplaceAll(l, ph, fargs))
	}
	t.aux = append(t.aux, def)
	call := fmt.Sprintf("%s%s %s %s", fname, fargs, paren(list), paren(tupleOf(sNames)))
	var unpack block
	for i, n := range sNames {
		t.declare(n, sTypes[i])
		unpack = append(unpack, fmt.Sprintf("let %s : %s := %s", n, sTypes[i], proj(st, i, len(sNames))))
	}
	t.declare(st, sT)
	if !hasRet {
		if len(sNames) == 0 {
			return k() // a loop without effects the translated values can see
		}
		if len(sNames) == 1 {
			return append(block{fmt.Sprintf("let %s : %s := %s", sNames[0], sTypes[0], call)}, k()...)
		}
		out := block{fmt.Sprintf("let %s : %s := %s", st, sT, call)}
		return append(append(out, unpack...), k()...)
	}
	out := block{"match " + call + " with"}
	r := fmt.Sprintf("r%s", st)
	rb := c.ret(r)
	out = append(out, fmt.Sprintf("| GoInt.Ctl.ret %s =>", r))
	out = append(out, ind(rb)...)
	out = append(out, fmt.Sprintf("| GoInt.Ctl.fall %s =>", st))
	out = append(out, ind(append(unpack, k()...))...)
	return out
}

func sortNames(ns []string) {
	sort.Slice(ns, func(i, j int) bool {
		a1, a2 := nameRank(ns[i])
		b1, b2 := nameRank(ns[j])
		if a1 != b1 {
			return a1 < b1
		}
		return a2 < b2
	})
}

func contains(ss []string, s string) bool {
	for _, x := range ss {
		if x == s {
			return true
		}
	}
	return false
}

func (t *tfunc) usesObj(n ast.Node, o types.Object) int {
	cnt := 0
	ast.Inspect(n, func(x ast.Node) bool {
		if id, ok := x.(*ast.Ident); ok && t.info().Uses[id] == o {
			cnt++
		}
		return true
	})
	return cnt
}

// invariant: no variable of e is assigned in the loop
func (t *tfunc) invariant(e ast.Expr, assigned []types.Object) bool {
	ok := true
	ast.Inspect(e, func(x ast.Node) bool {
		if id, isId := x.(*ast.Ident); isId {
			for _, o := range assigned {
				if t.info().Uses[id] == o {
					ok = false
				}
			}
		}
		return true
	})
	return ok
}

// elemUse: is the counter io only used to index one loop-invariant slice in the nodes?
func (t *tfunc) elemUse(nodes []ast.Stmt, io types.Object, assigned []types.Object) (xs ast.Expr, elemOnly bool, nuse int) {
	info := t.info()
	elemOnly = true
	var visit func(n ast.Node) bool
	visit = func(n ast.Node) bool {
		switch x := n.(type) {
		case *ast.IndexExpr:
			if id, ok := ast.Unparen(x.Index).(*ast.Ident); ok && info.Uses[id] == io {
				if _, isSlice := typeOf(t.pi, x.X).Underlying().(*types.Slice); isSlice && (xs == nil || src(xs) == src(x.X)) &&
					t.invariant(x.X, assigned) && t.usesObj(x.X, io) == 0 {
					xs = x.X
					nuse++
					ast.Inspect(x.X, visit)
					return false
				}
			}
		case *ast.Ident:
			if info.Uses[x] == io {
				elemOnly = false
			}
		}
		return true
	}
	for _, n := range nodes {
		ast.Inspect(n, visit)
	}
	return
}

func (t *tfunc) forStmt(v *ast.ForStmt, c *ctx, k func() block) block {
	info := t.info()
	init, ok := v.Init.(*ast.AssignStmt)
	if !ok || init.Tok != token.DEFINE || len(init.Lhs) != 1 || len(init.Rhs) != 1 || v.Cond == nil || v.Post == nil {
		t.bad(v, "loop that is not a counter loop (would need a fuel argument)")
	}
	iv, ok := init.Lhs[0].(*ast.Ident)
	if !ok {
		t.bad(v, "loop counter")
	}
	io := info.Defs[iv]
	ib, ok := io.Type().Underlying().(*types.Basic)
	if !ok || ib.Info()&types.IsInteger == 0 {
		t.bad(v, "loop counter that is not an integer")
	}
	unsigned := ib.Info()&types.IsUnsigned != 0
	up := false
	switch p := v.Post.(type) {
	case *ast.IncDecStmt:
		if id, ok := p.X.(*ast.Ident); !ok || info.Uses[id] != io {
			t.bad(v, "loop post statement")
		}
		up = p.Tok == token.INC
	default:
		t.bad(v, "loop post statement (only i++ / i--)")
	}
	cond, ok := ast.Unparen(v.Cond).(*ast.BinaryExpr)
	if !ok {
		t.bad(v, "loop condition")
	}
	// `for …; <counter test> && <guard>; …` is the counter loop whose body starts with `if !<guard> { break }`
	body := v.Body.List
	if cond.Op == token.LAND {
		if inner, ok := ast.Unparen(cond.X).(*ast.BinaryExpr); ok {
			guard := &ast.IfStmt{Cond: &ast.UnaryExpr{Op: token.NOT, X: cond.Y},
				Body: &ast.BlockStmt{List: []ast.Stmt{&ast.BranchStmt{Tok: token.BREAK}}}}
			body = append([]ast.Stmt{guard}, body...)
			cond = inner
		}
	}
	op, bound := cond.Op, cond.Y
	if id, ok := ast.Unparen(cond.X).(*ast.Ident); !ok || info.Uses[id] != io {
		if id, ok := ast.Unparen(cond.Y).(*ast.Ident); ok && info.Uses[id] == io {
			bound = cond.X
			op = map[token.Token]token.Token{token.LSS: token.GTR, token.GTR: token.LSS, token.LEQ: token.GEQ, token.GEQ: token.LEQ}[op]
		} else {
			t.bad(v, "loop condition does not compare the counter")
		}
	}
	assigned := t.assignedOuter(v.Body)
	for _, o := range assigned {
		if o == io {
			t.bad(v, "loop counter assigned in the body")
		}
	}
	if !t.invariant(bound, assigned) || t.usesObj(bound, io) > 0 {
		t.bad(v, "loop bound changes in the body")
	}
	lo := t.expr(init.Rhs[0], io.Type())
	hi := t.expr(bound, io.Type())
	var rng string
	switch {
	case up && !unsigned && op == token.LSS:
		rng = fmt.Sprintf("GoInt.rangeUp %s %s", paren(lo), paren(hi))
	case up && !unsigned && op == token.LEQ:
		rng = fmt.Sprintf("GoInt.rangeUp %s (%s + 1)", paren(lo), hi)
	case up && unsigned && op == token.LSS:
		rng = fmt.Sprintf("GoInt.rangeUpN %s %s", paren(lo), paren(hi))
	case up && unsigned && op == token.LEQ:
		rng = fmt.Sprintf("GoInt.rangeUpN %s (%s + 1)", paren(lo), hi)
	case !up && !unsigned && op == token.GEQ:
		rng = fmt.Sprintf("GoInt.rangeDown %s %s", paren(lo), paren(hi))
	case !up && !unsigned && op == token.GTR:
		rng = fmt.Sprintf("GoInt.rangeDown %s (%s + 1)", paren(lo), hi)
	default:
		t.bad(v, "loop shape (counter direction / comparison)")
	}
	// element loop: the counter is only used to index one slice that does not change
	xs, elemOnly, nuse := t.elemUse(body, io, assigned)
	it := t.g.leanType(io.Type())
	if elemOnly && nuse > 0 {
		et := t.g.leanType(typeOf(t.pi, xs).Underlying().(*types.Slice).Elem())
		xl := t.expr(xs, nil)
		list := fmt.Sprintf("(%s).map (GoInt.idx %s)", rng, paren(xl))
		if unsigned {
			list = fmt.Sprintf("(%s).map (GoInt.idxN %s)", rng, paren(xl))
		}
		// the whole slice front to back: for i := 0; i < len(xs); i++
		if up && op == token.LSS && lo == "0" {
			if call, ok := ast.Unparen(bound).(*ast.CallExpr); ok && len(call.Args) == 1 && src(call.Fun) == "len" && src(call.Args[0]) == src(xs) {
				list = xl
			}
		}
		id := t.nloop + 1
		t.elem[io] = elemSubst{src(xs), fmt.Sprintf("e%d", id)}
		defer delete(t.elem, io)
		return t.loop(list, et, func(string) block { return nil }, body, nil, c, k)
	}
	return t.loop(rng, it, func(e string) block { return t.bind(io, e) }, body, nil, c, k)
}

func (t *tfunc) rangeStmt(v *ast.RangeStmt, c *ctx, k func() block) block {
	info := t.info()
	if v.Tok == token.ASSIGN {
		t.bad(v, "range with `=`")
	}
	xt := typeOf(t.pi, v.X)
	if xt == nil {
		t.bad(v, "range over a value without type")
	}
	blank := func(e ast.Expr) bool {
		if e == nil {
			return true
		}
		id, ok := e.(*ast.Ident)
		return ok && id.Name == "_"
	}
	switch u := xt.Underlying().(type) {
	case *types.Slice:
		et := t.g.leanType(u.Elem())
		xs := t.expr(v.X, nil)
		if !blank(v.Key) && blank(v.Value) {
			// `for i := range xs { … xs[i] … }` visits the elements, like `for _, x := range xs`
			io := info.Defs[v.Key.(*ast.Ident)]
			assigned := t.assignedOuter(v.Body)
			if ex, only, n := t.elemUse(v.Body.List, io, assigned); only && n > 0 && src(ex) == src(v.X) {
				t.elem[io] = elemSubst{src(ex), fmt.Sprintf("e%d", t.nloop+1)}
				defer delete(t.elem, io)
				return t.loop(xs, et, func(string) block { return nil }, v.Body.List, nil, c, k)
			}
		}
		if blank(v.Key) {
			return t.loop(xs, et, func(e string) block {
				if blank(v.Value) {
					return nil
				}
				return t.bind(info.Defs[v.Value.(*ast.Ident)], e)
			}, v.Body.List, nil, c, k)
		}
		return t.loop("GoInt.enum "+paren(xs), "Int × "+paren(et), func(e string) block {
			b := t.bind(info.Defs[v.Key.(*ast.Ident)], e+".1")
			if !blank(v.Value) {
				b = append(b, t.bind(info.Defs[v.Value.(*ast.Ident)], e+".2")...)
			}
			return b
		}, v.Body.List, nil, c, k)
	case *types.Basic:
		if u.Info()&types.IsInteger != 0 && u.Info()&types.IsUnsigned == 0 {
			n := t.expr(v.X, nil)
			return t.loop(fmt.Sprintf("GoInt.rangeUp 0 %s", paren(n)), "Int", func(e string) block {
				if blank(v.Key) {
					return nil
				}
				return t.bind(info.Defs[v.Key.(*ast.Ident)], e)
			}, v.Body.List, nil, c, k)
		}
	}
	t.bad(v, "range over this kind of value (maps have no order)")
	return nil
}

func (t *tfunc) isClosureCall(call *ast.CallExpr) bool {
	id, ok := ast.Unparen(call.Fun).(*ast.Ident)
	return ok && t.closures[t.info().Uses[id]] != nil
}
