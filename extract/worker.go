package main

import (
	"go/ast"
	"go/token"
	"strings"
)

func init() { extractors = append(extractors, extractWorker) }

// extractWorker records, for the four selects of query/worker.go
// (*worker).Run — idle, pre-check after a job was picked up, wait loop, result
// hand-off — every arm with the ROLE of its channel, the error it assigns to
// the variable that becomes the result's error (if any) and how its body ends
// (continue / break / break Loop / return / fall = runs off the end of the
// arm).  The worker model takes the behaviour of the job-holding arms from
// these facts.
//
// Channels are identified by what they are, never by the name of a local or
// of the receiver:
//
//	results<-       a send on the parameter of type chan<- *jobResult
//	quit            a receive from the parameter of type <-chan struct{}
//	peerMsg         a receive from the channel obtained from SubscribeRecvMsg()
//	peerDisconnect  a receive from the result of an OnDisconnect() call
//	jobTimer        a receive from the .C of a timer made by time.NewTimer
//	nextJob, job.cancelChan, job.internalCancelChan
//	                a receive from the struct field of that name
//
// The result's error variable is the one stored in the `err` field of the
// jobResult literal that is sent on results; the progress value is whatever is
// assigned from the request's HandleResp call.
func extractWorker() {
	l := newLean("Worker")
	defer l.write()
	f := parse("query/worker.go")
	fd := funcDecl(f, "worker", "Run")
	shape := map[string]any{}
	var selects []*ast.SelectStmt
	if fd == nil {
		fail("query/worker.go: method worker.Run")
	} else {
		ast.Inspect(fd.Body, func(n ast.Node) bool {
			if s, ok := n.(*ast.SelectStmt); ok {
				selects = append(selects, s)
			}
			return true
		})
	}
	if fd != nil && len(selects) != 4 {
		fail("query/worker.go: worker.Run has %d selects, the model knows 4 (idle, pre-check, wait, report)", len(selects))
	}
	rc := workerRoles(fd)
	type arm struct{ ch, err, end string }
	arms := func(s *ast.SelectStmt) []arm {
		var out []arm
		for _, c := range s.Body.List {
			cc := c.(*ast.CommClause)
			a := arm{ch: rc.role(cc.Comm), end: "fall"}
			for _, st := range cc.Body {
				if as, ok := st.(*ast.AssignStmt); ok && len(as.Lhs) == 1 && len(as.Rhs) == 1 && rc.errVar != "" && isIdent(as.Lhs[0], rc.errVar) {
					a.err = src(as.Rhs[0])
				}
			}
			if rc.mentionsFinished(cc.Body) {
				// the response arm: what it does for a finished and for an
				// unfinished response, however the two branches are spelled
				a.end = "finished:" + rc.outcome(cc.Body, true) + ";unfinished:" + rc.outcome(cc.Body, false)
			} else {
				a.end = rc.outcome(cc.Body, true)
			}
			out = append(out, a)
		}
		return out
	}
	names := []string{"idle", "precheck", "wait", "report"}
	all := map[string][]arm{}
	for i, s := range selects {
		if i >= len(names) {
			break
		}
		as := arms(s)
		all[names[i]] = as
		var items []string
		for _, a := range as {
			items = append(items, "("+strq(a.ch)+", "+strq(a.err)+", "+strq(a.end)+")")
		}
		l.def(names[i]+"Arms", "List (String × String × String)", "["+strings.Join(items, ", ")+"]",
			"arms of the "+names[i]+" select of worker.Run: (role of the channel, error assigned to the result's error variable, how the arm ends)")
		shape[names[i]] = items
	}
	find := func(sel, ch string) (arm, bool) {
		for _, a := range all[sel] {
			if a.ch == ch {
				return a, true
			}
		}
		return arm{}, false
	}
	// pre-check: a cancelled job must fall into the wait loop (plain break out of the select), where the
	// same channel is ready and yields ErrJobCanceled; anything else (continue/return) loses the job.
	pre := func(ch string) bool {
		a, ok := find("precheck", ch)
		if !ok {
			fail("query/worker.go: pre-check select has no arm on %s", ch)
		}
		return ok && a.end == "break"
	}
	// wait loop: an arm reports iff it leaves the loop with `break Loop` (the result's error as assigned).
	wait := func(ch, err string) bool {
		a, ok := find("wait", ch)
		if !ok {
			fail("query/worker.go: wait select has no arm on %s", ch)
		}
		return ok && a.end == "break Loop" && a.err == err
	}
	l.def("preExtCancelToWait", "Bool", lbool(pre("job.cancelChan")), "pre-check arm on job.cancelChan breaks into the wait loop")
	l.def("preIntCancelToWait", "Bool", lbool(pre("job.internalCancelChan")), "pre-check arm on job.internalCancelChan breaks into the wait loop")
	dflt, ok := find("precheck", "default")
	l.def("preDefaultSends", "Bool", lbool(ok && dflt.end == "fall"), "pre-check default arm queues the request and goes on to the wait loop")
	l.def("waitTimeoutReports", "Bool", lbool(wait("jobTimer", "ErrQueryTimeout")), "wait arm on the job timer reports ErrQueryTimeout")
	l.def("waitDisconnectReports", "Bool", lbool(wait("peerDisconnect", "ErrPeerDisconnected")), "wait arm on OnDisconnect reports ErrPeerDisconnected")
	l.def("waitExtCancelReports", "Bool", lbool(wait("job.cancelChan", "ErrJobCanceled")), "wait arm on job.cancelChan reports ErrJobCanceled")
	l.def("waitIntCancelReports", "Bool", lbool(wait("job.internalCancelChan", "ErrJobCanceled")), "wait arm on job.internalCancelChan reports ErrJobCanceled")
	resp, ok := find("wait", "peerMsg")
	l.def("waitFinishedReports", "Bool", lbool(ok && resp.end == "finished:break Loop;unfinished:continue Loop" && resp.err == ""),
		"wait arm on the peer's message channel: a finished response leaves the loop (nil result), an unfinished one keeps waiting")
	q, ok := find("wait", "quit")
	l.def("waitQuitReturns", "Bool", lbool(ok && q.end == "return"), "wait arm on quit returns")
	rq, ok := find("report", "quit")
	rs, ok2 := find("report", "results<-")
	l.def("reportSendsOrQuits", "Bool", lbool(ok && ok2 && rq.end == "return" && rs.end == "fall"), "result hand-off: send on results, or return on quit")
	// after the hand-off: `if <result error> == ErrPeerDisconnected { return }`
	exitAfter := false
	if fd != nil && rc.errVar != "" {
		ast.Inspect(fd.Body, func(n ast.Node) bool {
			is, ok := n.(*ast.IfStmt)
			if !ok {
				return true
			}
			be, ok := is.Cond.(*ast.BinaryExpr)
			if !ok || be.Op != token.EQL {
				return true
			}
			x, y := be.X, be.Y
			if isIdent(y, rc.errVar) {
				x, y = y, x
			}
			if isIdent(x, rc.errVar) && src(y) == "ErrPeerDisconnected" && len(is.Body.List) == 1 {
				if _, ok := is.Body.List[0].(*ast.ReturnStmt); ok {
					exitAfter = true
				}
			}
			return true
		})
	}
	l.def("exitAfterDisconnect", "Bool", lbool(exitAfter), "Run returns after handing off an ErrPeerDisconnected result")
	facts["worker"] = shape
}

// workerCtx maps the identifiers of worker.Run to their roles.
type workerCtx struct {
	results, quit string          // parameters, by type
	msgVars       map[string]bool // locals holding the channel returned by SubscribeRecvMsg()
	timerVars     map[string]bool // locals holding a timer made by time.NewTimer
	errVar        string          // the variable stored in the err field of the jobResult sent on results
	progVar       string          // the local assigned from HandleResp(...)
	loopLabels    map[string]bool // labels of for statements (the wait loop is the only labelled loop)
}

func isIdent(e ast.Expr, name string) bool {
	id, ok := e.(*ast.Ident)
	return ok && id.Name == name
}

func workerRoles(fd *ast.FuncDecl) *workerCtx {
	rc := &workerCtx{msgVars: map[string]bool{}, timerVars: map[string]bool{}, loopLabels: map[string]bool{}}
	if fd == nil {
		return rc
	}
	for _, p := range fd.Type.Params.List {
		ct, ok := p.Type.(*ast.ChanType)
		if !ok || len(p.Names) != 1 {
			continue
		}
		elem := strings.Join(strings.Fields(src(ct.Value)), "")
		switch {
		case ct.Dir == ast.SEND && elem == "*jobResult":
			rc.results = p.Names[0].Name
		case ct.Dir == ast.RECV && elem == "struct{}":
			rc.quit = p.Names[0].Name
		}
	}
	if rc.results == "" {
		fail("query/worker.go: worker.Run has no parameter of type chan<- *jobResult")
	}
	if rc.quit == "" {
		fail("query/worker.go: worker.Run has no parameter of type <-chan struct{}")
	}
	// what a local is assigned from: `a, b := call`, `a = call`, `var a = call`
	bind := func(lhs []ast.Expr, rhs []ast.Expr) {
		if len(rhs) == 0 || len(lhs) == 0 {
			return
		}
		for i, r := range rhs {
			c, ok := r.(*ast.CallExpr)
			if !ok {
				continue
			}
			// with a single multi-valued call the first result goes to lhs[0]
			var target ast.Expr
			if len(rhs) == 1 {
				target = lhs[0]
			} else if i < len(lhs) {
				target = lhs[i]
			}
			id, ok := target.(*ast.Ident)
			if !ok {
				continue
			}
			switch fn := c.Fun.(type) {
			case *ast.SelectorExpr:
				switch {
				case fn.Sel.Name == "SubscribeRecvMsg":
					rc.msgVars[id.Name] = true
				case fn.Sel.Name == "HandleResp":
					rc.progVar = id.Name
				case fn.Sel.Name == "NewTimer" && isIdent(fn.X, "time"):
					rc.timerVars[id.Name] = true
				}
			}
		}
	}
	ast.Inspect(fd.Body, func(n ast.Node) bool {
		switch v := n.(type) {
		case *ast.AssignStmt:
			bind(v.Lhs, v.Rhs)
		case *ast.LabeledStmt:
			if _, ok := v.Stmt.(*ast.ForStmt); ok {
				rc.loopLabels[v.Label.Name] = true
			}
		case *ast.ValueSpec:
			var lhs []ast.Expr
			for _, nm := range v.Names {
				lhs = append(lhs, nm)
			}
			bind(lhs, v.Values)
		case *ast.SendStmt:
			// results <- &jobResult{…, err: X}
			if isIdent(v.Chan, rc.results) {
				var lit *ast.CompositeLit
				switch e := v.Value.(type) {
				case *ast.UnaryExpr:
					lit, _ = e.X.(*ast.CompositeLit)
				case *ast.CompositeLit:
					lit = e
				}
				if lit != nil {
					for _, el := range lit.Elts {
						if kv, ok := el.(*ast.KeyValueExpr); ok && isIdent(kv.Key, "err") {
							if id, ok := kv.Value.(*ast.Ident); ok {
								rc.errVar = id.Name
							}
						}
					}
				}
			}
		}
		return true
	})
	if rc.errVar == "" {
		fail("query/worker.go: worker.Run: no send of a jobResult literal whose err field is a variable")
	}
	if rc.progVar == "" {
		fail("query/worker.go: worker.Run: no local assigned from a HandleResp call")
	}
	return rc
}

// role names the channel of a select arm by what it is.
func (rc *workerCtx) role(comm ast.Stmt) string {
	if comm == nil {
		return "default"
	}
	var ch ast.Expr
	switch v := comm.(type) {
	case *ast.SendStmt:
		if isIdent(v.Chan, rc.results) {
			return "results<-"
		}
		return "?send " + strings.Join(strings.Fields(src(v.Chan)), " ")
	case *ast.ExprStmt:
		if u, ok := v.X.(*ast.UnaryExpr); ok && u.Op == token.ARROW {
			ch = u.X
		}
	case *ast.AssignStmt:
		if len(v.Rhs) == 1 {
			if u, ok := v.Rhs[0].(*ast.UnaryExpr); ok && u.Op == token.ARROW {
				ch = u.X
			}
		}
	}
	switch e := ch.(type) {
	case *ast.Ident:
		switch {
		case e.Name == rc.quit:
			return "quit"
		case rc.msgVars[e.Name]:
			return "peerMsg"
		}
	case *ast.CallExpr:
		if s, ok := e.Fun.(*ast.SelectorExpr); ok && s.Sel.Name == "OnDisconnect" && len(e.Args) == 0 {
			return "peerDisconnect"
		}
	case *ast.SelectorExpr:
		switch e.Sel.Name {
		case "nextJob":
			return "nextJob"
		case "cancelChan":
			return "job.cancelChan"
		case "internalCancelChan":
			return "job.internalCancelChan"
		case "C":
			if id, ok := e.X.(*ast.Ident); ok && rc.timerVars[id.Name] {
				return "jobTimer"
			}
		}
	}
	return "?" + strings.Join(strings.Fields(src(comm)), " ")
}

// finishedCond classifies a condition as `P.Finished` (+1), `!P.Finished`
// (-1) or something else (0), P being the progress value.
func (rc *workerCtx) finishedCond(e ast.Expr) int {
	if p, ok := e.(*ast.ParenExpr); ok {
		return rc.finishedCond(p.X)
	}
	if u, ok := e.(*ast.UnaryExpr); ok && u.Op == token.NOT {
		return -rc.finishedCond(u.X)
	}
	if s, ok := e.(*ast.SelectorExpr); ok && s.Sel.Name == "Finished" && rc.progVar != "" && isIdent(s.X, rc.progVar) {
		return 1
	}
	return 0
}

// mentionsFinished reports whether the statements branch on the progress
// value's Finished field.
func (rc *workerCtx) mentionsFinished(stmts []ast.Stmt) bool {
	found := false
	for _, st := range stmts {
		ast.Inspect(st, func(n ast.Node) bool {
			if is, ok := n.(*ast.IfStmt); ok && rc.finishedCond(is.Cond) != 0 {
				found = true
			}
			return !found
		})
	}
	return found
}

// outcome follows a statement list to the jump that ends it (break / break L /
// continue / continue L / return) or "fall" when it runs off the end, taking
// `if P.Finished` / `if !P.Finished` according to finished.  An if on anything
// else is skipped when neither branch jumps, and makes the outcome "?"
// (unknown shape, the fact fails) when one does.
func (rc *workerCtx) outcome(stmts []ast.Stmt, finished bool) string {
	for _, st := range stmts {
		switch v := st.(type) {
		case *ast.BranchStmt:
			e := v.Tok.String()
			if v.Label != nil {
				// the wait loop is the one labelled loop of Run: its label is
				// written "Loop" whatever it is called
				if len(rc.loopLabels) == 1 && rc.loopLabels[v.Label.Name] {
					e += " Loop"
				} else {
					e += " " + v.Label.Name
				}
			}
			return e
		case *ast.ReturnStmt:
			return "return"
		case *ast.IfStmt:
			var els []ast.Stmt
			if b, ok := v.Else.(*ast.BlockStmt); ok {
				els = b.List
			} else if v.Else != nil {
				els = []ast.Stmt{v.Else}
			}
			switch c := rc.finishedCond(v.Cond); c {
			case 1, -1:
				take := finished == (c == 1)
				br := els
				if take {
					br = v.Body.List
				}
				if o := rc.outcome(br, finished); o != "fall" {
					return o
				}
			default:
				if rc.outcome(v.Body.List, finished) != "fall" || rc.outcome(els, finished) != "fall" {
					return "?"
				}
			}
		}
	}
	return "fall"
}

func strq(s string) string { return "\"" + strings.ReplaceAll(s, "\"", "\\\"") + "\"" }
