package main

import (
	"go/ast"
	"strings"
)

func init() { extractors = append(extractors, extractWorker) }

// extractWorker records, for the four selects of query/worker.go
// (*worker).Run — idle, pre-check after a job was picked up, wait loop, result
// hand-off — every arm with its channel expression, the error it assigns to
// jobErr (if any) and how its body ends (continue / break / break Loop /
// return / fall = runs off the end of the arm).  The worker model takes the
// behaviour of the job-holding arms from these facts.
func extractWorker() {
	l := newLean("Worker")
	defer l.write()
	f := parse("query/worker.go")
	fd := funcDecl(f, "worker", "Run")
	shape := map[string]any{}
	var selects []*ast.SelectStmt
	if fd == nil {
		fail("query/worker.go: method worker.Run")
	} else {
		ast.Inspect(fd.Body, func(n ast.Node) bool {
			if s, ok := n.(*ast.SelectStmt); ok {
				selects = append(selects, s)
			}
			return true
		})
	}
	if fd != nil && len(selects) != 4 {
		fail("query/worker.go: worker.Run has %d selects, the model knows 4 (idle, pre-check, wait, report)", len(selects))
	}
	type arm struct{ ch, err, end string }
	arms := func(s *ast.SelectStmt) []arm {
		var out []arm
		for _, c := range s.Body.List {
			cc := c.(*ast.CommClause)
			a := arm{ch: "default", end: "fall"}
			if cc.Comm != nil {
				a.ch = strings.Join(strings.Fields(src(cc.Comm)), " ")
				// keep only the channel expression
				if i := strings.Index(a.ch, "<-"); i >= 0 {
					if strings.HasPrefix(a.ch, "results <-") {
						a.ch = "results<-"
					} else {
						a.ch = strings.TrimSpace(a.ch[i+2:])
					}
				}
			}
			for _, st := range cc.Body {
				if as, ok := st.(*ast.AssignStmt); ok && len(as.Lhs) == 1 && src(as.Lhs[0]) == "jobErr" {
					a.err = src(as.Rhs[0])
				}
			}
			if stmtsMention(cc.Body, "progress.Finished") {
				// the response arm: what it does for a finished and for an
				// unfinished response, however the two branches are spelled
				a.end = "finished:" + outcome(cc.Body, true) + ";unfinished:" + outcome(cc.Body, false)
			} else {
				a.end = outcome(cc.Body, true)
			}
			out = append(out, a)
		}
		return out
	}
	names := []string{"idle", "precheck", "wait", "report"}
	all := map[string][]arm{}
	for i, s := range selects {
		if i >= len(names) {
			break
		}
		as := arms(s)
		all[names[i]] = as
		var items []string
		for _, a := range as {
			items = append(items, "("+strq(a.ch)+", "+strq(a.err)+", "+strq(a.end)+")")
		}
		l.def(names[i]+"Arms", "List (String × String × String)", "["+strings.Join(items, ", ")+"]",
			"arms of the "+names[i]+" select of worker.Run: (channel, error assigned to jobErr, how the arm ends)")
		shape[names[i]] = items
	}
	find := func(sel, ch string) (arm, bool) {
		for _, a := range all[sel] {
			if a.ch == ch {
				return a, true
			}
		}
		return arm{}, false
	}
	// pre-check: a cancelled job must fall into the wait loop (plain break out of the select), where the
	// same channel is ready and yields ErrJobCanceled; anything else (continue/return) loses the job.
	pre := func(ch string) bool {
		a, ok := find("precheck", ch)
		if !ok {
			fail("query/worker.go: pre-check select has no arm on %s", ch)
		}
		return ok && a.end == "break"
	}
	// wait loop: an arm reports iff it leaves the loop with `break Loop` (jobErr as assigned).
	wait := func(ch, err string) bool {
		a, ok := find("wait", ch)
		if !ok {
			fail("query/worker.go: wait select has no arm on %s", ch)
		}
		return ok && a.end == "break Loop" && a.err == err
	}
	l.def("preExtCancelToWait", "Bool", lbool(pre("job.cancelChan")), "pre-check arm on job.cancelChan breaks into the wait loop")
	l.def("preIntCancelToWait", "Bool", lbool(pre("job.internalCancelChan")), "pre-check arm on job.internalCancelChan breaks into the wait loop")
	dflt, ok := find("precheck", "default")
	l.def("preDefaultSends", "Bool", lbool(ok && dflt.end == "fall"), "pre-check default arm queues the request and goes on to the wait loop")
	l.def("waitTimeoutReports", "Bool", lbool(wait("timeout.C", "ErrQueryTimeout")), "wait arm on the timer reports ErrQueryTimeout")
	l.def("waitDisconnectReports", "Bool", lbool(wait("peer.OnDisconnect()", "ErrPeerDisconnected")), "wait arm on OnDisconnect reports ErrPeerDisconnected")
	l.def("waitExtCancelReports", "Bool", lbool(wait("job.cancelChan", "ErrJobCanceled")), "wait arm on job.cancelChan reports ErrJobCanceled")
	l.def("waitIntCancelReports", "Bool", lbool(wait("job.internalCancelChan", "ErrJobCanceled")), "wait arm on job.internalCancelChan reports ErrJobCanceled")
	resp, ok := find("wait", "msgChan")
	l.def("waitFinishedReports", "Bool", lbool(ok && resp.end == "finished:break Loop;unfinished:continue Loop" && resp.err == ""),
		"wait arm on msgChan: a finished response leaves the loop (nil result), an unfinished one keeps waiting")
	q, ok := find("wait", "quit")
	l.def("waitQuitReturns", "Bool", lbool(ok && q.end == "return"), "wait arm on quit returns")
	rq, ok := find("report", "quit")
	rs, ok2 := find("report", "results<-")
	l.def("reportSendsOrQuits", "Bool", lbool(ok && ok2 && rq.end == "return" && rs.end == "fall"), "result hand-off: send on results, or return on quit")
	// after the hand-off: `if jobErr == ErrPeerDisconnected { return }`
	exitAfter := false
	if fd != nil {
		ast.Inspect(fd.Body, func(n ast.Node) bool {
			if is, ok := n.(*ast.IfStmt); ok && strings.Join(strings.Fields(src(is.Cond)), " ") == "jobErr == ErrPeerDisconnected" {
				if len(is.Body.List) == 1 {
					if _, ok := is.Body.List[0].(*ast.ReturnStmt); ok {
						exitAfter = true
					}
				}
			}
			return true
		})
	}
	l.def("exitAfterDisconnect", "Bool", lbool(exitAfter), "Run returns after handing off an ErrPeerDisconnected result")
	facts["worker"] = shape
}

// stmtsMention reports whether the statements refer to expr textually.
func stmtsMention(stmts []ast.Stmt, expr string) bool {
	for _, st := range stmts {
		if strings.Contains(src(st), expr) {
			return true
		}
	}
	return false
}

// outcome follows a statement list to the jump that ends it (break / break L /
// continue / continue L / return) or "fall" when it runs off the end, taking
// `if progress.Finished` / `if !progress.Finished` according to finished.  An
// if on anything else is skipped when neither branch jumps, and makes the
// outcome "?" (unknown shape, the fact fails) when one does.
func outcome(stmts []ast.Stmt, finished bool) string {
	for _, st := range stmts {
		switch v := st.(type) {
		case *ast.BranchStmt:
			e := v.Tok.String()
			if v.Label != nil {
				e += " " + v.Label.Name
			}
			return e
		case *ast.ReturnStmt:
			return "return"
		case *ast.IfStmt:
			cond := strings.Join(strings.Fields(src(v.Cond)), "")
			var els []ast.Stmt
			if b, ok := v.Else.(*ast.BlockStmt); ok {
				els = b.List
			} else if v.Else != nil {
				els = []ast.Stmt{v.Else}
			}
			switch cond {
			case "progress.Finished", "!progress.Finished":
				take := finished == (cond == "progress.Finished")
				br := els
				if take {
					br = v.Body.List
				}
				if o := outcome(br, finished); o != "fall" {
					return o
				}
			default:
				if outcome(v.Body.List, finished) != "fall" || outcome(els, finished) != "fall" {
					return "?"
				}
			}
		}
	}
	return "fall"
}

func strq(s string) string { return "\"" + strings.ReplaceAll(s, "\"", "\\\"") + "\"" }
