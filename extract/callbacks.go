package main

// C18: per-response callbacks handed to the work manager.
//
// A `query.Request{HandleResp: X}` literal registers X to be invoked by the
// worker goroutine of whichever peer answers.  The state such a callback
// touches is shared between worker goroutines (and with the goroutine that
// built the query), although it lives on a short-lived query struct or in the
// local variables of the function that issues the query, not in the long-lived
// state the access table tracks by name.  This file finds the callbacks and
// makes that state part of the table:
//
//   X = recv.method   every field of the method's receiver struct becomes a
//                     tracked field (rows are produced by the ordinary walker);
//   X = closure       (a func literal, or a local variable bound to one) the
//                     local variables of the enclosing function that the closure
//                     captures become pseudo-fields "<Func>.<var>"; accesses
//                     inside the closure are attributed to "<Func>$<name>",
//                     accesses in the rest of the function to "<Func>".
//
// `multi` says whether the literal sits inside a for/range loop, i.e. whether
// one query consists of several requests whose callbacks can run on several
// worker goroutines at the same time.

import (
	"go/ast"
	"go/token"
	"go/types"
	"sort"
)

type callbackInfo struct {
	Fn    string `json:"fn"`    // table name of the callback
	Multi bool   `json:"multi"` // registered in a loop: several requests per query
	Recv  string `json:"recv"`  // receiver struct ("" for closures)
	File  string `json:"file"`
	Line  int    `json:"line"`

	lit  *ast.FuncLit
	encl *ast.FuncDecl
}

func isQueryRequestLit(pi *pkgInfo, cl *ast.CompositeLit) bool {
	if t := typeOf(pi, cl); t != nil {
		return namedIs(t, modPath+"/query", "Request")
	}
	return src(cl.Type) == "query.Request"
}

// findCallbacks scans one package for HandleResp registrations.
func findCallbacks(pi *pkgInfo, relOf func(base string) string) []callbackInfo {
	var out []callbackInfo
	var bases []string
	for b := range pi.files {
		bases = append(bases, b)
	}
	sort.Strings(bases)
	for _, base := range bases {
		for _, d := range pi.files[base].Decls {
			fd, ok := d.(*ast.FuncDecl)
			if !ok || fd.Body == nil {
				continue
			}
			// local variables bound to function literals: name -> literal
			bound := map[types.Object]*ast.FuncLit{}
			ast.Inspect(fd.Body, func(n ast.Node) bool {
				as, ok := n.(*ast.AssignStmt)
				if !ok || len(as.Lhs) != len(as.Rhs) {
					return true
				}
				for i, r := range as.Rhs {
					if fl, ok := r.(*ast.FuncLit); ok {
						if id, ok := as.Lhs[i].(*ast.Ident); ok && pi.info != nil {
							if o := pi.info.ObjectOf(id); o != nil {
								bound[o] = fl
							}
						}
					}
				}
				return true
			})
			var stack []ast.Node
			ast.Inspect(fd.Body, func(n ast.Node) bool {
				if n == nil {
					stack = stack[:len(stack)-1]
					return true
				}
				stack = append(stack, n)
				cl, ok := n.(*ast.CompositeLit)
				if !ok || !isQueryRequestLit(pi, cl) {
					return true
				}
				inLoop := false
				for _, s := range stack {
					switch s.(type) {
					case *ast.ForStmt, *ast.RangeStmt:
						inLoop = true
					}
				}
				for _, e := range cl.Elts {
					kv, ok := e.(*ast.KeyValueExpr)
					if !ok || src(kv.Key) != "HandleResp" {
						continue
					}
					ci := callbackInfo{Multi: inLoop, File: relOf(base), Line: fset.Position(kv.Pos()).Line, encl: fd}
					switch v := ast.Unparen(kv.Value).(type) {
					case *ast.SelectorExpr:
						if pi.info != nil {
							if fn, ok := pi.info.Uses[v.Sel].(*types.Func); ok {
								if sig, _ := fn.Type().(*types.Signature); sig != nil && sig.Recv() != nil {
									t := sig.Recv().Type()
									if p, ok := t.(*types.Pointer); ok {
										t = p.Elem()
									}
									if nt, ok := t.(*types.Named); ok {
										ci.Recv = nt.Obj().Name()
										ci.Fn = ci.Recv + "." + fn.Name()
									}
								}
							}
						}
					case *ast.FuncLit:
						ci.lit = v
						ci.Fn = funcName(pi, fd) + "$func"
					case *ast.Ident:
						if pi.info != nil {
							if fl := bound[pi.info.ObjectOf(v)]; fl != nil {
								ci.lit = fl
								ci.Fn = funcName(pi, fd) + "$" + v.Name
							}
						}
					}
					if ci.Fn == "" {
						fail("C18: cannot resolve the HandleResp callback %s registered at %s:%d", src(kv.Value), ci.File, ci.Line)
						continue
					}
					out = append(out, ci)
				}
				return true
			})
		}
	}
	return out
}

// closureRows produces rows for the local variables of ci.encl that the closure ci.lit captures.
func closureRows(pi *pkgInfo, ci callbackInfo) []accessRow {
	if ci.lit == nil || pi.info == nil {
		return nil
	}
	encl := funcName(pi, ci.encl)
	inLit := func(p token.Pos) bool { return p >= ci.lit.Pos() && p < ci.lit.End() }
	// captured: variables declared in the enclosing function outside the literal and used inside it
	captured := map[*types.Var]bool{}
	ast.Inspect(ci.lit.Body, func(n ast.Node) bool {
		id, ok := n.(*ast.Ident)
		if !ok {
			return true
		}
		v, ok := pi.info.Uses[id].(*types.Var)
		if !ok || v.IsField() || v.Pkg() == nil || v.Parent() == v.Pkg().Scope() {
			return true
		}
		if p := v.Pos(); p >= ci.encl.Pos() && p < ci.encl.End() && !inLit(p) {
			captured[v] = true
		}
		return true
	})
	// writes: identifiers on the left of assignments / inc-dec / under &
	writes := map[*ast.Ident]bool{}
	mark := func(e ast.Expr) {
		for {
			switch v := e.(type) {
			case *ast.ParenExpr:
				e = v.X
			case *ast.IndexExpr:
				e = v.X
			case *ast.StarExpr:
				e = v.X
			case *ast.SelectorExpr:
				e = v.X
			case *ast.Ident:
				writes[v] = true
				return
			default:
				return
			}
		}
	}
	ast.Inspect(ci.encl.Body, func(n ast.Node) bool {
		switch v := n.(type) {
		case *ast.AssignStmt:
			if v.Tok != token.DEFINE {
				for _, l := range v.Lhs {
					mark(l)
				}
			}
		case *ast.IncDecStmt:
			mark(v.X)
		case *ast.UnaryExpr:
			if v.Op == token.AND {
				mark(v.X)
			}
		}
		return true
	})
	// only variables the callback itself writes matter (what it merely reads was fixed before the query was issued)
	written := map[*types.Var]bool{}
	ast.Inspect(ci.lit.Body, func(n ast.Node) bool {
		if id, ok := n.(*ast.Ident); ok && writes[id] {
			if v, ok := pi.info.Uses[id].(*types.Var); ok && captured[v] {
				written[v] = true
			}
		}
		return true
	})
	var rows []accessRow
	ast.Inspect(ci.encl.Body, func(n ast.Node) bool {
		id, ok := n.(*ast.Ident)
		if !ok {
			return true
		}
		v, ok := pi.info.Uses[id].(*types.Var)
		if !ok || !written[v] {
			return true
		}
		fn := encl
		if inLit(id.Pos()) {
			fn = ci.Fn
		}
		rows = append(rows, accessRow{Field: encl + "." + v.Name(), Write: writes[id], Fn: fn, File: ci.File,
			Line: fset.Position(id.Pos()).Line})
		return true
	})
	return rows
}
