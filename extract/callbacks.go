package main

// C18: per-response callbacks handed to the work manager.
//
// A `query.Request{HandleResp: X}` literal registers X to be invoked by the
// worker goroutine of whichever peer answers.  The state such a callback
// touches is shared between worker goroutines (and with the goroutine that
// built the query), although it lives on a short-lived query struct or in the
// local variables of the function that issues the query, not in the long-lived
// state the access table tracks by name.  This file finds the callbacks and
// makes that state part of the table:
//
//   X = recv.method   every field of the method's receiver struct becomes a
//                     tracked field (rows are produced by the ordinary walker);
//   X = closure       (a func literal, or a local variable bound to one) the
//                     local variables of the enclosing function that the closure
//                     captures and writes become pseudo-fields "<Func>.<role>"
//                     (role: accesstable.go capturedRoles, found by the variable's
//                     name, else by type and ordinal; "<type>#<k>" without a role);
//                     accesses inside the closure are attributed to
//                     "<Func>$callback" (whatever the closure's variable is called;
//                     "$callback#2" for a second one in the same function),
//                     accesses in the rest of the function to "<Func>".
//
// `multi` says whether the literal sits inside a for/range loop, i.e. whether
// one query consists of several requests whose callbacks can run on several
// worker goroutines at the same time.

import (
	"fmt"
	"go/ast"
	"go/token"
	"go/types"
	"sort"
	"strings"
)

type callbackInfo struct {
	Fn    string `json:"fn"`    // table name of the callback
	Multi bool   `json:"multi"` // registered in a loop: several requests per query
	Recv  string `json:"recv"`  // receiver struct ("" for closures)
	File  string `json:"file"`
	Line  int    `json:"line"`

	lit  *ast.FuncLit
	encl *ast.FuncDecl
}

func isQueryRequestLit(pi *pkgInfo, cl *ast.CompositeLit) bool {
	if t := typeOf(pi, cl); t != nil {
		return namedIs(t, modPath+"/query", "Request")
	}
	return src(cl.Type) == "query.Request"
}

// findCallbacks scans one package for HandleResp registrations.
func findCallbacks(pi *pkgInfo, relOf func(base string) string) []callbackInfo {
	var out []callbackInfo
	nlit := map[*ast.FuncDecl]int{}
	var bases []string
	for b := range pi.files {
		bases = append(bases, b)
	}
	sort.Strings(bases)
	for _, base := range bases {
		for _, d := range pi.files[base].Decls {
			fd, ok := d.(*ast.FuncDecl)
			if !ok || fd.Body == nil {
				continue
			}
			// local variables bound to function literals: name -> literal
			bound := map[types.Object]*ast.FuncLit{}
			ast.Inspect(fd.Body, func(n ast.Node) bool {
				as, ok := n.(*ast.AssignStmt)
				if !ok || len(as.Lhs) != len(as.Rhs) {
					return true
				}
				for i, r := range as.Rhs {
					if fl, ok := r.(*ast.FuncLit); ok {
						if id, ok := as.Lhs[i].(*ast.Ident); ok && pi.info != nil {
							if o := pi.info.ObjectOf(id); o != nil {
								bound[o] = fl
							}
						}
					}
				}
				return true
			})
			var stack []ast.Node
			ast.Inspect(fd.Body, func(n ast.Node) bool {
				if n == nil {
					stack = stack[:len(stack)-1]
					return true
				}
				stack = append(stack, n)
				cl, ok := n.(*ast.CompositeLit)
				if !ok || !isQueryRequestLit(pi, cl) {
					return true
				}
				inLoop := false
				for _, s := range stack {
					switch s.(type) {
					case *ast.ForStmt, *ast.RangeStmt:
						inLoop = true
					}
				}
				for _, e := range cl.Elts {
					kv, ok := e.(*ast.KeyValueExpr)
					if !ok || src(kv.Key) != "HandleResp" {
						continue
					}
					ci := callbackInfo{Multi: inLoop, File: relOf(base), Line: fset.Position(kv.Pos()).Line, encl: fd}
					goName := "func literal"
					switch v := ast.Unparen(kv.Value).(type) {
					case *ast.SelectorExpr:
						if pi.info != nil {
							if fn, ok := pi.info.Uses[v.Sel].(*types.Func); ok {
								if sig, _ := fn.Type().(*types.Signature); sig != nil && sig.Recv() != nil {
									t := sig.Recv().Type()
									if p, ok := t.(*types.Pointer); ok {
										t = p.Elem()
									}
									if nt, ok := t.(*types.Named); ok {
										ci.Recv = nt.Obj().Name()
										ci.Fn = ci.Recv + "." + fn.Name()
									}
								}
							}
						}
					case *ast.FuncLit:
						ci.lit = v
					case *ast.Ident:
						if pi.info != nil {
							if fl := bound[pi.info.ObjectOf(v)]; fl != nil {
								ci.lit = fl
								goName = v.Name
							}
						}
					}
					if ci.lit != nil {
						// named by role, not by the variable the literal happens to be bound to
						nlit[fd]++
						ci.Fn = funcName(pi, fd) + "$callback"
						if nlit[fd] > 1 {
							ci.Fn += fmt.Sprintf("#%d", nlit[fd])
						}
						stableDisplay[ci.Fn] = funcName(pi, fd) + "$" + goName
					}
					if ci.Fn == "" {
						fail("C18: cannot resolve the HandleResp callback %s registered at %s:%d", src(kv.Value), ci.File, ci.Line)
						continue
					}
					out = append(out, ci)
				}
				return true
			})
		}
	}
	return out
}

// capturedTypeKey spells the declared type of a local variable of fd: the type checker's spelling when it resolved
// the type, else the source text of its declaration's type expression.
func capturedTypeKey(pi *pkgInfo, fd *ast.FuncDecl, v *types.Var) string {
	if s := typeText(v.Type()); !strings.Contains(s, "invalid type") {
		return s
	}
	key := "?"
	ast.Inspect(fd.Body, func(n ast.Node) bool {
		if vs, ok := n.(*ast.ValueSpec); ok && vs.Type != nil {
			for _, id := range vs.Names {
				if pi.info.Defs[id] == v {
					key = strings.Join(strings.Fields(src(vs.Type)), "")
				}
			}
		}
		return true
	})
	return key
}

// closureRows produces rows for the local variables of ci.encl that the closure ci.lit captures.
func closureRows(pi *pkgInfo, ci callbackInfo) []accessRow {
	if ci.lit == nil || pi.info == nil {
		return nil
	}
	encl := funcName(pi, ci.encl)
	inLit := func(p token.Pos) bool { return p >= ci.lit.Pos() && p < ci.lit.End() }
	// captured: variables declared in the enclosing function outside the literal and used inside it
	captured := map[*types.Var]bool{}
	ast.Inspect(ci.lit.Body, func(n ast.Node) bool {
		id, ok := n.(*ast.Ident)
		if !ok {
			return true
		}
		v, ok := pi.info.Uses[id].(*types.Var)
		if !ok || v.IsField() || v.Pkg() == nil || v.Parent() == v.Pkg().Scope() {
			return true
		}
		if p := v.Pos(); p >= ci.encl.Pos() && p < ci.encl.End() && !inLit(p) {
			captured[v] = true
		}
		return true
	})
	// writes: identifiers on the left of assignments / inc-dec / under &
	writes := map[*ast.Ident]bool{}
	mark := func(e ast.Expr) {
		for {
			switch v := e.(type) {
			case *ast.ParenExpr:
				e = v.X
			case *ast.IndexExpr:
				e = v.X
			case *ast.StarExpr:
				e = v.X
			case *ast.SelectorExpr:
				e = v.X
			case *ast.Ident:
				writes[v] = true
				return
			default:
				return
			}
		}
	}
	ast.Inspect(ci.encl.Body, func(n ast.Node) bool {
		switch v := n.(type) {
		case *ast.AssignStmt:
			if v.Tok != token.DEFINE {
				for _, l := range v.Lhs {
					mark(l)
				}
			}
		case *ast.IncDecStmt:
			mark(v.X)
		case *ast.UnaryExpr:
			if v.Op == token.AND {
				mark(v.X)
			}
		}
		return true
	})
	// only variables the callback itself writes matter (what it merely reads was fixed before the query was issued)
	written := map[*types.Var]bool{}
	ast.Inspect(ci.lit.Body, func(n ast.Node) bool {
		if id, ok := n.(*ast.Ident); ok && writes[id] {
			if v, ok := pi.info.Uses[id].(*types.Var); ok && captured[v] {
				written[v] = true
			}
		}
		return true
	})
	// names of the written captured variables: by role (name first, then type and ordinal), else by type and ordinal
	var ws []*types.Var
	for v := range written {
		ws = append(ws, v)
	}
	sort.Slice(ws, func(i, j int) bool { return ws[i].Pos() < ws[j].Pos() })
	varName := map[*types.Var]string{}
	ord := map[*types.Var]int{}
	cnt := map[string]int{}
	for _, v := range ws {
		k := capturedTypeKey(pi, ci.encl, v)
		cnt[k]++
		ord[v] = cnt[k]
	}
	for _, v := range ws {
		for _, r := range capturedRoles {
			if r.Role == encl+"."+v.Name() {
				varName[v] = r.Role
			}
		}
	}
	for _, v := range ws {
		if varName[v] != "" {
			continue
		}
		k := capturedTypeKey(pi, ci.encl, v)
		name := fmt.Sprintf("%s.%s#%d", encl, k, ord[v])
		for _, r := range capturedRoles {
			taken := false
			for _, n := range varName {
				if n == r.Role {
					taken = true
				}
			}
			if !taken && strings.HasPrefix(r.Role, encl+".") && r.Type == k && r.Ord == ord[v] {
				name = r.Role
				fmt.Printf("extract: C18 role %s is now played by variable %s\n", r.Role, v.Name())
			}
		}
		varName[v] = name
	}
	for v, n := range varName {
		if g := encl + "." + v.Name(); g != n {
			stableDisplay[n] = g
		}
	}
	var rows []accessRow
	ast.Inspect(ci.encl.Body, func(n ast.Node) bool {
		id, ok := n.(*ast.Ident)
		if !ok {
			return true
		}
		v, ok := pi.info.Uses[id].(*types.Var)
		if !ok || !written[v] {
			return true
		}
		fn := encl
		if inLit(id.Pos()) {
			fn = ci.Fn
		}
		rows = append(rows, accessRow{Field: varName[v], Write: writes[id], Fn: fn, File: ci.File,
			Line: fset.Position(id.Pos()).Line, pos: id.Pos()})
		return true
	})
	return rows
}

// ---- which verdict an access outside the callback runs under -----------------
//
// State written by a per-response callback is handed to the function that issued the query through the query's
// verdict: worker (callback, then result) -> dispatcher -> error channel -> caller.  That chain exists for the
// SUCCESS verdict only; an error verdict (timeout, retry limit, shutdown) is sent while a worker may still be
// inside the callback.  An access outside the callback is therefore ordered with the callback's writes only if it
// is made
//   * before the query is issued (position before the `.Query(` call of the function), or
//   * after the verdict has been received and found nil: behind a statement `if <err> != nil { ...; return }`
//     (condition exactly that comparison, body ending in return) that is the first statement of the select case
//     receiving `<err> := <-errChan`, every other case of that select ending in return.
// Everything else is listed as unguarded.

type verdictShape struct {
	queryPos   token.Pos // position of the X.Query(...) call (0: none)
	guardEnd   token.Pos // accesses after this position in the verdict case are behind the nil check
	selectEnd  token.Pos // accesses after this position are behind the select
	filtering  bool      // the select lets only the nil verdict through
	hasVerdict bool
}

func endsInReturn(list []ast.Stmt) bool {
	if len(list) == 0 {
		return false
	}
	_, ok := list[len(list)-1].(*ast.ReturnStmt)
	return ok
}

func verdictShapeOf(fd *ast.FuncDecl) verdictShape {
	var vs verdictShape
	ast.Inspect(fd.Body, func(n ast.Node) bool {
		switch v := n.(type) {
		case *ast.CallExpr:
			if se, ok := v.Fun.(*ast.SelectorExpr); ok && se.Sel.Name == "Query" && vs.queryPos == 0 {
				vs.queryPos = v.Pos()
			}
		case *ast.SelectStmt:
			if vs.hasVerdict {
				return true
			}
			var verdict *ast.CommClause
			errName := ""
			others := true
			for _, c := range v.Body.List {
				cc := c.(*ast.CommClause)
				if as, ok := cc.Comm.(*ast.AssignStmt); ok && len(as.Lhs) == 1 && len(as.Rhs) == 1 {
					if u, ok := as.Rhs[0].(*ast.UnaryExpr); ok && u.Op == token.ARROW {
						if id, ok := as.Lhs[0].(*ast.Ident); ok && verdict == nil {
							verdict, errName = cc, id.Name
							continue
						}
					}
				}
				if !endsInReturn(cc.Body) {
					others = false
				}
			}
			if verdict == nil {
				return true
			}
			vs.hasVerdict = true
			vs.selectEnd = v.End()
			vs.guardEnd = token.NoPos
			if len(verdict.Body) > 0 {
				if is, ok := verdict.Body[0].(*ast.IfStmt); ok && is.Init == nil && is.Else == nil && endsInReturn(is.Body.List) {
					if be, ok := is.Cond.(*ast.BinaryExpr); ok && be.Op == token.NEQ && src(be.X) == errName && src(be.Y) == "nil" {
						vs.guardEnd = is.End()
						vs.filtering = others
					}
				}
			}
		}
		return true
	})
	return vs
}

// unguardedAccesses lists the rows, outside the callbacks, on state a callback writes, that may run under an
// error verdict.
func unguardedAccesses(rows []accessRow, cbs []callbackInfo) []accessRow {
	cbFn := map[string]bool{}
	for _, cb := range cbs {
		cbFn[cb.Fn] = true
	}
	written := map[string]bool{}
	for _, r := range rows {
		if r.Write && cbFn[r.Fn] {
			written[r.Field] = true
		}
	}
	pi := loadPkg("")
	if pi == nil {
		return nil
	}
	decl := map[string]*ast.FuncDecl{}
	for _, f := range pi.files {
		for _, d := range f.Decls {
			if fd, ok := d.(*ast.FuncDecl); ok && fd.Body != nil {
				decl[funcName(pi, fd)] = fd
			}
		}
	}
	shapes := map[string]verdictShape{}
	var out []accessRow
	for _, r := range rows {
		if !written[r.Field] || cbFn[r.Fn] {
			continue
		}
		fd := decl[r.Fn]
		if fd == nil || r.pos == token.NoPos {
			out = append(out, r)
			continue
		}
		vs, ok := shapes[r.Fn]
		if !ok {
			vs = verdictShapeOf(fd)
			shapes[r.Fn] = vs
		}
		switch {
		case vs.queryPos != 0 && r.pos < vs.queryPos:
			// before the query is issued: the callback cannot have run yet
		case vs.hasVerdict && vs.guardEnd != token.NoPos && r.pos >= vs.guardEnd && r.pos < vs.selectEnd:
			// in the verdict case, behind the nil check
		case vs.hasVerdict && vs.filtering && r.pos >= vs.selectEnd:
			// behind a select that lets only the nil verdict through
		default:
			out = append(out, r)
		}
	}
	return out
}
