package main

import (
	"go/ast"
	"strings"
)

func init() { extractors = append(extractors, extractLru) }

// extractLru records, for Put / Get / LoadAndDelete / Len / Size of
// cache/lru.Cache, whether every access to the shared fields (cache index,
// list, size counter, evict) lies inside the mutex's critical section and the
// mutex is released by defer; and which list ends are used for insertion,
// touch and eviction.
func extractLru() {
	l := newLean("Lru", "Neutrino.Model.Lru")
	defer l.write()
	f := parse("cache/lru/lru.go")
	inside := func(fn string, lock, unlock string) (bool, []string) {
		fd := funcDecl(f, "Cache", fn)
		if fd == nil {
			fail("cache/lru/lru.go: method Cache.%s", fn)
			return false, nil
		}
		cs := calls(fd.Body)
		lockPos, hasDefer, explicitUnlock := -1, false, false
		var seq []string
		for i, c := range cs {
			switch {
			case c.name == "c.mtx."+lock && lockPos < 0:
				lockPos = i
			case c.name == "defer c.mtx."+unlock:
				hasDefer = true
			case c.name == "c.mtx."+unlock:
				explicitUnlock = true
			}
		}
		ok := lockPos >= 0 && hasDefer && !explicitUnlock
		// every shared access must come after the Lock call
		body := src(fd.Body)
		_ = body
		for i, c := range cs {
			shared := strings.HasPrefix(c.name, "c.cache.") || strings.HasPrefix(c.name, "c.ll.") || c.name == "c.evict"
			if strings.HasPrefix(c.name, "c.") || strings.HasPrefix(c.name, "defer c.") || c.name == "verifYield" {
				n := c.name
				if n == "verifYield" && len(c.args) == 1 {
					n = "yield " + strings.Trim(c.args[0], "\"")
				}
				seq = append(seq, n)
			}
			if shared && (lockPos < 0 || i < lockPos) {
				ok = false
			}
		}
		// the size counter: any mention of c.size before the Lock
		if lockPos >= 0 {
			pre := src(fd.Body)
			idx := strings.Index(pre, "c.mtx."+lock)
			if idx >= 0 && strings.Contains(pre[:idx], "c.size") {
				ok = false
			}
		} else if strings.Contains(src(fd.Body), "c.size") {
			ok = false
		}
		return ok, seq
	}
	shape := map[string]any{}
	for _, m := range [][3]string{{"Put", "Lock", "Unlock"}, {"Get", "Lock", "Unlock"},
		{"LoadAndDelete", "Lock", "Unlock"}, {"Len", "RLock", "RUnlock"}, {"Size", "RLock", "RUnlock"}} {
		ok, seq := inside(m[0], m[1], m[2])
		name := strings.ToLower(m[0][:1]) + m[0][1:]
		l.def(name+"AllInside", "Bool", lbool(ok), "every index/list/size access of "+m[0]+" is inside the critical section, released by defer")
		l.def(name+"Seq", "List String", lstrs(seq), "shared-state calls of "+m[0]+" in source order")
		shape[m[0]] = map[string]any{"allInside": ok, "seq": seq}
	}
	// evict: victim end, and callers
	ev := funcDecl(f, "Cache", "evict")
	victim := ""
	if ev == nil {
		fail("cache/lru/lru.go: method Cache.evict")
	} else {
		for _, c := range calls(ev.Body) {
			if c.name == "c.ll.Back" || c.name == "c.ll.Front" {
				victim = strings.TrimPrefix(c.name, "c.ll.")
			}
		}
	}
	// The eviction loop's condition, translated as an expression over uint64 (what it
	// COMPUTES, whichever way it is written): C16_evict_condition proves that, with the
	// wrap-around of the machine word, it holds exactly when the free space is smaller than
	// what is needed, for all values the invariant allows.
	cond := ""
	if ev != nil {
		recv, needed := "", ""
		if ev.Recv != nil && len(ev.Recv.List) == 1 && len(ev.Recv.List[0].Names) == 1 {
			recv = ev.Recv.List[0].Names[0].Name
		}
		if ps := ev.Type.Params.List; len(ps) == 1 && len(ps[0].Names) == 1 && src(ps[0].Type) == "uint64" {
			needed = ps[0].Names[0].Name
		}
		var loops []*ast.ForStmt
		ast.Inspect(ev.Body, func(n ast.Node) bool {
			if _, ok := n.(*ast.FuncLit); ok {
				return false
			}
			if fs, ok := n.(*ast.ForStmt); ok {
				loops = append(loops, fs)
			}
			return true
		})
		switch {
		case recv == "" || needed == "":
			fail("cache/lru/lru.go: evict(needed uint64) with a named receiver")
		case len(loops) != 1 || loops[0].Cond == nil || loops[0].Init != nil || loops[0].Post != nil:
			fail("cache/lru/lru.go: evict has exactly one `for <condition>` loop")
		default:
			var ok bool
			if cond, ok = lruCmp(loops[0].Cond, recv, needed); !ok {
				fail("cache/lru/lru.go: evict's loop condition `%s` is a comparison of +/- expressions over %s.capacity, %s.size and %s",
					src(loops[0].Cond), recv, recv, needed)
			}
		}
	}
	if cond == "" {
		cond = ".lt .cap .cap"
	}
	l.def("evictCond", "Neutrino.Lru.CmpExpr", cond, "the condition under which evict() goes on evicting, as a uint64 expression")
	l.def("evictVictim", "String", "\""+victim+"\"", "which end of the recency list evict() takes its victim from")
	insert, touch := "", ""
	if fd := funcDecl(f, "Cache", "Put"); fd != nil {
		for _, c := range calls(fd.Body) {
			if c.name == "c.ll.PushFront" || c.name == "c.ll.PushBack" {
				insert = strings.TrimPrefix(c.name, "c.ll.")
			}
		}
	}
	if fd := funcDecl(f, "Cache", "Get"); fd != nil {
		for _, c := range calls(fd.Body) {
			if strings.HasPrefix(c.name, "c.ll.Move") {
				touch = strings.TrimPrefix(c.name, "c.ll.")
			}
		}
	}
	l.def("putInsert", "String", "\""+insert+"\"", "how Put inserts into the recency list")
	l.def("getTouch", "String", "\""+touch+"\"", "how Get refreshes an entry")
	// callers of evict
	var evictCallers []string
	if f != nil {
		for _, name := range []string{"Put", "Get", "LoadAndDelete", "Len", "Size", "Delete", "Range", "RangeFILO", "RangeFIFO"} {
			if fd := funcDecl(f, "Cache", name); fd != nil {
				for _, c := range calls(fd.Body) {
					if c.name == "c.evict" {
						evictCallers = append(evictCallers, name)
					}
				}
			}
		}
	}
	l.def("evictCallers", "List String", lstrs(evictCallers), "methods that call evict()")
	// Range is the one method that reads the index without the mutex: that is sound only as long as the
	// index is the sync.Map wrapper (safe for concurrent use) and Range touches nothing else.
	indexType := ""
	if f != nil {
		ast.Inspect(f, func(n ast.Node) bool {
			ts, ok := n.(*ast.TypeSpec)
			if !ok || ts.Name.Name != "Cache" {
				return true
			}
			if st, ok := ts.Type.(*ast.StructType); ok {
				for _, fld := range st.Fields.List {
					for _, nm := range fld.Names {
						if nm.Name == "cache" {
							indexType = src(fld.Type)
						}
					}
				}
			}
			return false
		})
	}
	rangeOnlyIndex, rangeLocked := false, false
	if fd := funcDecl(f, "Cache", "Range"); fd != nil {
		rangeOnlyIndex = true
		for _, c := range calls(fd.Body) {
			if strings.HasPrefix(c.name, "c.") && c.name != "c.cache.Range" {
				rangeOnlyIndex = false
			}
			if c.name == "c.mtx.RLock" || c.name == "c.mtx.Lock" {
				rangeLocked = true
			}
		}
		if strings.Contains(src(fd.Body), "range c.cache") || strings.Contains(src(fd.Body), "c.ll") || strings.Contains(src(fd.Body), "c.size") {
			rangeOnlyIndex = false
		}
	} else {
		fail("cache/lru/lru.go: method Cache.Range")
	}
	indexConcurrent := strings.HasPrefix(indexType, "syncMap[")
	l.def("indexIsSyncMap", "Bool", lbool(indexConcurrent), "the key index is the sync.Map wrapper (type "+indexType+")")
	l.def("rangeSafe", "Bool", lbool(rangeLocked || (indexConcurrent && rangeOnlyIndex)),
		"Range holds the mutex, or reads nothing but an index that is safe for concurrent use")
	shape["indexType"], shape["rangeSafe"] = indexType, rangeLocked || (indexConcurrent && rangeOnlyIndex)
	shape["evictVictim"], shape["putInsert"], shape["getTouch"], shape["evictCallers"] = victim, insert, touch, evictCallers
	facts["lru"] = shape
}

// lruU64 translates a uint64 expression built from <recv>.capacity, <recv>.size,
// the parameter `needed`, + and - into a Neutrino.Lru.U64Expr term.
func lruU64(e ast.Expr, recv, needed string) (string, bool) {
	switch x := e.(type) {
	case *ast.ParenExpr:
		return lruU64(x.X, recv, needed)
	case *ast.Ident:
		if x.Name == needed {
			return ".needed", true
		}
	case *ast.SelectorExpr:
		if id, ok := x.X.(*ast.Ident); ok && id.Name == recv {
			switch x.Sel.Name {
			case "capacity":
				return ".cap", true
			case "size":
				return ".size", true
			}
		}
	case *ast.BinaryExpr:
		a, ok1 := lruU64(x.X, recv, needed)
		b, ok2 := lruU64(x.Y, recv, needed)
		if ok1 && ok2 {
			switch x.Op.String() {
			case "+":
				return "(.add " + a + " " + b + ")", true
			case "-":
				return "(.sub " + a + " " + b + ")", true
			}
		}
	}
	return "", false
}

func lruCmp(e ast.Expr, recv, needed string) (string, bool) {
	if p, ok := e.(*ast.ParenExpr); ok {
		return lruCmp(p.X, recv, needed)
	}
	b, ok := e.(*ast.BinaryExpr)
	if !ok {
		return "", false
	}
	con := map[string]string{"<": ".lt", "<=": ".le", ">": ".gt", ">=": ".ge"}[b.Op.String()]
	x, ok1 := lruU64(b.X, recv, needed)
	y, ok2 := lruU64(b.Y, recv, needed)
	if con == "" || !ok1 || !ok2 {
		return "", false
	}
	return con + " " + x + " " + y, true
}
