package main

import (
	"go/ast"
	"go/token"
	"sort"
	"strconv"
	"strings"
)

func init() { extractors = append(extractors, extractBan) }

// squeeze removes all white space so that source text can be compared
// independently of gofmt's line breaking.
func squeeze(s string) string { return strings.Join(strings.Fields(s), "") }

// ifStmts lists every if statement in n in source order.
func ifStmts(n ast.Node) []*ast.IfStmt {
	var out []*ast.IfStmt
	ast.Inspect(n, func(x ast.Node) bool {
		if v, ok := x.(*ast.IfStmt); ok {
			out = append(out, v)
		}
		return true
	})
	return out
}

func hasCall(n ast.Node, name string) bool {
	for _, c := range calls(n) {
		if c.name == name {
			return true
		}
	}
	return false
}

func callPos(n ast.Node, name string) token.Pos {
	for _, c := range calls(n) {
		if c.name == name {
			return c.pos
		}
	}
	return token.NoPos
}

func endsWithReturn(b *ast.BlockStmt) bool {
	if len(b.List) == 0 {
		return false
	}
	_, ok := b.List[len(b.List)-1].(*ast.ReturnStmt)
	return ok
}

// constInt finds `name = <int literal>` / `name T = <int literal>` among the const decls of f.
func constInt(f *ast.File, name string) (int, bool) {
	if f == nil {
		return 0, false
	}
	for _, d := range f.Decls {
		gd, ok := d.(*ast.GenDecl)
		if !ok || gd.Tok != token.CONST {
			continue
		}
		for _, s := range gd.Specs {
			vs := s.(*ast.ValueSpec)
			for i, n := range vs.Names {
				if n.Name == name && i < len(vs.Values) {
					if bl, ok := vs.Values[i].(*ast.BasicLit); ok {
						v, err := strconv.Atoi(bl.Value)
						return v, err == nil
					}
				}
			}
		}
	}
	return 0, false
}

// declSrc returns the source text of the value bound to a package-level name (const or var).
func declSrc(f *ast.File, name string) string {
	if f == nil {
		return ""
	}
	for _, d := range f.Decls {
		gd, ok := d.(*ast.GenDecl)
		if !ok {
			continue
		}
		for _, s := range gd.Specs {
			vs, ok := s.(*ast.ValueSpec)
			if !ok {
				continue
			}
			for i, n := range vs.Names {
				if n.Name == name && i < len(vs.Values) {
					return squeeze(src(vs.Values[i]))
				}
			}
		}
	}
	return ""
}

// ---- a small evaluator for boolean / integer Go expressions over service flags, used to read OnVersion's
// service test by its TRUTH TABLE instead of its spelling.

var wireFlags = map[string]int64{
	"wire.SFNodeNetwork": 1, "wire.SFNodeGetUTXO": 2, "wire.SFNodeBloom": 4, "wire.SFNodeWitness": 8,
	"wire.SFNodeXthin": 16, "wire.SFNodeBit5": 32, "wire.SFNodeCF": 64, "wire.SFNode2X": 128,
	"wire.SFNodeNetworkLimited": 1024,
}

type evalEnv struct {
	defs     map[string]ast.Expr // local `x := e`, `var x = e`, `const x = e`
	services int64               // what sp.Services() returns
	depth    int
}

// localDefs collects the single-valued local definitions of a function body.
func localDefs(body *ast.BlockStmt) map[string]ast.Expr {
	defs := map[string]ast.Expr{}
	ast.Inspect(body, func(x ast.Node) bool {
		switch v := x.(type) {
		case *ast.AssignStmt:
			if v.Tok == token.DEFINE && len(v.Lhs) == 1 && len(v.Rhs) == 1 {
				if id, ok := v.Lhs[0].(*ast.Ident); ok {
					defs[id.Name] = v.Rhs[0]
				}
			}
		case *ast.ValueSpec:
			for i, n := range v.Names {
				if i < len(v.Values) {
					defs[n.Name] = v.Values[i]
				}
			}
		}
		return true
	})
	return defs
}

// eval returns int64 or bool, or nil when the expression uses something it does not know.
func (e *evalEnv) eval(x ast.Expr) any {
	if e.depth > 40 {
		return nil
	}
	e.depth++
	defer func() { e.depth-- }()
	switch v := x.(type) {
	case *ast.ParenExpr:
		return e.eval(v.X)
	case *ast.BasicLit:
		if n, err := strconv.ParseInt(v.Value, 0, 64); err == nil {
			return n
		}
	case *ast.Ident:
		switch v.Name {
		case "true":
			return true
		case "false":
			return false
		}
		if d, ok := e.defs[v.Name]; ok {
			return e.eval(d)
		}
	case *ast.SelectorExpr:
		if n, ok := wireFlags[squeeze(src(v))]; ok {
			return n
		}
	case *ast.CallExpr:
		f := squeeze(src(v.Fun))
		if strings.HasSuffix(f, ".Services") && len(v.Args) == 0 {
			return e.services
		}
		// conversions such as wire.ServiceFlag(x), uint64(x)
		if len(v.Args) == 1 && (f == "wire.ServiceFlag" || f == "uint64" || f == "int64") {
			return e.eval(v.Args[0])
		}
	case *ast.UnaryExpr:
		a := e.eval(v.X)
		if b, ok := a.(bool); ok && v.Op == token.NOT {
			return !b
		}
		if n, ok := a.(int64); ok && v.Op == token.XOR {
			return ^n
		}
	case *ast.BinaryExpr:
		a, b := e.eval(v.X), e.eval(v.Y)
		if x, ok := a.(int64); ok {
			if y, ok := b.(int64); ok {
				switch v.Op {
				case token.AND:
					return x & y
				case token.OR:
					return x | y
				case token.AND_NOT:
					return x &^ y
				case token.XOR:
					return x ^ y
				case token.EQL:
					return x == y
				case token.NEQ:
					return x != y
				}
			}
		}
		if x, ok := a.(bool); ok {
			if y, ok := b.(bool); ok {
				switch v.Op {
				case token.LAND:
					return x && y
				case token.LOR:
					return x || y
				case token.EQL:
					return x == y
				case token.NEQ:
					return x != y
				}
			}
		}
	}
	return nil
}

// resolvesTo: e is the expression `want` (squeezed), or a local identifier defined as it.
func resolvesTo(defs map[string]ast.Expr, e ast.Expr, want string) bool {
	if squeeze(src(e)) == want {
		return true
	}
	if id, ok := e.(*ast.Ident); ok {
		if d, ok := defs[id.Name]; ok {
			return squeeze(src(d)) == want
		}
	}
	return false
}

// goBody: the body run by `defer func() { … go <f> … }()` in fd — f's literal body, or the body of the
// same-file helper it names (one level) — together with the defer statement.  nil when there is no such shape.
func goBody(f *ast.File, fd *ast.FuncDecl) (*ast.BlockStmt, *ast.DeferStmt) {
	for _, st := range fd.Body.List {
		ds, ok := st.(*ast.DeferStmt)
		if !ok {
			continue
		}
		var scope ast.Node = ds.Call
		var found *ast.BlockStmt
		ast.Inspect(scope, func(x ast.Node) bool {
			g, ok := x.(*ast.GoStmt)
			if !ok || found != nil {
				return true
			}
			switch fn := g.Call.Fun.(type) {
			case *ast.FuncLit:
				found = fn.Body
			default:
				name := squeeze(src(fn))
				if i := strings.LastIndex(name, "."); i >= 0 {
					name = name[i+1:]
				}
				var cands []*ast.FuncDecl
				for _, d := range f.Decls {
					if h, ok := d.(*ast.FuncDecl); ok && h.Name.Name == name && h.Body != nil {
						cands = append(cands, h)
					}
				}
				if len(cands) == 1 {
					h := cands[0]
					// rename the helper's parameters to the argument texts (identifiers only)
					if h.Type.Params != nil {
						k := 0
						ren := map[string]string{}
						for _, fld := range h.Type.Params.List {
							for _, pn := range fld.Names {
								if k < len(g.Call.Args) {
									if a, ok := g.Call.Args[k].(*ast.Ident); ok && a.Name != pn.Name {
										ren[pn.Name] = a.Name
									}
								}
								k++
							}
						}
						if len(ren) > 0 {
							ast.Inspect(h.Body, func(y ast.Node) bool {
								if id, ok := y.(*ast.Ident); ok {
									if to, ok := ren[id.Name]; ok {
										id.Name = to
									}
								}
								return true
							})
						}
					}
					found = h.Body
				}
			}
			return true
		})
		if found != nil {
			return found, ds
		}
	}
	return nil, nil
}

// extractBan records the facts the C13 model relies on:
//   - banman: key layout constants, default masks, the expiry is stored as Unix seconds of an absolute time, Status
//     deletes when !now.Before(expiry), the key is built from the To4 / To16 normal form;
//   - neutrino.go: OnVersion bans + disconnects under the WITNESS|CF test, handleAddPeerMsg and outboundPeerConnected
//     consult IsBanned before accepting, IsBanned / BanPeer go through ParseIPNet(addr, nil) and the store, BanDuration; BanPeer disconnects the reported
//     address and every connected peer whose address parses to the banned network.
func extractBan() {
	l := newLean("Ban")
	defer l.write()
	shape := map[string]any{}
	put := func(name string, ok bool, comment string) {
		l.def(name, "Bool", lbool(ok), comment)
		shape[name] = ok
	}

	// ---- banman
	codec := parse("banman/codec.go")
	v4, ok4 := constInt(codec, "ipv4")
	v6, ok6 := constInt(codec, "ipv6")
	if !ok4 || !ok6 {
		fail("banman/codec.go: const ipv4 / ipv6")
	}
	l.def("ipv4Type", "Nat", strconv.Itoa(v4), "type byte of an IPv4 key")
	l.def("ipv6Type", "Nat", strconv.Itoa(v6), "type byte of an IPv6 key")
	enc := funcDecl(codec, "", "encodeIPNet")
	if enc == nil {
		fail("banman/codec.go: func encodeIPNet")
	} else {
		body := squeeze(src(enc.Body))
		put("encodeNormalisesTo4", strings.Contains(body, "caseipNet.IP.To4()!=nil:ip=ipNet.IP.To4()ipType=ipv4"),
			"encodeIPNet: an IP with a 4-byte form is written in that form with type ipv4")
		put("encodeElseTo16", strings.Contains(body, "caseipNet.IP.To16()!=nil:ip=ipNet.IP.To16()ipType=ipv6"),
			"encodeIPNet: otherwise the 16-byte form with type ipv6")
		var writes []string
		for _, c := range calls(enc.Body) {
			if c.name == "w.Write" && len(c.args) == 1 {
				writes = append(writes, squeeze(c.args[0]))
			}
		}
		l.def("encodeWrites", "List String", lstrs(writes), "what encodeIPNet writes, in order")
		shape["encodeWrites"] = writes
	}
	util := parse("banman/util.go")
	l.def("defaultV4Mask", "String", strconv.Quote(declSrc(util, "defaultIPv4Mask")), "")
	l.def("defaultV6Mask", "String", strconv.Quote(declSrc(util, "defaultIPv6Mask")), "")
	if pf := funcDecl(util, "", "ParseIPNet"); pf == nil {
		fail("banman/util.go: func ParseIPNet")
	} else {
		body := squeeze(src(pf.Body))
		put("parseSplitsPort", strings.Contains(body, "host,_,err:=net.SplitHostPort(addr)iferr!=nil{") && strings.Contains(body, "host=addr}ip:=net.ParseIP(host)"),
			"ParseIPNet strips an optional port, then net.ParseIP")
		put("parseDefaultMasks", strings.Contains(body, "caseip.To4()!=nil:ifmask==nil{mask=defaultIPv4Mask}caseip.To16()!=nil:ifmask==nil{mask=defaultIPv6Mask}default:returnnil,ErrUnsupportedIP"),
			"ParseIPNet picks the default mask by To4 / To16, else ErrUnsupportedIP")
		put("parseMasksIP", strings.Contains(body, "return&net.IPNet{IP:ip.Mask(mask),Mask:mask},nil"),
			"ParseIPNet returns the masked IP with the mask as given")
	}
	store := parse("banman/store.go")
	if fd := funcDecl(store, "", "addBannedIPNet"); fd == nil {
		fail("banman/store.go: func addBannedIPNet")
	} else {
		body := squeeze(src(fd.Body))
		put("expiryAbsoluteSeconds", strings.Contains(body, "banExpiration:=time.Now().Add(duration)byteOrder.PutUint64(v[:],uint64(banExpiration.Unix()))"),
			"the stored value is (now + duration) as Unix seconds")
	}
	if fd := funcDecl(store, "banStore", "Status"); fd == nil {
		fail("banman/store.go: method banStore.Status")
	} else {
		body := squeeze(src(fd.Body))
		put("statusDeletesWhenNotBefore", strings.Contains(body, "if!time.Now().Before(status.Expiration){returnremoveBannedIPNet(banIndex,reasonIndex,k)}banStatus=status"),
			"Status removes the record and reports the zero Status when !now.Before(expiry)")
	}
	// one write transaction per call: exactly one walletdb.Update, no walletdb.View, and (Status) the read and the
	// purge are both inside that Update's closure
	oneTx := func(method string, inside ...string) bool {
		fd := funcDecl(store, "banStore", method)
		if fd == nil {
			fail("banman/store.go: method banStore.%s", method)
			return false
		}
		nUpd, nView, ok := 0, 0, false
		ast.Inspect(fd.Body, func(x ast.Node) bool {
			ce, isCall := x.(*ast.CallExpr)
			if !isCall {
				return true
			}
			switch squeeze(src(ce.Fun)) {
			case "walletdb.View", "s.db.View", "s.db.BeginReadTx", "s.db.BeginReadWriteTx", "walletdb.Batch":
				nView++
			case "walletdb.Update", "s.db.Update":
				nUpd++
				if len(ce.Args) == 2 {
					if fl, isLit := ce.Args[1].(*ast.FuncLit); isLit {
						ok = true
						for _, name := range inside {
							if !hasCall(fl.Body, name) {
								ok = false
							}
						}
					}
				}
			}
			return true
		})
		// nothing that touches the buckets outside the closure
		return ok && nUpd == 1 && nView == 0
	}
	put("statusOneTransaction", oneTx("Status", "fetchStatus", "removeBannedIPNet"),
		"Status: one walletdb.Update whose closure both reads (fetchStatus) and purges (removeBannedIPNet); no other transaction")
	put("banOneTransaction", oneTx("BanIPNet", "addBannedIPNet"), "BanIPNet: one walletdb.Update")
	put("unbanOneTransaction", oneTx("UnbanIPNet", "removeBannedIPNet"), "UnbanIPNet: one walletdb.Update")
	if fd := funcDecl(store, "", "fetchStatus"); fd == nil {
		fail("banman/store.go: func fetchStatus")
	} else {
		body := squeeze(src(fd.Body))
		put("fetchReadsSeconds", strings.Contains(body, "banExpiration:=time.Unix(int64(byteOrder.Uint64(v)),0)") && strings.Contains(body, "ifv==nil{returnStatus{}}"),
			"fetchStatus: absent key gives the zero Status; the value is Unix seconds")
	}
	reason := parse("banman/reason.go")
	ncf, okr := constInt(reason, "NoCompactFilters")
	if !okr {
		fail("banman/reason.go: const NoCompactFilters")
	}
	l.def("reasonNoCompactFilters", "Nat", strconv.Itoa(ncf), "")

	// ---- neutrino.go
	nf := parse("neutrino.go")
	dur := declSrc(nf, "BanDuration")
	durMs := int64(-1)
	if strings.HasPrefix(dur, "time.Hour*") {
		if n, err := strconv.ParseInt(strings.TrimPrefix(dur, "time.Hour*"), 10, 64); err == nil {
			durMs = n * 3600 * 1000
		}
	}
	if durMs < 0 {
		fail("neutrino.go: BanDuration = time.Hour * <n> (found %q)", dur)
		durMs = 0
	}
	l.def("banDurationMs", "Int", strconv.FormatInt(durMs, 10), "BanDuration = "+dur)
	shape["banDuration"] = dur

	if fd := funcDecl(nf, "ServerPeer", "OnVersion"); fd == nil {
		fail("neutrino.go: method ServerPeer.OnVersion")
	} else {
		found := false
		defs := localDefs(fd.Body)
		for _, is := range ifStmts(fd.Body) {
			var ban *ast.CallExpr
			ast.Inspect(is.Body, func(x ast.Node) bool {
				if ce, ok := x.(*ast.CallExpr); ok && squeeze(src(ce.Fun)) == "sp.server.BanPeer" && ban == nil {
					ban = ce
				}
				return true
			})
			if ban == nil {
				continue
			}
			found = true
			// the truth table of the test over {neither, WITNESS only, CF only, both} (NETWORK always offered):
			// whatever its spelling, the peer is rejected iff it does not offer both
			var table []string
			for _, sv := range []int64{1, 1 | 8, 1 | 64, 1 | 8 | 64} {
				r := (&evalEnv{defs: defs, services: sv}).eval(is.Cond)
				switch v := r.(type) {
				case bool:
					table = append(table, lbool(v))
				default:
					table = append(table, "unknown")
				}
			}
			l.def("onVersionRejects", "List String", lstrs(table),
				"does OnVersion's service test reject a peer offering NETWORK plus: nothing, WITNESS, CF, WITNESS|CF")
			shape["onVersionRejects"] = table
			put("onVersionBans", len(ban.Args) == 2 && resolvesTo(defs, ban.Args[0], "sp.Addr()") &&
				squeeze(src(ban.Args[1])) == "banman.NoCompactFilters",
				"under that test OnVersion calls BanPeer(sp.Addr(), NoCompactFilters)")
			put("onVersionDisconnects", hasCall(is.Body, "sp.Disconnect") && callPos(is.Body, "sp.Disconnect") > callPos(is.Body, "sp.server.BanPeer") && endsWithReturn(is.Body),
				"and then disconnects the peer and returns")
			break
		}
		if !found {
			fail("neutrino.go: OnVersion: if-statement calling sp.server.BanPeer")
		}
	}

	if fd := funcDecl(nf, "ChainService", "handleAddPeerMsg"); fd == nil {
		fail("neutrino.go: method ChainService.handleAddPeerMsg")
	} else {
		// what the proofs need: a top-level `if s.IsBanned(sp.Addr()) { …sp.Disconnect()…; return false }` that
		// precedes every use of the peer state (`state.…`: counting, recording, group bookkeeping), however
		// the recording itself is written
		ok := false
		var guardEnd token.Pos
		for _, st := range fd.Body.List {
			is, isIf := st.(*ast.IfStmt)
			if !isIf || is.Init != nil || is.Else != nil {
				continue
			}
			if squeeze(src(is.Cond)) != "s.IsBanned(sp.Addr())" || !hasCall(is.Body, "sp.Disconnect") || len(is.Body.List) == 0 {
				continue
			}
			if rs, isRet := is.Body.List[len(is.Body.List)-1].(*ast.ReturnStmt); isRet && len(rs.Results) == 1 && squeeze(src(rs.Results[0])) == "false" {
				ok, guardEnd = true, is.End()
				break
			}
		}
		uses := 0
		ast.Inspect(fd.Body, func(x ast.Node) bool {
			if se, isSel := x.(*ast.SelectorExpr); isSel {
				if id, isId := se.X.(*ast.Ident); isId && id.Name == "state" {
					uses++
					if se.Pos() < guardEnd || !ok {
						ok = false
					}
				}
			}
			return true
		})
		put("addPeerRefusesBanned", ok && uses > 0,
			"handleAddPeerMsg: a top-level `if s.IsBanned(sp.Addr()) { sp.Disconnect(); return false }` precedes every use of the peer state")
	}

	if fd := funcDecl(nf, "ChainService", "outboundPeerConnected"); fd == nil {
		fail("neutrino.go: method ChainService.outboundPeerConnected")
	} else {
		ok := false
		for _, is := range ifStmts(fd.Body) {
			if squeeze(src(is.Cond)) == "s.IsBanned(peerAddr)" && hasCall(is.Body, "disconnect") && endsWithReturn(is.Body) {
				np := callPos(fd.Body, "NewServerPeer")
				ap := callPos(fd.Body, "sp.AssociateConnection")
				ok = np != token.NoPos && ap != token.NoPos && is.Pos() < np && is.Pos() < ap &&
					strings.Contains(squeeze(src(fd.Body)), "peerAddr:=c.Addr.String()")
				break
			}
		}
		put("outboundRefusesBanned", ok,
			"outboundPeerConnected: `if s.IsBanned(c.Addr.String()) { disconnect(); return }` precedes creating the peer")
	}

	if fd := funcDecl(nf, "ChainService", "IsBanned"); fd == nil {
		fail("neutrino.go: method ChainService.IsBanned")
	} else {
		body := squeeze(src(fd.Body))
		put("isBannedUsesStore", strings.Contains(body, "ipNet,err:=banman.ParseIPNet(addr,nil)") &&
			strings.Contains(body, "banStatus,err:=s.banStore.Status(ipNet)") && strings.HasSuffix(body, "returnbanStatus.Banned}"),
			"IsBanned = banStore.Status(ParseIPNet(addr, nil)).Banned")
		// no memo: the only field of the ChainService IsBanned touches is the ban store, its first statement is
		// the parse, and it returns either false (error paths) or the Banned flag of the status just read
		fields := map[string]bool{}
		var rets []string
		ast.Inspect(fd.Body, func(x ast.Node) bool {
			switch v := x.(type) {
			case *ast.SelectorExpr:
				if id, ok := v.X.(*ast.Ident); ok && id.Name == "s" {
					fields[v.Sel.Name] = true
				}
			case *ast.ReturnStmt:
				var rs []string
				for _, r := range v.Results {
					rs = append(rs, squeeze(src(r)))
				}
				rets = append(rets, strings.Join(rs, ","))
			}
			return true
		})
		var fl []string
		for f := range fields {
			fl = append(fl, f)
		}
		sort.Strings(fl)
		first := ""
		if len(fd.Body.List) > 0 {
			first = squeeze(src(fd.Body.List[0]))
		}
		l.def("isBannedFields", "List String", lstrs(fl), "fields of the ChainService that IsBanned reads or writes")
		l.def("isBannedReturns", "List String", lstrs(rets), "what IsBanned returns, in source order")
		l.def("isBannedFirstStmt", "String", strconv.Quote(first), "IsBanned's first statement")
		shape["isBannedFields"], shape["isBannedReturns"] = fl, rets
	}
	if fd := funcDecl(nf, "ChainService", "BanPeer"); fd == nil {
		fail("neutrino.go: method ChainService.BanPeer")
	} else {
		body := squeeze(src(fd.Body))
		put("banPeerUsesStore", strings.Contains(body, "ipNet,err:=banman.ParseIPNet(addr,nil)") &&
			strings.HasSuffix(body, "returns.banStore.BanIPNet(ipNet,reason,BanDuration)}"),
			"BanPeer = banStore.BanIPNet(ParseIPNet(addr, nil), reason, BanDuration)")
		// the disconnects run in a goroutine started from a deferred function (so on every return path, the parse
		// error included): the goroutine's body is a literal or a same-file helper
		gb, ds := goBody(nf, fd)
		gbody := ""
		deferFirst := false
		if gb != nil {
			gbody = squeeze(src(gb))
			deferFirst = true
			ast.Inspect(fd.Body, func(x ast.Node) bool {
				if _, isLit := x.(*ast.FuncLit); isLit {
					return false // returns of nested functions are not returns of BanPeer
				}
				if rs, isRet := x.(*ast.ReturnStmt); isRet && rs.Pos() < ds.Pos() {
					deferFirst = false
				}
				return true
			})
		}
		put("banPeerDeferBeforeReturns", deferFirst,
			"BanPeer installs its deferred disconnect (defer func() { go … }()) before any return statement")
		put("banPeerDisconnects", strings.Contains(gbody, "ifsp:=s.PeerByAddr(addr);sp!=nil{sp.Disconnect()}"),
			"the goroutine disconnects PeerByAddr(addr)")
		put("banPeerDisconnectsNetwork",
			strings.Contains(gbody, "banned,err:=banman.ParseIPNet(addr,nil)iferr!=nil{return}") &&
				strings.Contains(gbody, "for_,sp:=ranges.Peers(){peerNet,err:=banman.ParseIPNet(sp.Addr(),nil)iferr!=nil{continue}ifpeerNet.String()==banned.String(){sp.Disconnect()}}"),
			"and then every peer of s.Peers() whose address parses to the banned network (ParseIPNet(sp.Addr(), nil).String() == ParseIPNet(addr, nil).String())")
	}
	// BanPeer call sites outside neutrino.go: the SET of (file, reason) pairs (a call moved into a helper of the
	// same file, or two identical calls folded into one, is the same set), and what the GetBlock handler does
	// with a block that fails validation, following calls into same-file helpers.
	isBan := func(c call) bool {
		n := strings.TrimPrefix(c.name, "defer ")
		return (n == "s.BanPeer" || strings.HasSuffix(n, "cfg.BanPeer")) && len(c.args) == 2
	}
	reasons := map[string]bool{}
	for _, file := range []string{"query.go", "blockmanager.go"} {
		ff := parse(file)
		if ff == nil {
			continue
		}
		for _, c := range calls(ff) {
			if isBan(c) {
				reasons[file+":"+squeeze(c.args[1])] = true
			}
		}
	}
	var rl []string
	for r := range reasons {
		rl = append(rl, r)
	}
	sort.Strings(rl)
	l.def("banPeerReasons", "List String", lstrs(rl), "the set of file:reason pairs of the BanPeer calls in query.go and blockmanager.go (sorted)")
	shape["banPeerReasons"] = rl
	qf := parse("query.go")
	getBlockBans := false
	if fd := funcDecl(qf, "ChainService", "GetBlock"); fd == nil {
		fail("query.go: method ChainService.GetBlock")
	} else {
		for _, c := range callsInlined(qf, fd.Body) {
			if isBan(c) && squeeze(c.args[1]) == "banman.InvalidBlock" {
				getBlockBans = true
			}
		}
	}
	put("getBlockBansInvalidBlock", getBlockBans, "GetBlock (helpers of query.go included) calls BanPeer(peer, banman.InvalidBlock)")
	facts["ban"] = shape
}
