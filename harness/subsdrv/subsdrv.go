// Package subsdrv drives the REAL blockntfns.SubscriptionManager with a scripted
// NotificationSource and scripted subscribers (fast, slow, never reading,
// self-cancelling) and writes the line protocol for lean/Driver/Drv/Subs.lean.
//
// Two kinds of case:
//
//	det   every call is followed by a barrier (the handler goroutine is back at
//	      its select: counted through Source.Notifications(); every forwarder has
//	      filled its subscriber's channel: len(chan) polled with a bounded wait),
//	      so every observation is deterministic and is compared with the model.
//	free  consumers run as goroutines and race with emission, Cancel and Stop;
//	      only the property oracle is evaluated on what they received.
//
// The cases run in a child process (this binary re-executed with driver
// "subschild"): a send on a closed channel panics in a goroutine of the package
// under test, which no recover() of ours can catch; the parent turns a dead
// child into a `status => PANIC ...` observation of the case that was running
// and carries on with the next case.
package subsdrv

import (
	"bufio"
	"bytes"
	"fmt"
	"math/rand"
	"os"
	"os/exec"
	"runtime"
	"strconv"
	"strings"
	"sync"
	"sync/atomic"
	"time"

	"github.com/btcsuite/btcd/wire/v2"
	"github.com/lightninglabs/neutrino/blockntfns"
	"verifharness/tr"
)

func init() {
	tr.Register("subs", parent)
	tr.Register("subschild", child)
}

// ---------------------------------------------------------------------------
// notifications

type ev struct {
	serial int
	conn   bool
	height uint32
}

func (e ev) String() string {
	k := "d"
	if e.conn {
		k = "c"
	}
	return fmt.Sprintf("%s%d.%d", k, e.height, e.serial)
}

func (e ev) ntfn() blockntfns.BlockNtfn {
	h := wire.BlockHeader{Nonce: uint32(e.serial)}
	if e.conn {
		return blockntfns.NewBlockConnected(h, e.height)
	}
	return blockntfns.NewBlockDisconnected(h, e.height, wire.BlockHeader{})
}

func text(n blockntfns.BlockNtfn) string {
	switch v := n.(type) {
	case *blockntfns.Connected:
		return fmt.Sprintf("c%d.%d", v.Height(), v.Header().Nonce)
	case *blockntfns.Disconnected:
		return fmt.Sprintf("d%d.%d", v.Height(), v.Header().Nonce)
	case nil:
		return "nil"
	default:
		return fmt.Sprintf("?%T", n)
	}
}

func evList(es []ev) string { return tr.Join(es, func(e ev) string { return e.String() }) }

// ---------------------------------------------------------------------------
// scripted source

type source struct {
	ch    chan blockntfns.BlockNtfn
	calls atomic.Int64 // Notifications() invocations = handler select entries

	mu       sync.Mutex
	backlog  []ev
	fail     bool
	lastSeen uint32
}

func (s *source) Notifications() <-chan blockntfns.BlockNtfn {
	s.calls.Add(1)
	return s.ch
}

func (s *source) NotificationsSinceHeight(h uint32) ([]blockntfns.BlockNtfn, uint32, error) {
	s.mu.Lock()
	defer s.mu.Unlock()
	s.lastSeen = h
	if s.fail {
		return nil, 0, fmt.Errorf("scripted backlog failure")
	}
	out := make([]blockntfns.BlockNtfn, len(s.backlog))
	for i, e := range s.backlog {
		out[i] = e.ntfn()
	}
	return out, h + uint32(len(out)), nil
}

// ---------------------------------------------------------------------------
// world

const (
	opTimeout   = 1500 * time.Millisecond // watchdog for one call / one receive
	pollTimeout = 1500 * time.Millisecond // bounded wait for a quiescence condition
)

type out struct {
	f *os.File
}

func (o *out) line(format string, a ...any) { fmt.Fprintf(o.f, format+"\n", a...) }
func (o *out) op(op, obs string)            { o.line("%s => %s", op, obs) }
func (o *out) hit(k string)                 { o.line("#hit %s", k) }

type subscriber struct {
	id      int
	s       *blockntfns.Subscription
	pending int  // harness bookkeeping: pushed to it and not yet read (live), or left in the channel (ended)
	ended   bool // cancelled or manager stopped
	closed  bool // consumer saw the close

	// free mode
	role    string
	mu      sync.Mutex
	got     []string
	sawEnd  bool
	done    chan struct{}
	cancelN int
}

type world struct {
	o        *out
	src      *source
	m        *blockntfns.SubscriptionManager
	subs     []*subscriber
	stopped  bool
	expCalls int64
	serial   int
	tip      uint32
	stalled  bool
	det      bool
}

func newWorld(o *out, tip uint32, det bool) *world {
	w := &world{o: o, src: &source{ch: make(chan blockntfns.BlockNtfn)}, tip: tip, det: det}
	w.m = blockntfns.NewSubscriptionManager(w.src)
	w.m.Start()
	w.expCalls = 1
	w.barrier()
	return w
}

// guard runs f with a watchdog and a recover; returns "", "HANG" or "PANIC ...".
func guard(f func()) string {
	res := make(chan string, 1)
	go func() {
		defer func() {
			if r := recover(); r != nil {
				res <- fmt.Sprintf("PANIC %v", r)
			}
		}()
		f()
		res <- ""
	}()
	select {
	case r := <-res:
		return r
	case <-time.After(opTimeout):
		return "HANG"
	}
}

func waitFor(cond func() bool) bool {
	dl := time.Now().Add(pollTimeout)
	for i := 0; ; i++ {
		if cond() {
			return true
		}
		if time.Now().After(dl) {
			return false
		}
		if i < 200 {
			runtime.Gosched()
		} else {
			time.Sleep(20 * time.Microsecond)
		}
	}
}

// barrier: the handler goroutine has finished every message handed to it and is
// back at its select.
func (w *world) barrier() {
	if w.stopped {
		return
	}
	if !waitFor(func() bool { return w.src.calls.Load() >= w.expCalls }) {
		w.stall("handler did not return to its select")
	}
}

func (w *world) stall(why string) {
	if !w.stalled {
		w.o.line("# stall: %s", why)
	}
	w.stalled = true
}

// quiesce: every forwarder has moved what it can into its subscriber's channel.
func (w *world) quiesce(s *subscriber) {
	if s.s == nil || s.ended || w.stalled {
		return
	}
	want := s.pending
	if c := cap(s.s.Notifications); want > c {
		want = c
	}
	if !waitFor(func() bool { return len(s.s.Notifications) == want }) {
		w.stall(fmt.Sprintf("subscriber %d: channel holds %d, want %d", s.id, len(s.s.Notifications), want))
	}
}

func (w *world) quiesceAll() {
	for _, s := range w.subs {
		w.quiesce(s)
	}
}

func (w *world) fresh(conn bool, h uint32) ev {
	w.serial++
	return ev{w.serial, conn, h}
}

func (w *world) backlogFrom(h uint32) []ev {
	var bl []ev
	if h == 0 {
		return nil
	}
	for x := h + 1; x <= w.tip; x++ {
		bl = append(bl, w.fresh(true, x))
	}
	return bl
}

// subscribe performs NewSubscription(h) with the scripted backlog.
func (w *world) subscribe(h uint32, fail bool) *subscriber {
	id := len(w.subs) + 1
	var bl []ev
	if !fail {
		bl = w.backlogFrom(h)
	}
	w.src.mu.Lock()
	w.src.backlog, w.src.fail, w.src.lastSeen = bl, fail, 1<<31
	w.src.mu.Unlock()
	var sub *blockntfns.Subscription
	var err error
	g := guard(func() { sub, err = w.m.NewSubscription(h) })
	s := &subscriber{id: id}
	opText := fmt.Sprintf("sub %d %d %s", id, h, evList(bl))
	if fail {
		opText = fmt.Sprintf("subfail %d %d", id, h)
	}
	switch {
	case g != "":
		w.o.op(opText, g)
		w.stalled = true
	case err == blockntfns.ErrSubscriptionManagerStopped:
		w.o.op(opText, "stopped")
		w.o.hit("sub.stopped")
	case err != nil:
		w.o.op(opText, "err")
		w.o.hit("sub.err")
		w.expCalls++
	default:
		w.src.mu.Lock()
		seen := w.src.lastSeen
		w.src.mu.Unlock()
		w.o.op(opText, fmt.Sprintf("ok %d", seen))
		w.expCalls++
		s.s, s.pending = sub, len(bl)
		w.o.hit("sub.ok")
		if len(bl) > 20 {
			w.o.hit("sub.backlog>cap")
		} else if len(bl) > 0 {
			w.o.hit("sub.backlog")
		}
	}
	w.subs = append(w.subs, s)
	if w.det {
		w.barrier()
		w.quiesce(s)
	}
	return s
}

// emit hands one notification to the handler goroutine.
func (w *world) emit(e ev, det bool) {
	if w.stopped {
		select {
		case w.src.ch <- e.ntfn():
			w.o.op("emit "+e.String(), "ok")
		case <-time.After(3 * time.Millisecond):
			w.o.op("emit "+e.String(), "blocked")
			w.o.hit("emit.blocked")
		}
		return
	}
	select {
	case w.src.ch <- e.ntfn():
		w.o.op("emit "+e.String(), "ok")
		w.o.hit("emit.ok")
	case <-time.After(opTimeout):
		w.o.op("emit "+e.String(), "HANG")
		w.stalled = true
		return
	}
	w.expCalls++
	if e.conn {
		w.tip = e.height
	} else if e.height > 0 {
		w.tip = e.height - 1
	}
	for _, s := range w.subs {
		if s.s != nil && !s.ended {
			s.pending++
		}
	}
	if det {
		w.barrier()
		w.quiesceAll()
	}
}

func (w *world) nextEv(r *rand.Rand) ev {
	if w.tip > 1 && r.Intn(6) == 0 {
		return w.fresh(false, w.tip)
	}
	return w.fresh(true, w.tip+1)
}

// recvOne: one receive with a watchdog.  ok=false,closed=true on close; ok=false,closed=false on timeout.
func recvOne(ch chan blockntfns.BlockNtfn, d time.Duration) (string, bool, bool) {
	select {
	case n, ok := <-ch:
		if !ok {
			return "", false, true
		}
		return text(n), true, false
	default:
	}
	t := time.NewTimer(d)
	defer t.Stop()
	select {
	case n, ok := <-ch:
		if !ok {
			return "", false, true
		}
		return text(n), true, false
	case <-t.C:
		return "", false, false
	}
}

func (w *world) read(s *subscriber, k int) {
	var items []string
	tail := "ok"
	for len(items) < k {
		it, ok, closed := recvOne(s.s.Notifications, opTimeout)
		if ok {
			items = append(items, it)
			if s.pending > 0 {
				s.pending--
			}
			continue
		}
		if closed {
			tail, s.closed = "closed", true
		} else {
			tail = "timeout"
			w.stalled = true
		}
		break
	}
	w.o.op(fmt.Sprintf("read %d %d", s.id, k), "["+strings.Join(items, " ")+"] "+tail)
	w.o.hit("read." + tail)
	w.quiesce(s)
}

func (w *world) poll(s *subscriber) {
	select {
	case n, ok := <-s.s.Notifications:
		if !ok {
			s.closed = true
			w.o.op(fmt.Sprintf("poll %d", s.id), "closed")
			w.o.hit("poll.closed")
		} else {
			if s.pending > 0 {
				s.pending--
			}
			w.o.op(fmt.Sprintf("poll %d", s.id), "item "+text(n))
			w.o.hit("poll.item")
		}
	default:
		w.o.op(fmt.Sprintf("poll %d", s.id), "empty")
		w.o.hit("poll.empty")
	}
	w.quiesce(s)
}

func (w *world) cancel(s *subscriber) {
	g := guard(s.s.Cancel)
	if g != "" {
		w.o.op(fmt.Sprintf("cancel %d", s.id), g)
		w.stalled = true
		return
	}
	w.o.op(fmt.Sprintf("cancel %d", s.id), "ok")
	if !w.stopped {
		w.expCalls++
		w.barrier()
		if !s.ended {
			if s.pending > 20 {
				w.o.hit("cancel.pending>cap")
			} else if s.pending > 0 {
				w.o.hit("cancel.pending")
			} else {
				w.o.hit("cancel.drained")
			}
			s.ended = true
			s.pending = len(s.s.Notifications)
		} else {
			w.o.hit("cancel.again")
		}
	} else {
		w.o.hit("cancel.afterstop")
	}
}

func (w *world) stop() {
	g := guard(w.m.Stop)
	if g != "" {
		w.o.op("stop", g)
		w.stalled = true
		w.stopped = true
		return
	}
	w.o.op("stop", "ok")
	if !w.stopped {
		for _, s := range w.subs {
			if s.s != nil && !s.ended {
				if s.pending > 20 {
					w.o.hit("stop.pending>cap")
				} else if s.pending > 0 {
					w.o.hit("stop.pending")
				}
				s.ended = true
				s.pending = len(s.s.Notifications)
			}
		}
	} else {
		w.o.hit("stop.again")
	}
	w.stopped = true
}

// ---------------------------------------------------------------------------
// det cases

func (w *world) liveSubs() []*subscriber {
	var l []*subscriber
	for _, s := range w.subs {
		if s.s != nil {
			l = append(l, s)
		}
	}
	return l
}

func detCase(o *out, idx int, r *rand.Rand, thorough bool) {
	profile := []string{"random", "stall", "cancelbacklog", "stoppending", "random", "afterstop"}[r.Intn(6)]
	tip := uint32(r.Intn(8))
	if profile == "cancelbacklog" || r.Intn(4) == 0 {
		tip = uint32(20 + r.Intn(60))
	}
	o.line("case %d det %s tip %d", idx, profile, tip)
	w := newWorld(o, tip, true)
	maxSubs := 2 + r.Intn(3)
	nops := 8 + r.Intn(25)
	if thorough {
		nops += r.Intn(40)
	}
	pickHeight := func() uint32 {
		switch r.Intn(5) {
		case 0:
			return 0
		case 1:
			return w.tip + uint32(r.Intn(3))
		case 2:
			if w.tip > 25 {
				return w.tip - 21 - uint32(r.Intn(int(w.tip)-24))
			}
			return 1
		default:
			if w.tip == 0 {
				return 0
			}
			return 1 + uint32(r.Intn(int(w.tip)))
		}
	}
	w.subscribe(pickHeight(), false)
	if profile != "random" {
		w.subscribe(pickHeight(), false)
	}
	burst := func(n int) {
		for i := 0; i < n && !w.stalled; i++ {
			w.emit(w.nextEv(r), true)
		}
	}
	switch profile {
	case "stall":
		// subscriber 1 never reads while more than channel+queue-buffer+1 notifications arrive
		burst(42 + r.Intn(40))
		o.hit("profile.stall")
	case "cancelbacklog":
		o.hit("profile.cancelbacklog")
	case "stoppending":
		burst(5 + r.Intn(40))
		o.hit("profile.stoppending")
	}
	for i := 0; i < nops && !w.stalled; i++ {
		ls := w.liveSubs()
		var s *subscriber
		if len(ls) > 0 {
			s = ls[r.Intn(len(ls))]
		}
		x := r.Intn(100)
		switch {
		case x < 8 && len(w.subs) < maxSubs+2:
			w.subscribe(pickHeight(), r.Intn(8) == 0)
		case x < 38:
			if w.stopped && r.Intn(8) != 0 {
				continue
			}
			if r.Intn(8) == 0 {
				burst(15 + r.Intn(30))
			} else {
				burst(1 + r.Intn(3))
			}
		case x < 62 && s != nil:
			if profile == "stall" && s.id == 1 && !s.ended {
				continue
			}
			if s.ended {
				w.read(s, 1+r.Intn(25))
			} else if s.pending > 0 {
				k := 1 + r.Intn(s.pending)
				if r.Intn(3) == 0 {
					k = s.pending
				} else if k > 6 && r.Intn(2) == 0 {
					k = 1 + r.Intn(6)
				}
				w.read(s, k)
			} else {
				w.poll(s)
			}
		case x < 72 && s != nil:
			if profile == "stall" && s.id == 1 && !s.ended {
				continue
			}
			w.poll(s)
		case x < 84 && s != nil:
			w.o.op(fmt.Sprintf("len %d", s.id), strconv.Itoa(len(s.s.Notifications)))
			o.hit("len")
		case x < 93 && s != nil:
			if profile == "stoppending" && r.Intn(2) == 0 {
				continue
			}
			w.cancel(s)
		case x >= 97 || (profile == "afterstop" && x >= 90):
			w.stop()
		}
	}
	// final: stop and read every channel to its end.  If a quiescence wait
	// failed, first ask every live subscriber for what it is owed, so that the
	// trace shows what is missing.
	if w.stalled {
		stalledCases++
		o.hit("case.stalled")
		for _, s := range w.liveSubs() {
			if !s.ended && s.pending > 0 {
				w.read(s, s.pending)
			}
		}
	}
	w.stop()
	for _, s := range w.liveSubs() {
		if profile == "stall" && s.id == 1 {
			o.hit("final.stalled-sub")
		}
		w.read(s, 1000)
	}
}

var stalledCases int

// ---------------------------------------------------------------------------
// free cases

func (s *subscriber) consume(w *world, slow bool, r *rand.Rand) {
	defer close(s.done)
	n := 0
	for {
		it, ok := <-s.s.Notifications
		if !ok {
			s.mu.Lock()
			s.sawEnd = true
			s.mu.Unlock()
			return
		}
		s.mu.Lock()
		s.got = append(s.got, text(it))
		s.mu.Unlock()
		n++
		if s.cancelN > 0 && n == s.cancelN {
			s.s.Cancel()
		}
		if slow {
			if r.Intn(4) == 0 {
				time.Sleep(time.Duration(r.Intn(30)) * time.Microsecond)
			} else {
				runtime.Gosched()
			}
		}
	}
}

func freeCase(o *out, idx int, r *rand.Rand, thorough bool) {
	tip := uint32(r.Intn(40))
	o.line("case %d free tip %d", idx, tip)
	w := newWorld(o, tip, false)
	nsubs := 2 + r.Intn(4)
	total := 20 + r.Intn(120)
	if thorough {
		total += r.Intn(300)
	}
	var cancellers sync.WaitGroup
	addSub := func() {
		h := uint32(0)
		if w.tip > 0 && r.Intn(3) != 0 {
			h = 1 + uint32(r.Intn(int(w.tip)))
		}
		s := w.subscribe(h, false)
		if s.s == nil {
			return
		}
		s.role = []string{"fast", "fast", "slow", "never", "cancelafter", "cancelrace"}[r.Intn(6)]
		s.done = make(chan struct{})
		sr := rand.New(rand.NewSource(r.Int63()))
		switch s.role {
		case "fast", "slow":
			o.op(fmt.Sprintf("role %d fast", s.id), "-")
			go s.consume(w, s.role == "slow", sr)
		case "never":
			o.op(fmt.Sprintf("role %d never", s.id), "-")
			close(s.done)
		case "cancelafter":
			s.cancelN = 1 + r.Intn(30)
			o.op(fmt.Sprintf("role %d cancelafter", s.id), "-")
			go s.consume(w, r.Intn(2) == 0, sr)
		case "cancelrace":
			o.op(fmt.Sprintf("role %d cancelrace", s.id), "-")
			go s.consume(w, r.Intn(2) == 0, sr)
			d := time.Duration(r.Intn(400)) * time.Microsecond
			cancellers.Add(1)
			go func() {
				defer cancellers.Done()
				time.Sleep(d)
				s.s.Cancel()
			}()
		}
		o.hit("role." + s.role)
	}
	addSub()
	settle := func() {
		var parts []string
		for _, s := range w.liveSubs() {
			if s.role != "fast" && s.role != "slow" {
				continue
			}
			want := s.pending
			waitFor(func() bool { s.mu.Lock(); defer s.mu.Unlock(); return len(s.got) >= want })
			s.mu.Lock()
			parts = append(parts, fmt.Sprintf("%d:%d", s.id, len(s.got)))
			s.mu.Unlock()
		}
		o.op("settle", "["+strings.Join(parts, " ")+"]")
		o.hit("settle")
	}
	for i := 0; i < total && !w.stalled; i++ {
		if len(w.subs) < nsubs && r.Intn(10) == 0 {
			addSub()
		}
		w.emit(w.nextEv(r), false)
		if r.Intn(40) == 0 {
			settle()
		}
		if r.Intn(6) == 0 {
			runtime.Gosched()
		}
	}
	for len(w.subs) < nsubs && !w.stalled {
		addSub()
	}
	if r.Intn(2) == 0 && !w.stalled {
		settle()
	}
	w.stop()
	if g := guard(cancellers.Wait); g != "" {
		o.op("status", g+" Cancel never returned")
	}
	for _, s := range w.liveSubs() {
		select {
		case <-s.done:
		case <-time.After(opTimeout):
			// the consumer is still blocked: the channel was never closed
		}
		if s.role == "never" {
			for {
				it, ok, closed := recvOne(s.s.Notifications, 50*time.Millisecond)
				if ok {
					s.got = append(s.got, it)
					continue
				}
				s.sawEnd = closed
				break
			}
		}
		s.mu.Lock()
		tail := "open"
		if s.sawEnd {
			tail = "closed"
		}
		o.op(fmt.Sprintf("recv %d", s.id), "["+strings.Join(s.got, " ")+"] "+tail)
		if len(s.got) > 20 {
			o.hit("recv>cap")
		}
		s.mu.Unlock()
	}
}

// stopRaceCase: the source keeps emitting while Stop() executes.  Between
// close(m.quit) and the handler's exit every push is a coin toss per client
// (notifySubscriber selects between the queue and m.quit), which the model's
// atomic stop does not cover; run only on request (SUBS_STOPRACE=<cases>), its
// oracle failures carry the shape suffix "-during-stop".
func stopRaceCase(o *out, idx int, r *rand.Rand) {
	o.line("case %d stoprace", idx)
	w := newWorld(o, 0, false)
	nsubs := 1 + r.Intn(3)
	for i := 0; i < nsubs; i++ {
		s := w.subscribe(0, false)
		if s.s == nil {
			return
		}
		s.role, s.done = "racefast", make(chan struct{})
		o.op(fmt.Sprintf("role %d racefast", s.id), "-")
		go s.consume(w, r.Intn(3) == 0, rand.New(rand.NewSource(r.Int63())))
	}
	evs := make([]ev, 400)
	for i := range evs {
		evs[i] = w.fresh(true, uint32(i+1))
	}
	var sent []ev
	quit, done := make(chan struct{}), make(chan struct{})
	go func() {
		defer close(done)
		for _, e := range evs {
			select {
			case w.src.ch <- e.ntfn():
				sent = append(sent, e)
			case <-quit:
				return
			}
		}
	}()
	time.Sleep(time.Duration(r.Intn(200)) * time.Microsecond)
	g := guard(w.m.Stop)
	close(quit)
	<-done
	for _, e := range sent {
		o.op("emit "+e.String(), "ok")
	}
	if g == "" {
		g = "ok"
	}
	o.op("stop", g)
	o.hit("stoprace")
	for _, s := range w.liveSubs() {
		select {
		case <-s.done:
		case <-time.After(opTimeout):
		}
		s.mu.Lock()
		tail := "open"
		if s.sawEnd {
			tail = "closed"
		}
		o.op(fmt.Sprintf("recv %d", s.id), "["+strings.Join(s.got, " ")+"] "+tail)
		s.mu.Unlock()
	}
}

// ---------------------------------------------------------------------------
// child: runs cases [SUBS_FROM, SUBS_TO), writing unbuffered to SUBS_OUT

func caseRng(idx int) *rand.Rand {
	return rand.New(rand.NewSource(tr.Seed()*1000003 + int64(idx)*7919 + 11))
}

func child(_ *tr.W, thorough bool) {
	from, to := tr.EnvInt("SUBS_FROM", 0), tr.EnvInt("SUBS_TO", 0)
	f, err := os.OpenFile(os.Getenv("SUBS_OUT"), os.O_CREATE|os.O_WRONLY|os.O_APPEND, 0o644)
	if err != nil {
		panic(err)
	}
	defer f.Close()
	o := &out{f: f}
	for idx := from; idx < to; idx++ {
		r := caseRng(idx)
		if idx >= tr.EnvInt("SUBS_N", 1<<30) {
			stopRaceCase(o, idx, r)
		} else if idx%3 == 2 {
			freeCase(o, idx, r, thorough)
		} else {
			detCase(o, idx, r, thorough)
		}
		o.line("#end %d", idx)
		if stalledCases >= 4 {
			o.line("# giving up: %d cases did not reach quiescence", stalledCases)
			break
		}
	}
}

// ---------------------------------------------------------------------------
// parent

func parent(t *tr.W, thorough bool) {
	n := 450 * tr.EnvInt("VERIF_BUDGET", 1)
	if thorough {
		n *= 8
	}
	regular := n
	n += tr.EnvInt("SUBS_STOPRACE", 0)
	dir, err := os.MkdirTemp("", "subsdrv")
	if err != nil {
		panic(err)
	}
	defer os.RemoveAll(dir)
	crashes := 0
	for from := 0; from < n; {
		outPath := fmt.Sprintf("%s/child-%d.trace", dir, from)
		cmd := exec.Command(os.Args[0], "subschild", outPath+".unused")
		cmd.Env = append(os.Environ(), "SUBS_FROM="+strconv.Itoa(from), "SUBS_TO="+strconv.Itoa(n), "SUBS_OUT="+outPath, "SUBS_N="+strconv.Itoa(regular))
		var stderr bytes.Buffer
		cmd.Stderr = &stderr
		cmd.Stdout = &stderr
		done := make(chan error, 1)
		if err := cmd.Start(); err != nil {
			panic(err)
		}
		go func() { done <- cmd.Wait() }()
		var werr error
		killed := false
		limit := 5 * time.Minute
		if thorough {
			limit = 14 * time.Minute
		}
		select {
		case werr = <-done:
		case <-time.After(limit):
			cmd.Process.Kill()
			werr, killed = <-done, true
		}
		// replay the child's lines into the trace
		last, ended := from-1, true
		if fh, err := os.Open(outPath); err == nil {
			sc := bufio.NewScanner(fh)
			sc.Buffer(make([]byte, 1<<20), 1<<26)
			for sc.Scan() {
				ln := sc.Text()
				switch {
				case strings.HasPrefix(ln, "case "):
					parts := strings.SplitN(ln, " ", 3)
					last, _ = strconv.Atoi(parts[1])
					ended = false
					t.Case("%s idx %d", parts[2], last)
				case strings.HasPrefix(ln, "#end "):
					ended = true
				case strings.HasPrefix(ln, "#hit "):
					t.Hit(strings.TrimPrefix(ln, "#hit "))
				case strings.HasPrefix(ln, "#"):
					t.Line("%s", ln)
				default:
					if i := strings.Index(ln, " => "); i >= 0 {
						t.Op(ln[:i], ln[i+4:])
					}
				}
			}
			fh.Close()
		}
		os.Remove(outPath + ".unused")
		if werr == nil && !killed {
			break
		}
		crashes++
		msg := "child process died"
		for _, l := range strings.Split(stderr.String(), "\n") {
			if strings.HasPrefix(l, "panic:") || strings.HasPrefix(l, "fatal error:") {
				msg = strings.TrimSpace(l)
				break
			}
		}
		if ended {
			// died between cases: attribute to a fresh pseudo-case
			t.Case("crash between cases")
		}
		if killed {
			t.Op("status", "HANG child process exceeded its time limit")
		} else {
			t.Op("status", "PANIC "+msg)
		}
		t.Hit("child.crash")
		from = last + 1
		if crashes >= 6 {
			t.Line("# giving up after %d crashes", crashes)
			break
		}
	}
}
