// Package subsdrv drives the REAL blockntfns.SubscriptionManager with a scripted
// NotificationSource and scripted subscribers (fast, slow, never reading,
// self-cancelling) and writes the line protocol for lean/Driver/Drv/Subs.lean.
//
// Two kinds of case:
//
//	det   every call is followed by a barrier (the handler goroutine is back at
//	      its select: counted through Source.Notifications(); every forwarder has
//	      filled its subscriber's channel: len(chan) polled with a bounded wait),
//	      so every observation is deterministic and is compared with the model.
//	free  consumers run as goroutines and race with emission, Cancel and Stop;
//	      only the property oracle is evaluated on what they received.
//
// The cases run in a child process (this binary re-executed with driver
// "subschild"): a send on a closed channel panics in a goroutine of the package
// under test, which no recover() of ours can catch; the parent turns a dead
// child into a `status => PANIC ...` observation of the case that was running
// and carries on with the next case.
package subsdrv

import (
	"bufio"
	"bytes"
	"fmt"
	"math/rand"
	"os"
	"os/exec"
	"runtime"
	"sort"
	"strconv"
	"strings"
	"sync"
	"sync/atomic"
	"time"

	"github.com/btcsuite/btcd/wire/v2"
	"github.com/lightninglabs/neutrino/blockntfns"
	"verifharness/tr"
)

func init() {
	tr.Register("subs", parent)
	tr.Register("subschild", child)
}

// ---------------------------------------------------------------------------
// notifications

type ev struct {
	serial int
	conn   bool
	height uint32
}

func (e ev) String() string {
	k := "d"
	if e.conn {
		k = "c"
	}
	return fmt.Sprintf("%s%d.%d", k, e.height, e.serial)
}

func (e ev) ntfn() blockntfns.BlockNtfn {
	h := wire.BlockHeader{Nonce: uint32(e.serial)}
	if e.conn {
		return blockntfns.NewBlockConnected(h, e.height)
	}
	return blockntfns.NewBlockDisconnected(h, e.height, wire.BlockHeader{})
}

func text(n blockntfns.BlockNtfn) string {
	switch v := n.(type) {
	case *blockntfns.Connected:
		return fmt.Sprintf("c%d.%d", v.Height(), v.Header().Nonce)
	case *blockntfns.Disconnected:
		return fmt.Sprintf("d%d.%d", v.Height(), v.Header().Nonce)
	case nil:
		return "nil"
	default:
		return fmt.Sprintf("?%T", n)
	}
}

func evList(es []ev) string { return tr.Join(es, func(e ev) string { return e.String() }) }

// ---------------------------------------------------------------------------
// scripted source

type source struct {
	ch    chan blockntfns.BlockNtfn
	calls atomic.Int64 // Notifications() invocations = handler select entries

	mu sync.Mutex
	// lookup computes the backlog from the source's state AT THE TIME OF THE
	// CALL (it runs inside NotificationsSinceHeight, before the gate).
	lookup func(h uint32) []ev
	fail   bool
	// gate, when non-nil, parks the (single) next NotificationsSinceHeight call
	// after it has taken its snapshot: parked is closed on entry, the call
	// returns when gate is closed.
	gate   chan struct{}
	parked chan struct{}

	lastSeen    uint32
	lastBacklog []ev
	lookups     int

	// regstop "aligned" mode, see Notifications()
	armAck   bool // the next lookup arms afterAck
	afterAck atomic.Bool
	ackSeen  atomic.Bool
	ackHold  time.Duration
}

func (s *source) Notifications() <-chan blockntfns.BlockNtfn {
	s.calls.Add(1)
	if s.afterAck.Load() {
		// The handler goroutine calls this when it re-enters its select, i.e.
		// right after it has acknowledged the registration whose lookup armed
		// the hook: release whoever waits for that moment and keep the handler
		// here (spinning, not yielding its P) for a moment.
		s.afterAck.Store(false)
		s.ackSeen.Store(true)
		for t0 := time.Now(); time.Since(t0) < s.ackHold; {
		}
	}
	return s.ch
}

func (s *source) NotificationsSinceHeight(h uint32) ([]blockntfns.BlockNtfn, uint32, error) {
	s.mu.Lock()
	s.lastSeen = h
	s.lookups++
	fail := s.fail
	var bl []ev
	if !fail && s.lookup != nil {
		bl = s.lookup(h) // snapshot: the source's state at lookup time
	}
	s.lastBacklog = bl
	gate, parked := s.gate, s.parked
	s.gate, s.parked = nil, nil
	if s.armAck {
		s.armAck = false
		s.afterAck.Store(true)
	}
	s.mu.Unlock()
	if gate != nil {
		close(parked)
		<-gate
	}
	if fail {
		return nil, 0, fmt.Errorf("scripted backlog failure")
	}
	out := make([]blockntfns.BlockNtfn, len(bl))
	for i, e := range bl {
		out[i] = e.ntfn()
	}
	return out, h + uint32(len(out)), nil
}

// ---------------------------------------------------------------------------
// world

const (
	opTimeout   = 1500 * time.Millisecond // watchdog for one call / one receive
	pollTimeout = 1500 * time.Millisecond // bounded wait for a quiescence condition
)

type out struct {
	f   *os.File
	bad bool // the running case has a HANG observation or did not reach quiescence
}

func (o *out) line(format string, a ...any) { fmt.Fprintf(o.f, format+"\n", a...) }
func (o *out) op(op, obs string) {
	if strings.HasPrefix(obs, "HANG") {
		o.bad = true
	}
	o.line("%s => %s", op, obs)
}

// blockedIn names what the goroutines of the package under test are parked in, other than a
// `select` (the resting state of the handler and of every forwarder): for each goroutine its
// innermost blockntfns function and the runtime's wait reason.  Appended to a HANG observation so
// that the report names the call that hangs and the statement that keeps it hanging.
func blockedIn() string {
	buf := make([]byte, 1<<20)
	buf = buf[:runtime.Stack(buf, true)]
	seen := map[string]bool{}
	var found []string
	for _, g := range strings.Split(string(buf), "\n\n") {
		lines := strings.Split(g, "\n")
		if len(lines) < 2 {
			continue
		}
		state := lines[0]
		if i, j := strings.Index(state, "["), strings.Index(state, "]"); i >= 0 && j > i {
			state = state[i+1 : j]
		}
		if i := strings.Index(state, ","); i >= 0 {
			state = state[:i]
		}
		if state == "select" || state == "running" || state == "runnable" || state == "sleep" {
			continue
		}
		for _, fn := range lines[1:] {
			i := strings.Index(fn, "neutrino/blockntfns.")
			if i < 0 || strings.HasPrefix(fn, "\t") {
				continue
			}
			name := fn[i+len("neutrino/"):]
			if j := strings.LastIndex(name, "("); j > 0 {
				name = name[:j]
			}
			k := name + " [" + state + "]"
			if !seen[k] {
				seen[k] = true
				found = append(found, k)
			}
			break
		}
	}
	if len(found) == 0 {
		return ""
	}
	sort.Strings(found)
	return " blocked: " + strings.Join(found, "; ")
}
func (o *out) hit(k string)                 { o.line("#hit %s", k) }

type subscriber struct {
	id      int
	s       *blockntfns.Subscription
	pending int  // harness bookkeeping: pushed to it and not yet read (live), or left in the channel (ended)
	ended   bool // cancelled or manager stopped
	closed  bool // consumer saw the close

	// free mode
	role    string
	mu      sync.Mutex
	got     []string
	sawEnd  bool
	done    chan struct{}
	cancelN int
	cancelSent bool
}

type world struct {
	o        *out
	src      *source
	m        *blockntfns.SubscriptionManager
	subs     []*subscriber
	stopped  bool
	expCalls int64
	serial   int
	tip      uint32
	stalled  bool
	det      bool

	// an open registration window (subbegin ... subend)
	win *window
}

// window: NewSubscription is running in a goroutine and is parked inside the
// source's backlog lookup.  Notifications emitted meanwhile are handed, in
// order, to one pump goroutine that sends them on the source channel.
type window struct {
	sub    *subscriber
	h      uint32
	bl     []ev
	gate   chan struct{}
	res    chan string // NewSubscription's outcome: "", "stopped", "err", "PANIC ..."
	s      *blockntfns.Subscription
	pumpCh chan ev
	sent   atomic.Int64
	queued int
	quit   chan struct{}
}

func newWorld(o *out, tip uint32, det bool) *world {
	w := &world{o: o, src: &source{ch: make(chan blockntfns.BlockNtfn)}, tip: tip, det: det}
	w.m = blockntfns.NewSubscriptionManager(w.src)
	w.m.Start()
	w.expCalls = 1
	w.barrier()
	return w
}

// guard runs f with a watchdog and a recover; returns "", "HANG" or "PANIC ...".
func guard(f func()) string {
	res := make(chan string, 1)
	go func() {
		defer func() {
			if r := recover(); r != nil {
				res <- fmt.Sprintf("PANIC %v", r)
			}
		}()
		f()
		res <- ""
	}()
	select {
	case r := <-res:
		return r
	case <-time.After(opTimeout):
		return "HANG" + blockedIn()
	}
}

func waitFor(cond func() bool) bool {
	dl := time.Now().Add(pollTimeout)
	for i := 0; ; i++ {
		if cond() {
			return true
		}
		if time.Now().After(dl) {
			return false
		}
		if i < 200 {
			runtime.Gosched()
		} else {
			time.Sleep(20 * time.Microsecond)
		}
	}
}

// barrier: the handler goroutine has finished every message handed to it and is
// back at its select.
func (w *world) barrier() {
	if w.stopped {
		return
	}
	if !waitFor(func() bool { return w.src.calls.Load() >= w.expCalls }) {
		w.stall("handler did not return to its select")
	}
}

func (w *world) stall(why string) {
	if !w.stalled {
		w.o.line("# stall: %s", why)
	}
	w.stalled = true
}

// quiesce: every forwarder has moved what it can into its subscriber's channel.
func (w *world) quiesce(s *subscriber) {
	if s.s == nil || s.ended || w.stalled {
		return
	}
	want := s.pending
	if c := cap(s.s.Notifications); want > c {
		want = c
	}
	if !waitFor(func() bool { return len(s.s.Notifications) == want }) {
		w.stall(fmt.Sprintf("subscriber %d: channel holds %d, want %d", s.id, len(s.s.Notifications), want))
	}
}

func (w *world) quiesceAll() {
	for _, s := range w.subs {
		w.quiesce(s)
	}
}

func (w *world) fresh(conn bool, h uint32) ev {
	w.serial++
	return ev{w.serial, conn, h}
}

func (w *world) backlogFrom(h uint32) []ev {
	var bl []ev
	if h == 0 {
		return nil
	}
	for x := h + 1; x <= w.tip; x++ {
		bl = append(bl, w.fresh(true, x))
	}
	return bl
}

// subscribe performs NewSubscription(h); the backlog is what the source
// computed from its state when the manager called NotificationsSinceHeight.
func (w *world) subscribe(h uint32, fail bool) *subscriber {
	id := len(w.subs) + 1
	w.src.mu.Lock()
	w.src.lookup, w.src.fail, w.src.lastSeen, w.src.lastBacklog = w.backlogFrom, fail, 1<<31, nil
	w.src.mu.Unlock()
	var sub *blockntfns.Subscription
	var err error
	g := guard(func() { sub, err = w.m.NewSubscription(h) })
	s := &subscriber{id: id}
	w.src.mu.Lock()
	seen, bl := w.src.lastSeen, w.src.lastBacklog
	w.src.mu.Unlock()
	opText := fmt.Sprintf("sub %d %d %s", id, h, evList(bl))
	if fail {
		opText = fmt.Sprintf("subfail %d %d", id, h)
	}
	switch {
	case g != "":
		w.o.op(opText, g)
		w.stalled = true
	case err == blockntfns.ErrSubscriptionManagerStopped:
		w.o.op(opText, "stopped")
		w.o.hit("sub.stopped")
	case err != nil:
		w.o.op(opText, "err")
		w.o.hit("sub.err")
		w.expCalls++
	default:
		w.o.op(opText, fmt.Sprintf("ok %d", seen))
		w.expCalls++
		s.s, s.pending = sub, len(bl)
		w.o.hit("sub.ok")
		if len(bl) > 20 {
			w.o.hit("sub.backlog>cap")
		} else if len(bl) > 0 {
			w.o.hit("sub.backlog")
		}
	}
	w.subs = append(w.subs, s)
	if w.det {
		w.barrier()
		w.quiesce(s)
	}
	return s
}

// subBegin calls NewSubscription(h) in a goroutine with the source's gate held
// and waits until the call is parked inside the backlog lookup (the snapshot
// has been taken).  Only emitWindow, read, len and subEnd may follow until the
// window is closed: on the code under test the handler goroutine itself is
// parked, so Cancel/Stop/NewSubscription would block.
func (w *world) subBegin(h uint32) bool {
	id := len(w.subs) + 1
	win := &window{h: h, gate: make(chan struct{}), res: make(chan string, 1),
		pumpCh: make(chan ev, 4096), quit: make(chan struct{})}
	parked := make(chan struct{})
	w.src.mu.Lock()
	w.src.lookup, w.src.fail, w.src.lastSeen, w.src.lastBacklog = w.backlogFrom, false, 1<<31, nil
	w.src.gate, w.src.parked = win.gate, parked
	w.src.mu.Unlock()
	go func() {
		defer func() {
			if r := recover(); r != nil {
				win.res <- fmt.Sprintf("PANIC %v", r)
			}
		}()
		sub, err := w.m.NewSubscription(h)
		switch {
		case err == blockntfns.ErrSubscriptionManagerStopped:
			win.res <- "stopped"
		case err != nil:
			win.res <- "err"
		default:
			win.s = sub
			win.res <- ""
		}
	}()
	// the pump: sends the window's notifications on the source channel, in order
	go func() {
		for {
			select {
			case e, ok := <-win.pumpCh:
				if !ok {
					return
				}
				select {
				case w.src.ch <- e.ntfn():
					win.sent.Add(1)
				case <-win.quit:
					return
				}
			case <-win.quit:
				return
			}
		}
	}()
	win.sub = &subscriber{id: id}
	w.subs = append(w.subs, win.sub)
	select {
	case <-parked:
		w.src.mu.Lock()
		win.bl = w.src.lastBacklog
		w.src.mu.Unlock()
		w.o.op(fmt.Sprintf("subbegin %d %d %s", id, h, evList(win.bl)), "parked")
		w.o.hit("window.begin")
		w.win = win
		return true
	case r := <-win.res:
		// returned without ever consulting the source
		w.src.mu.Lock()
		w.src.gate, w.src.parked = nil, nil
		w.src.mu.Unlock()
		close(win.quit)
		if r == "" {
			r = "done"
		}
		w.o.op(fmt.Sprintf("subbegin %d %d []", id, h), r)
		if r == "done" {
			win.sub.s = win.s
			w.expCalls++
		}
		return false
	case <-time.After(opTimeout):
		close(win.quit)
		w.o.op(fmt.Sprintf("subbegin %d %d []", id, h), "HANG")
		w.stalled = true
		return false
	}
}

// emitWindow: the source emits while the registration is parked.
func (w *world) emitWindow(e ev) {
	win := w.win
	win.pumpCh <- e
	win.queued++
	if e.conn {
		w.tip = e.height
	} else if e.height > 0 {
		w.tip = e.height - 1
	}
	w.o.op("emit "+e.String(), "queued")
	w.o.hit("window.emit")
}

// subEnd releases the gate, waits for NewSubscription to return and for the
// handler to have taken everything emitted during the window.
func (w *world) subEnd() {
	win := w.win
	w.win = nil
	// Give a handler goroutine that is NOT parked in the lookup (i.e. code in
	// which the lookup does not run in the handler) the chance to take what was
	// emitted during the window before the registration goes on: wait while the
	// pump makes progress, give up 300us after its last progress.  On code
	// whose handler is parked no send can complete, so this costs 300us.
	if win.queued > 0 {
		last, lastAt, start := win.sent.Load(), time.Now(), time.Now()
		for int(last) < win.queued && time.Since(lastAt) < 300*time.Microsecond && time.Since(start) < 50*time.Millisecond {
			runtime.Gosched()
			if n := win.sent.Load(); n != last {
				last, lastAt = n, time.Now()
			}
		}
		if last > 0 {
			w.o.hit("window.taken-before-registration")
		}
	}
	close(win.gate)
	opText := fmt.Sprintf("subend %d", win.sub.id)
	var r string
	select {
	case r = <-win.res:
	case <-time.After(opTimeout):
		r = "HANG" + blockedIn()
	}
	if r != "" {
		w.o.op(opText, r)
		close(win.quit)
		w.stalled = true
		return
	}
	w.src.mu.Lock()
	seen := w.src.lastSeen
	w.src.mu.Unlock()
	w.o.op(opText, fmt.Sprintf("ok %d", seen))
	if win.queued > 20 {
		w.o.hit("window.emits>cap")
	}
	win.sub.s = win.s
	if !waitFor(func() bool { return int(win.sent.Load()) == win.queued }) {
		w.stall(fmt.Sprintf("the handler took %d of the %d notifications emitted during the registration of %d", win.sent.Load(), win.queued, win.sub.id))
	}
	close(win.quit)
	w.expCalls += 1 + int64(win.queued)
	for _, s := range w.subs {
		if s.s != nil && !s.ended && s != win.sub {
			s.pending += win.queued
		}
	}
	win.sub.pending = len(win.bl) + win.queued
	w.barrier()
	w.quiesceAll()
}

// emit hands one notification to the handler goroutine.
func (w *world) emit(e ev, det bool) {
	if w.stopped {
		select {
		case w.src.ch <- e.ntfn():
			w.o.op("emit "+e.String(), "ok")
		case <-time.After(3 * time.Millisecond):
			w.o.op("emit "+e.String(), "blocked")
			w.o.hit("emit.blocked")
		}
		return
	}
	select {
	case w.src.ch <- e.ntfn():
		w.o.op("emit "+e.String(), "ok")
		w.o.hit("emit.ok")
	case <-time.After(opTimeout):
		w.o.op("emit "+e.String(), "HANG"+blockedIn())
		w.stalled = true
		return
	}
	w.expCalls++
	if e.conn {
		w.tip = e.height
	} else if e.height > 0 {
		w.tip = e.height - 1
	}
	for _, s := range w.subs {
		if s.s != nil && !s.ended {
			s.pending++
		}
	}
	if det {
		w.barrier()
		w.quiesceAll()
	}
}

func (w *world) nextEv(r *rand.Rand) ev {
	if w.tip > 1 && r.Intn(6) == 0 {
		return w.fresh(false, w.tip)
	}
	return w.fresh(true, w.tip+1)
}

// recvOne: one receive with a watchdog.  ok=false,closed=true on close; ok=false,closed=false on timeout.
func recvOne(ch chan blockntfns.BlockNtfn, d time.Duration) (string, bool, bool) {
	select {
	case n, ok := <-ch:
		if !ok {
			return "", false, true
		}
		return text(n), true, false
	default:
	}
	t := time.NewTimer(d)
	defer t.Stop()
	select {
	case n, ok := <-ch:
		if !ok {
			return "", false, true
		}
		return text(n), true, false
	case <-t.C:
		return "", false, false
	}
}

func (w *world) read(s *subscriber, k int) {
	var items []string
	tail := "ok"
	for len(items) < k {
		it, ok, closed := recvOne(s.s.Notifications, opTimeout)
		if ok {
			items = append(items, it)
			if s.pending > 0 {
				s.pending--
			}
			continue
		}
		if closed {
			tail, s.closed = "closed", true
		} else {
			tail = "timeout"
			w.stalled = true
		}
		break
	}
	w.o.op(fmt.Sprintf("read %d %d", s.id, k), "["+strings.Join(items, " ")+"] "+tail)
	w.o.hit("read." + tail)
	w.quiesce(s)
}

func (w *world) poll(s *subscriber) {
	select {
	case n, ok := <-s.s.Notifications:
		if !ok {
			s.closed = true
			w.o.op(fmt.Sprintf("poll %d", s.id), "closed")
			w.o.hit("poll.closed")
		} else {
			if s.pending > 0 {
				s.pending--
			}
			w.o.op(fmt.Sprintf("poll %d", s.id), "item "+text(n))
			w.o.hit("poll.item")
		}
	default:
		w.o.op(fmt.Sprintf("poll %d", s.id), "empty")
		w.o.hit("poll.empty")
	}
	w.quiesce(s)
}

func (w *world) cancel(s *subscriber) {
	g := guard(s.s.Cancel)
	if g != "" {
		w.o.op(fmt.Sprintf("cancel %d", s.id), g)
		w.stalled = true
		return
	}
	w.o.op(fmt.Sprintf("cancel %d", s.id), "ok")
	if !w.stopped {
		w.expCalls++
		w.barrier()
		if !s.ended {
			if s.pending > 20 {
				w.o.hit("cancel.pending>cap")
			} else if s.pending > 0 {
				w.o.hit("cancel.pending")
			} else {
				w.o.hit("cancel.drained")
			}
			s.ended = true
			s.pending = len(s.s.Notifications)
		} else {
			w.o.hit("cancel.again")
		}
	} else {
		w.o.hit("cancel.afterstop")
	}
}

func (w *world) stop() {
	g := guard(w.m.Stop)
	if g != "" {
		w.o.op("stop", g)
		w.stalled = true
		w.stopped = true
		return
	}
	w.o.op("stop", "ok")
	if !w.stopped {
		for _, s := range w.subs {
			if s.s != nil && !s.ended {
				if s.pending > 20 {
					w.o.hit("stop.pending>cap")
				} else if s.pending > 0 {
					w.o.hit("stop.pending")
				}
				s.ended = true
				s.pending = len(s.s.Notifications)
			}
		}
	} else {
		w.o.hit("stop.again")
	}
	w.stopped = true
}


// stopInWindow: Stop is called while a registration is in flight (NewSubscription has handed its
// request to the handler, which is parked inside the backlog lookup).  The caller of
// NewSubscription gives up (m.quit is closed); then the lookup returns and the handler finishes a
// registration nobody waits for any more.  Whatever the handler still owes that caller, it must
// not wait for it: Stop returns, every other subscriber's channel gets closed.
func (w *world) stopInWindow() {
	win := w.win
	w.win = nil
	stopRes := make(chan string, 1)
	go func() {
		defer func() {
			if r := recover(); r != nil {
				stopRes <- fmt.Sprintf("PANIC %v", r)
			}
		}()
		w.m.Stop()
		stopRes <- "ok"
	}()
	w.o.op("stopbegin", "started")
	w.o.hit("window.stop")
	// the registrant leaves
	show := func(r string) string {
		if r == "" {
			return "registered"
		}
		return r
	}
	gave := ""
	select {
	case r := <-win.res:
		gave = show(r)
	case <-time.After(opTimeout):
		gave = "waiting" // it insists on the handler's answer: legitimate, the answer comes after the lookup
	}
	w.o.op(fmt.Sprintf("subgiveup %d", win.sub.id), gave)
	close(win.gate)
	if gave == "waiting" {
		select {
		case r := <-win.res:
			w.o.op(fmt.Sprintf("subanswer %d", win.sub.id), show(r))
		case <-time.After(opTimeout):
			w.o.op(fmt.Sprintf("subanswer %d", win.sub.id), "HANG"+blockedIn())
			w.stalled = true
		}
	}
	select {
	case r := <-stopRes:
		w.o.op("stopend", r)
	case <-time.After(opTimeout):
		w.o.op("stopend", "HANG"+blockedIn())
		w.stalled = true
	}
	close(win.quit)
	for _, s := range w.subs {
		if s.s != nil && !s.ended {
			s.ended = true
			s.pending = len(s.s.Notifications)
		}
	}
	w.stopped = true
}

// winStopCase: bystanders with notifications pending in channel and queue, then a registration
// (with or without backlog) that is overtaken by Stop while the handler is inside the lookup.
func winStopCase(o *out, idx int, r *rand.Rand) {
	tip := uint32(1 + r.Intn(40))
	o.line("case %d det winstop tip %d", idx, tip)
	w := newWorld(o, tip, true)
	for n := r.Intn(3); n > 0 && !w.stalled; n-- {
		w.subscribe(uint32(r.Intn(int(tip)+1)), false)
	}
	for n := r.Intn(30); n > 0 && !w.stalled; n-- {
		w.emit(w.nextEv(r), true)
	}
	for _, s := range w.liveSubs() {
		if s.pending > 0 && r.Intn(2) == 0 && !w.stalled {
			w.read(s, 1+r.Intn(s.pending))
		}
	}
	h := uint32(0)
	if r.Intn(4) != 0 {
		h = 1 + uint32(r.Intn(int(w.tip)))
	}
	if !w.stalled && w.subBegin(h) {
		w.stopInWindow()
	}
	w.finish(false)
}

// slowCase: one subscriber never reads (another one reads a little now and then) while `total`
// notifications arrive, far more than any buffer or plausible limit in the manager; then it reads:
// it is owed every single one, in order.  A third subscriber reads as the notifications come.
func slowCase(o *out, idx int, total int, r *rand.Rand, kind string) {
	o.line("case %d det %s tip 0", idx, kind)
	w := newWorld(o, 0, true)
	never := w.subscribe(0, false)
	fast := w.subscribe(0, false)
	var lag *subscriber
	if r == nil || r.Intn(2) == 0 {
		lag = w.subscribe(0, false)
	}
	o.hit("slow.case")
	step := 50
	for done := 0; done < total && !w.stalled; {
		n := step
		if total-done < n {
			n = total - done
		}
		for i := 0; i < n && !w.stalled; i++ {
			// long runs of connected blocks with a rare one-block reorganisation
			if r != nil && w.tip > 1 && r.Intn(200) == 0 {
				w.emit(w.fresh(false, w.tip), true)
			} else {
				w.emit(w.fresh(true, w.tip+1), true)
			}
		}
		done += n
		if !w.stalled {
			w.read(fast, fast.pending)
		}
		if lag != nil && !w.stalled {
			k := 5
			if r != nil {
				k = r.Intn(12)
			}
			if k > 0 {
				w.read(lag, k)
			}
		}
	}
	if never.s != nil && !w.stalled {
		if never.pending > 2000 {
			o.hit("slow.behind>2000")
		}
		if never.pending > 4000 {
			o.hit("slow.behind>4000")
		}
		w.o.op("len 1", strconv.Itoa(len(never.s.Notifications)))
		w.read(never, never.pending)
		w.poll(never)
	}
	if lag != nil && lag.s != nil && !w.stalled {
		w.read(lag, lag.pending)
	}
	// everybody is still subscribed
	for i := 0; i < 3 && !w.stalled; i++ {
		w.emit(w.fresh(true, w.tip+1), true)
	}
	for _, s := range w.liveSubs() {
		if !w.stalled && !s.ended && s.pending > 0 {
			w.read(s, s.pending)
		}
	}
	w.finish(false)
}

// ---------------------------------------------------------------------------
// det cases

func (w *world) liveSubs() []*subscriber {
	var l []*subscriber
	for _, s := range w.subs {
		if s.s != nil {
			l = append(l, s)
		}
	}
	return l
}

func detCase(o *out, idx int, r *rand.Rand, thorough bool) {
	profile := []string{"random", "stall", "cancelbacklog", "stoppending", "random", "afterstop"}[r.Intn(6)]
	tip := uint32(r.Intn(8))
	if profile == "cancelbacklog" || r.Intn(4) == 0 {
		tip = uint32(20 + r.Intn(60))
	}
	o.line("case %d det %s tip %d", idx, profile, tip)
	w := newWorld(o, tip, true)
	maxSubs := 2 + r.Intn(3)
	nops := 8 + r.Intn(25)
	if thorough {
		nops += r.Intn(40)
	}
	pickHeight := func() uint32 {
		switch r.Intn(5) {
		case 0:
			return 0
		case 1:
			return w.tip + uint32(r.Intn(3))
		case 2:
			if w.tip > 25 {
				return w.tip - 21 - uint32(r.Intn(int(w.tip)-24))
			}
			return 1
		default:
			if w.tip == 0 {
				return 0
			}
			return 1 + uint32(r.Intn(int(w.tip)))
		}
	}
	w.subscribe(pickHeight(), false)
	if profile != "random" {
		w.subscribe(pickHeight(), false)
	}
	burst := func(n int) {
		for i := 0; i < n && !w.stalled; i++ {
			w.emit(w.nextEv(r), true)
		}
	}
	// a registration window: NewSubscription parked in the backlog lookup while
	// the source emits (and other subscribers read)
	window := func() {
		h := pickHeight()
		if h == 0 && w.tip > 0 && r.Intn(4) != 0 {
			h = 1 + uint32(r.Intn(int(w.tip)))
		}
		if !w.subBegin(h) {
			return
		}
		n := r.Intn(4)
		if r.Intn(8) == 0 {
			n = 18 + r.Intn(30)
		}
		for i := 0; i < n; i++ {
			w.emitWindow(w.nextEv(r))
			if r.Intn(3) == 0 {
				var others []*subscriber
				for _, s := range w.liveSubs() {
					if !(profile == "stall" && s.id == 1) {
						others = append(others, s)
					}
				}
				if len(others) > 0 {
					s := others[r.Intn(len(others))]
					if s.pending > 0 && !s.ended && r.Intn(2) == 0 {
						w.read(s, 1+r.Intn(s.pending))
					} else {
						w.o.op(fmt.Sprintf("len %d", s.id), strconv.Itoa(len(s.s.Notifications)))
					}
				}
			}
		}
		w.subEnd()
	}
	switch profile {
	case "stall":
		// subscriber 1 never reads while more than channel+queue-buffer+1 notifications arrive
		burst(42 + r.Intn(40))
		o.hit("profile.stall")
	case "cancelbacklog":
		o.hit("profile.cancelbacklog")
	case "stoppending":
		burst(5 + r.Intn(40))
		o.hit("profile.stoppending")
	}
	for i := 0; i < nops && !w.stalled; i++ {
		ls := w.liveSubs()
		var s *subscriber
		if len(ls) > 0 {
			s = ls[r.Intn(len(ls))]
		}
		x := r.Intn(100)
		switch {
		case x < 5 && len(w.subs) < maxSubs+2:
			w.subscribe(pickHeight(), r.Intn(8) == 0)
		case x < 10 && len(w.subs) < maxSubs+3 && !w.stopped:
			window()
		case x < 38:
			if w.stopped && r.Intn(8) != 0 {
				continue
			}
			if r.Intn(8) == 0 {
				burst(15 + r.Intn(30))
			} else {
				burst(1 + r.Intn(3))
			}
		case x < 62 && s != nil:
			if profile == "stall" && s.id == 1 && !s.ended {
				continue
			}
			if s.ended {
				w.read(s, 1+r.Intn(25))
			} else if s.pending > 0 {
				k := 1 + r.Intn(s.pending)
				if r.Intn(3) == 0 {
					k = s.pending
				} else if k > 6 && r.Intn(2) == 0 {
					k = 1 + r.Intn(6)
				}
				w.read(s, k)
			} else {
				w.poll(s)
			}
		case x < 72 && s != nil:
			if profile == "stall" && s.id == 1 && !s.ended {
				continue
			}
			w.poll(s)
		case x < 84 && s != nil:
			w.o.op(fmt.Sprintf("len %d", s.id), strconv.Itoa(len(s.s.Notifications)))
			o.hit("len")
		case x < 93 && s != nil:
			if profile == "stoppending" && r.Intn(2) == 0 {
				continue
			}
			w.cancel(s)
		case x >= 97 || (profile == "afterstop" && x >= 90):
			w.stop()
		}
	}
	w.finish(profile == "stall")
}

// finish: stop and read every channel to its end.  If a quiescence wait failed,
// first ask every live subscriber for what it is owed, so that the trace shows
// what is missing.
func (w *world) finish(firstStalls bool) {
	o := w.o
	if w.stalled {
		o.bad = true
		o.hit("case.stalled")
		// is the handler goroutine still serving?  (a handler stuck inside a
		// cancel() starves every subscriber: the emit is never taken => HANG)
		if !w.stopped && w.win == nil {
			w.stalled = false
			w.emit(w.fresh(true, w.tip+1), true)
			w.stalled = true
		}
		for _, s := range w.liveSubs() {
			if !s.ended && s.pending > 0 {
				w.read(s, s.pending)
			}
		}
	}
	w.stop()
	for _, s := range w.liveSubs() {
		if firstStalls && s.id == 1 {
			o.hit("final.stalled-sub")
		}
		w.read(s, 1000)
	}
}

// ---------------------------------------------------------------------------
// deterministic probes: fixed scenarios, run first on every run

var probeNames = []string{"window-basic", "window-many", "window-empty-backlog", "window-reorg",
	"window-two", "stall-beyond-buffers", "cancel-during-backlog", "stop-pending", "slow-then-cancel",
	"window-stop", "window-stop-bystander", "slow-reader-thousands"}

func probeCase(o *out, idx int) {
	name := probeNames[idx]
	if name == "slow-reader-thousands" {
		o.hit("probe." + name)
		slowCase(o, idx, 5000, nil, "probe-"+name)
		return
	}
	tip := map[string]uint32{"window-basic": 5, "window-many": 30, "window-empty-backlog": 4, "window-reorg": 6,
		"window-two": 9, "stall-beyond-buffers": 0, "cancel-during-backlog": 50, "stop-pending": 3, "slow-then-cancel": 0,
		"window-stop": 6, "window-stop-bystander": 30}[name]
	o.line("case %d det probe-%s tip %d", idx, name, tip)
	o.hit("probe." + name)
	w := newWorld(o, tip, true)
	conn := func(n int) {
		for i := 0; i < n && !w.stalled; i++ {
			w.emit(w.fresh(true, w.tip+1), true)
		}
	}
	connWin := func(n int) {
		for i := 0; i < n; i++ {
			w.emitWindow(w.fresh(true, w.tip+1))
		}
	}
	switch name {
	case "window-basic":
		// one notification is emitted while subscriber 2 (start height 2) is mid-registration
		s1 := w.subscribe(0, false)
		if w.subBegin(2) {
			connWin(1)
			w.subEnd()
		}
		s2 := w.subs[1]
		if s2.s != nil && !w.stalled {
			w.read(s2, 4) // c3 c4 c5 (backlog) then c6 (emitted during the window)
			conn(1)
			w.read(s2, 1)
			w.read(s1, 2)
		}
	case "window-many":
		// backlog and window both larger than the channel; subscriber 1 never reads
		w.subscribe(0, false)
		conn(3)
		if w.subBegin(5) {
			connWin(25)
			w.subEnd()
		}
		s2 := w.subs[1]
		if s2.s != nil && !w.stalled {
			w.o.op("len 2", strconv.Itoa(len(s2.s.Notifications)))
			w.read(s2, 40)
			conn(2)
			w.read(s2, s2.pending)
			w.cancel(s2)
		}
	case "window-empty-backlog":
		if w.subBegin(4) {
			connWin(2)
			w.subEnd()
		}
		s1 := w.subs[0]
		if s1.s != nil && !w.stalled {
			w.read(s1, 2)
			w.poll(s1)
		}
	case "window-reorg":
		w.subscribe(0, false)
		if w.subBegin(3) {
			w.emitWindow(w.fresh(false, 6))
			w.emitWindow(w.fresh(true, 6))
			w.subEnd()
		}
		s2 := w.subs[1]
		if s2.s != nil && !w.stalled {
			w.read(s2, 5)
			w.poll(s2)
		}
	case "window-two":
		// two registrations with windows one after the other, reads of the first in the second's window
		if w.subBegin(7) {
			connWin(1)
			w.subEnd()
		}
		s1 := w.subs[0]
		if s1.s != nil && !w.stalled && w.subBegin(8) {
			connWin(1)
			w.read(s1, 2)
			connWin(1)
			w.subEnd()
			s2 := w.subs[1]
			if s2.s != nil && !w.stalled {
				w.read(s2, s2.pending)
				w.read(s1, s1.pending)
			}
		}
	case "stall-beyond-buffers":
		// more undelivered notifications than channel (20) + forwarder (1) + queue buffer (20)
		s1 := w.subscribe(0, false)
		conn(60)
		s2 := w.subscribe(30, false)
		conn(5)
		if !w.stalled {
			w.read(s2, s2.pending)
			w.o.op("len 1", strconv.Itoa(len(s1.s.Notifications)))
			w.read(s1, 65)
		}
	case "cancel-during-backlog":
		s1 := w.subscribe(5, false)
		if s1.s != nil && !w.stalled {
			w.read(s1, 3)
			w.cancel(s1)
			conn(2)
		}
	case "slow-then-cancel":
		// subscriber 1 is more than a channel behind and cancels; the bystander
		// (subscriber 2) must keep receiving and 1's channel must get closed
		s1 := w.subscribe(0, false)
		s2 := w.subscribe(0, false)
		conn(30)
		if !w.stalled {
			w.read(s2, 30)
			w.cancel(s1)
		}
		conn(3)
		if !w.stalled {
			w.read(s2, 3)
			w.read(s1, 25) // the 20 that were in its channel, then closed
		}
	case "stop-pending":
		w.subscribe(1, false)
		w.subscribe(0, false)
		conn(30)
	case "window-stop":
		// Stop overtakes a registration (backlog c4 c5 c6) that is inside the lookup
		if w.subBegin(3) {
			w.stopInWindow()
		}
	case "window-stop-bystander":
		// the same with a bystander that is a channel and a half behind
		w.subscribe(0, false)
		conn(30)
		if !w.stalled && w.subBegin(2) {
			w.stopInWindow()
		}
	}
	w.finish(false)
}

// ---------------------------------------------------------------------------
// free cases

func (s *subscriber) consume(w *world, slow bool, r *rand.Rand) {
	defer close(s.done)
	n := 0
	for {
		it, ok := <-s.s.Notifications
		if !ok {
			s.mu.Lock()
			s.sawEnd = true
			s.mu.Unlock()
			return
		}
		s.mu.Lock()
		s.got = append(s.got, text(it))
		s.mu.Unlock()
		n++
		if s.cancelN > 0 && n == s.cancelN {
			s.s.Cancel()
		}
		if slow {
			if r.Intn(4) == 0 {
				time.Sleep(time.Duration(r.Intn(30)) * time.Microsecond)
			} else {
				runtime.Gosched()
			}
		}
	}
}

func freeCase(o *out, idx int, r *rand.Rand, thorough bool) {
	tip := uint32(r.Intn(40))
	o.line("case %d free tip %d", idx, tip)
	w := newWorld(o, tip, false)
	nsubs := 2 + r.Intn(4)
	total := 20 + r.Intn(120)
	if thorough {
		total += r.Intn(300)
	}
	var cancellers sync.WaitGroup
	addSub := func() {
		h := uint32(0)
		if w.tip > 0 && r.Intn(3) != 0 {
			h = 1 + uint32(r.Intn(int(w.tip)))
		}
		s := w.subscribe(h, false)
		if s.s == nil {
			return
		}
		s.role = []string{"fast", "fast", "slow", "never", "cancelafter", "cancelrace", "stallcancel"}[r.Intn(7)]
		if len(w.subs) == 1 {
			s.role = "fast" // there is always a healthy bystander
		}
		s.done = make(chan struct{})
		sr := rand.New(rand.NewSource(r.Int63()))
		switch s.role {
		case "fast", "slow":
			o.op(fmt.Sprintf("role %d fast", s.id), "-")
			go s.consume(w, s.role == "slow", sr)
		case "never":
			o.op(fmt.Sprintf("role %d never", s.id), "-")
			close(s.done)
		case "cancelafter":
			s.cancelN = 1 + r.Intn(30)
			o.op(fmt.Sprintf("role %d cancelafter", s.id), "-")
			go s.consume(w, r.Intn(2) == 0, sr)
		case "stallcancel":
			// never reads; cancels (from its own goroutine, while the source keeps
			// emitting) once it is more than a channel's worth behind
			o.op(fmt.Sprintf("role %d stallcancel", s.id), "-")
			s.cancelN = 21 + r.Intn(40)
			close(s.done)
		case "cancelrace":
			o.op(fmt.Sprintf("role %d cancelrace", s.id), "-")
			go s.consume(w, r.Intn(2) == 0, sr)
			d := time.Duration(r.Intn(400)) * time.Microsecond
			cancellers.Add(1)
			go func() {
				defer cancellers.Done()
				time.Sleep(d)
				s.s.Cancel()
			}()
		}
		o.hit("role." + s.role)
	}
	addSub()
	settle := func() {
		var parts []string
		for _, s := range w.liveSubs() {
			if s.role != "fast" && s.role != "slow" {
				continue
			}
			want := s.pending
			waitFor(func() bool { s.mu.Lock(); defer s.mu.Unlock(); return len(s.got) >= want })
			s.mu.Lock()
			parts = append(parts, fmt.Sprintf("%d:%d", s.id, len(s.got)))
			s.mu.Unlock()
		}
		o.op("settle", "["+strings.Join(parts, " ")+"]")
		o.hit("settle")
	}
	for i := 0; i < total && !w.stalled; i++ {
		if len(w.subs) < nsubs && r.Intn(10) == 0 {
			addSub()
		}
		w.emit(w.nextEv(r), false)
		for _, s := range w.liveSubs() {
			if s.role == "stallcancel" && !s.cancelSent && s.pending >= s.cancelN {
				s.cancelSent = true
				o.hit("stallcancel.cancel")
				cancellers.Add(1)
				go func(s *subscriber) {
					defer cancellers.Done()
					s.s.Cancel()
				}(s)
			}
		}
		if r.Intn(40) == 0 {
			settle()
		}
		if r.Intn(6) == 0 {
			runtime.Gosched()
		}
	}
	for len(w.subs) < nsubs && !w.stalled {
		addSub()
	}
	if r.Intn(2) == 0 && !w.stalled {
		settle()
	}
	w.stop()
	if g := guard(cancellers.Wait); g != "" {
		o.op("status", g+" Cancel never returned")
	}
	for _, s := range w.liveSubs() {
		select {
		case <-s.done:
		case <-time.After(opTimeout):
			// the consumer is still blocked: the channel was never closed
		}
		if s.role == "never" || s.role == "stallcancel" {
			for {
				it, ok, closed := recvOne(s.s.Notifications, 50*time.Millisecond)
				if ok {
					s.got = append(s.got, it)
					continue
				}
				s.sawEnd = closed
				break
			}
		}
		s.mu.Lock()
		tail := "open"
		if s.sawEnd {
			tail = "closed"
		}
		o.op(fmt.Sprintf("recv %d", s.id), "["+strings.Join(s.got, " ")+"] "+tail)
		if len(s.got) > 20 {
			o.hit("recv>cap")
		}
		s.mu.Unlock()
	}
}

// stopRaceCase: the source keeps emitting while Stop() executes.  Between
// close(m.quit) and the handler's exit every push is a coin toss per client
// (notifySubscriber selects between the queue and m.quit), which the model's
// atomic stop does not cover; run only on request (SUBS_STOPRACE=<cases>), its
// oracle failures carry the shape suffix "-during-stop".
func stopRaceCase(o *out, idx int, r *rand.Rand) {
	o.line("case %d stoprace", idx)
	w := newWorld(o, 0, false)
	nsubs := 1 + r.Intn(3)
	for i := 0; i < nsubs; i++ {
		s := w.subscribe(0, false)
		if s.s == nil {
			return
		}
		s.role, s.done = "racefast", make(chan struct{})
		o.op(fmt.Sprintf("role %d racefast", s.id), "-")
		go s.consume(w, r.Intn(3) == 0, rand.New(rand.NewSource(r.Int63())))
	}
	evs := make([]ev, 400)
	for i := range evs {
		evs[i] = w.fresh(true, uint32(i+1))
	}
	var sent []ev
	quit, done := make(chan struct{}), make(chan struct{})
	go func() {
		defer close(done)
		for _, e := range evs {
			select {
			case w.src.ch <- e.ntfn():
				sent = append(sent, e)
			case <-quit:
				return
			}
		}
	}()
	time.Sleep(time.Duration(r.Intn(200)) * time.Microsecond)
	g := guard(w.m.Stop)
	close(quit)
	<-done
	for _, e := range sent {
		o.op("emit "+e.String(), "ok")
	}
	if g == "" {
		g = "ok"
	}
	o.op("stop", g)
	o.hit("stoprace")
	for _, s := range w.liveSubs() {
		select {
		case <-s.done:
		case <-time.After(opTimeout):
		}
		s.mu.Lock()
		tail := "open"
		if s.sawEnd {
			tail = "closed"
		}
		o.op(fmt.Sprintf("recv %d", s.id), "["+strings.Join(s.got, " ")+"] "+tail)
		s.mu.Unlock()
	}
}

// regStopCase: NewSubscription (start height below the tip, so it carries a
// backlog) races Stop on a fresh manager.  Whatever the outcome (registered or
// ErrSubscriptionManagerStopped) nothing may panic (a send on the channel that
// Stop has closed, a second close), both calls return, and a registered
// subscriber's channel is closed and holds a prefix of its backlog.  Two out of
// Stop is
// released together with the call, from inside the backlog lookup, or is called
// by a goroutine the handler creates inside the lookup (the registration is then
// in flight and Stop's cancel of the new client falls right behind the handler's
// acknowledgement); one case in four runs on one P.  A panic in a
// goroutine of the package kills this child process: the parent reports it as
// `status => PANIC ...` of this case.
func regStopCase(o *out, idx int, r *rand.Rand) {
	procs := 0
	if r.Intn(4) == 0 {
		procs = 1
	}
	// mostly short backlogs; sometimes one far longer than all buffers
	tip := uint32(3 + r.Intn(30))
	if r.Intn(5) == 0 {
		tip = uint32(40 + r.Intn(260))
	}
	o.line("case %d regstop tip %d procs %d", idx, tip, procs)
	baseline := runtime.NumGoroutine()
	if procs == 1 {
		defer runtime.GOMAXPROCS(runtime.GOMAXPROCS(1))
	}
	w := newWorld(o, tip, false)
	var by *subscriber
	if r.Intn(3) == 0 {
		by = w.subscribe(uint32(r.Intn(int(tip))), false)
		o.op(fmt.Sprintf("role %d never", by.id), "-")
	}
	id := len(w.subs) + 1
	h := 1 + uint32(r.Intn(int(tip)-1))
	if tip >= 40 && r.Intn(2) == 0 {
		h = 1 + uint32(r.Intn(10))
	}
	o.op(fmt.Sprintf("racesubstop %d %d", id, h), "started")
	o.hit("regstop")
	// when Stop is released: together with the NewSubscription call, or from
	// inside the backlog lookup (the registration is then in flight in the
	// handler, and Stop's cancel of the new client falls right behind the
	// handler's acknowledgement)
	start := make(chan struct{})
	subDone, stopDone := make(chan struct{}), make(chan struct{})
	j1, j2 := r.Intn(6), r.Intn(8)
	doStop := func() {
		defer close(stopDone)
		w.m.Stop()
	}
	mode := []string{"aligned", "aligned", "aligned", "spawn-in-lookup", "release-in-lookup", "independent"}[r.Intn(6)]
	if procs == 1 && mode == "aligned" {
		mode = "spawn-in-lookup" // the aligned mode needs a P of its own for the spinning Stop caller
	}
	o.hit("regstop." + mode)
	lookup := w.backlogFrom
	var once sync.Once
	switch mode {
	case "aligned":
		// Stop is called at the moment the handler, having acknowledged the
		// registration, re-enters its select (it passes through the source's
		// Notifications() there): the caller of NewSubscription has been made
		// runnable by the acknowledgement but has not necessarily run yet.
		w.src.mu.Lock()
		w.src.armAck, w.src.ackHold = true, time.Duration(500+r.Intn(4000))*time.Nanosecond
		w.src.mu.Unlock()
		w.src.ackSeen.Store(false)
		go func() {
			for t0 := time.Now(); !w.src.ackSeen.Load() && time.Since(t0) < 100*time.Millisecond; {
			}
			doStop()
		}()
	case "spawn-in-lookup":
		// Stop is called by a goroutine created by the handler goroutine while
		// it is inside the lookup
		lookup = func(h uint32) []ev {
			once.Do(func() { go doStop() })
			return w.backlogFrom(h)
		}
	case "release-in-lookup":
		trigger := make(chan struct{})
		lookup = func(h uint32) []ev {
			bl := w.backlogFrom(h)
			once.Do(func() { close(trigger) })
			return bl
		}
		go func() {
			select {
			case <-trigger:
			case <-subDone:
			}
			for i := 0; i < j2; i++ {
				runtime.Gosched()
			}
			doStop()
		}()
	default:
		go func() {
			<-start
			for i := 0; i < j2; i++ {
				runtime.Gosched()
			}
			doStop()
		}()
	}
	w.src.mu.Lock()
	w.src.lookup, w.src.fail, w.src.lastSeen, w.src.lastBacklog = lookup, false, 1<<31, nil
	w.src.mu.Unlock()
	var sub *blockntfns.Subscription
	var err error
	go func() {
		defer close(subDone)
		<-start
		for i := 0; i < j1; i++ {
			runtime.Gosched()
		}
		sub, err = w.m.NewSubscription(h)
		// the lookup was never reached (Stop won before the handler got the request)
		once.Do(func() {
			if mode == "spawn-in-lookup" {
				go doStop()
			}
			w.src.ackSeen.Store(true)
		})
	}()
	close(start)
	wait := func(c chan struct{}) bool {
		select {
		case <-c:
			return true
		case <-time.After(opTimeout):
			return false
		}
	}
	okSub, okStop := wait(subDone), wait(stopDone)
	w.stopped = true
	w.src.mu.Lock()
	seen, bl := w.src.lastSeen, w.src.lastBacklog
	w.src.mu.Unlock()
	opText := fmt.Sprintf("sub %d %d %s", id, h, evList(bl))
	switch {
	case !okSub:
		o.op(opText, "HANG"+blockedIn())
	case err == blockntfns.ErrSubscriptionManagerStopped:
		o.op(opText, "stopped")
		o.hit("regstop.stopped")
	case err != nil:
		o.op(opText, "err")
	default:
		o.op(opText, fmt.Sprintf("ok %d", seen))
		o.hit("regstop.registered")
	}
	if okStop {
		o.op("stop", "ok")
	} else {
		o.op("stop", "HANG"+blockedIn())
	}
	drain := func(s *subscriber) {
		var got []string
		tail := "open"
		for {
			it, ok, closed := recvOne(s.s.Notifications, 50*time.Millisecond)
			if ok {
				got = append(got, it)
				continue
			}
			if closed {
				tail = "closed"
			}
			break
		}
		o.op(fmt.Sprintf("recv %d", s.id), "["+strings.Join(got, " ")+"] "+tail)
	}
	if by != nil && by.s != nil {
		drain(by)
	}
	if okSub && err == nil && sub != nil {
		drain(&subscriber{id: id, s: sub})
	}
	// Both calls have returned: every goroutine of the manager (handler, queues,
	// delivery goroutines) must be gone or on its way out.  Wait for that, so
	// that one that is still to act on a closed channel does it inside this case.
	for t0 := time.Now(); runtime.NumGoroutine() > baseline && time.Since(t0) < 20*time.Millisecond; {
		runtime.Gosched()
	}
	if n := runtime.NumGoroutine(); n > baseline {
		o.hit("regstop.goroutines-left")
	}
}

// ---------------------------------------------------------------------------
// child: runs cases [SUBS_FROM, SUBS_TO), writing unbuffered to SUBS_OUT

func caseRng(idx int) *rand.Rand {
	return rand.New(rand.NewSource(tr.Seed()*1000003 + int64(idx)*7919 + 11))
}

func child(_ *tr.W, thorough bool) {
	from, to := tr.EnvInt("SUBS_FROM", 0), tr.EnvInt("SUBS_TO", 0)
	f, err := os.OpenFile(os.Getenv("SUBS_OUT"), os.O_CREATE|os.O_WRONLY|os.O_APPEND, 0o644)
	if err != nil {
		panic(err)
	}
	defer f.Close()
	o := &out{f: f}
	badCases, t0 := 0, time.Now()
	budget := 100 * time.Second
	if thorough {
		budget = 12 * time.Minute
	}
	for idx := from; idx < to; idx++ {
		r := caseRng(idx)
		if idx >= tr.EnvInt("SUBS_N", 1<<30)+tr.EnvInt("SUBS_RS", 0) {
			stopRaceCase(o, idx, r)
		} else if idx >= tr.EnvInt("SUBS_N", 1<<30) {
			regStopCase(o, idx, r)
		} else if idx < len(probeNames) {
			probeCase(o, idx)
		} else if idx%15 == 7 {
			winStopCase(o, idx, r)
		} else if idx%450 == 40 {
			// one per quick run (the fixed probe has 5000), one per 450 cases in a thorough run
			slowCase(o, idx, 2100+r.Intn(1500), r, "slow")
		} else if idx%3 == 2 {
			freeCase(o, idx, r, thorough)
		} else {
			detCase(o, idx, r, thorough)
		}
		o.line("#end %d", idx)
		if o.bad {
			badCases++
			o.bad = false
		}
		// every wait of a case is bounded, and so is their number: a handful of cases that
		// ran into watchdogs say all there is to say
		if badCases >= 4 {
			o.line("# giving up: %d cases hung or did not reach quiescence", badCases)
			break
		}
		if time.Since(t0) > budget {
			o.line("# giving up at case %d: time budget of the run used up", idx)
			break
		}
	}
}

// ---------------------------------------------------------------------------
// parent

func parent(t *tr.W, thorough bool) {
	n := 450 * tr.EnvInt("VERIF_BUDGET", 1)
	if thorough {
		n *= 8
	}
	// bin/check's search pass (a tie is broken and it looks for a failing input)
	// asks for 10x thorough; the probes and the generator's profiles make a
	// defect show within the first few hundred cases or not at all, so cap the
	// pass at 3x the quick run with quick-sized cases.
	search := os.Getenv("VERIF_SEARCH") != ""
	if search {
		n, thorough = 450*3, false
	}
	regular := n
	// registration || Stop races: cheap (tens of microseconds each), many
	regStop := tr.EnvInt("SUBS_REGSTOP", 4*regular)
	n += regStop
	n += tr.EnvInt("SUBS_STOPRACE", 0)
	dir, err := os.MkdirTemp("", "subsdrv")
	if err != nil {
		panic(err)
	}
	defer os.RemoveAll(dir)
	crashes := 0
	for from := 0; from < n; {
		outPath := fmt.Sprintf("%s/child-%d.trace", dir, from)
		cmd := exec.Command(os.Args[0], "subschild", outPath+".unused")
		cmd.Env = append(os.Environ(), "SUBS_FROM="+strconv.Itoa(from), "SUBS_TO="+strconv.Itoa(n), "SUBS_OUT="+outPath, "SUBS_N="+strconv.Itoa(regular), "SUBS_RS="+strconv.Itoa(regStop))
		if search {
			cmd.Env = append(cmd.Env, "VERIF_TIER=quick")
		}
		var stderr bytes.Buffer
		cmd.Stderr = &stderr
		cmd.Stdout = &stderr
		done := make(chan error, 1)
		if err := cmd.Start(); err != nil {
			panic(err)
		}
		go func() { done <- cmd.Wait() }()
		var werr error
		killed := false
		limit := 150 * time.Second
		if thorough {
			limit = 14 * time.Minute
		}
		select {
		case werr = <-done:
		case <-time.After(limit):
			cmd.Process.Kill()
			werr, killed = <-done, true
		}
		// replay the child's lines into the trace
		last, ended := from-1, true
		if fh, err := os.Open(outPath); err == nil {
			sc := bufio.NewScanner(fh)
			sc.Buffer(make([]byte, 1<<20), 1<<26)
			for sc.Scan() {
				ln := sc.Text()
				switch {
				case strings.HasPrefix(ln, "case "):
					parts := strings.SplitN(ln, " ", 3)
					last, _ = strconv.Atoi(parts[1])
					ended = false
					t.Case("%s idx %d", parts[2], last)
				case strings.HasPrefix(ln, "#end "):
					ended = true
				case strings.HasPrefix(ln, "#hit "):
					t.Hit(strings.TrimPrefix(ln, "#hit "))
				case strings.HasPrefix(ln, "#"):
					t.Line("%s", ln)
				default:
					if i := strings.Index(ln, " => "); i >= 0 {
						t.Op(ln[:i], ln[i+4:])
					}
				}
			}
			fh.Close()
		}
		os.Remove(outPath + ".unused")
		if werr == nil && !killed {
			break
		}
		crashes++
		msg := "child process died"
		for _, l := range strings.Split(stderr.String(), "\n") {
			if strings.HasPrefix(l, "panic:") || strings.HasPrefix(l, "fatal error:") {
				msg = strings.TrimSpace(l)
				break
			}
		}
		if ended {
			// died between cases: attribute to a fresh pseudo-case
			t.Case("crash between cases")
		}
		if killed {
			t.Op("status", "HANG child process exceeded its time limit")
		} else {
			t.Op("status", "PANIC "+msg)
		}
		t.Hit("child.crash")
		from = last + 1
		if crashes >= 6 {
			t.Line("# giving up after %d crashes", crashes)
			break
		}
	}
}
