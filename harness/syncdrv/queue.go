package syncdrv

// The block handler's queue under pressure.  The REAL blockHandler goroutine
// runs; messages reach it through the entry points the peers' read loops use
// (QueueHeaders / QueueInv, hooks of export_verif_queue.go).  The handler is
// held up inside a reorganisation by a slow notification consumer (the sink of
// the rig takes each block-disconnected notification only after a delay) while
// another peer's block announcements fill the queue to its capacity; only then
// does the sync peer's next `headers` message arrive.  Header sync is a strict
// request/response chain - nothing asks for that message again - so it has to
// be waiting at the queue's door when the handler comes back.
//
//	synced / reorg queued / queue / late headers queued => …
//	final => sync <k> cand [k…] tip <h>:<id> synced <0|1> honest <h>:<id> ahead [k…]

import (
	"math/rand"
	"os"
	"time"

	"github.com/btcsuite/btcd/chainhash/v2"
	"github.com/btcsuite/btcd/wire/v2"
	"verifharness/netsim"
	"verifharness/tr"
)

func hdrs(from, to *netsim.Blk) []*wire.BlockHeader {
	// headers of the blocks after `from` up to and including `to`
	var out []*wire.BlockHeader
	for b := to; b != nil && b != from; b = b.Parent {
		h := b.Msg.Header
		out = append([]*wire.BlockHeader{&h}, out...)
	}
	return out
}

func scenQueuePressure(t *tr.W, rng *rand.Rand) {
	l := 20 + rng.Intn(20)
	w := netsim.NewWorld(rng)
	old := w.Extend(w.Genesis, l, "t")
	w.SetHonest(old)
	fork := old.Ancestor(int32(l) - 3)
	first := w.Extend(fork, 4, w.NextLetter()) // heavier than the 3 blocks it replaces
	last := w.Extend(first, 2, first.ID[:1])   // what the sync peer sends next
	t.Case("c04s queue-full-then-sync-peer-headers len %d", l)
	s, err := newSys(t, w, 2)
	if err != nil {
		t.Op("setup", "err "+err.Error())
		return
	}
	stopped := false
	defer func() {
		if !stopped {
			s.bm.StopBlockHandler()
		}
		s.db.Close()
		os.RemoveAll(s.dir)
	}()
	s.serve[0] = old
	sp, flood := s.peers[0], s.peers[1]
	sp.UpdateLastBlockHeight(int32(l))
	s.conn[0], s.conn[1] = true, true
	s.bm.NewPeer(sp)
	s.bm.Headers(sp, hdrs(w.Genesis, old))
	s.bm.NewPeer(flood)
	s.ev("synced")
	w.SetHonest(last)
	s.serve[0] = last

	s.bm.SetSinkDelay(150 * time.Millisecond)
	s.bm.StartBlockHandler()
	s.bm.QueueHeaders(sp, hdrs(fork, first))
	for i := 0; i < 400 && s.bm.QueueLen() > 0; i++ {
		time.Sleep(time.Millisecond)
	}
	time.Sleep(30 * time.Millisecond) // the handler is inside the rollback, waiting for the slow consumer
	t.Line("# reorg message taken by the handler: %v", s.bm.QueueLen() == 0)
	// another peer's announcements fill the queue
	capacity := s.bm.QueueCap()
	filled := make(chan struct{})
	go func() {
		defer close(filled)
		for i := 0; i < capacity; i++ {
			var h chainhash.Hash
			rng.Read(h[:])
			s.bm.QueueInv(flood, []chainhash.Hash{h})
		}
	}()
	select {
	case <-filled:
	case <-time.After(2 * time.Second):
	}
	t.Line("# queue: len %d cap %d", s.bm.QueueLen(), capacity)
	// the sync peer's next headers message arrives at a full queue
	late := make(chan struct{})
	go func() {
		defer close(late)
		s.bm.QueueHeaders(sp, hdrs(first, last))
	}()
	returned := false
	select {
	case <-late:
		returned = true
	case <-time.After(20 * time.Millisecond):
	}
	t.Line("# QueueHeaders of the sync peer returned at once (queue full): %v", returned)
	// the consumer catches up; the handler works the queue off
	s.bm.SetSinkDelay(0)
	select {
	case <-late:
	case <-time.After(5 * time.Second):
	}
	for i := 0; i < 3000 && s.bm.QueueLen() > 0; i++ {
		time.Sleep(time.Millisecond)
	}
	time.Sleep(150 * time.Millisecond)
	if err := s.bm.StopBlockHandler(); err != nil {
		t.Op("setup", "err "+err.Error())
	}
	stopped = true
	s.final()
	t.Hit("queue.pressure")
}
