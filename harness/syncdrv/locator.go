package syncdrv

// What the block manager ASKS for, on chains longer than one `headers` message
// (2000), on the rig with real peers of current.go (every getheaders a handler
// issues goes out over a pipe and is seen - locator included - by the scripted
// node, which answers the way a full node does: from the first locator hash on
// its chain, else from genesis, at most 2000 headers).
//
// (1) inv-after-<restart|syncpeer-left|earlier-reorg>: the client is current on
//     a chain of 2000+ blocks and its in-memory header list has just been
//     re-anchored (it holds the tip only, or the blocks since the last
//     reorganisation).  The honest side reorganises below everything the list
//     holds and the honest peer announces the new tip by inv.  The request the
//     client sends must let the peer find the fork point: an answer that starts
//     at genesis ends 2000 headers later, below the fork point, and teaches the
//     client nothing.
// (2) colluding-liars-below-checkpoint: two misbehaving peers serve successive
//     parts of a valid-proof-of-work branch that misses the next checkpoint (the
//     first a whole 2000-header message of it, then it leaves; the second the
//     rest, up to the checkpoint mismatch).  After the mismatch the honest peer
//     connects; the client must end on the honest chain.
//
// Every answered request is reported:
//
//	req <k> loc [<h>|x …] fork <f> peer <ph> => start <s> n <cnt> new <m>
//
// loc: the locator as heights ON THE ASKED PEER'S CHAIN (x: not on it); fork:
// highest height at which the client's stored chain and the peer's chain agree;
// peer: height of the peer's chain; start/n: first height and number of headers
// of the answer; new: how many of them the client did not have.

import (
	"fmt"
	"math/rand"
	"os"
	"reflect"
	"strings"
	"time"
	"unsafe"

	"github.com/btcsuite/btcd/chainhash/v2"
	"github.com/btcsuite/btcd/wire/v2"
	"github.com/btcsuite/btcwallet/walletdb"
	"go.etcd.io/bbolt"
	"verifharness/netsim"
	"verifharness/tr"
)

// reqLine reports one getheaders request of the client as seen by node k and the answer it gets.
func (r *rig) reqLine(k int, loc []chainhash.Hash, hs []*wire.BlockHeader) {
	tip := r.nodes[k-1].Tip()
	if tip == nil {
		return
	}
	path := tip.Path()
	var ls []string
	for _, h := range loc {
		if b := r.w.Lookup(h); b != nil && int(b.Height) < len(path) && path[b.Height] == b {
			ls = append(ls, fmt.Sprint(b.Height))
		} else {
			ls = append(ls, "x")
		}
		if len(ls) >= 40 {
			break
		}
	}
	// fork point between what the client has stored and the peer's chain
	ourTip, _ := r.tip()
	fork := int32(0)
	top := int32(ourTip)
	if top > tip.Height {
		top = tip.Height
	}
	for a := top; a > 0; a-- {
		if x, err := r.bh.FetchHeaderByHeight(uint32(a)); err == nil && x.BlockHash() == path[a].Hash {
			fork = a
			break
		}
	}
	start, newOnes := int32(0), 0
	if len(hs) > 0 {
		if b := r.w.Lookup(hs[0].BlockHash()); b != nil {
			start = b.Height
		}
		for _, h := range hs {
			hash := h.BlockHash()
			if _, err := r.bh.HeightFromHash(&hash); err != nil {
				newOnes++
			}
		}
	}
	r.t.Op(fmt.Sprintf("req %d loc [%s] fork %d peer %d", k, strings.Join(ls, " "), fork, tip.Height),
		fmt.Sprintf("start %d n %d new %d", start, len(hs), newOnes))
	r.t.Hit("ev.req")
	if newOnes == 0 && tip.Height > fork {
		r.t.Hit("req.learns-nothing")
	}
}

// noSync switches the file syncs of the rig's database off (walletdb's bdb driver has no option for it; its
// DB is a `type db bbolt.DB`): the long-chain cases roll back and rewrite thousands of headers, one database
// transaction each, and nothing here depends on durability (no crash, no reopen).
func noSync(db walletdb.DB) {
	v := reflect.ValueOf(db)
	if v.Kind() == reflect.Ptr && v.Elem().Type().ConvertibleTo(reflect.TypeOf(bbolt.DB{})) {
		(*bbolt.DB)(unsafe.Pointer(v.Pointer())).NoSync = true
	}
}

// checkpointsOK: the chain ending in b contains every hard-coded checkpoint it is high enough for
func (r *rig) checkpointsOK(b *netsim.Blk) bool {
	for _, c := range r.w.Params.Checkpoints {
		if a := b.Ancestor(c.Height); a != nil && a.Hash != *c.Hash {
			return false
		}
	}
	return true
}

// longWorld: an honest chain a few blocks longer than one headers message
func longWorld(rng *rand.Rand) (*netsim.World, *netsim.Blk) {
	w := netsim.NewWorld(rng)
	base := w.Extend(w.Genesis, 2005+rng.Intn(4), "t")
	w.SetHonest(base)
	return w, base
}

func scenInvAfterReanchor(t *tr.W, rng *rand.Rand, w *netsim.World, base *netsim.Blk, how string) {
	w.SetHonest(base)
	defer w.SetHonest(base)
	t.Case("c04s inv-after-%s len %d", how, base.Height)
	r, err := newRig(t, w)
	if err != nil {
		t.Op("setup", "err "+err.Error())
		return
	}
	defer r.close()
	a := r.add(netsim.Behaviour{Kind: "honest"}, nil)
	b := r.add(netsim.Behaviour{Kind: "honest"}, nil)
	if !r.connect(a) || !r.connect(b) {
		return
	}
	depth := 1 + rng.Intn(3)
	switch how {
	case "restart":
		// what a restart leaves of the in-memory state: the header list holds the stored tip only
		if err := r.bm.ResetHeaderState(); err != nil {
			t.Op("setup", "err "+err.Error())
			return
		}
		r.ev("restart")
	case "syncpeer-left":
		// handleDonePeerMsg re-anchors the list on the stored tip
		r.done(a)
	case "earlier-reorg":
		// a handled reorganisation of depth 1 leaves {fork point, new block} in the list; the next one is deeper
		w.SetHonest(w.Extend(w.Honest().Ancestor(w.Honest().Height-1), 2, w.NextLetter()))
		r.inv(b)
		depth = 3 + rng.Intn(2)
	}
	cur := w.Honest()
	w.SetHonest(w.Extend(cur.Ancestor(cur.Height-int32(depth)), depth+1, w.NextLetter()))
	r.inv(b)
	r.final()
}

func scenColludingBelowCheckpoint(t *tr.W, rng *rand.Rand, w *netsim.World, base *netsim.Blk) {
	w.SetHonest(base)
	saved := w.Params.Checkpoints
	defer func() { w.Params.Checkpoints = saved }()
	f := int32(1 + rng.Intn(2))
	c := base.Height - int32(rng.Intn(2))
	params(w, c)
	// a valid-proof-of-work branch that leaves the honest chain at f and passes the checkpoint height
	bogus := w.Extend(base.Ancestor(f), int(c-f)+2, w.NextLetter())
	first := bogus.Ancestor(f + wire.MaxBlockHeadersPerMsg)
	t.Case("c04s colluding-liars-below-checkpoint len %d", base.Height)
	t.Line("# fork %d checkpoint %d first liar serves up to %d, second up to %d", f, c, first.Height, bogus.Height)
	r, err := newRig(t, w)
	if err != nil {
		t.Op("setup", "err "+err.Error())
		return
	}
	defer r.close()
	noSync(r.db)
	l1 := r.add(netsim.Behaviour{Kind: "lighterFork"}, first)
	l2 := r.add(netsim.Behaviour{Kind: "lighterFork"}, bogus)
	h := r.add(netsim.Behaviour{Kind: "honest"}, nil)
	if !r.connect(l1) {
		return
	}
	r.done(l1)
	if !r.connect(l2) {
		return
	}
	if r.conn[l2-1] {
		// the mismatch did not disconnect it: it leaves by itself
		r.done(l2)
	}
	if !r.connect(h) {
		return
	}
	r.inv(h)
	r.final()
}

func runLong(t *tr.W) {
	rng := tr.Rng(4043) // a stream of its own: the other cases keep their draws
	t0 := time.Now()
	lap := func(what string) {
		if os.Getenv("VERIF_SYNC_DEBUG") != "" {
			fmt.Fprintf(os.Stderr, "bm-sync long: %s %v\n", what, time.Since(t0))
		}
		t0 = time.Now()
	}
	w, base := longWorld(rng)
	lap("world")
	for _, how := range []string{"restart", "syncpeer-left", "earlier-reorg"} {
		scenInvAfterReanchor(t, rng, w, base, how)
		lap("inv-after-" + how)
	}
	scenColludingBelowCheckpoint(t, rng, w, base)
	lap("colluding")
}
