// Package syncdrv drives the REAL block manager's sync-peer bookkeeping
// (handleNewPeerMsg, handleDonePeerMsg, handleHeadersMsg, handleInvMsg,
// startSync) synchronously through the `verif` hooks of export_verif_bm.go,
// with the two events of one peer - its last `headers` message and its
// done-peer event, which the real client queues from two different goroutines -
// delivered in BOTH orders, and with a sync peer that lies while an honest
// candidate is already connected.
//
// Peers are scripted the way a full node behaves: a peer sends `headers` only
// when the block manager asked it to - it has just been chosen as sync peer by
// startSync (which always sends getheaders to its choice), or it announced a
// block while the block manager was listening to it (it is the sync peer, or
// BlockHeadersSynced()).
//
//	case <n> c04s <name> len <L>
//	<event> => sync <none|k> cand [k…] tip <h>:<id> synced <0|1>
//	final   => … honest <h>:<id> ahead [k…]        (connected candidates serving more than our tip)
package syncdrv

import (
	"fmt"
	"math/rand"
	"os"
	"path/filepath"
	"time"

	"github.com/btcsuite/btcd/blockchain"
	"github.com/btcsuite/btcd/chaincfg/v2"
	"github.com/btcsuite/btcd/chainhash/v2"
	"github.com/btcsuite/btcd/wire/v2"
	"github.com/btcsuite/btcwallet/walletdb"
	_ "github.com/btcsuite/btcwallet/walletdb/bdb"
	"github.com/lightninglabs/neutrino"
	"github.com/lightninglabs/neutrino/headerfs"
	"verifharness/netsim"
	"verifharness/tr"
)

func init() { tr.Register("bm-sync", Run) }

type sys struct {
	t     *tr.W
	w     *netsim.World
	dir   string
	db    walletdb.DB
	bh    headerfs.BlockHeaderStore
	bm    *neutrino.VerifBM
	peers []*neutrino.ServerPeer
	serve []*netsim.Blk // tip of the chain peer k serves (nil: nothing to serve)
	conn  []bool
}

func newSys(t *tr.W, w *netsim.World, npeers int) (*sys, error) {
	dir, err := os.MkdirTemp("", "syncdrv-")
	if err != nil {
		return nil, err
	}
	db, err := walletdb.Create("bdb", filepath.Join(dir, "n.db"), true, 10*time.Second, false)
	if err != nil {
		return nil, err
	}
	s := &sys{t: t, w: w, dir: dir, db: db}
	if s.bh, err = headerfs.NewBlockHeaderStore(dir, db, &w.Params); err != nil {
		return nil, err
	}
	fh, err := headerfs.NewFilterHeaderStore(dir, db, headerfs.RegularFilter, &w.Params, nil)
	if err != nil {
		return nil, err
	}
	if s.bm, err = neutrino.VerifNewBM(w.Params, s.bh, fh, blockchain.NewMedianTime()); err != nil {
		return nil, err
	}
	for i := 0; i < npeers; i++ {
		s.peers = append(s.peers, neutrino.VerifNewPeer(fmt.Sprintf("10.0.0.%d:18555", i+1), wire.SFNodeNetwork|wire.SFNodeWitness|wire.SFNodeCF))
	}
	s.serve = make([]*netsim.Blk, npeers)
	s.conn = make([]bool, npeers)
	return s, nil
}

func (s *sys) close() {
	s.bm.Close()
	s.db.Close()
	os.RemoveAll(s.dir)
}

func (s *sys) id(sp *neutrino.ServerPeer) int {
	for i, p := range s.peers {
		if p == sp {
			return i + 1
		}
	}
	return 0
}

func (s *sys) tip() (uint32, chainhash.Hash) {
	h, height, err := s.bh.ChainTip()
	if err != nil {
		return 0, chainhash.Hash{}
	}
	return height, h.BlockHash()
}

func (s *sys) state() string {
	d := s.bm.Digest()
	sync := "none"
	if d.SyncPeer != nil {
		sync = fmt.Sprint(s.id(d.SyncPeer))
	}
	cand := "["
	for i, c := range d.Candidates {
		if i > 0 {
			cand += " "
		}
		cand += fmt.Sprint(s.id(c))
	}
	cand += "]"
	h, hash := s.tip()
	synced := 0
	if s.bm.BlockHeadersSynced() {
		synced = 1
	}
	return fmt.Sprintf("sync %s cand %s tip %d:%s synced %d", sync, cand, h, s.w.BlockID(hash), synced)
}

func (s *sys) ev(op string) { s.t.Op(op, s.state()); s.t.Hit("ev." + firstWord(op)) }

func firstWord(s string) string {
	for i, c := range s {
		if c == ' ' {
			return s[:i]
		}
	}
	return s
}

// headersOf: the headers peer k would send in answer to a getheaders whose locator starts at our tip
func (s *sys) headersAfterTip(k int, max int) []*wire.BlockHeader {
	tipBlk := s.serve[k-1]
	if tipBlk == nil {
		return nil
	}
	h, hash := s.tip()
	path := tipBlk.Path()
	start := int32(1)
	if int(h) < len(path) && path[h].Hash == hash {
		start = int32(h) + 1
	} else {
		// our tip is not on its chain: it answers from the fork point (genesis in these scenarios)
		for a := int32(h); a >= 0; a-- {
			if int(a) < len(path) {
				if x, err := s.bh.FetchHeaderByHeight(uint32(a)); err == nil && x.BlockHash() == path[a].Hash {
					start = a + 1
					break
				}
			}
		}
	}
	var out []*wire.BlockHeader
	for a := start; int(a) < len(path) && len(out) < max; a++ {
		hdr := path[a].Msg.Header
		out = append(out, &hdr)
	}
	return out
}

// connect: the peer's version handshake is over (it announced `claim` as its height), the block handler sees newPeer;
// if startSync chose it, it is asked for headers and answers (all of them, in batches of `batch`).
func (s *sys) connect(k int, claim int32, batch int) {
	sp := s.peers[k-1]
	sp.UpdateLastBlockHeight(claim)
	s.conn[k-1] = true
	s.bm.NewPeer(sp)
	s.ev(fmt.Sprintf("newpeer %d", k))
	s.answerIfAsked(k, batch)
}

// answerIfAsked: peer k is the sync peer right after a (re)selection: startSync sent it a getheaders
func (s *sys) answerIfAsked(k int, batch int) {
	for rounds := 0; rounds < 50; rounds++ {
		d := s.bm.Digest()
		if d.SyncPeer != s.peers[k-1] || !s.conn[k-1] || neutrino.VerifPeerDisconnected(s.peers[k-1]) {
			return
		}
		hs := s.headersAfterTip(k, batch)
		if len(hs) == 0 {
			return
		}
		s.bm.Headers(s.peers[k-1], hs)
		s.ev(fmt.Sprintf("headers %d %d", k, len(hs)))
	}
}

// done: the block handler sees the peer's done event; whoever is chosen next is asked and answers
func (s *sys) done(k int, batch int) {
	s.conn[k-1] = false
	s.bm.DonePeer(s.peers[k-1])
	s.ev(fmt.Sprintf("donepeer %d", k))
	for j := range s.peers {
		if s.conn[j] {
			s.answerIfAsked(j+1, batch)
		}
	}
}

// announce: honest peer k announces its tip; the block manager asks it for headers only if it listens
func (s *sys) announce(k int, batch int) {
	d := s.bm.Digest()
	listens := d.SyncPeer == s.peers[k-1] || s.bm.BlockHeadersSynced()
	tip := s.serve[k-1]
	s.bm.Inv(s.peers[k-1], []chainhash.Hash{tip.Hash})
	s.ev(fmt.Sprintf("inv %d", k))
	if listens && s.conn[k-1] {
		if hs := s.headersAfterTip(k, batch); len(hs) > 0 {
			s.bm.Headers(s.peers[k-1], hs)
			s.ev(fmt.Sprintf("headers %d %d", k, len(hs)))
		}
	}
}

func (s *sys) final() {
	honest := s.w.Honest()
	h, _ := s.tip()
	ahead := "["
	first := true
	for j := range s.peers {
		if s.conn[j] && s.serve[j] != nil && s.serve[j].Valid && uint32(s.serve[j].Height) > h {
			if !first {
				ahead += " "
			}
			ahead += fmt.Sprint(j + 1)
			first = false
		}
	}
	ahead += "]"
	s.t.Op("final", fmt.Sprintf("%s honest %d:%s ahead %s", s.state(), honest.Height, honest.ID, ahead))
}

func params(w *netsim.World, cps ...int32) {
	for _, c := range cps {
		b := w.Honest().Ancestor(c)
		hash := b.Hash
		w.Params.Checkpoints = append(w.Params.Checkpoints, chaincfg.Checkpoint{Height: c, Hash: &hash})
	}
}

// scenLiar: peer 1 (sync peer) lies in its headers while honest peer 2 is already a candidate; then peer 1's done
// event; nobody else joins.  kind: pow | unlinked | checkpoint (a valid branch that misses the checkpointed block).
func scenLiar(t *tr.W, rng *rand.Rand, kind string, withCheckpointBelow bool) {
	l := 30 + rng.Intn(30)
	w := netsim.NewWorld(rng)
	w.SetHonest(w.Extend(w.Genesis, l, "t"))
	honest := w.Honest()
	name := "liar-" + kind
	var liarTip *netsim.Blk
	switch kind {
	case "checkpoint":
		c := int32(10 + rng.Intn(l-15))
		params(w, c)
		fork := honest.Ancestor(c - 1 - int32(rng.Intn(3)))
		liarTip = w.Extend(fork, 6, w.NextLetter())
	default:
		pos := int32(3 + rng.Intn(l-4))
		if withCheckpointBelow {
			c := int32(5 + rng.Intn(l-12))
			params(w, c)
			pos = c + 1 + int32(rng.Intn(int(int32(l)-c-1)))
			name += "-after-checkpoint"
		}
		liarTip = w.FakeHeader(honest.Ancestor(pos-1), kind)
	}
	t.Case("c04s %s len %d", name, l)
	s, err := newSys(t, w, 2)
	if err != nil {
		t.Op("setup", "err "+err.Error())
		return
	}
	defer s.close()
	s.serve[0], s.serve[1] = liarTip, honest
	// both connect before the liar's answer is handled: hold the liar's headers until peer 2 is a candidate
	sp := s.peers[0]
	sp.UpdateLastBlockHeight(int32(l) + 5)
	s.conn[0] = true
	s.bm.NewPeer(sp)
	s.ev("newpeer 1")
	s.connect(2, int32(l), 2000)
	s.answerIfAsked(1, 2000)
	if neutrino.VerifPeerDisconnected(sp) {
		t.Hit("liar.disconnected")
	}
	s.done(1, 2000)
	// the honest peer keeps announcing its tip
	s.announce(2, 2000)
	s.final()
}

// scenLate: peer 1 is the only candidate and the sync peer; it goes away.  Its done event and its last headers
// message (valid, extends our tip, but does not reach the height it announced) are handled in the given order; then
// honest peer 2 connects and announces.
func scenLate(t *tr.W, rng *rand.Rand, doneFirst bool) {
	l := 30 + rng.Intn(30)
	k := 5 + rng.Intn(l-10)
	w := netsim.NewWorld(rng)
	w.SetHonest(w.Extend(w.Genesis, l, "t"))
	honest := w.Honest()
	order := map[bool]string{true: "done-then-headers", false: "headers-then-done"}[doneFirst]
	t.Case("c04s late-headers-%s len %d", order, l)
	s, err := newSys(t, w, 2)
	if err != nil {
		t.Op("setup", "err "+err.Error())
		return
	}
	defer s.close()
	s.serve[0], s.serve[1] = honest, honest
	sp := s.peers[0]
	sp.UpdateLastBlockHeight(int32(l))
	s.conn[0] = true
	s.bm.NewPeer(sp)
	s.ev("newpeer 1")
	// its answer to the getheaders of startSync: the first k headers; it is gone right after sending them
	hs := s.headersAfterTip(1, k)
	late := func() {
		s.bm.Headers(sp, hs)
		s.ev(fmt.Sprintf("headers 1 %d", len(hs)))
	}
	if doneFirst {
		s.done(1, 2000)
		late()
	} else {
		late()
		s.done(1, 2000)
	}
	s.connect(2, int32(l), 2000)
	s.announce(2, 2000)
	s.final()
}

func Run(t *tr.W, thorough bool) {
	rng := tr.Rng(4042)
	n := 1 * tr.EnvInt("VERIF_BUDGET", 1)
	if thorough {
		n *= 3
	}
	for i := 0; i < n; i++ {
		scenLiar(t, rng, "pow", false)
		scenLiar(t, rng, "unlinked", false)
		scenLiar(t, rng, "pow", true)
		scenLiar(t, rng, "checkpoint", false)
		scenLate(t, rng, true)
		scenLate(t, rng, false)
		runCurrent(t, rng)
		scenQueuePressure(t, rng)
	}
	// chains longer than one headers message: what the locator of a request has to contain (one world per run)
	runLong(t)
}
