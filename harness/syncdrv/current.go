package syncdrv

// Sync-peer bookkeeping around "current" (BlockHeadersSynced), on a rig with
// REAL peers: every peer is a btcd peer.Peer wired over a net.Pipe to a
// scripted full node of harness/netsim, so that the version handshake gives it
// its announced height (StartingHeight / LastBlock) and every getheaders the
// block manager's handlers issue actually goes out and is SEEN by the node.
// The handlers themselves are still called synchronously from this goroutine
// (hooks of export_verif_bm.go); the node's `headers` answers are fed to
// handleHeadersMsg by the driver, for exactly the requests the node received.
// The block manager runs on an injected clock, so "the tip is older than 24
// hours" is a matter of advancing it.
//
//	<event> => sync <none|k> cand [k…] tip <h>:<id> synced <0|1> asked [k…]
//	final   => … honest <h>:<id> ahead [k…] asked [k…]
//
// asked = connected peers whose most recent getheaders starts at our present
// tip (they have been asked for what follows it); ahead = connected peers
// serving a valid chain higher than our tip.

import (
	"fmt"
	"math/rand"
	"net"
	"os"
	"path/filepath"
	"sync"
	"sync/atomic"
	"time"

	"github.com/btcsuite/btcd/chainhash/v2"
	"github.com/btcsuite/btcd/peer"
	"github.com/btcsuite/btcd/wire/v2"
	"github.com/btcsuite/btcwallet/walletdb"
	"github.com/lightninglabs/neutrino"
	"github.com/lightninglabs/neutrino/headerfs"
	"verifharness/netsim"
	"verifharness/tr"
)

type clock struct {
	mu  sync.Mutex
	off time.Duration
}

func (c *clock) AdjustedTime() time.Time {
	c.mu.Lock()
	defer c.mu.Unlock()
	return time.Unix(time.Now().Add(c.off).Unix(), 0)
}
func (c *clock) AddTimeSample(string, time.Time) {}
func (c *clock) Offset() time.Duration           { return 0 }
func (c *clock) advance(d time.Duration) {
	c.mu.Lock()
	c.off += d
	c.mu.Unlock()
}

type rig struct {
	t     *tr.W
	w     *netsim.World
	dir   string
	db    walletdb.DB
	bh    headerfs.BlockHeaderStore
	bm    *neutrino.VerifBM
	clk   *clock
	nodes []*netsim.Peer
	peers []*neutrino.ServerPeer
	conn  []bool
	seen  []int32 // getheaders of node k already answered
	wrong []int   // peers a handler disconnected although every header they serve was valid at that moment
}

func newRig(t *tr.W, w *netsim.World) (*rig, error) {
	dir, err := os.MkdirTemp("", "syncdrv-")
	if err != nil {
		return nil, err
	}
	db, err := walletdb.Create("bdb", filepath.Join(dir, "n.db"), true, 10*time.Second, false)
	if err != nil {
		return nil, err
	}
	r := &rig{t: t, w: w, dir: dir, db: db, clk: &clock{}}
	if r.bh, err = headerfs.NewBlockHeaderStore(dir, db, &w.Params); err != nil {
		return nil, err
	}
	fh, err := headerfs.NewFilterHeaderStore(dir, db, headerfs.RegularFilter, &w.Params, nil)
	if err != nil {
		return nil, err
	}
	if r.bm, err = neutrino.VerifNewBM(w.Params, r.bh, fh, r.clk); err != nil {
		return nil, err
	}
	return r, nil
}

func (r *rig) close() {
	for k := range r.peers {
		if r.peers[k] != nil {
			r.peers[k].Disconnect()
		}
	}
	r.bm.Close()
	r.db.Close()
	os.RemoveAll(r.dir)
}

// add registers scripted node k (1-based index = position); it is not connected yet
func (r *rig) add(b netsim.Behaviour, own *netsim.Blk) int {
	k := len(r.nodes) + 1
	r.nodes = append(r.nodes, netsim.NewScriptedPeer(r.w, k-1, fmt.Sprintf("10.0.0.%d:18555", k), b, own))
	r.peers = append(r.peers, nil)
	r.conn = append(r.conn, false)
	r.seen = append(r.seen, 0)
	return k
}

func (r *rig) id(sp *neutrino.ServerPeer) int {
	for i, p := range r.peers {
		if p != nil && p == sp {
			return i + 1
		}
	}
	return 0
}

func (r *rig) tip() (uint32, chainhash.Hash) {
	h, height, err := r.bh.ChainTip()
	if err != nil {
		return 0, chainhash.Hash{}
	}
	return height, h.BlockHash()
}

func list(xs []int) string {
	s := "["
	for i, x := range xs {
		if i > 0 {
			s += " "
		}
		s += fmt.Sprint(x)
	}
	return s + "]"
}

// asked: connected peers whose latest getheaders starts at our tip
func (r *rig) asked() []int {
	_, hash := r.tip()
	var out []int
	for k := range r.nodes {
		if !r.conn[k] {
			continue
		}
		if loc := r.nodes[k].LastLocator(); len(loc) > 0 && loc[0] == hash {
			out = append(out, k+1)
		}
	}
	return out
}

func (r *rig) ahead() []int {
	h, _ := r.tip()
	var out []int
	for k := range r.nodes {
		if t := r.nodes[k].Tip(); r.conn[k] && t != nil && t.Valid && uint32(t.Height) > h {
			out = append(out, k+1)
		}
	}
	return out
}

func (r *rig) state() string {
	d := r.bm.Digest()
	sync := "none"
	if d.SyncPeer != nil {
		sync = fmt.Sprint(r.id(d.SyncPeer))
	}
	var cand []int
	for _, c := range d.Candidates {
		cand = append(cand, r.id(c))
	}
	h, hash := r.tip()
	synced := 0
	if r.bm.BlockHeadersSynced() {
		synced = 1
	}
	return fmt.Sprintf("sync %s cand %s tip %d:%s synced %d", sync, list(cand), h, r.w.BlockID(hash), synced)
}

func (r *rig) ev(op string) {
	r.t.Op(op, r.state()+" asked "+list(r.asked()))
	r.t.Hit("ev." + firstWord(op))
}

// quiet waits until no node has received a new getheaders for 25 ms (requests travel through the peers' queues)
func (r *rig) quiet() {
	total := func() int32 {
		var n int32
		for _, nd := range r.nodes {
			n += atomic.LoadInt32(&nd.GotGetHeaders)
		}
		return n
	}
	last, stable := total(), 0
	for i := 0; i < 100 && stable < 5; i++ {
		time.Sleep(5 * time.Millisecond)
		if n := total(); n != last {
			last, stable = n, 0
		} else {
			stable++
		}
	}
}

// answers: what node k sends for a getheaders with this locator
func (r *rig) answers(k int, loc []chainhash.Hash) []*wire.BlockHeader {
	tip := r.nodes[k-1].Tip()
	if tip == nil {
		return nil
	}
	path := tip.Path()
	start := int32(1)
	for _, h := range loc {
		if b := r.w.Lookup(h); b != nil && int(b.Height) < len(path) && path[b.Height] == b {
			start = b.Height + 1
			break
		}
	}
	var out []*wire.BlockHeader
	for a := start; int(a) < len(path) && len(out) < wire.MaxBlockHeadersPerMsg; a++ {
		hdr := path[a].Msg.Header
		out = append(out, &hdr)
	}
	return out
}

// settle: every getheaders a connected node has received is answered (the answer is handled by
// handleHeadersMsg), until nothing is outstanding
func (r *rig) settle() {
	for round := 0; round < 40; round++ {
		r.quiet()
		progressed := false
		for k := range r.nodes {
			n := atomic.LoadInt32(&r.nodes[k].GotGetHeaders)
			if n == r.seen[k] {
				continue
			}
			r.seen[k] = n
			if !r.conn[k] {
				continue
			}
			loc := r.nodes[k].LastLocator()
			hs := r.answers(k+1, loc)
			r.reqLine(k+1, loc, hs)
			if len(hs) == 0 {
				continue // an empty headers message: nothing for the handler to do
			}
			r.bm.Headers(r.peers[k], hs)
			r.ev(fmt.Sprintf("headers %d %d", k+1, len(hs)))
			progressed = true
			// a handler that disconnects the sender produces that peer's done event
			for i := 0; i < 20 && r.peers[k].Connected(); i++ {
				if !neutrino.VerifPeerDisconnected(r.peers[k]) {
					break
				}
				time.Sleep(time.Millisecond)
			}
			if neutrino.VerifPeerDisconnected(r.peers[k]) {
				r.t.Hit("handler.disconnected.sender")
				if r.servesValidNow(k + 1) {
					r.wrong = append(r.wrong, k+1)
				}
				r.conn[k] = false
				r.bm.DonePeer(r.peers[k])
				r.quiet()
				r.ev(fmt.Sprintf("donepeer %d", k+1))
			}
		}
		if !progressed {
			return
		}
	}
}

// connect: the version handshake over a pipe, then the block handler sees the new peer
func (r *rig) connect(k int) bool {
	c1, c2 := net.Pipe()
	go r.nodes[k-1].Serve(c2)
	p, err := peer.NewOutboundPeer(&peer.Config{
		ChainParams:      &r.w.Params,
		Services:         wire.SFNodeWitness | wire.SFNodeCF,
		ProtocolVersion:  wire.ProtocolVersion,
		UserAgentName:    "syncdrv",
		UserAgentVersion: "0",
		DisableRelayTx:   true,
	}, r.nodes[k-1].Addr)
	if err != nil {
		r.t.Op("setup", "err "+err.Error())
		return false
	}
	sp := &neutrino.ServerPeer{Peer: p}
	p.AssociateConnection(c1)
	for i := 0; i < 400 && !(p.VerAckReceived() && p.VersionKnown()); i++ {
		time.Sleep(5 * time.Millisecond)
	}
	if !p.VerAckReceived() {
		r.t.Op("setup", "err handshake with the scripted node did not finish")
		return false
	}
	r.peers[k-1], r.conn[k-1] = sp, true
	r.bm.NewPeer(sp)
	r.quiet()
	r.ev(fmt.Sprintf("newpeer %d", k))
	r.settle()
	return true
}

// done: the peer's connection ends and the block handler sees its done event
func (r *rig) done(k int) {
	r.peers[k-1].Disconnect()
	r.conn[k-1] = false
	r.bm.DonePeer(r.peers[k-1])
	r.quiet()
	r.ev(fmt.Sprintf("donepeer %d", k))
	r.settle()
}

// inv: node k announces its tip
func (r *rig) inv(k int) {
	r.bm.Inv(r.peers[k-1], []chainhash.Hash{r.nodes[k-1].Tip().Hash})
	r.quiet()
	r.ev(fmt.Sprintf("inv %d", k))
	r.settle()
}

// servesValidNow: every block of the chain node k serves is a valid block whose timestamp is acceptable at the
// block manager's present (injected) time
func (r *rig) servesValidNow(k int) bool {
	limit := r.clk.AdjustedTime().Add(2 * time.Hour)
	if t := r.nodes[k-1].Tip(); t != nil && !r.checkpointsOK(t) {
		return false // a chain that misses a hard-coded checkpoint is not a valid chain
	}
	for b := r.nodes[k-1].Tip(); b != nil && b.Height > 0; b = b.Parent {
		if !b.Valid || b.Msg.Header.Timestamp.After(limit) {
			return false
		}
	}
	return true
}

func (r *rig) final() {
	honest := r.w.Honest()
	r.t.Op("final", fmt.Sprintf("%s honest %d:%s ahead %s asked %s dropped-valid %s", r.state(), honest.Height, honest.ID,
		list(r.ahead()), list(r.asked()), list(r.wrong)))
}

func ageName(old bool) string {
	if old {
		return "old-tip"
	}
	return "fresh-tip"
}

// scenSyncPeerLeaves: the client is current; its sync peer leaves; (a day passes;) the honest peer that stayed
// announces the next block.
func scenSyncPeerLeaves(t *tr.W, rng *rand.Rand, old bool) {
	l := 20 + rng.Intn(20)
	w := netsim.NewWorld(rng)
	w.SetHonest(w.Extend(w.Genesis, l, "t"))
	t.Case("c04s current-syncpeer-leaves-%s len %d", ageName(old), l)
	r, err := newRig(t, w)
	if err != nil {
		t.Op("setup", "err "+err.Error())
		return
	}
	defer r.close()
	a := r.add(netsim.Behaviour{Kind: "honest"}, nil)
	b := r.add(netsim.Behaviour{Kind: "honest"}, nil)
	if !r.connect(a) || !r.connect(b) {
		return
	}
	r.done(a)
	if old {
		r.clk.advance(25 * time.Hour)
		r.ev("clock +25h")
	}
	nt := w.Extend(w.Honest(), 1, "t")
	w.SetHonest(nt)
	r.inv(b)
	r.final()
}

// scenShorterSyncPeer: a sync peer with a shorter view (a prefix of the honest chain, or a lighter valid branch)
// brings the client level with it; (a day passes;) then the honest peer connects with the longer chain and
// stays silent: no new block, no inv.
func scenShorterSyncPeer(t *tr.W, rng *rand.Rand, fork bool, old bool) {
	l := 20 + rng.Intn(20)
	w := netsim.NewWorld(rng)
	w.SetHonest(w.Extend(w.Genesis, l, "t"))
	honest := w.Honest()
	d := int32(2 + rng.Intn(5))
	kind, own := "lagging", honest.Ancestor(honest.Height-d)
	if fork {
		kind, own = "lighterFork", w.Extend(honest.Ancestor(honest.Height-d), int(d)-1, w.NextLetter())
	}
	t.Case("c04s shorter-syncpeer-%s-then-longer-silent-peer-%s len %d", kind, ageName(old), l)
	r, err := newRig(t, w)
	if err != nil {
		t.Op("setup", "err "+err.Error())
		return
	}
	defer r.close()
	a := r.add(netsim.Behaviour{Kind: kind}, own)
	b := r.add(netsim.Behaviour{Kind: "honest"}, nil)
	if !r.connect(a) {
		return
	}
	if old {
		r.clk.advance(25 * time.Hour)
		r.ev("clock +25h")
	}
	if !r.connect(b) {
		return
	}
	if old {
		// with a stale tip even the next block of the longer peer changes nothing
		w.SetHonest(w.Extend(w.Honest(), 1, "t"))
		r.inv(b)
	}
	r.final()
}

// scenFutureHeader: the last block of the honest chain is stamped a little more than two hours ahead of the
// (injected) clock: the peer that serves it now is refused and dropped.  An hour later the same header is valid;
// the honest peer that connects then must be followed to the honest tip - and must not be dropped.
func scenFutureHeader(t *tr.W, rng *rand.Rand, alone bool) {
	l := 20 + rng.Intn(20)
	w := netsim.NewWorld(rng)
	tip := w.Extend(w.Genesis, l-1, "t")
	tip = w.ExtendAt(tip, "t", time.Now().Add(2*time.Hour+5*time.Minute))
	w.SetHonest(tip)
	name := "future-header-then-time-passes"
	if alone {
		name += "-own-batch"
	}
	t.Case("c04s %s len %d", name, l)
	r, err := newRig(t, w)
	if err != nil {
		t.Op("setup", "err "+err.Error())
		return
	}
	defer r.close()
	var a int
	if alone {
		// the first peer has not seen the future block yet: the client gets everything below it first
		a0 := r.add(netsim.Behaviour{Kind: "lagging"}, tip.Parent)
		if !r.connect(a0) {
			return
		}
	}
	a = r.add(netsim.Behaviour{Kind: "honest"}, nil)
	b := r.add(netsim.Behaviour{Kind: "honest"}, nil)
	if !r.connect(a) {
		return
	}
	r.clk.advance(time.Hour)
	r.ev("clock +1h")
	if !r.connect(b) {
		return
	}
	r.inv(b)
	r.final()
}

func runCurrent(t *tr.W, rng *rand.Rand) {
	scenFutureHeader(t, rng, false)
	scenFutureHeader(t, rng, true)
	for _, old := range []bool{false, true} {
		scenSyncPeerLeaves(t, rng, old)
		scenShorterSyncPeer(t, rng, false, old)
		scenShorterSyncPeer(t, rng, true, old)
	}
}
