// Package rescandrv drives the real neutrino.Rescan against a scripted ChainSource (C09).
//
// The ChainSource is implemented here (the interface is exported): a block tree of real wire.MsgBlocks
// with real transactions over a handful of P2WPKH scripts, true BIP158 filters, a mutable best chain,
// scripted GetCFilter/GetBlock failures, and a subscription whose channel the harness feeds one
// notification at a time.  The rescan goroutine is always at one of three places when the harness acts:
//   - inside BestBlock() of the catch-up arm (a gate the harness opens with the op `step`),
//   - in the select of the current arm (the harness proves this by handing it an unknown notification type,
//     which the rescan logs and ignores),
//   - gone (Start()'s error channel fired).
//
// The only real-time element is the 100 ms retry timer: after a GetCFilter failure in the current arm the
// harness either finishes its next ops within 50 ms or performs `tick` (sleep past the deadline, then barrier).
//
// Line protocol: see FRAMEWORK.md; ops and observations are described in lean/Driver/Drv/Rescan.lean.
package rescandrv

import (
	"errors"
	"fmt"
	"math/rand"
	"os"
	"strings"
	"sync"
	"time"

	"github.com/btcsuite/btcd/address/v2"
	"github.com/btcsuite/btcd/btcutil/v2"
	"github.com/btcsuite/btcd/btcutil/v2/gcs"
	"github.com/btcsuite/btcd/btcutil/v2/gcs/builder"
	"github.com/btcsuite/btcd/chaincfg/v2"
	"github.com/btcsuite/btcd/chainhash/v2"
	"github.com/btcsuite/btcd/rpcclient"
	"github.com/btcsuite/btcd/txscript/v2"
	"github.com/btcsuite/btcd/wire/v2"
	"github.com/lightninglabs/neutrino"
	"github.com/lightninglabs/neutrino/blockntfns"
	"github.com/lightninglabs/neutrino/headerfs"
	"verifharness/tr"
)

func init() { tr.Register("rescan", Run) }

const (
	nScripts   = 9 // scripts 1..8 are payable, 9 is the coinbase script (never watched)
	extBase    = 1000
	nExt       = 6 // external outpoints 1000.0 .. 1005.0 (created outside the scanned range), see extIn
	retryMs    = 100
	safeWindow = 50 * time.Millisecond
)

var (
	params  = chaincfg.SimNetParams
	scripts [nScripts + 1][]byte
	addrs   [nScripts + 1]address.Address
	baseTS  = time.Unix(1600000000, 0)
)

func init() {
	for i := 1; i <= nScripts; i++ {
		h := make([]byte, 20)
		for j := range h {
			h[j] = byte(i*17 + j)
		}
		a, err := address.NewAddressWitnessPubKeyHash(h, &params)
		if err != nil {
			panic(err)
		}
		s, err := txscript.PayToAddrScript(a)
		if err != nil {
			panic(err)
		}
		addrs[i], scripts[i] = a, s
	}
}

// extIn: the e-th external outpoint with the script it pays.  0..2 pay scripts 5,6,7 (never watched as addresses by the
// generator's initial sets), 3..5 pay scripts 1,2,3, i.e. addresses the rescan usually watches already: adding such an
// outpoint by Update(AddInputs) puts nothing new on the script watch list, only the outpoint itself, and a later spend of
// it can be found through the outpoint alone.
func extIn(e int) inDef {
	return inDef{outp{extBase + e, 0}, [nExt]int{5, 6, 7, 1, 2, 3}[e]}
}

// ---- ground truth ---------------------------------------------------------------------------------------------------

type outp struct{ tx, idx int }

type inDef struct {
	op     outp
	script int
}

type txDef struct {
	id   int
	ins  []inDef
	outs []int
	msg  *wire.MsgTx
}

type blk struct {
	id, height int
	prev       *blk
	late       bool
	txs        []*txDef
	msg        *wire.MsgBlock
	hash       chainhash.Hash
	ublock     *btcutil.Block
	filter     *gcs.Filter
}

type tree struct {
	blocks   []*blk // by id-1
	byHash   map[chainhash.Hash]*blk
	txHash   map[int]chainhash.Hash
	nextTx   int
	lateFrom int
}

func newTree(lateFrom int) *tree {
	return &tree{byHash: map[chainhash.Hash]*blk{}, txHash: map[int]chainhash.Hash{}, nextTx: 1, lateFrom: lateFrom}
}

func extHash(n int) chainhash.Hash {
	return chainhash.DoubleHashH([]byte(fmt.Sprintf("external-%d", n)))
}

func (t *tree) hashOfTx(id int) chainhash.Hash {
	if id >= extBase {
		return extHash(id)
	}
	return t.txHash[id]
}

// mkTx builds a real transaction; ins==nil makes a coinbase.
func (t *tree) mkTx(ins []inDef, outs []int) *txDef {
	d := &txDef{id: t.nextTx, ins: ins, outs: outs}
	t.nextTx++
	m := wire.NewMsgTx(2)
	if ins == nil {
		m.AddTxIn(wire.NewTxIn(wire.NewOutPoint(&chainhash.Hash{}, 0xffffffff), []byte{0x51, byte(d.id), byte(d.id >> 8)}, nil))
	}
	for _, in := range ins {
		h := t.hashOfTx(in.op.tx)
		m.AddTxIn(wire.NewTxIn(wire.NewOutPoint(&h, uint32(in.op.idx)), nil, nil))
	}
	for _, o := range outs {
		m.AddTxOut(wire.NewTxOut(int64(1000+d.id), scripts[o]))
	}
	m.LockTime = uint32(d.id)
	d.msg = m
	t.txHash[d.id] = m.TxHash()
	return d
}

// mkBlock builds a block on prev (nil: genesis of the scripted tree) with the given non-coinbase txs.
func (t *tree) mkBlock(prev *blk, txs []*txDef) *blk {
	b := &blk{id: len(t.blocks) + 1, prev: prev}
	hdr := wire.BlockHeader{Version: 1, Bits: 0x207fffff, Nonce: uint32(b.id)}
	if prev != nil {
		b.height = prev.height + 1
		hdr.PrevBlock = prev.hash
	}
	hdr.Timestamp = baseTS.Add(time.Duration(b.height) * 10 * time.Minute)
	b.late = b.height >= t.lateFrom
	cb := t.mkTx(nil, []int{nScripts})
	b.txs = append([]*txDef{cb}, txs...)
	hdr.MerkleRoot = chainhash.DoubleHashH([]byte(fmt.Sprintf("merkle-%d", b.id)))
	b.msg = wire.NewMsgBlock(&hdr)
	var prevScripts [][]byte
	for _, x := range b.txs {
		_ = b.msg.AddTransaction(x.msg)
		for _, in := range x.ins {
			prevScripts = append(prevScripts, scripts[in.script])
		}
	}
	b.hash = hdr.BlockHash()
	b.ublock = btcutil.NewBlock(b.msg)
	b.ublock.SetHeight(int32(b.height))
	f, err := builder.BuildBasicFilter(b.msg, prevScripts)
	if err != nil {
		panic(err)
	}
	b.filter = f
	t.blocks = append(t.blocks, b)
	t.byHash[b.hash] = b
	return b
}

func (b *blk) prevID() int {
	if b.prev == nil {
		return 0
	}
	return b.prev.id
}

func listOr(xs []string) string {
	if len(xs) == 0 {
		return "-"
	}
	return strings.Join(xs, ",")
}

func (d *txDef) String() string {
	var ins, outs []string
	for _, i := range d.ins {
		ins = append(ins, fmt.Sprintf("%d.%d.%d", i.op.tx, i.op.idx, i.script))
	}
	for _, o := range d.outs {
		outs = append(outs, fmt.Sprint(o))
	}
	return fmt.Sprintf("%d:%s:%s", d.id, listOr(ins), listOr(outs))
}

func b2i(b bool) int {
	if b {
		return 1
	}
	return 0
}

func (b *blk) decl() string {
	return fmt.Sprintf("blk %d %d %d %d %s", b.id, b.prevID(), b.height, b2i(b.late),
		tr.Join(b.txs, func(x *txDef) string { return x.String() }))
}

// ---- the scripted ChainSource ----------------------------------------------------------------------------------------

type syncNtfn struct{}

func (syncNtfn) Header() wire.BlockHeader   { return wire.BlockHeader{} }
func (syncNtfn) Height() uint32             { return 0 }
func (syncNtfn) ChainTip() wire.BlockHeader { return wire.BlockHeader{} }

type mock struct {
	mu      sync.Mutex
	tree    *tree
	chain   []*blk // best chain by height
	failF   []bool
	failB   []bool
	bestN   int // BestBlock calls so far
	byHt    int // GetBlockHeaderByHeight calls
	stopped bool

	current    bool      // harness' view: rescan is in the current arm
	lastFFail  time.Time // last GetCFilter failure served in the current arm (arms the retry timer)
	nFFail     int
	calls      []string // fetch log since last drain
	gateArrive chan struct{}
	gateOpen   chan struct{}
	subCh      chan chan blockntfns.BlockNtfn
	subHeights []uint32
	cancelled  int
}

func (m *mock) ChainParams() chaincfg.Params { return params }

func (m *mock) stamp(b *blk) *headerfs.BlockStamp {
	return &headerfs.BlockStamp{Height: int32(b.height), Hash: b.hash, Timestamp: b.msg.Header.Timestamp}
}

func (m *mock) BestBlock() (*headerfs.BlockStamp, error) {
	m.mu.Lock()
	m.bestN++
	n := m.bestN
	m.mu.Unlock()
	if n > 2 { // calls 1 and 2 are the two waitForBlocks of rescan(); later ones are the catch-up arm
		m.gateArrive <- struct{}{}
		<-m.gateOpen
	}
	m.mu.Lock()
	defer m.mu.Unlock()
	if m.stopped {
		return nil, errors.New("harness shutdown")
	}
	return m.stamp(m.chain[len(m.chain)-1]), nil
}

func (m *mock) GetBlockHeaderByHeight(h uint32) (*wire.BlockHeader, error) {
	m.mu.Lock()
	defer m.mu.Unlock()
	m.byHt++
	if int(h) >= len(m.chain) {
		return nil, errors.New("height not found")
	}
	hdr := m.chain[h].msg.Header
	return &hdr, nil
}

func (m *mock) GetBlockHeader(hash *chainhash.Hash) (*wire.BlockHeader, uint32, error) {
	m.mu.Lock()
	defer m.mu.Unlock()
	// like headerfs: the hash index only knows the best chain (a rollback deletes the entries of the blocks it removes)
	b, ok := m.tree.byHash[*hash]
	if !ok || b.height >= len(m.chain) || m.chain[b.height] != b {
		return nil, 0, errors.New("block header not found")
	}
	hdr := b.msg.Header
	return &hdr, uint32(b.height), nil
}

func popFail(l *[]bool) bool {
	if len(*l) == 0 {
		return false
	}
	f := (*l)[0]
	*l = (*l)[1:]
	return f
}

func (m *mock) GetBlock(hash chainhash.Hash, _ ...neutrino.QueryOption) (*btcutil.Block, error) {
	m.mu.Lock()
	defer m.mu.Unlock()
	b, ok := m.tree.byHash[hash]
	if !ok {
		return nil, errors.New("block not found")
	}
	if popFail(&m.failB) {
		m.calls = append(m.calls, fmt.Sprintf("B%d!", b.id))
		return nil, errors.New("scripted block fetch failure")
	}
	m.calls = append(m.calls, fmt.Sprintf("B%d", b.id))
	return b.ublock, nil
}

func (m *mock) GetFilterHeaderByHeight(h uint32) (*chainhash.Hash, error) {
	m.mu.Lock()
	defer m.mu.Unlock()
	if int(h) >= len(m.chain) {
		return nil, errors.New("filter header not found")
	}
	fh := chainhash.DoubleHashH(m.chain[h].hash[:])
	return &fh, nil
}

func (m *mock) GetCFilter(hash chainhash.Hash, _ wire.FilterType, _ ...neutrino.QueryOption) (*gcs.Filter, error) {
	m.mu.Lock()
	defer m.mu.Unlock()
	b, ok := m.tree.byHash[hash]
	if !ok {
		return nil, errors.New("filter not found")
	}
	if popFail(&m.failF) {
		m.calls = append(m.calls, fmt.Sprintf("F%d!", b.id))
		if m.current {
			m.lastFFail = time.Now()
			m.nFFail++
		}
		return nil, errors.New("scripted filter fetch failure")
	}
	m.calls = append(m.calls, fmt.Sprintf("F%d", b.id))
	return b.filter, nil
}

func (m *mock) Subscribe(h uint32) (*blockntfns.Subscription, error) {
	m.mu.Lock()
	defer m.mu.Unlock()
	best := uint32(len(m.chain) - 1)
	m.subHeights = append(m.subHeights, h)
	if h != 0 && h > best { // blockManager.NotificationsSinceHeight
		return nil, fmt.Errorf("request with height %d is greater than best height known %d", h, best)
	}
	ch := make(chan blockntfns.BlockNtfn)
	m.subCh <- ch
	return &blockntfns.Subscription{Notifications: ch, Cancel: func() {
		m.mu.Lock()
		m.cancelled++
		m.mu.Unlock()
	}}, nil
}

func (m *mock) IsCurrent() bool { return true }

var _ neutrino.ChainSource = (*mock)(nil)

// ---- one case ---------------------------------------------------------------------------------------------------------

type pend struct {
	conn     bool
	b, tip   *blk
	fromBack bool
}

type H struct {
	t    *tr.W
	rng  *rand.Rand
	m    *mock
	tree *tree

	rescan *neutrino.Rescan
	errCh  <-chan error
	quit   chan struct{}

	cbMu sync.Mutex
	cbs  []string

	mode     string // "catchup" (at the gate), "current" (in select), "dead"
	sub      chan blockntfns.BlockNtfn
	pending  []pend
	armed    bool // retry timer may be pending
	armedAt  time.Time
	seenFail int
	nondet   bool

	updDone chan error // non-nil: an Update() is in flight (catch-up arm)
	updAfterSub bool // that Update() was received by the current arm right after the step that subscribed
	updText string

	callerCurH int // height of the block the caller was last told about (generator guidance only)
	ticks      *int
}

func (h *H) record(s string) {
	h.cbMu.Lock()
	h.cbs = append(h.cbs, s)
	h.cbMu.Unlock()
}

func (h *H) drain() []string {
	h.cbMu.Lock()
	defer h.cbMu.Unlock()
	r := h.cbs
	h.cbs = nil
	return r
}

func (h *H) handlers() rpcclient.NotificationHandlers {
	return rpcclient.NotificationHandlers{
		OnFilteredBlockConnected: func(height int32, hdr *wire.BlockHeader, txs []*btcutil.Tx) {
			b := h.tree.byHash[hdr.BlockHash()]
			id := -1
			if b != nil {
				id = b.id
			}
			var ids []string
			for _, x := range txs {
				n := -1
				if b != nil {
					for _, d := range b.txs {
						if d.msg.TxHash() == *x.Hash() {
							n = d.id
						}
					}
				}
				ids = append(ids, fmt.Sprint(n))
			}
			h.callerCurH = int(height)
			h.record(fmt.Sprintf("C %d:%d [%s]", height, id, strings.Join(ids, " ")))
		},
		OnFilteredBlockDisconnected: func(height int32, hdr *wire.BlockHeader) {
			b := h.tree.byHash[hdr.BlockHash()]
			id := -1
			if b != nil {
				id = b.id
			}
			h.callerCurH = int(height) - 1
			h.record(fmt.Sprintf("D %d:%d", height, id))
		},
	}
}

const watchdog = 4 * time.Second

// settle waits until the rescan goroutine is parked again and returns the new mode.
func (h *H) settle() string {
	if h.mode == "dead" {
		return "dead"
	}
	to := time.After(watchdog)
	if h.mode == "current" {
		select {
		case h.sub <- syncNtfn{}:
			return "current"
		case <-h.m.gateArrive:
			h.setMode("catchup")
		case <-h.errCh:
			h.record("X")
			h.setMode("dead")
		case <-to:
			h.record("HANG")
			h.setMode("dead")
		}
		return h.mode
	}
	// catch-up arm: the gate was just opened
	select {
	case <-h.m.gateArrive:
		// It may have subscribed, taken a waiting Update() in the current arm, rewound and come back to the gate
		// before we looked (both channels ready: select picks either).
		select {
		case <-h.m.subCh:
			h.sub, h.pending = nil, nil
			if h.updDone != nil {
				select {
				case err := <-h.updDone:
					h.updAfterSub = err == nil
				case <-time.After(watchdog):
					h.record("HANG")
					h.setMode("dead")
					return h.mode
				}
				h.updDone = nil
			}
		default:
		}
	case ch := <-h.m.subCh:
		h.sub = ch
		h.setMode("current")
		// backlog a real subscription would deliver
		h.pending = nil
		h.m.mu.Lock()
		from := int(h.m.subHeights[len(h.m.subHeights)-1])
		chain := append([]*blk{}, h.m.chain...)
		h.m.mu.Unlock()
		if from != 0 {
			for i := from + 1; i < len(chain); i++ {
				h.pending = append(h.pending, pend{conn: true, b: chain[i], fromBack: true})
			}
		}
		// an Update() launched while it was catching up is now the only ready case of its select
		if h.updDone != nil {
			select {
			case err := <-h.updDone:
				h.updAfterSub = err == nil
			case <-time.After(watchdog):
				h.record("HANG")
				h.setMode("dead")
				return h.mode
			}
			h.updDone = nil
		}
		// prove it reached the select (or went back to the catch-up arm because that update rewound)
		select {
		case h.sub <- syncNtfn{}:
		case <-h.m.gateArrive:
			h.setMode("catchup")
			h.sub, h.pending = nil, nil
		case <-h.errCh:
			h.record("X")
			h.setMode("dead")
		case <-time.After(watchdog):
			h.record("HANG")
			h.setMode("dead")
		}
	case <-h.errCh:
		h.record("X")
		h.setMode("dead")
	case <-to:
		h.record("HANG")
		h.setMode("dead")
	}
	return h.mode
}

func (h *H) setMode(s string) {
	h.mode = s
	h.m.mu.Lock()
	h.m.current = s == "current"
	h.m.mu.Unlock()
}

// noteTimer picks up retry-timer arming done by the rescan during the last op.
func (h *H) noteTimer() {
	h.m.mu.Lock()
	if h.m.nFFail != h.seenFail {
		h.seenFail = h.m.nFFail
		h.armed = true
		h.armedAt = h.m.lastFFail
	}
	h.m.mu.Unlock()
}

func (h *H) obs() string {
	h.noteTimer()
	parts := append([]string{h.mode}, h.drain()...)
	return strings.Join(parts, " | ")
}

func (h *H) emit(op string) {
	h.m.mu.Lock()
	calls := strings.Join(h.m.calls, " ")
	h.m.calls = nil
	h.m.mu.Unlock()
	h.t.Op(op, h.obs())
	if calls != "" {
		h.t.Line("# fetch %s", calls)
	}
}

// ---- ops ----------------------------------------------------------------------------------------------------------------

func (h *H) start(startBlk *blk, startTime time.Time, wa []int, wi []inDef) {
	h.quit = make(chan struct{})
	opts := []neutrino.RescanOption{
		neutrino.NotificationHandlers(h.handlers()),
		neutrino.QuitChan(h.quit),
		neutrino.StartBlock(&headerfs.BlockStamp{Hash: startBlk.hash, Height: int32(startBlk.height)}),
		neutrino.StartTime(startTime),
	}
	var as []address.Address
	for _, a := range wa {
		as = append(as, addrs[a])
	}
	opts = append(opts, neutrino.WatchAddrs(as...))
	opts = append(opts, neutrino.WatchInputs(h.inputs(wi)...))
	h.rescan = neutrino.NewRescan(h.m, opts...)
	h.errCh = h.rescan.Start()
	h.mode = "catchup"
	h.callerCurH = startBlk.height
	h.settle()
}

func (h *H) inputs(wi []inDef) []neutrino.InputWithScript {
	var r []neutrino.InputWithScript
	for _, i := range wi {
		r = append(r, neutrino.InputWithScript{
			OutPoint: wire.OutPoint{Hash: h.tree.hashOfTx(i.op.tx), Index: uint32(i.op.idx)},
			PkScript: scripts[i.script],
		})
	}
	return r
}

func (h *H) declare(b *blk) { h.t.Op(b.decl(), "-") }

func (h *H) tip() *blk { return h.m.chain[len(h.m.chain)-1] }

// opGrow appends a block to the best chain.
func (h *H) opGrow(b *blk) {
	h.m.mu.Lock()
	h.m.chain = append(h.m.chain, b)
	h.m.mu.Unlock()
	if h.sub != nil {
		h.pending = append(h.pending, pend{conn: true, b: b})
	}
	h.t.Hit("op.grow")
	h.t.Op(fmt.Sprintf("grow %d", b.id), "-")
}

// opReorg removes d blocks from the tip and appends nb (a fresh branch on the fork point), emitting the
// notifications in block-manager order: disconnects from the tip down, then connects upward.
func (h *H) opReorg(d int, nb []*blk) {
	h.m.mu.Lock()
	old := h.m.chain
	keep := len(old) - d
	if h.sub != nil {
		for i := len(old) - 1; i >= keep; i-- {
			h.pending = append(h.pending, pend{conn: false, b: old[i], tip: old[i-1]})
		}
		for _, b := range nb {
			h.pending = append(h.pending, pend{conn: true, b: b})
		}
	}
	h.m.chain = append(append([]*blk{}, old[:keep]...), nb...)
	h.m.mu.Unlock()
	h.t.Hit("op.reorg")
	if h.mode == "catchup" {
		h.t.Hit("op.reorg.during-catchup")
		if keep-1 < h.callerCurH {
			h.t.Hit("op.reorg.during-catchup.at-or-below-cur")
		}
	} else if len(h.pending) > d+len(nb) {
		h.t.Hit("op.reorg.with-unread-ntfns")
	}
	h.t.Op(fmt.Sprintf("reorg %d %s", d, tr.Join(nb, func(b *blk) string { return fmt.Sprint(b.id) })), "-")
}

func boolList(l []bool) string {
	return tr.Join(l, func(b bool) string { return fmt.Sprint(b2i(b)) })
}

func (h *H) opFail(kind string, l []bool) {
	h.m.mu.Lock()
	if kind == "failf" {
		h.m.failF = append([]bool{}, l...)
	} else {
		h.m.failB = append([]bool{}, l...)
	}
	h.m.mu.Unlock()
	h.t.Hit("op." + kind)
	h.t.Op(kind+" "+boolList(l), "-")
}

// guard: with the retry timer pending in the current arm, ops must finish before it can fire.
func (h *H) guard() {
	if h.mode == "current" && h.armed && time.Since(h.armedAt) > safeWindow {
		h.opTick()
	}
}

func (h *H) afterOp() {
	if h.mode == "current" && h.armed && time.Since(h.armedAt) > time.Duration(retryMs-15)*time.Millisecond {
		// the timer may have fired inside the op just performed: order unknown
		h.nondet = true
		h.t.Hit("nondet.timer-window")
		h.t.Op("nondet", "-")
	}
}

// opNtfn hands the next pending notification to the rescan.
func (h *H) opNtfn() {
	h.guard()
	if h.mode != "current" || len(h.pending) == 0 {
		return
	}
	p := h.pending[0]
	h.pending = h.pending[1:]
	var n blockntfns.BlockNtfn
	var op string
	if p.conn {
		n = blockntfns.NewBlockConnected(p.b.msg.Header, uint32(p.b.height))
		op = fmt.Sprintf("ntfn c %d", p.b.id)
		h.t.Hit("op.ntfn.connected")
	} else {
		n = blockntfns.NewBlockDisconnected(p.b.msg.Header, uint32(p.b.height), p.tip.msg.Header)
		op = fmt.Sprintf("ntfn d %d %d", p.b.id, p.tip.id)
		h.t.Hit("op.ntfn.disconnected")
	}
	select {
	case h.sub <- n:
	case <-time.After(watchdog):
		h.t.Op(op, "HANG")
		h.setMode("dead")
		return
	}
	h.settle()
	h.afterSubscribeOrOp()
	h.emit(op)
	h.afterOp()
}

func (h *H) afterSubscribeOrOp() {}

// opTick waits for the retry timer to fire and be fully processed.
func (h *H) opTick() {
	if h.mode != "current" || !h.armed {
		return
	}
	*h.ticks++
	h.t.Hit("op.tick")
	dl := h.armedAt.Add(time.Duration(retryMs+35) * time.Millisecond)
	if d := time.Until(dl); d > 0 {
		time.Sleep(d)
	}
	h.armed = false
	// the timer has been the only ready case for >= 35 ms; two barriers make sure its processing is over
	if h.settle() == "current" {
		h.settle()
	}
	h.emit("tick")
}

// opStep opens the BestBlock gate for one catch-up iteration.
func (h *H) opStep() {
	if h.mode != "catchup" {
		return
	}
	h.t.Hit("op.step")
	h.m.gateOpen <- struct{}{}
	h.settle()
	h.noteTimer()
	// an Update() launched earlier may have been drained at the top of the next iteration
	var updObs []string
	updTaken := false
	stepMode := h.mode
	if h.updAfterSub {
		h.updAfterSub = false
		updTaken = true
		stepMode = "current"
		h.t.Hit("op.step.subscribe")
		h.t.Hit("op.update.right-after-subscribe")
		updObs = h.drain()
	} else {
		if h.updDone != nil {
			select {
			case err := <-h.updDone:
				if err == nil {
					updTaken = true
					stepMode = "catchup" // drained at the top of the next catch-up iteration
				} else {
					h.updDone = nil // the rescan had already gone: nothing was applied
				}
			case <-time.After(20 * time.Millisecond):
			}
		}
	}
	var stepObs []string
	for _, c := range h.drain() {
		if updTaken && !strings.HasPrefix(c, "C") {
			updObs = append(updObs, c)
		} else {
			stepObs = append(stepObs, c)
		}
	}
	if h.mode == "current" && stepMode == "current" && !updTaken {
		h.t.Hit("op.step.subscribe")
	}
	h.m.mu.Lock()
	calls := strings.Join(h.m.calls, " ")
	h.m.calls = nil
	h.m.mu.Unlock()
	h.t.Op("step", strings.Join(append([]string{stepMode}, stepObs...), " | "))
	if calls != "" {
		h.t.Line("# fetch %s", calls)
	}
	if updTaken {
		h.t.Op(h.updText, strings.Join(append([]string{h.mode}, updObs...), " | "))
		h.updDone = nil
	}
	if h.mode == "current" && h.armed {
		// a timer armed in an earlier current period fires in this one; the queue was just cleared
		h.opTick()
	}
}

type upd struct {
	addrs  []int
	inputs []inDef
	rewind int
	quiet  bool
}

func (u upd) String() string {
	return fmt.Sprintf("update addrs %s inputs %s rewind %d quiet %d",
		tr.Join(u.addrs, func(a int) string { return fmt.Sprint(a) }),
		tr.Join(u.inputs, func(i inDef) string { return fmt.Sprintf("%d.%d.%d", i.op.tx, i.op.idx, i.script) }),
		u.rewind, b2i(u.quiet))
}

func (h *H) opUpdate(u upd) {
	h.guard()
	if h.mode == "dead" || h.updDone != nil {
		return
	}
	var as []address.Address
	for _, a := range u.addrs {
		as = append(as, addrs[a])
	}
	opts := []neutrino.UpdateOption{neutrino.AddAddrs(as...), neutrino.AddInputs(h.inputs(u.inputs)...)}
	if u.rewind != 0 {
		opts = append(opts, neutrino.Rewind(uint32(u.rewind)))
	}
	if u.quiet {
		opts = append(opts, neutrino.DisableDisconnectedNtfns(true))
	}
	done := make(chan error, 1)
	go func() { done <- h.rescan.Update(opts...) }()
	h.t.Hit("op.update." + h.mode)
	if u.rewind != 0 {
		h.t.Hit("op.update.rewind")
	}
	if h.mode == "current" {
		select {
		case <-done:
		case <-time.After(watchdog):
			h.t.Op(u.String(), "HANG")
			h.setMode("dead")
			return
		}
		h.settle()
		if h.mode != "current" {
			h.sub = nil // the rescan cancelled its subscription
			h.pending = nil
		}
		h.emit(u.String())
		h.afterOp()
		return
	}
	// catch-up arm: the rescan takes it at the top of its next iteration
	h.updDone, h.updText = done, u.String()
	time.Sleep(time.Millisecond)
}

func (h *H) stop() {
	close(h.quit)
	h.m.mu.Lock()
	h.m.stopped = true
	h.m.mu.Unlock()
	if h.mode == "catchup" {
		select {
		case h.m.gateOpen <- struct{}{}:
		case <-time.After(watchdog):
		}
	}
	if h.mode != "dead" {
		select {
		case <-h.errCh:
		case <-time.After(watchdog):
			h.t.Op("stop", "HANG")
		}
	}
	if h.updDone != nil {
		select {
		case <-h.updDone:
		case <-time.After(watchdog):
		}
	}
}

// ---- case construction -----------------------------------------------------------------------------------------------

type caseCfg struct {
	name       string
	lateFrom   int
	initLen    int // blocks above genesis in the initial chain
	startH     int
	wa         []int
	wi         []inDef
	allLate    bool
	script     func(h *H) // deterministic script, or nil for random
	nops       int
	allowF13   bool
	allowRetry bool
}

// randTxs invents transactions for a block on top of prev.
func (h *H) randTxs(prev *blk, dense bool) []*txDef {
	rng := h.rng
	n := rng.Intn(3)
	if dense {
		n = 1 + rng.Intn(3)
	}
	// recent outputs on this branch
	var outs []inDef
	for b, k := prev, 0; b != nil && k < 6; b, k = b.prev, k+1 {
		for _, x := range b.txs[1:] {
			for i, s := range x.outs {
				outs = append(outs, inDef{outp{x.id, i}, s})
			}
		}
	}
	var txs []*txDef
	for i := 0; i < n; i++ {
		var ins []inDef
		for k := 1 + rng.Intn(2); k > 0; k-- {
			switch {
			case len(outs) > 0 && rng.Intn(3) > 0:
				ins = append(ins, outs[rng.Intn(len(outs))])
			case rng.Intn(2) == 0:
				e := rng.Intn(nExt)
				ins = append(ins, extIn(e))
			default:
				ins = append(ins, inDef{outp{extBase + 100 + rng.Intn(50), rng.Intn(2)}, 8})
			}
		}
		var os []int
		for k := 1 + rng.Intn(2); k > 0; k-- {
			os = append(os, 1+rng.Intn(8))
		}
		x := h.tree.mkTx(ins, os)
		txs = append(txs, x)
		for i, s := range x.outs { // later txs of the same block may spend it
			outs = append(outs, inDef{outp{x.id, i}, s})
		}
	}
	return txs
}

func (h *H) newBlockOn(prev *blk) *blk {
	b := h.tree.mkBlock(prev, h.randTxs(prev, false))
	h.declare(b)
	return b
}

func (h *H) branch(from *blk, n int) []*blk {
	var r []*blk
	for p := from; n > 0; n-- {
		p = h.newBlockOn(p)
		r = append(r, p)
	}
	return r
}

func runCase(t *tr.W, rng *rand.Rand, c caseCfg, ticks *int) {
	tree := newTree(c.lateFrom)
	m := &mock{tree: tree, gateArrive: make(chan struct{}), gateOpen: make(chan struct{}), subCh: make(chan chan blockntfns.BlockNtfn, 1)}
	h := &H{t: t, rng: rng, m: m, tree: tree, ticks: ticks}
	g := tree.mkBlock(nil, nil)
	m.chain = []*blk{g}
	for i := 0; i < c.initLen; i++ {
		m.chain = append(m.chain, tree.mkBlock(m.chain[len(m.chain)-1], h.randTxs(m.chain[len(m.chain)-1], false)))
	}
	startTime := baseTS.Add(time.Duration(c.lateFrom)*10*time.Minute - 5*time.Minute)
	if c.lateFrom == 0 {
		startTime = time.Time{}
	}
	t.Case("rescan %s start %d %d addrs %s inputs %s chain %s", c.name, m.chain[c.startH].id, c.startH,
		tr.Join(c.wa, func(a int) string { return fmt.Sprint(a) }),
		tr.Join(c.wi, func(i inDef) string { return fmt.Sprintf("%d.%d.%d", i.op.tx, i.op.idx, i.script) }),
		tr.Join(m.chain, func(b *blk) string { return fmt.Sprint(b.id) }))
	for _, b := range m.chain {
		h.declare(b)
	}
	h.start(m.chain[c.startH], startTime, c.wa, c.wi)
	if h.mode != "catchup" {
		t.Op("start", h.obs())
		return
	}
	if c.script != nil {
		c.script(h)
	} else {
		h.random(c)
	}
	if h.nondet {
		t.Hit("case.nondet")
	}
	t.Hit("case.end." + h.mode)
	h.stop()
}

// random drives one random history.
func (h *H) random(c caseCfg) {
	rng := h.rng
	for i := 0; i < c.nops && h.mode != "dead"; i++ {
		r := rng.Intn(100)
		best := len(h.m.chain) - 1
		switch h.mode {
		case "catchup":
			switch {
			case r < 58:
				h.opStep()
			case r < 68:
				h.opGrow(h.newBlockOn(h.tip()))
			case r < 80:
				h.randReorg(c, best)
			case r < 93:
				h.randUpdate(c)
			case r < 96 && c.allowRetry:
				h.opFail("failf", randFails(rng))
			case r < 98 && c.allowRetry:
				h.opFail("failb", randFails(rng))
			default:
				h.opStep()
			}
		case "current":
			switch {
			case h.armed && r < 18:
				h.opTick()
			case r < 50 && len(h.pending) > 0:
				h.opNtfn()
			case r < 64:
				h.opGrow(h.newBlockOn(h.tip()))
			case r < 74:
				h.randReorg(c, best)
			case r < 84:
				h.randUpdate(c)
			case r < 93 && c.allowRetry && *h.ticks < tickBudget:
				h.opFail("failf", randFails(rng))
			case r < 96 && c.allowRetry && (variant || !h.unreadDisc()):
				h.opFail("failb", randFails(rng))
			default:
				if len(h.pending) > 0 {
					h.opNtfn()
				} else {
					h.opGrow(h.newBlockOn(h.tip()))
				}
			}
		}
	}
	// drain: deliver what is pending and let timers fire so that the tail is checked too
	for k := 0; k < 40 && h.mode != "dead"; k++ {
		switch {
		case h.mode == "catchup":
			h.opStep()
		case len(h.pending) > 0:
			h.opNtfn()
		case h.armed:
			h.opTick()
		default:
			return
		}
	}
}

var tickBudget = 40

// variant: also generate histories in which the rescan enters the catch-up arm with unread disconnects
// (shape=reorg-unread-at-catchup, recorded); VERIF_C09_VARIANT=0 switches them off
var variant = os.Getenv("VERIF_C09_VARIANT") != "0"

func randFails(rng *rand.Rand) []bool {
	n := 1 + rng.Intn(3)
	l := make([]bool, n)
	for i := range l {
		l[i] = rng.Intn(4) > 0
	}
	l[0] = true
	return l
}

func (h *H) randReorg(c caseCfg, best int) {
	rng := h.rng
	if best < 1 {
		h.opGrow(h.newBlockOn(h.tip()))
		return
	}
	maxD := best // never remove the scripted genesis
	if maxD > 4 {
		maxD = 4
	}
	d := 1 + rng.Intn(maxD)
	if h.mode == "catchup" && !c.allowF13 {
		// keep the fork point at or above the rescan's position
		room := best - h.callerCurH
		if room < 1 {
			h.opGrow(h.newBlockOn(h.tip()))
			return
		}
		if d > room {
			d = room
		}
	}
	n := d + rng.Intn(2)
	if variant && rng.Intn(6) == 0 && d > 1 {
		n = d - 1 // a shorter branch: the block manager is in the middle of a reorganisation
	}
	if h.mode == "current" && !variant {
		h.m.mu.Lock()
		fb := len(h.m.failB)
		h.m.mu.Unlock()
		if fb > 0 {
			h.opGrow(h.newBlockOn(h.tip()))
			return
		}
	}
	fork := h.m.chain[best-d]
	wasCurrent := h.mode == "current"
	h.opReorg(d, h.branch(fork, n))
	// a rewind below the fork point right behind a >=2-deep reorganisation whose notifications are all unread
	if wasCurrent && h.mode == "current" && d >= 2 && fork.height >= 2 && rng.Intn(3) == 0 {
		h.t.Hit("op.update.rewind-behind-deep-reorg")
		u := upd{rewind: 1 + rng.Intn(fork.height-1)}
		if rng.Intn(2) == 0 {
			u.addrs = []int{1 + rng.Intn(4)}
		}
		h.opUpdate(u)
	}
}

func (h *H) randUpdate(c caseCfg) {
	rng := h.rng
	var u upd
	switch rng.Intn(4) {
	case 0:
		u.addrs = []int{1 + rng.Intn(4)}
	case 1:
		e := rng.Intn(nExt)
		u.inputs = []inDef{extIn(e)}
	case 2:
		u.addrs = []int{1 + rng.Intn(4)}
		if h.callerCurH > 1 {
			u.rewind = 1 + rng.Intn(h.callerCurH)
		}
	default:
		if h.callerCurH > 1 {
			u.rewind = 1 + rng.Intn(h.callerCurH)
		} else {
			u.addrs = []int{1 + rng.Intn(8)}
		}
	}
	if h.mode == "current" && u.rewind != 0 && !variant && h.unreadDisc() {
		u.rewind = 0
		if len(u.addrs) == 0 {
			u.addrs = []int{1 + rng.Intn(8)}
		}
	}
	h.opUpdate(u)
}

// unreadDisc: Disconnected notifications the rescan has not read yet.  Entering the catch-up arm now (block fetch
// failure, missing filter header) strands it on a block that left the best chain: shape=reorg-unread-at-catchup (recorded).
// With VERIF_C09_VARIANT=0 the generator stays clear of that region.
func (h *H) unreadDisc() bool {
	for _, p := range h.pending {
		if !p.conn {
			return true
		}
	}
	return false
}

// ---- deterministic probes --------------------------------------------------------------------------------------------

// probeF13: reorganisation below the rescan's position while it is catching up.
func probeF13(h *H) {
	h.opStep() // -> height 2
	h.opStep() // -> height 3
	fork := h.m.chain[2]
	h.opReorg(3, h.branch(fork, 4)) // replaces heights 3..5
	h.opStep()                      // connect of height 4 on the new branch: its parent was never announced
	h.opStep()
	h.opStep()
	h.opStep()
	h.opStep()
}

// probeF13Subscribe: the reorganisation replaces the very block the catch-up arm stands on (same height), so the rescan
// subscribes on a stale block; the next connected notification is rejected by the PrevBlock check of the current arm
// and the catch-up arm then announces it anyway.
func probeF13Subscribe(h *H) {
	for k := 0; k < 4; k++ {
		h.opStep()
	}
	best := len(h.m.chain) - 1
	h.opReorg(1, h.branch(h.m.chain[best-1], 1))
	h.opStep() // subscribes at the stale tip
	h.opGrow(h.newBlockOn(h.tip()))
	h.opNtfn() // PrevBlock mismatch: back to catch-up, no callback
	h.opStep() // announces the child of a block the caller never saw
	h.opStep()
}

// probeCurrentReorg: the same reorganisation once the rescan is current is handled correctly.
func probeCurrentReorg(h *H) {
	for h.mode == "catchup" {
		h.opStep()
	}
	h.opGrow(h.newBlockOn(h.tip()))
	h.opNtfn()
	best := len(h.m.chain) - 1
	h.opReorg(3, h.branch(h.m.chain[best-3], 4))
	for len(h.pending) > 0 && h.mode == "current" {
		h.opNtfn()
	}
}

// probeRetry: filter fetch failures queue blocks in order; a reorganisation removes the stale tail; block fetch
// failure drops to catch-up.
func probeRetry(h *H) {
	for h.mode == "catchup" {
		h.opStep()
	}
	h.opFail("failf", []bool{true, true})
	h.opGrow(h.newBlockOn(h.tip()))
	h.opGrow(h.newBlockOn(h.tip()))
	h.opGrow(h.newBlockOn(h.tip()))
	h.opNtfn() // fails -> queued, timer armed
	h.opNtfn() // stashed
	h.opNtfn() // stashed
	best := len(h.m.chain) - 1
	h.opReorg(1, h.branch(h.m.chain[best-1], 2))
	h.opNtfn() // disconnect of the stashed tip: truncates the queue
	h.opNtfn() // stashed
	h.opTick() // first retry fails again
	h.opNtfn() // stashed
	h.opTick() // now everything is delivered in order
	h.opFail("failb", []bool{true})
	h.opGrow(h.tree.mkBlockDecl(h, h.tip(), true))
	h.opNtfn() // block fetch fails: not current any more
	for k := 0; k < 4 && h.mode == "catchup"; k++ {
		h.opStep()
	}
}

// mkBlockDecl makes a block that certainly pays watched script 1 and declares it.
func (t *tree) mkBlockDecl(h *H, prev *blk, pay bool) *blk {
	var txs []*txDef
	if pay {
		txs = append(txs, t.mkTx([]inDef{{outp{extBase + 120, 0}, 8}}, []int{1}))
	}
	b := t.mkBlock(prev, txs)
	h.declare(b)
	return b
}

// probeMatch: pay a watched script, spend the created outpoint later, add an address by update with rewind.
func probeMatch(h *H) {
	for h.mode == "catchup" {
		h.opStep()
	}
	t := h.tree
	pay := t.mkTx([]inDef{{outp{extBase + 130, 0}, 8}}, []int{3, 1})
	b1 := t.mkBlock(h.tip(), []*txDef{pay})
	h.declare(b1)
	h.opGrow(b1)
	h.opNtfn()
	spend := t.mkTx([]inDef{{outp{pay.id, 1}, 1}}, []int{4})
	sameBlkPay := t.mkTx([]inDef{{outp{extBase + 131, 0}, 8}}, []int{1})
	sameBlkSpend := t.mkTx([]inDef{{outp{sameBlkPay.id, 0}, 1}}, []int{2})
	b2 := t.mkBlock(b1, []*txDef{spend, sameBlkPay, sameBlkSpend})
	h.declare(b2)
	h.opGrow(b2)
	h.opNtfn()
	ext := t.mkTx([]inDef{{outp{extBase, 0}, 5}}, []int{6})
	b3 := t.mkBlock(b2, []*txDef{ext})
	h.declare(b3)
	h.opGrow(b3)
	h.opNtfn()
	// script 3 was paid in b1 but not watched then; watch it and rewind below b1
	h.opUpdate(upd{addrs: []int{3}, rewind: b1.height - 1})
	for k := 0; k < 6 && h.mode == "catchup"; k++ {
		h.opStep()
	}
}

// probeInputWatchedScript: an outpoint paying an already watched address is added by Update(AddInputs); the block that
// spends it (paying nothing watched) must be delivered with that transaction; same after adding one together with a rewind.
func probeInputWatchedScript(h *H) {
	for h.mode == "catchup" {
		h.opStep()
	}
	t := h.tree
	h.opUpdate(upd{inputs: []inDef{extIn(3)}}) // script 1, watched as an address by the std case
	b1 := t.mkBlock(h.tip(), []*txDef{t.mkTx([]inDef{extIn(3)}, []int{8})})
	h.declare(b1)
	h.opGrow(b1)
	h.opNtfn()
	b2 := t.mkBlock(b1, []*txDef{t.mkTx([]inDef{extIn(4)}, []int{8})})
	h.declare(b2)
	h.opGrow(b2)
	h.opNtfn() // not watched yet: nothing owed
	h.opUpdate(upd{inputs: []inDef{extIn(4)}, rewind: b1.height})
	for k := 0; k < 4 && h.mode == "catchup"; k++ {
		h.opStep()
	}
}

// probeUnread: a block fetch failure drops the rescan into the catch-up arm while the disconnects of a three-deep
// reorganisation are still unread in its subscription; they are lost and the catch-up arm goes on by height.
func probeUnread(h *H) {
	for h.mode == "catchup" {
		h.opStep()
	}
	h.opGrow(h.tree.mkBlockDecl(h, h.tip(), true)) // pays watched script 1: the block must be fetched
	best := len(h.m.chain) - 1
	h.opReorg(3, h.branch(h.m.chain[best-3], 4))
	h.opFail("failb", []bool{true})
	h.opNtfn() // the queued Connected: parent check passes, block fetch fails -> not current any more
	for k := 0; k < 6 && h.mode == "catchup"; k++ {
		h.opStep()
	}
}

// probeUnreadFilterHeader: same entry through a missing filter header (the new branch is still shorter).
func probeUnreadFilterHeader(h *H) {
	for h.mode == "catchup" {
		h.opStep()
	}
	h.opGrow(h.newBlockOn(h.tip()))
	best := len(h.m.chain) - 1
	fork := h.m.chain[best-3]
	h.opReorg(3, h.branch(fork, 1))
	h.opNtfn() // Connected above the (momentarily lower) best height: GetFilterHeaderByHeight fails
	h.opGrow(h.newBlockOn(h.tip()))
	h.opGrow(h.newBlockOn(h.tip()))
	h.opGrow(h.newBlockOn(h.tip()))
	for k := 0; k < 6 && h.mode == "catchup"; k++ {
		h.opStep()
	}
}

// probeRewindUnread: an Update(Rewind) below the fork point overtakes the unread disconnects of a two-deep
// reorganisation.  The rewind follows the rescan's own PrevBlock: one disconnect of its current block, then the parent
// is no longer in the header store and the rescan ends.  (A rewind that stepped back BY HEIGHT would disconnect blocks of
// the other branch that were never connected.)
func probeRewindUnread(h *H) {
	for h.mode == "catchup" {
		h.opStep()
	}
	best := len(h.m.chain) - 1
	h.opReorg(2, h.branch(h.m.chain[best-2], 2))
	h.opUpdate(upd{addrs: []int{2}, rewind: best - 3})
	for k := 0; k < 6 && h.mode == "catchup"; k++ {
		h.opStep()
	}
}

// probeRewindUnreadShallow: only the current block was reorganised out; the rewind lands on the common chain.
func probeRewindUnreadShallow(h *H) {
	for h.mode == "catchup" {
		h.opStep()
	}
	best := len(h.m.chain) - 1
	h.opReorg(1, h.branch(h.m.chain[best-1], 2))
	h.opUpdate(upd{addrs: []int{2}, rewind: best - 3})
	for k := 0; k < 8 && h.mode == "catchup"; k++ {
		h.opStep()
	}
}

// Run is the driver entry point.
func Run(t *tr.W, thorough bool) {
	rng := tr.Rng(9)
	budget := tr.EnvInt("VERIF_BUDGET", 1)
	ncases := 260 * budget
	if thorough {
		ncases = 1000 * budget
		tickBudget = 250 * budget
	} else {
		tickBudget = 45 * budget
	}
	if os.Getenv("VERIF_SEARCH") == "1" {
		// bin/check's second pass (a tie is broken and the oracle was quiet): bounded so that a failing quick run stays
		// well under two minutes; ~10x the quick histories, few real-time retry ticks
		ncases = 2600
		tickBudget = 120
	}
	ticks := 0
	std := func(name string, s func(*H)) caseCfg {
		return caseCfg{name: name, lateFrom: 0, initLen: 5, startH: 1, wa: []int{1, 2}, wi: []inDef{{outp{extBase, 0}, 5}}, script: s}
	}
	runCase(t, rng, std("probe-f13", probeF13), &ticks)
	runCase(t, rng, std("probe-f13-subscribe", probeF13Subscribe), &ticks)
	runCase(t, rng, std("probe-current-reorg", probeCurrentReorg), &ticks)
	runCase(t, rng, std("probe-retry", probeRetry), &ticks)
	runCase(t, rng, std("probe-match", probeMatch), &ticks)
	runCase(t, rng, std("probe-input-watched-script", probeInputWatchedScript), &ticks)
	runCase(t, rng, std("probe-rewind-unread", probeRewindUnread), &ticks)
	runCase(t, rng, std("probe-rewind-unread-shallow", probeRewindUnreadShallow), &ticks)
	if variant {
		runCase(t, rng, std("probe-unread", probeUnread), &ticks)
		runCase(t, rng, std("probe-unread-filter-header", probeUnreadFilterHeader), &ticks)
	}
	for i := 0; i < ncases; i++ {
		c := caseCfg{name: "rand", nops: 18 + rng.Intn(25)}
		c.initLen = 2 + rng.Intn(7)
		c.startH = rng.Intn(c.initLen + 1)
		if rng.Intn(3) == 0 {
			c.startH = c.initLen // start at the tip: current straight away
		}
		switch rng.Intn(3) {
		case 0:
			c.lateFrom = 0
		case 1:
			c.lateFrom = c.startH + rng.Intn(3)
		default:
			c.lateFrom = rng.Intn(c.initLen + 3)
		}
		for a := 1; a <= 4; a++ {
			if rng.Intn(3) == 0 {
				c.wa = append(c.wa, a)
			}
		}
		for e := 0; e < nExt; e++ {
			if rng.Intn(4) == 0 {
				c.wi = append(c.wi, extIn(e))
			}
		}
		c.allowF13 = rng.Intn(10) == 0
		c.allowRetry = rng.Intn(2) == 0
		if c.allowF13 {
			c.name = "rand-f13"
		}
		runCase(t, rng, c, &ticks)
	}
}
