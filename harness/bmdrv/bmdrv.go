// Package bmdrv drives the REAL neutrino block manager (handleHeadersMsg,
// handleInvMsg, handleNewPeerMsg, handleDonePeerMsg, rollBackToHeight,
// writeCFHeadersMsg, NotificationsSinceHeight) over real headerfs stores,
// synchronously from this goroutine, through the `verif` hooks in
// export_verif_bm.go.
//
// Every case builds a fork TREE of really mined headers under one of several
// chain-parameter sets, validates every header of the tree INDEPENDENTLY of
// neutrino with btcd (CheckBlockHeaderContext over a context of its own +
// CheckBlockHeaderSanity) and writes the table (id, parent, work, valid, fresh,
// height) into the case header, so that the Lean side needs no Bitcoin
// arithmetic.  Then it feeds batches cut from the tree, from several peers, and
// after EVERY event dumps the whole block store by height and by hash, the
// tip, the in-memory digest and the notifications emitted.
package bmdrv

import (
	"errors"
	"fmt"
	"math/big"
	"math/rand"
	"os"
	"path/filepath"
	"sort"
	"strings"
	"time"

	"github.com/btcsuite/btcd/blockchain"
	"github.com/btcsuite/btcd/chaincfg/v2"
	"github.com/btcsuite/btcd/chainhash/v2"
	"github.com/btcsuite/btcd/wire/v2"
	"github.com/btcsuite/btcwallet/walletdb"
	_ "github.com/btcsuite/btcwallet/walletdb/bdb"
	"github.com/lightninglabs/neutrino"
	"github.com/lightninglabs/neutrino/blockntfns"
	"github.com/lightninglabs/neutrino/headerfs"
	"verifharness/tr"
)

func init() { tr.Register("bm", Run) }

// ---------------------------------------------------------------- the tree

type node struct {
	id       int
	parent   *node
	hdr      *wire.BlockHeader
	hash     chainhash.Hash
	height   int32
	work     *big.Int
	valid    bool
	fresh    bool
	kind     string // ok badpow badbits mtp future
	children []*node
}

// hctx / cctx: this package's own chain context for btcd's validation (a plain
// parent-pointer tree; nothing of neutrino is involved).
type hctx struct{ n *node }

func (h hctx) Height() int32    { return h.n.height }
func (h hctx) Bits() uint32     { return h.n.hdr.Bits }
func (h hctx) Timestamp() int64 { return h.n.hdr.Timestamp.Unix() }
func (h hctx) Parent() blockchain.HeaderCtx {
	if h.n.parent == nil {
		return nil
	}
	return hctx{h.n.parent}
}
func (h hctx) RelativeAncestorCtx(d int32) blockchain.HeaderCtx {
	n := h.n
	for i := int32(0); i < d; i++ {
		if n.parent == nil {
			return nil
		}
		n = n.parent
	}
	return hctx{n}
}

type cctx struct {
	p        *chaincfg.Params
	per      int32
	min, max int64
}

func (c cctx) ChainParams() *chaincfg.Params { return c.p }
func (c cctx) BlocksPerRetarget() int32      { return c.per }
func (c cctx) MinRetargetTimespan() int64    { return c.min }
func (c cctx) MaxRetargetTimespan() int64    { return c.max }
func (c cctx) VerifyCheckpoint(int32, *chainhash.Hash) bool {
	return true
}
func (c cctx) FindPreviousCheckpoint() (blockchain.HeaderCtx, error) { return nil, nil }

type fakeTime struct{ now time.Time }

func (f fakeTime) AdjustedTime() time.Time         { return f.now }
func (f fakeTime) AddTimeSample(string, time.Time) {}
func (f fakeTime) Offset() time.Duration           { return 0 }

type world struct {
	flip  *flipScript // script "flipback"
	junk  *junkScript // script "cpjunk"
	rng    *rand.Rand
	params chaincfg.Params
	cc     cctx
	ts     fakeTime
	nodes  []*node
	byHash map[chainhash.Hash]*node
	main   []*node
	warps  []*node // leaves of the time-warp branches
	long   []*node // the long branch of the long-branch script
}

// requiredBits re-implements btcd's (unexported) next-difficulty rule; every
// header meant to be valid is afterwards CHECKED with btcd itself, so a slip
// here shows up as a generator panic, not as a wrong table.
func (w *world) requiredBits(parent *node, ts time.Time) uint32 {
	return w.requiredBitsCtx(hctx{parent}, ts)
}

func (w *world) requiredBitsCtx(parent blockchain.HeaderCtx, ts time.Time) uint32 {
	p := &w.params
	if p.PoWNoRetargeting {
		return p.PowLimitBits
	}
	if (parent.Height()+1)%w.cc.per != 0 {
		if p.ReduceMinDifficulty {
			allow := parent.Timestamp() + int64(p.MinDiffReductionTime/time.Second)
			if ts.Unix() > allow {
				return p.PowLimitBits
			}
			it := parent
			for it != nil && it.Height()%w.cc.per != 0 && it.Bits() == p.PowLimitBits {
				it = it.Parent()
			}
			if it == nil {
				return p.PowLimitBits
			}
			return it.Bits()
		}
		return parent.Bits()
	}
	first := parent.RelativeAncestorCtx(w.cc.per - 1)
	if first == nil {
		return p.PowLimitBits
	}
	actual := parent.Timestamp() - first.Timestamp()
	if actual < w.cc.min {
		actual = w.cc.min
	} else if actual > w.cc.max {
		actual = w.cc.max
	}
	nt := new(big.Int).Mul(blockchain.CompactToBig(parent.Bits()), big.NewInt(actual))
	nt.Div(nt, big.NewInt(int64(p.TargetTimespan/time.Second)))
	if nt.Cmp(p.PowLimit) > 0 {
		nt.Set(p.PowLimit)
	}
	return blockchain.BigToCompact(nt)
}

// mixedCtx is a branch header whose ancestors ABOVE the fork point are taken from the main chain
// at the same heights instead of from its own branch: the context a validator hands to btcd if it
// resolves a candidate branch's ancestors through the accepted chain.  Used only to CONSTRUCT
// headers on which "own branch" and "accepted chain" contexts disagree; the table always records
// btcd's verdict on the header's own branch.
type mixedCtx struct {
	w  *world
	n  *node
	bh int32
}

func (m mixedCtx) Height() int32    { return m.n.height }
func (m mixedCtx) Bits() uint32     { return m.n.hdr.Bits }
func (m mixedCtx) Timestamp() int64 { return m.n.hdr.Timestamp.Unix() }
func (m mixedCtx) Parent() blockchain.HeaderCtx {
	return m.RelativeAncestorCtx(1)
}
func (m mixedCtx) RelativeAncestorCtx(d int32) blockchain.HeaderCtx {
	if d == 0 {
		return m
	}
	h := m.n.height - d
	if h < 0 {
		return nil
	}
	if h > m.bh {
		if int(h) < len(m.w.main) {
			return hctx{m.w.main[h]}
		}
		return nil
	}
	return hctx{m.n}.RelativeAncestorCtx(d)
}

func (w *world) mtp(parent *node) int64 {
	return blockchain.CalcPastMedianTime(hctx{parent}).Unix()
}

// mine makes a child of parent.  kind selects the single rule to break.
func (w *world) mine(parent *node, ts int64, kind string) *node {
	return w.mineBits(parent, ts, kind, 0)
}

// mineBits: as mine, with the difficulty bits given (0 = what the rules require on the own branch).
func (w *world) mineBits(parent *node, ts int64, kind string, bits uint32) *node {
	h := &wire.BlockHeader{
		Version:   4,
		PrevBlock: parent.hash,
		Timestamp: time.Unix(ts, 0),
	}
	w.rng.Read(h.MerkleRoot[:])
	h.Bits = w.requiredBits(parent, h.Timestamp)
	if bits != 0 {
		h.Bits = bits
	}
	if kind == "badbits" {
		// a different (harder) target than the rules require
		t := blockchain.CompactToBig(h.Bits)
		t.Rsh(t, 1)
		h.Bits = blockchain.BigToCompact(t)
	}
	target := blockchain.CompactToBig(h.Bits)
	for n := uint32(w.rng.Intn(1 << 20)); ; n++ {
		h.Nonce = n
		hash := h.BlockHash()
		ok := blockchain.HashToBig(&hash).Cmp(target) <= 0
		if ok != (kind == "badpow") {
			break
		}
	}
	nd := &node{id: len(w.nodes), parent: parent, hdr: h, hash: h.BlockHash(),
		height: parent.height + 1, work: blockchain.CalcWork(h.Bits), kind: kind}
	parent.children = append(parent.children, nd)
	w.nodes = append(w.nodes, nd)
	w.byHash[nd.hash] = nd
	return nd
}

// judge fills valid/fresh for every node with btcd's own checks.
func (w *world) judge() {
	lim := w.ts.now.Add(-24 * time.Hour)
	for _, n := range w.nodes {
		n.fresh = !n.hdr.Timestamp.Before(lim)
		if n.parent == nil {
			n.valid = true
			continue
		}
		e1 := blockchain.CheckBlockHeaderContext(n.hdr, hctx{n.parent}, 0, w.cc, true)
		e2 := blockchain.CheckBlockHeaderSanity(n.hdr, w.params.PowLimit, w.ts, 0)
		n.valid = e1 == nil && e2 == nil
		if n.valid != (n.kind == "ok") {
			panic(fmt.Sprintf("generator: node %d kind %s judged valid=%v (%v / %v)", n.id, n.kind, n.valid, e1, e2))
		}
	}
}

var paramSets = []struct {
	noRetarget bool
	interval   int
	minDiff    bool
}{
	{true, 2016, true}, {false, 4, false}, {false, 4, true}, {false, 8, false}, {true, 2016, false}, {false, 8, true},
	{false, 146, false}, // long-branch script only: a retarget whose look-back lies more than a day of blocks back
}

func (w *world) spacing(style int) int64 {
	switch style {
	case 0:
		return 600
	case 1:
		return int64(60 + w.rng.Intn(300)) // fast blocks: difficulty rises
	case 2:
		return int64(900 + w.rng.Intn(1500)) // slow blocks (min-difficulty rule fires)
	default:
		return int64(30 + w.rng.Intn(1400))
	}
}

func (w *world) nextTs(parent *node, style int) int64 {
	ts := parent.hdr.Timestamp.Unix() + w.spacing(style)
	if w.rng.Intn(6) == 0 {
		// a timestamp below the parent's but still above median-time-past
		m := w.mtp(parent)
		if d := parent.hdr.Timestamp.Unix() - m; d > 1 {
			ts = m + 1 + w.rng.Int63n(d)
		}
	}
	if m := w.mtp(parent); ts <= m {
		ts = m + 1
	}
	return ts
}

func (w *world) extend(from *node, n int, style int) []*node {
	var out []*node
	cur := from
	for i := 0; i < n; i++ {
		cur = w.mine(cur, w.nextTs(cur, style), "ok")
		out = append(out, cur)
	}
	return out
}

func newWorld(rng *rand.Rand, ps int) *world {
	w := &world{rng: rng, byHash: map[chainhash.Hash]*node{}}
	w.params = chaincfg.SimNetParams
	s := paramSets[ps]
	w.params.PoWNoRetargeting = s.noRetarget
	w.params.ReduceMinDifficulty = s.minDiff
	w.params.MinDiffReductionTime = 20 * time.Minute
	w.params.TargetTimePerBlock = 10 * time.Minute
	if !s.noRetarget {
		w.params.TargetTimespan = time.Duration(s.interval) * w.params.TargetTimePerBlock
	}
	w.params.Checkpoints = nil
	tsp := int64(w.params.TargetTimespan / time.Second)
	w.cc = cctx{p: &w.params, per: int32(tsp / int64(w.params.TargetTimePerBlock/time.Second)),
		min: tsp / w.params.RetargetAdjustmentFactor, max: tsp * w.params.RetargetAdjustmentFactor}
	g := w.params.GenesisBlock.Header
	gen := &node{id: 0, hdr: &g, hash: g.BlockHash(), work: blockchain.CalcWork(g.Bits), kind: "ok"}
	w.nodes = []*node{gen}
	w.byHash[gen.hash] = gen
	return w
}

// build grows the tree and chooses time and checkpoints.
func (w *world) build(t *tr.W) {
	rng := w.rng
	gen := w.nodes[0]
	w.main = append([]*node{gen}, w.extend(gen, 9+rng.Intn(14), rng.Intn(4))...)
	// checkpoints on the main chain, 0..3, sometimes one on the very tip
	ncp := rng.Intn(4)
	hs := map[int]bool{}
	for i := 0; i < ncp; i++ {
		hs[1+rng.Intn(len(w.main)-1)] = true
	}
	if ncp > 0 && rng.Intn(4) == 0 {
		hs[len(w.main)-1] = true
	}
	var cph []int
	for h := range hs {
		cph = append(cph, h)
	}
	sort.Ints(cph)
	for _, h := range cph {
		w.params.Checkpoints = append(w.params.Checkpoints, chaincfg.Checkpoint{Height: int32(h), Hash: &w.main[h].hash})
	}
	t.Hit(fmt.Sprintf("checkpoints.%d", len(cph)))
	// forks: some aimed at the neighbourhood of checkpoints
	valid := func() []*node {
		var v []*node
		for _, n := range w.nodes {
			if n.kind == "ok" && allOk(n) {
				v = append(v, n)
			}
		}
		return v
	}
	for _, h := range cph {
		if rng.Intn(10) < 7 {
			fp := h - 1 - rng.Intn(3)
			if fp < 0 {
				fp = 0
			}
			w.extend(w.main[fp], h-fp+rng.Intn(4), rng.Intn(4))
		}
		if rng.Intn(10) < 4 && h+1 < len(w.main) {
			w.extend(w.main[h], 1+rng.Intn(5), rng.Intn(4)) // fork exactly AT the checkpoint
		}
	}
	for i, nf := 0, 2+rng.Intn(4); i < nf; i++ {
		v := valid()
		var from *node
		if rng.Intn(3) > 0 {
			from = w.main[max(0, len(w.main)-1-rng.Intn(7))]
		} else {
			from = v[rng.Intn(len(v))]
		}
		room := int32(len(w.main)) + 6 - from.height
		if room < 1 {
			continue
		}
		w.extend(from, 1+rng.Intn(int(min(room, 8))), rng.Intn(4))
	}
	// time-warp branches: their timestamps run away from the main chain's, so that from the third
	// header on "ancestors on the own branch" and "ancestors on the main chain at the same heights"
	// give different median-time-past / retarget contexts.  One header of such a branch may be
	// made INVALID on its own branch while fine against the main chain's context (kind "warp");
	// headers that are valid on their own branch but would fail against the main chain's context
	// arise by themselves and are counted.
	for i, nw := 0, 1+rng.Intn(3); i < nw; i++ {
		fpH := rng.Intn(min(4, len(w.main)-1))
		if rng.Intn(2) == 0 {
			fpH = rng.Intn(len(w.main) - 1)
		}
		fp := w.main[fpH]
		m := 5 + rng.Intn(6)
		fast := rng.Intn(2) == 0
		bad := 3 + rng.Intn(m-2) // position (1-based) of the header to spoil, >= 3
		cur := fp
		for k := 1; k <= m; k++ {
			var ts int64
			if fast {
				ts = cur.hdr.Timestamp.Unix() + int64(1500+rng.Intn(1000))
			} else {
				ts = w.mtp(cur) + 1 + int64(rng.Intn(20))
			}
			if k == bad {
				mc := mixedCtx{w, cur, fp.height}
				made := false
				// (a) at or below the own branch's median-time-past, above the main chain's
				ts2 := w.mtp(cur) - int64(rng.Intn(2))
				hd := &wire.BlockHeader{Version: 4, Timestamp: time.Unix(ts2, 0)}
				hd.Bits = w.requiredBitsCtx(mc, hd.Timestamp)
				bitsFirst := rng.Intn(2) == 0 && w.requiredBits(cur, time.Unix(ts, 0)) != w.requiredBitsCtx(mc, time.Unix(ts, 0))
				if !bitsFirst && blockchain.CheckBlockHeaderContext(hd, mc, 0, w.cc, true) == nil {
					cur = w.mineBits(cur, ts2, "warp", hd.Bits)
					t.Hit("tree.warpA.mtp")
					made = true
				} else if ob, mb := w.requiredBits(cur, time.Unix(ts, 0)), w.requiredBitsCtx(mc, time.Unix(ts, 0)); ob != mb {
					// (b) the difficulty the main chain's retarget context would require
					hd = &wire.BlockHeader{Version: 4, Timestamp: time.Unix(ts, 0), Bits: mb}
					if blockchain.CheckBlockHeaderContext(hd, mc, 0, w.cc, true) == nil {
						cur = w.mineBits(cur, ts, "warp", mb)
						t.Hit("tree.warpA.bits")
						made = true
					}
				}
				if made {
					if rng.Intn(2) == 0 {
						cur = w.extend(cur, 1+rng.Intn(2), 0)[0]
					}
					break
				}
				t.Hit("tree.warpA.none")
			}
			cur = w.mine(cur, ts, "ok")
			if k >= 3 && blockchain.CheckBlockHeaderContext(cur.hdr, mixedCtx{w, cur.parent, fp.height}, 0, w.cc, true) != nil {
				t.Hit("tree.warpB") // valid on its own branch, not against the main chain's context
			}
		}
		for len(cur.children) > 0 {
			cur = cur.children[0]
		}
		w.warps = append(w.warps, cur)
	}
	// time: either every header is recent, or only those above some height
	var maxTs int64
	for _, n := range w.nodes {
		if ts := n.hdr.Timestamp.Unix(); ts > maxTs {
			maxTs = ts
		}
	}
	if rng.Intn(3) == 0 {
		k := 1 + rng.Intn(len(w.main)-1)
		w.ts.now = time.Unix(w.main[k].hdr.Timestamp.Unix()+24*3600, 0)
		t.Hit("time.stale-prefix")
	} else {
		w.ts.now = time.Unix(maxTs+4*3600, 0)
		t.Hit("time.all-fresh")
	}
	// headers invalid in exactly one rule, some with (rule-abiding) children
	kinds := []string{"badpow", "badbits", "mtp", "future"}
	for i, nb := 0, 2+rng.Intn(4); i < nb; i++ {
		v := valid()
		p := v[rng.Intn(len(v))]
		if rng.Intn(2) == 0 {
			p = w.main[rng.Intn(len(w.main))]
		}
		k := kinds[rng.Intn(len(kinds))]
		var ts int64
		switch k {
		case "mtp":
			ts = w.mtp(p) - int64(rng.Intn(3)) // at or below median-time-past
		case "future":
			ts = w.ts.now.Unix() + 2*3600 + 1 + int64(rng.Intn(500))
		default:
			ts = w.nextTs(p, 0)
		}
		bad := w.mine(p, ts, k)
		t.Hit("tree.invalid." + k)
		if rng.Intn(2) == 0 && k != "future" {
			w.extend(bad, 1+rng.Intn(2), 0)
		}
		// make sure the parent of an invalid header also has a valid child
		has := false
		for _, c := range p.children {
			has = has || c.kind == "ok"
		}
		if !has {
			w.extend(p, 1+rng.Intn(3), rng.Intn(4))
		}
	}
	w.judge()
}

// buildLong: a short main chain and ONE long competing branch (more than two retarget intervals of
// 146 blocks) forking off near genesis, so that the branch contains a retarget height whose
// look-back block lies inside the branch, more than 144 headers behind.  Constant spacing keeps the
// difficulty where it is; every header is valid.
func (w *world) buildLong(t *tr.W) {
	gen := w.nodes[0]
	w.main = append([]*node{gen}, w.extend(gen, 10+w.rng.Intn(4), 0)...)
	fp := w.main[1+w.rng.Intn(3)]
	cur := fp
	for i := 0; i < 300+w.rng.Intn(10); i++ {
		cur = w.mine(cur, cur.hdr.Timestamp.Unix()+600, "ok")
		w.long = append(w.long, cur)
	}
	w.ts.now = time.Unix(cur.hdr.Timestamp.Unix()+3600, 0)
	t.Hit("checkpoints.0")
	t.Hit("time.long")
	w.judge()
}

// ------------------------------------------------ near-tie reorganisations
//
// A chain on which the blocks do NOT all carry the same work (a retarget that really changes the
// bits; the 20-minute minimum-difficulty rule), and, for several fork points below its tip,
// competing branches whose total work is placed on purpose right next to the work W of the suffix
// they would displace: the heaviest branch found below W, one of exactly W, the lightest one found
// above W.  Whoever sums the displaced work over anything else than the heights fork+1 .. tip - one
// block too many, one too few, a window shifted by one - gets a number that differs from W by at
// least the difference of two neighbouring blocks' work, and decides one of these offers wrongly.

// pnode is a PLANNED header: height, bits and timestamp are all the difficulty rules look at, so a
// branch can be weighed before a single hash is computed.  Only the branches picked are mined.
type pnode struct {
	parent blockchain.HeaderCtx
	height int32
	bits   uint32
	ts     int64
}

func (p *pnode) Height() int32                { return p.height }
func (p *pnode) Bits() uint32                 { return p.bits }
func (p *pnode) Timestamp() int64             { return p.ts }
func (p *pnode) Parent() blockchain.HeaderCtx { return p.parent }
func (p *pnode) RelativeAncestorCtx(d int32) blockchain.HeaderCtx {
	var c blockchain.HeaderCtx = p
	for i := int32(0); i < d; i++ {
		if c = c.Parent(); c == nil {
			return nil
		}
	}
	return c
}

func work64(bits uint32) int64 {
	w := blockchain.CalcWork(bits)
	if !w.IsInt64() {
		panic("generator: work does not fit 63 bits")
	}
	return w.Int64()
}

// ntCand: one competing branch of a near-tie round.
type ntCand struct {
	fp    *node   // fork point (stored; the branch's first header names it)
	kind  string  // below tie above
	ts    []int64 // the plan
	total int64   // work of the whole branch
	disp  int64   // W: work of the suffix it would displace
	nodes []*node // the mined branch
}

// ntRound: the offers made against one stored chain; `adopt` (if any) is sent last and becomes
// the stored chain of the next round.
type ntRound struct {
	chain []*node
	offer []*ntCand
	adopt *ntCand
	split int // > 0: `adopt` is revealed in two messages, the first being its first `split` headers
}

// ntPickTs chooses the timestamp of the next planned header.  need = what the branch still lacks
// to reach the displaced work.
func (w *world) ntPickTs(cur blockchain.HeaderCtx, need int64) int64 {
	rng := w.rng
	base := cur.Timestamp()
	per := w.cc.per
	var ts int64
	switch r := rng.Intn(12); {
	case r < 3:
		ts = base + 600
	case r < 5:
		ts = base + 20 + int64(rng.Intn(100))
	case r < 6:
		ts = base + 700 + int64(rng.Intn(480))
	case r < 10 && w.params.ReduceMinDifficulty:
		ts = base + 1201 + int64(rng.Intn(700)) // a minimum-difficulty block
	default:
		ts = base + 200 + int64(rng.Intn(400))
	}
	// the header being planned is the last one of its retarget interval: its timestamp decides the
	// bits of the next interval.  Aim them so that k such blocks bring the branch next to W.
	if !w.params.PoWNoRetargeting && (cur.Height()+2)%per == 0 && rng.Intn(3) > 0 {
		if first := cur.RelativeAncestorCtx(per - 2); first != nil {
			own := w.requiredBitsCtx(cur, time.Unix(base+1, 0))
			k := int64(1 + rng.Intn(3))
			want := (need - work64(own) + int64(rng.Intn(4)-1)) / k
			if want >= 2 {
				// target' = 2^256/want - 1;  actual = target' * timespan / target(own)
				tgt := new(big.Int).Lsh(big.NewInt(1), 256)
				tgt.Div(tgt, big.NewInt(want))
				tgt.Sub(tgt, big.NewInt(1))
				a := new(big.Int).Mul(tgt, big.NewInt(int64(w.params.TargetTimespan/time.Second)))
				a.Div(a, blockchain.CompactToBig(own))
				if a.IsInt64() {
					actual := a.Int64() + int64(rng.Intn(2))
					if actual >= w.cc.min && actual <= w.cc.max {
						ts = first.Timestamp() + actual
					}
				}
			}
		}
	}
	if m := blockchain.CalcPastMedianTime(cur).Unix(); ts <= m {
		ts = m + 1
	}
	return ts
}

// ntSearch plans branches off fp by random walks and keeps, of every prefix of every walk, the
// heaviest one below W, one of exactly W and the lightest one above W.
func (w *world) ntSearch(fp *node, W int64, maxLen int) (below, tie, above *ntCand) {
	keep := func(kind string, tss []int64, total int64) *ntCand {
		return &ntCand{fp: fp, kind: kind, ts: append([]int64{}, tss...), total: total, disp: W}
	}
	for walk := 0; walk < 160; walk++ {
		var cur blockchain.HeaderCtx = hctx{fp}
		cum := int64(0)
		var tss []int64
		for d := 0; d < maxLen && cum <= W; d++ {
			ts := w.ntPickTs(cur, W-cum)
			bits := w.requiredBitsCtx(cur, time.Unix(ts, 0))
			cum += work64(bits)
			tss = append(tss, ts)
			cur = &pnode{parent: cur, height: cur.Height() + 1, bits: bits, ts: ts}
			switch {
			case cum < W && (below == nil || cum > below.total || cum == below.total && w.rng.Intn(3) == 0):
				below = keep("below", tss, cum)
			case cum == W && (tie == nil || w.rng.Intn(3) == 0):
				tie = keep("tie", tss, cum)
			case cum > W && (above == nil || cum < above.total || cum == above.total && w.rng.Intn(3) == 0):
				above = keep("above", tss, cum)
			}
		}
	}
	return
}

func (w *world) ntMine(c *ntCand) {
	cur := c.fp
	sum := int64(0)
	for _, ts := range c.ts {
		cur = w.mine(cur, ts, "ok")
		c.nodes = append(c.nodes, cur)
		sum += cur.work.Int64()
	}
	if sum != c.total {
		panic(fmt.Sprintf("generator: planned work %d, mined work %d", c.total, sum))
	}
}

// buildNearTie: the main chain with its difficulty on the move, then `rounds` rounds of offers.
func (w *world) buildNearTie(t *tr.W) []*ntRound {
	rng := w.rng
	per := int(w.cc.per)
	minDiff := w.params.ReduceMinDifficulty
	// the tip usually lies 0..2 blocks past a retarget height
	L := per*(1+rng.Intn(2)) + rng.Intn(3)
	if per == 4 {
		L += 4
	}
	if rng.Intn(3) == 0 {
		L = 2*per + 1 + rng.Intn(per)
	}
	cur := w.nodes[0]
	w.main = []*node{cur}
	tempo := rng.Intn(2) // the first interval is fast: the difficulty leaves the limit
	for h := 1; h <= L; h++ {
		if h%per == 0 {
			tempo = []int{0, 1, 2, 2, 2, 3}[rng.Intn(6)] // later on it falls as often as it rises
		}
		var sp int64
		switch tempo {
		case 0:
			sp = int64(20 + rng.Intn(100)) // four times harder
		case 1:
			sp = int64(200 + rng.Intn(330)) // harder by some odd factor
		case 2:
			sp = int64(700 + rng.Intn(490)) // easier
		default:
			sp = 600
		}
		if minDiff && h%per != 0 && (rng.Intn(4) == 0 || h == L && rng.Intn(2) == 0) {
			sp = int64(1201 + rng.Intn(900)) // a minimum-difficulty block between normal ones
		}
		cur = w.mine(cur, cur.hdr.Timestamp.Unix()+sp, "ok")
		w.main = append(w.main, cur)
	}
	if rng.Intn(3) == 0 { // a checkpoint well below every fork point
		h := 1 + rng.Intn(max(1, L-7))
		w.params.Checkpoints = []chaincfg.Checkpoint{{Height: int32(h), Hash: &w.main[h].hash}}
	}
	t.Hit(fmt.Sprintf("checkpoints.%d", len(w.params.Checkpoints)))
	floor := 0
	for _, c := range w.params.Checkpoints {
		floor = int(c.Height)
	}

	var rounds []*ntRound
	chain := w.main
	for r, nr := 0, 3+rng.Intn(2); r < nr; r++ {
		rd := &ntRound{chain: chain}
		rounds = append(rounds, rd)
		tipH := len(chain) - 1
		tipW := chain[tipH].work.Int64()
		// fork points: up to 6 below the tip; those whose block differs in work from the tip first
		var diff, same []int
		for f := tipH - 1; f >= max(floor, tipH-6, 0); f-- {
			if chain[f].work.Int64() != tipW {
				diff = append(diff, f)
			} else {
				same = append(same, f)
			}
		}
		rng.Shuffle(len(diff), func(i, j int) { diff[i], diff[j] = diff[j], diff[i] })
		rng.Shuffle(len(same), func(i, j int) { same[i], same[j] = same[j], same[i] })
		fps := append(diff[:min(len(diff), 5)], same[:min(len(same), 1)]...)
		var aboves []*ntCand
		for i, f := range fps {
			W := int64(0)
			for _, n := range chain[f+1:] {
				W += n.work.Int64()
			}
			below, tie, above := w.ntSearch(chain[f], W, min(tipH-f+3, 8))
			// the not-heavier offers of two fork points whose block differs from the tip, and of one
			// whose block does not; the heavier offer is looked for at every one of them
			if i < 2 || i == len(fps)-1 {
				for _, c := range []*ntCand{below, tie} {
					if c != nil {
						rd.offer = append(rd.offer, c)
					}
				}
			}
			if above != nil {
				aboves = append(aboves, above)
			}
		}
		if len(aboves) > 0 {
			// the branch to be adopted: the one closest to what it displaces, relative to the
			// difference between its fork block and the tip
			sort.SliceStable(aboves, func(i, j int) bool {
				return w.ntSlack(chain, aboves[i]) < w.ntSlack(chain, aboves[j])
			})
			rd.adopt = aboves[0]
			if rng.Intn(4) == 0 {
				rd.adopt = aboves[rng.Intn(len(aboves))]
			}
			if n := len(rd.adopt.ts); n > 1 && rng.Intn(2) == 0 {
				rd.split = 1 + rng.Intn(n-1)
			}
		}
		rng.Shuffle(len(rd.offer), func(i, j int) { rd.offer[i], rd.offer[j] = rd.offer[j], rd.offer[i] })
		for _, c := range rd.offer {
			w.ntMine(c)
		}
		if rd.adopt == nil {
			break
		}
		w.ntMine(rd.adopt)
		chain = append(append([]*node{}, chain[:rd.adopt.fp.height+1]...), rd.adopt.nodes...)
	}
	var maxTs int64
	for _, n := range w.nodes {
		maxTs = max(maxTs, n.hdr.Timestamp.Unix())
	}
	w.ts.now = time.Unix(maxTs+3600, 0)
	t.Hit("time.all-fresh")
	w.judge()
	for _, rd := range rounds {
		for _, c := range append(append([]*ntCand{}, rd.offer...), rd.adopt) {
			if c != nil {
				w.ntCount(t, rd.chain, c)
			}
		}
	}
	return rounds
}

// ntSlack: how far above W the branch lies, in units that put the decisive ones first (0 = lies
// between W and the sum over the window shifted down by one block, the fork block being heavier
// than the tip).
func (w *world) ntSlack(chain []*node, c *ntCand) int64 {
	d := chain[c.fp.height].work.Int64() - chain[len(chain)-1].work.Int64()
	if d > 0 && c.total-c.disp <= d {
		return 0
	}
	return c.total - c.disp
}

// ntCount records what kind of near tie an offer is (input distribution for the evidence).
func (w *world) ntCount(t *tr.W, chain []*node, c *ntCand) {
	f := int(c.fp.height)
	tipH := len(chain) - 1
	wf, wt := chain[f].work.Int64(), chain[tipH].work.Int64()
	delta := c.total - c.disp
	if delta < 0 {
		delta = -delta
	}
	t.Hit("neartie.offer." + c.kind)
	switch {
	case wf > wt:
		t.Hit("neartie.fork-block-heavier-than-tip")
	case wf < wt:
		t.Hit("neartie.tip-heavier-than-fork-block")
	default:
		t.Hit("neartie.fork-block-same-work-as-tip")
	}
	if d := max(wf-wt, wt-wf); delta < d {
		t.Hit("neartie.offer." + c.kind + ".closer-than-fork-tip-difference")
	}
	light := wf
	for _, n := range chain[f+1:] {
		light = min(light, n.work.Int64())
	}
	for _, n := range c.nodes {
		light = min(light, n.work.Int64())
	}
	if delta < light {
		t.Hit("neartie.offer." + c.kind + ".closer-than-lightest-block")
	}
	if len(c.nodes) != tipH-f {
		t.Hit("neartie.offer.length-differs-from-displaced")
	}
	// the offer lies between the displaced work and the sum over the window shifted by one block
	// (heights fork .. tip-1): the two sums decide it differently
	shifted := c.disp + wf - wt
	switch {
	case c.total > c.disp && c.total <= shifted:
		t.Hit("neartie.between-sums.heavier-than-displaced")
	case c.total <= c.disp && c.total > shifted:
		t.Hit("neartie.between-sums.not-heavier-than-displaced")
	}
	// what makes the work vary over fork block, displaced suffix and branch
	lim := w.params.PowLimitBits
	md, rt := false, false
	seg := append(append([]*node{}, chain[f:]...), c.nodes...)
	for _, n := range seg {
		if n.parent == nil {
			continue
		}
		if n.height%w.cc.per == 0 && n.hdr.Bits != n.parent.hdr.Bits {
			rt = true
		}
		if n.height%w.cc.per != 0 && n.hdr.Bits == lim && w.params.ReduceMinDifficulty &&
			n.hdr.Timestamp.Unix() > n.parent.hdr.Timestamp.Unix()+1200 {
			for _, o := range seg {
				md = md || o.hdr.Bits != lim
			}
		}
	}
	if rt {
		t.Hit("neartie.varies-by.retarget")
	}
	if md {
		t.Hit("neartie.varies-by.min-difficulty-rule")
	}
}

// ------------------------------------------ context after a reorganisation
//
// "re-anchor -> validate with the store fall-back -> reorganise -> re-anchor -> a header whose
// validity depends on the ancestors at the reorganised heights".  While the in-memory list holds
// only the tip, the context handed to btcd (median-time-past, retarget look-back, min-difficulty
// walk) reads every ancestor below the tip from the STORE; after a reorganisation the store holds
// other headers at those heights.  A validator that resolves an ancestor through anything that
// still remembers the abandoned branch judges such a header in a context that is not its own.

// staleCtx is node n seen by a validator that still resolves the heights lo < h <= hi through the
// abandoned chain `old` (n itself excepted); everything else is n's own branch.  Used only to
// CHOOSE timestamps / bits that tell the two contexts apart; the table records btcd's verdict on
// the header's own branch.
type staleCtx struct {
	n      *node
	old    []*node
	lo, hi int32
}

func (c staleCtx) Height() int32                { return c.n.height }
func (c staleCtx) Bits() uint32                 { return c.n.hdr.Bits }
func (c staleCtx) Timestamp() int64             { return c.n.hdr.Timestamp.Unix() }
func (c staleCtx) Parent() blockchain.HeaderCtx { return c.RelativeAncestorCtx(1) }
func (c staleCtx) RelativeAncestorCtx(d int32) blockchain.HeaderCtx {
	if d == 0 {
		return c
	}
	h := c.n.height - d
	if h < 0 {
		return nil
	}
	if h > c.lo && h <= c.hi && int(h) < len(c.old) {
		return staleCtx{c.old[h], c.old, c.lo, c.hi}
	}
	a := c.n
	for a != nil && a.height > h {
		a = a.parent
	}
	if a == nil {
		return nil
	}
	return staleCtx{a, c.old, c.lo, c.hi}
}

// stCand: a context-sensitive header offered on top of (a node of) the adopted branch.
type stCand struct {
	n     *node
	tail  *node  // a plain valid child of n (sent along when n is offered as a fork)
	sense string // what it tells apart (evidence only)
	tells bool   // its verdict differs between its own context and the stale one
}

type stScript struct {
	T      int        // the main chain is synced up to this height first
	ext    *node      // main[T+1]: validated through the store fall-back before the reorganisation (may be nil)
	vBad   *node      // a child of main[T] at or below its median-time-past (must be refused)
	branch []*node    // the competing branch, forking at main[f]
	f      int        // fork height
	levels [][]stCand // [0]: children of the branch tip; [i+1]: children of the valid candidate of level i
	forkC  []stCand   // children of the branch tip's parent (offered as two-header forks)
}

// stCands makes the context-sensitive children of P, which sits on a branch that displaced
// old[f+1 ..].
func (w *world) stCands(t *tr.W, P *node, old []*node, f int) []stCand {
	rng := w.rng
	sc := staleCtx{P, old, int32(f), int32(len(old) - 1)}
	mo := w.mtp(P)
	ms := blockchain.CalcPastMedianTime(sc).Unix()
	var out []stCand
	add := func(ts int64, kind, sense string, bits uint32) {
		n := w.mineBits(P, ts, kind, bits)
		// (the child of an invalid header abides by the rules itself)
		c := stCand{n: n, tail: w.mine(n, w.nextTs(n, 0), "ok"), sense: sense, tells: strings.Contains(sense, "if-stale")}
		out = append(out, c)
		t.Hit("restale.cand." + sense)
	}
	pick := func(lo, hi int64, nearHi bool) int64 { // a timestamp in [lo, hi], mostly the end next to the own median
		if lo >= hi || rng.Intn(3) > 0 {
			if nearHi {
				return hi
			}
			return lo
		}
		return lo + rng.Int63n(hi-lo+1)
	}
	switch {
	case ms < mo:
		// the abandoned chain's timestamps lie behind: a header at or below its own median-time-past
		// passes in the stale context
		add(mo, "stale", "invalid-own.valid-if-stale.mtp", 0)
		add(pick(ms+1, mo, true), "stale", "invalid-own.valid-if-stale.mtp", 0)
		add(mo+1, "ok", "valid-own.first-second-after-mtp", 0)
	case ms > mo:
		// the abandoned chain's timestamps lie ahead: a valid header right after its own
		// median-time-past is "too old" in the stale context
		add(pick(mo+1, ms, false), "ok", "valid-own.invalid-if-stale.mtp", 0)
		add(mo-int64(rng.Intn(2)), "stale", "invalid-own.at-mtp", 0)
	default:
		t.Hit("restale.cand.mtp-same-in-both-contexts")
		add(mo+1, "ok", "valid-own.first-second-after-mtp", 0)
		add(mo, "stale", "invalid-own.at-mtp", 0)
	}
	// the difficulty the stale context would require (retarget look-back / min-difficulty walk through
	// the abandoned chain)
	ts := P.hdr.Timestamp.Unix() + 600
	if ts <= mo {
		ts = mo + 1
	}
	if ob, sb := w.requiredBits(P, time.Unix(ts, 0)), w.requiredBitsCtx(sc, time.Unix(ts, 0)); ob != sb && ts > ms {
		add(ts, "ok", "valid-own.invalid-if-stale.bits", 0)
		add(ts, "stale", "invalid-own.valid-if-stale.bits", sb)
	}
	return out
}

func (w *world) buildStale(t *tr.W) *stScript {
	rng := w.rng
	sc := &stScript{}
	gen := w.nodes[0]
	sc.T = 12 + rng.Intn(6)
	style := []int{0, 0, 3}[rng.Intn(3)]
	w.main = append([]*node{gen}, w.extend(gen, sc.T, style)...)
	tipM := w.main[sc.T]
	if rng.Intn(6) > 0 {
		ts := w.nextTs(tipM, style)
		if rng.Intn(3) == 0 {
			ts = w.mtp(tipM) + 1 // the first second a child may carry
		}
		sc.ext = w.mine(tipM, ts, "ok")
		w.main = append(w.main, sc.ext)
	}
	sc.vBad = w.mine(tipM, w.mtp(tipM)-int64(rng.Intn(2)), "mtp")
	// the competing branch: its timestamps run ahead of the main chain's or lag behind them
	sc.f = sc.T - 2 - rng.Intn(8)
	late := rng.Intn(5) < 3
	if late {
		t.Hit("restale.branch.timestamps-ahead")
	} else {
		t.Hit("restale.branch.timestamps-behind")
	}
	disp := new(big.Int)
	for _, n := range w.main[sc.f+1:] {
		disp.Add(disp, n.work)
	}
	cur := w.main[sc.f]
	bw := new(big.Int)
	for k := 0; k < 40 && (bw.Cmp(disp) <= 0 || k < len(w.main)-sc.f+rng.Intn(2)); k++ {
		var ts int64
		if late {
			ts = cur.hdr.Timestamp.Unix() + int64(1500+rng.Intn(1000))
			if w.params.ReduceMinDifficulty && rng.Intn(2) == 0 {
				ts = cur.hdr.Timestamp.Unix() + int64(900+rng.Intn(290)) // stay below the 20-minute rule
			}
		} else {
			ts = w.mtp(cur) + 1 + int64(rng.Intn(20))
		}
		cur = w.mine(cur, ts, "ok")
		sc.branch = append(sc.branch, cur)
		bw.Add(bw, cur.work)
	}
	old := w.main
	tipB := cur
	if len(sc.branch) >= 2 {
		sc.forkC = w.stCands(t, tipB.parent, old, sc.f)
	}
	for P, lv := tipB, 0; P != nil && lv < 3; lv++ {
		cs := w.stCands(t, P, old, sc.f)
		sc.levels = append(sc.levels, cs)
		P = nil
		for _, c := range cs {
			if c.n.kind == "ok" {
				P = c.n
				break
			}
		}
	}
	var maxTs int64
	for _, n := range w.nodes {
		maxTs = max(maxTs, n.hdr.Timestamp.Unix())
	}
	w.ts.now = time.Unix(maxTs+3600, 0)
	t.Hit("checkpoints.0")
	t.Hit("time.all-fresh")
	w.judge()
	return sc
}


// ------------------------------------------------ branch flips (A adopted, B heavier, A extended heavier again, ...)

// flipScript: a fork point on the main chain and a sequence of branch tips, each strictly heavier
// (from the fork point on) than the one before it and each an extension of a branch that was
// adopted - and displaced - earlier in the sequence (or a new branch: three-way).
type flipScript struct {
	f     int     // fork point height on main
	steps []*node // successive branch tips to reveal; steps[0] = tip of main (branch A)
	kinds []string
}

func workAbove(fp, tip *node) *big.Int {
	sum := new(big.Int)
	for n := tip; n != fp && n != nil; n = n.parent {
		sum.Add(sum, n.work)
	}
	return sum
}

func (w *world) buildFlip(t *tr.W) {
	rng := w.rng
	gen := w.nodes[0]
	T := 4 + rng.Intn(6)
	w.main = append([]*node{gen}, w.extend(gen, T, rng.Intn(4))...)
	f := 1 + rng.Intn(T-2)
	fp := w.main[f]
	if rng.Intn(3) == 0 { // a checkpoint at or below the fork point: the flips stay above the floor
		h := 1 + rng.Intn(f)
		w.params.Checkpoints = append(w.params.Checkpoints, chaincfg.Checkpoint{Height: int32(h), Hash: &w.main[h].hash})
		t.Hit("checkpoints.1")
	} else {
		t.Hit("checkpoints.0")
	}
	sc := &flipScript{f: f, steps: []*node{w.main[T]}, kinds: []string{"A"}}
	// grow `from` (a branch tip, or the fork point for a new branch) until it outweighs `cur`
	heavier := func(from, cur *node) *node {
		style := rng.Intn(4)
		n := from
		for i := 0; i < 40; i++ {
			n = w.extend(n, 1, style)[0]
			if workAbove(fp, n).Cmp(workAbove(fp, cur)) > 0 && rng.Intn(3) > 0 {
				return n
			}
		}
		return n
	}
	tips := []*node{w.main[T]} // the branch tips so far (one per branch)
	cur := w.main[T]
	nsteps := 2 + rng.Intn(4)
	for i := 0; i < nsteps; i++ {
		var nt *node
		kind := ""
		switch {
		case len(tips) == 1 || len(tips) < 3 && rng.Intn(3) == 0:
			// a branch never seen before, from the fork point or from inside an earlier branch
			from := fp
			if len(tips) > 1 && rng.Intn(2) == 0 {
				b := pathTo(fp, tips[rng.Intn(len(tips))])
				from = b[rng.Intn(len(b))]
				if from == cur {
					from = fp
				}
			}
			nt = heavier(from, cur)
			tips = append(tips, nt)
			kind = "new-branch"
		default:
			// back to a branch that was adopted before, extended so that it is the heavier one again
			var cands []int
			for j, tp := range tips {
				on := false
				for n := cur; n != nil; n = n.parent {
					on = on || n == tp
				}
				if !on {
					cands = append(cands, j)
				}
			}
			if len(cands) == 0 {
				continue
			}
			j := cands[rng.Intn(len(cands))]
			nt = heavier(tips[j], cur)
			tips[j] = nt
			kind = "flip-back"
		}
		sc.steps = append(sc.steps, nt)
		sc.kinds = append(sc.kinds, kind)
		cur = nt
	}
	var maxTs int64
	for _, n := range w.nodes {
		if ts := n.hdr.Timestamp.Unix(); ts > maxTs {
			maxTs = ts
		}
	}
	w.ts.now = time.Unix(maxTs+4*3600, 0)
	t.Hit("time.all-fresh")
	w.flip = sc
	w.judge()
}

// ------------------------------------------------ messages that end in the next checkpoint's real header

// junkScript: a main chain with a checkpoint some way above the height the client is synced to,
// and headers that connect to nothing the message has in front of them.
type junkScript struct {
	t0, cp int     // synced height before the junk message, checkpoint height
	strays []*node // headers to break a message with: forks off stored heights (parent known) and
	// children of headers the client has never seen (parent unknown)
}

func (w *world) buildJunk(t *tr.W) {
	rng := w.rng
	gen := w.nodes[0]
	T := 8 + rng.Intn(8)
	w.main = append([]*node{gen}, w.extend(gen, T, rng.Intn(4))...)
	sc := &junkScript{}
	sc.cp = 4 + rng.Intn(T-4)        // 4..T-1
	sc.t0 = rng.Intn(sc.cp - 2)      // 0..cp-3: the message t0+1..cp has at least 3 headers
	if sc.t0 > 1 && rng.Intn(2) == 0 { // an earlier checkpoint that has been passed
		h := 1 + rng.Intn(sc.t0)
		w.params.Checkpoints = append(w.params.Checkpoints, chaincfg.Checkpoint{Height: int32(h), Hash: &w.main[h].hash})
	}
	w.params.Checkpoints = append(w.params.Checkpoints, chaincfg.Checkpoint{Height: int32(sc.cp), Hash: &w.main[sc.cp].hash})
	t.Hit(fmt.Sprintf("checkpoints.%d", len(w.params.Checkpoints)))
	// strays: forks off stored heights (known parent, light and heavy), forks off heights not yet synced
	if sc.t0 > 0 {
		fk := w.extend(w.main[rng.Intn(sc.t0+1)], 1+rng.Intn(3), rng.Intn(4))
		sc.strays = append(sc.strays, fk[0])
	}
	fk := w.extend(w.main[sc.t0], 2, rng.Intn(4)) // a sibling of the first header of the message, and its child
	sc.strays = append(sc.strays, fk[0], fk[1])
	fk = w.extend(w.main[sc.t0+1+rng.Intn(sc.cp-sc.t0-1)], 2, rng.Intn(4))
	sc.strays = append(sc.strays, fk[1]) // parent never seen
	var maxTs int64
	for _, n := range w.nodes {
		if ts := n.hdr.Timestamp.Unix(); ts > maxTs {
			maxTs = ts
		}
	}
	if rng.Intn(2) == 0 {
		w.ts.now = time.Unix(maxTs+4*3600, 0)
		t.Hit("time.all-fresh")
	} else { // the client is not current while it is heading for the checkpoint
		w.ts.now = time.Unix(maxTs+48*3600, 0)
		t.Hit("time.stale-prefix")
	}
	w.junk = sc
	w.judge()
}

func allOk(n *node) bool {
	for ; n != nil; n = n.parent {
		if n.kind != "ok" {
			return false
		}
	}
	return true
}

// ------------------------------------------------------- the real system

type sys struct {
	w      *world
	dir    string
	db     walletdb.DB
	bh     headerfs.BlockHeaderStore
	fs     *failStore
	fh     headerfs.FilterHeaderStore
	cs     *neutrino.ChainService // the public lookups (GetBlockHash, GetBlockHeader, GetBlockHeight, BestBlock) over the same stores
	bm     *neutrino.VerifBM
	peers  []*neutrino.ServerPeer // index = peer id - 1
	cand   []bool
	active []bool
	used   []bool
	// what the driver remembers in order to aim its next event
	stored    []*node
	back      *node
	lastBatch []*node
	lastGood  *node
	ftip      int
	stuck     bool // a call or a backlog request did not return in time: the case ends
}

// failStore is the block header store handed to the block manager: the real store, except that
// the n-th coming WriteHeaders / RollbackLastBlock call can be made to fail (an I/O error).  The
// driver itself reads, and imports, through the real store underneath.
type failStore struct {
	headerfs.BlockHeaderStore
	failWrite    int // 1 = the next WriteHeaders fails
	failRollback int // k = the k-th RollbackLastBlock from now fails
}

func (f *failStore) WriteHeaders(hs ...headerfs.BlockHeader) error {
	if f.failWrite > 0 {
		f.failWrite--
		if f.failWrite == 0 {
			return errors.New("injected: short write")
		}
	}
	return f.BlockHeaderStore.WriteHeaders(hs...)
}

func (f *failStore) RollbackLastBlock() (*headerfs.BlockStamp, error) {
	if f.failRollback > 0 {
		f.failRollback--
		if f.failRollback == 0 {
			return nil, errors.New("injected: truncate failed")
		}
	}
	return f.BlockHeaderStore.RollbackLastBlock()
}

// template: creating the bbolt index (65 536 pre-made sub-buckets) costs ~0.3 s, so it is done once per
// process; every case works on its own copy of the pristine files (genesis only).
var templateDir string

func template(p *chaincfg.Params) string {
	if templateDir != "" {
		return templateDir
	}
	dir, err := os.MkdirTemp("", "bmtmpl")
	if err != nil {
		panic(err)
	}
	db, err := walletdb.Create("bdb", filepath.Join(dir, "n.db"), true, time.Second*10, false)
	if err != nil {
		panic(err)
	}
	if _, err = headerfs.NewBlockHeaderStore(dir, db, p); err != nil {
		panic(err)
	}
	if _, err = headerfs.NewFilterHeaderStore(dir, db, headerfs.RegularFilter, p, nil); err != nil {
		panic(err)
	}
	db.Close()
	templateDir = dir
	return dir
}

func newSys(w *world, npeers int, rng *rand.Rand) (*sys, error) {
	tmpl := template(&w.params)
	dir, err := os.MkdirTemp("", "bmdrv")
	if err != nil {
		return nil, err
	}
	ents, err := os.ReadDir(tmpl)
	if err != nil {
		return nil, err
	}
	for _, e := range ents {
		data, err := os.ReadFile(filepath.Join(tmpl, e.Name()))
		if err != nil {
			return nil, err
		}
		if err := os.WriteFile(filepath.Join(dir, e.Name()), data, 0o600); err != nil {
			return nil, err
		}
	}
	db, err := walletdb.Open("bdb", filepath.Join(dir, "n.db"), true, time.Second*10, false)
	if err != nil {
		return nil, err
	}
	s := &sys{w: w, dir: dir, db: db}
	if s.bh, err = headerfs.NewBlockHeaderStore(dir, db, &w.params); err != nil {
		return nil, err
	}
	if s.fh, err = headerfs.NewFilterHeaderStore(dir, db, headerfs.RegularFilter, &w.params, nil); err != nil {
		return nil, err
	}
	s.fs = &failStore{BlockHeaderStore: s.bh}
	s.cs = &neutrino.ChainService{BlockHeaders: s.bh, RegFilterHeaders: s.fh}
	if s.bm, err = neutrino.VerifNewBM(w.params, s.fs, s.fh, w.ts); err != nil {
		return nil, err
	}
	for i := 0; i < npeers; i++ {
		sv := wire.SFNodeNetwork
		c := true
		if i == npeers-1 && rng.Intn(3) == 0 {
			sv, c = 0, false
		}
		s.peers = append(s.peers, neutrino.VerifNewPeer(fmt.Sprintf("10.0.0.%d:18555", i+1), sv))
		s.cand = append(s.cand, c)
	}
	s.active = make([]bool, npeers)
	s.used = make([]bool, npeers)
	return s, nil
}

func (s *sys) close() {
	s.bm.Close()
	s.db.Close()
	os.RemoveAll(s.dir)
}

func (s *sys) peerID(sp *neutrino.ServerPeer) int {
	for i, p := range s.peers {
		if p == sp {
			return i + 1
		}
	}
	return 0
}

const unknownID = 999999

func (s *sys) idOf(h *wire.BlockHeader) int {
	if n, ok := s.w.byHash[h.BlockHash()]; ok {
		return n.id
	}
	return unknownID
}

func (s *sys) idOfHash(h chainhash.Hash) int {
	if n, ok := s.w.byHash[h]; ok {
		return n.id
	}
	return unknownID
}

// dump reads everything the properties talk about from the real system.
func (s *sys) dump(res string, best int, bl string) string {
	var b strings.Builder
	fmt.Fprintf(&b, "res %s best %d bl %s byh [", res, best, bl)
	s.stored = s.stored[:0]
	torn := false
	for h := 0; h < len(s.w.nodes)+2; h++ {
		hd, err := s.bh.FetchHeaderByHeight(uint32(h))
		if err != nil {
			break
		}
		if h > 0 {
			b.WriteByte(' ')
		}
		id := s.idOf(hd)
		fmt.Fprintf(&b, "%d", id)
		if id == unknownID {
			torn = true
		} else {
			s.stored = append(s.stored, s.w.nodes[id])
		}
	}
	if torn {
		s.stored = s.stored[:1]
	}
	b.WriteString("] tip ")
	if hd, h, err := s.bh.ChainTip(); err != nil {
		b.WriteString("E")
	} else {
		fmt.Fprintf(&b, "%d:%d", s.idOf(hd), h)
	}
	b.WriteString(" bhash [")
	first := true
	for _, n := range s.w.nodes {
		hd, h, err := s.bh.FetchHeader(&n.hash)
		if err != nil {
			continue
		}
		h2, err2 := s.bh.HeightFromHash(&n.hash)
		if err2 != nil || h2 != h || hd.BlockHash() != n.hash {
			h = 777777 // FetchHeader and HeightFromHash disagree / wrong header returned
		}
		if !first {
			b.WriteByte(' ')
		}
		first = false
		fmt.Fprintf(&b, "%d:%d", n.id, h)
	}
	b.WriteString("] fst ")
	if _, h, err := s.fh.ChainTip(); err != nil {
		b.WriteString("E")
		s.ftip = 0
	} else {
		fmt.Fprintf(&b, "%d", h)
		s.ftip = int(h)
	}
	d := s.bm.Digest()
	b.WriteString(" hl [")
	s.back = nil
	for i, n := range d.List {
		if i > 0 {
			b.WriteByte(' ')
		}
		fmt.Fprintf(&b, "%d:%d", s.idOfHash(n.Hash), n.Height)
		if i == 0 {
			s.back = s.w.byHash[n.Hash]
		}
	}
	fmt.Fprintf(&b, "] ncp %d sync %d cand [", d.NextCheckpoint, s.peerID(d.SyncPeer))
	for i, c := range d.Candidates {
		if i > 0 {
			b.WriteByte(' ')
		}
		fmt.Fprintf(&b, "%d", s.peerID(c))
	}
	fmt.Fprintf(&b, "] htip %d:%d ftip %d:%d disc [", s.idOfHash(d.HeaderTipHash), d.HeaderTip,
		s.idOfHash(d.FilterTipHash), d.FilterTip)
	first = true
	for i, p := range s.peers {
		if neutrino.VerifPeerDisconnected(p) {
			if !first {
				b.WriteByte(' ')
			}
			first = false
			fmt.Fprintf(&b, "%d", i+1)
		}
	}
	b.WriteString("] lb [")
	for i, p := range s.peers {
		if i > 0 {
			b.WriteByte(' ')
		}
		fmt.Fprintf(&b, "%d:%d", i+1, p.LastBlock())
	}
	b.WriteString("] ntf [")
	taken := s.bm.TakeNtfns()
	tipBlocked := false
	if res == "HANG" {
		s.stuck = true
	}
	for i, n := range taken {
		if i > 0 {
			b.WriteByte(' ')
		}
		hd := n.Ntfn.Header()
		switch x := n.Ntfn.(type) {
		case *blockntfns.Connected:
			blk := 0
			if n.MemTipBlocked {
				blk = 1
				tipBlocked = true
			}
			fmt.Fprintf(&b, "C:%d:%d:%d:%d:%d", s.idOf(&hd), x.Height(), n.FilterTipAtRecv, n.MemFilterTipAtRecv, blk)
		case *blockntfns.Disconnected:
			tip := x.ChainTip()
			st := 0
			if n.StoredAtRecv {
				st = 1
			}
			fmt.Fprintf(&b, "D:%d:%d:%d:%d", s.idOf(&hd), x.Height(), s.idOf(&tip), st)
		default:
			b.WriteString("X:0:0:0")
		}
	}
	// what the (slow) sink saw in the block header store right before it took each notification
	b.WriteString("] pre [")
	for i, n := range taken {
		if i > 0 {
			b.WriteByte(' ')
		}
		if n.PreValid {
			fmt.Fprintf(&b, "1:%d:%d", n.PreTipHeight, s.idOfHash(n.PreTipHash))
		} else {
			b.WriteString("0:0:0")
		}
	}
	b.WriteString("]")
	// the same questions asked through the ChainService's public lookups: every height (again,
	// after every event - also the heights asked before a reorganisation), every known hash, the best block
	b.WriteString(" csbyh [")
	for h := 0; h < len(s.w.nodes)+2; h++ {
		hash, err := s.cs.GetBlockHash(int64(h))
		if err != nil {
			break
		}
		if h > 0 {
			b.WriteByte(' ')
		}
		fmt.Fprintf(&b, "%d", s.idOfHash(*hash))
	}
	b.WriteString("] cstip ")
	if bs, err := s.cs.BestBlock(); err != nil {
		b.WriteString("E")
	} else {
		fmt.Fprintf(&b, "%d:%d", s.idOfHash(bs.Hash), bs.Height)
	}
	bad := 0
	for _, n := range s.w.nodes {
		_, h1, e1 := s.bh.FetchHeader(&n.hash)
		h2, e2 := s.cs.GetBlockHeight(&n.hash)
		hd, e3 := s.cs.GetBlockHeader(&n.hash)
		if (e1 == nil) != (e2 == nil) || (e1 == nil) != (e3 == nil) || e1 == nil && (uint32(h2) != h1 || hd.BlockHash() != n.hash) {
			bad++
		}
	}
	fmt.Fprintf(&b, " csbad %d", bad)
	// could the in-memory filter tip be read (as a backlog request has to) while each event was observable?
	if tipBlocked {
		b.WriteString(" tipread HANG")
		s.stuck = true
	} else {
		b.WriteString(" tipread ok")
	}
	return b.String()
}

// guard runs one call on the real code with a watchdog.
func guard(f func()) (res string) {
	done := make(chan string, 1)
	go func() {
		defer func() {
			if r := recover(); r != nil {
				done <- "panic"
			}
		}()
		f()
		done <- "ok"
	}()
	select {
	case r := <-done:
		return r
	case <-time.After(20 * time.Second):
		return "HANG"
	}
}

func ids(ns []*node) string {
	return tr.Join(ns, func(n *node) string { return fmt.Sprint(n.id) })
}

func pathTo(from, to *node) []*node { // nodes after `from` down to `to` (from must be an ancestor)
	var p []*node
	for n := to; n != nil && n != from; n = n.parent {
		p = append([]*node{n}, p...)
	}
	return p
}

func (s *sys) onStored(n *node) bool {
	return int(n.height) < len(s.stored) && s.stored[n.height] == n
}

func randDesc(rng *rand.Rand, n *node, depth int) *node {
	for i := 0; i < depth && len(n.children) > 0; i++ {
		n = n.children[rng.Intn(len(n.children))]
	}
	return n
}

// classify records what kind of offer a batch is, relative to the stored chain.
func (s *sys) classify(t *tr.W, batch, stored []*node) {
	on := func(n *node) bool { return int(n.height) < len(stored) && stored[n.height] == n }
	i := 0
	for i < len(batch) && on(batch[i]) {
		i++
	}
	if i == len(batch) {
		t.Hit("in.all-known")
		return
	}
	rest := batch[i:]
	fp := rest[0].parent
	if fp == nil || !on(fp) {
		t.Hit("in.orphan")
		return
	}
	valid := true
	for _, n := range rest {
		valid = valid && n.valid
	}
	tipH := int32(len(stored) - 1)
	cps := s.w.params.Checkpoints
	for _, n := range rest {
		for _, c := range cps {
			if c.Height == n.height && *c.Hash != n.hash {
				t.Hit("in.checkpoint-mismatch")
			}
		}
	}
	for _, c := range cps {
		if c.Height == tipH {
			t.Hit("in.tip-on-checkpoint")
		}
	}
	if fp.height == tipH {
		if valid {
			t.Hit("in.extend.valid")
		} else if rest[0].valid {
			t.Hit("in.extend.valid-up-to-k")
		} else {
			t.Hit("in.extend.invalid-first")
		}
		return
	}
	floor := int32(0)
	for _, c := range cps {
		if c.Height <= tipH {
			floor = c.Height
		}
	}
	switch {
	case fp.height < floor:
		t.Hit("in.fork.below-checkpoint")
	case fp.height == floor && floor > 0:
		t.Hit("in.fork.at-checkpoint")
	default:
		t.Hit("in.fork.above-checkpoint")
	}
	nw, ow := new(big.Int), new(big.Int)
	for _, n := range rest {
		nw.Add(nw, n.work)
	}
	for _, n := range stored[fp.height+1:] {
		ow.Add(ow, n.work)
	}
	if !valid {
		t.Hit("in.fork.invalid")
	}
	switch nw.Cmp(ow) {
	case -1:
		t.Hit("in.fork.lighter")
	case 0:
		t.Hit("in.fork.equal-work")
	default:
		t.Hit("in.fork.heavier")
	}
}

// contradictCheckpoint returns a batch that extends the stored tip (which must lie on the main
// chain) and carries, at the height of the next checkpoint, a valid header that is NOT the checkpoint.
func (s *sys) contradictCheckpoint(rng *rand.Rand) []*node {
	w := s.w
	tp := s.stored[len(s.stored)-1]
	t0 := int(tp.height)
	if t0 >= len(w.main) || w.main[t0] != tp {
		return nil
	}
	cpH := 0
	for _, c := range w.params.Checkpoints {
		if int(c.Height) > t0 && cpH == 0 {
			cpH = int(c.Height)
		}
	}
	if cpH == 0 {
		return nil
	}
	var cands [][]*node
	for _, x := range w.nodes {
		if int(x.height) != cpH || x == w.main[cpH] {
			continue
		}
		// walk up to the main chain; the junction must be at or above the stored tip
		ok := true
		a := x
		for a != nil && !(int(a.height) < len(w.main) && w.main[a.height] == a) {
			ok = ok && a.valid
			a = a.parent
		}
		if a == nil || !ok || int(a.height) < t0 {
			continue
		}
		b := append([]*node{}, w.main[t0+1:a.height+1]...)
		b = append(b, pathTo(a, x)...)
		cands = append(cands, b)
	}
	if len(cands) == 0 {
		return nil
	}
	return cands[rng.Intn(len(cands))]
}

func containsNode(ns []*node, x *node) bool {
	for _, n := range ns {
		if n == x {
			return true
		}
	}
	return false
}

// filter hashes: any deterministic function of the block will do
func filterHash(n *node) chainhash.Hash {
	return chainhash.DoubleHashH(append([]byte("filter"), n.hash[:]...))
}

// ------------------------------------------------------------ one case

func runCase(t *tr.W, rng *rand.Rand, nev int, script string) {
	ps := rng.Intn(len(paramSets) - 1)
	if script == "long" {
		ps = len(paramSets) - 1
	}
	if script == "neartie" {
		ps = []int{1, 2, 2, 3, 5, 5}[rng.Intn(6)] // a retarget every 4 or 8 blocks, with and without the min-difficulty rule
	}
	if script == "restale" {
		ps = []int{0, 4, 4, 1, 2, 3, 5}[rng.Intn(7)]
	}
	if script == "flipback" || script == "cpjunk" {
		ps = rng.Intn(len(paramSets) - 1)
	}
	w := newWorld(rng, ps)
	var nearTie []*ntRound
	var stale *stScript
	switch script {
	case "restale":
		stale = w.buildStale(t)
	case "long":
		w.buildLong(t)
	case "neartie":
		nearTie = w.buildNearTie(t)
	case "flipback":
		w.buildFlip(t)
	case "cpjunk":
		w.buildJunk(t)
	default:
		w.build(t)
	}
	t.Hit(fmt.Sprintf("params.%d", ps))
	npeers := 3
	if script == "restale" {
		npeers = 12 // every lost sync peer is replaced by a new one
	}
	s, err := newSys(w, npeers, rng)
	if err != nil {
		panic(err)
	}
	defer s.close()

	var hd strings.Builder
	fmt.Fprintf(&hd, "ps %d win %d cps [", ps, s.bm.Digest().NumMaxMemHeaders)
	for i, c := range w.params.Checkpoints {
		if i > 0 {
			hd.WriteByte(' ')
		}
		fmt.Fprintf(&hd, "%d:%d", c.Height, w.byHash[*c.Hash].id)
	}
	hd.WriteString("] peers [")
	for i := range s.peers {
		if i > 0 {
			hd.WriteByte(' ')
		}
		c := 0
		if s.cand[i] {
			c = 1
		}
		fmt.Fprintf(&hd, "%d:%d", i+1, c)
	}
	hd.WriteString("] tbl [")
	for i, n := range w.nodes {
		if i > 0 {
			hd.WriteByte(' ')
		}
		pid := 0
		if n.parent != nil {
			pid = n.parent.id
		}
		v, f := 0, 0
		if n.valid {
			v = 1
		}
		if n.fresh {
			f = 1
		}
		fmt.Fprintf(&hd, "%d:%d:%s:%d:%d:%d", n.id, pid, n.work.String(), v, f, n.height)
	}
	hd.WriteString("]")
	t.Case("%s", hd.String())
	t.Op("init", s.dump("ok", 0, "[]"))

	headers := func(p int, batch []*node, shape string) {
		if len(batch) == 0 {
			return
		}
		t.Hit("ev.headers." + shape)
		hs := make([]*wire.BlockHeader, len(batch))
		for i, n := range batch {
			hs[i] = n.hdr
		}
		s.lastBatch = batch
		for _, n := range batch {
			if !n.valid {
				break
			}
			s.lastGood = n
		}
		before := append([]*node{}, s.stored...)
		discBefore := neutrino.VerifPeerDisconnected(s.peers[p-1])
		s.classify(t, batch, before)
		r := guard(func() { s.bm.Headers(s.peers[p-1], hs) })
		t.Op(fmt.Sprintf("headers %d %s", p, ids(batch)), s.dump(r, 0, "[]"))
		// what the real code did with it (input/outcome distribution for the evidence)
		k := 0
		for k < len(before) && k < len(s.stored) && before[k] == s.stored[k] {
			k++
		}
		switch {
		case k < len(before) && k < len(s.stored):
			t.Hit("out.reorganised")
		case k < len(before):
			t.Hit("out.rolled-back")
		case k < len(s.stored):
			t.Hit("out.extended")
		case !discBefore && neutrino.VerifPeerDisconnected(s.peers[p-1]):
			t.Hit("out.unchanged-peer-disconnected")
		default:
			t.Hit("out.unchanged")
		}
	}
	cut := func(b []*node) []*node {
		if len(b) > 1 && rng.Intn(3) == 0 {
			return b[:1+rng.Intn(len(b))]
		}
		return b
	}
	tip := func() *node { return s.stored[len(s.stored)-1] }
	newpeer := func(p int) {
		t.Hit("ev.newpeer")
		s.active[p-1], s.used[p-1] = true, true
		r := guard(func() { s.bm.NewPeer(s.peers[p-1]) })
		t.Op(fmt.Sprintf("newpeer %d", p), s.dump(r, 0, "[]"))
	}
	peerheight := func(p, h int) {
		t.Hit("ev.peerheight")
		s.peers[p-1].UpdateLastBlockHeight(int32(h))
		t.Op(fmt.Sprintf("peerheight %d %d", p, h), s.dump("ok", 0, "[]"))
	}
	cfwrite := func() {
		// the filter-header writer: extend the committed filter chain up to some stored block
		top := len(s.stored) - 1
		if top <= s.ftip {
			return
		}
		stop := s.ftip + 1 + rng.Intn(min(top-s.ftip, 6))
		prev, _, err := s.fh.ChainTip()
		if err != nil {
			return
		}
		msg := &wire.MsgCFHeaders{FilterType: wire.GCSFilterRegular, StopHash: s.stored[stop].hash, PrevFilterHeader: *prev}
		bad := 0
		if rng.Intn(8) == 0 {
			msg.PrevFilterHeader[0] ^= 1
			bad = 1
			t.Hit("ev.cfwrite.badprev")
		} else {
			t.Hit("ev.cfwrite")
		}
		for h := s.ftip + 1; h <= stop; h++ {
			fhh := filterHash(s.stored[h])
			msg.FilterHashes = append(msg.FilterHashes, &fhh)
		}
		// a subscriber that registers while the batch is being announced: when the k-th event of
		// the batch arrives at the sink, ask for the backlog from some committed height
		pk, ph := 0, 0
		if n := len(msg.FilterHashes); bad == 0 && rng.Intn(2) == 0 {
			pk = 1 + rng.Intn(n)
			if n > 1 && rng.Intn(3) > 0 {
				pk = 1 + rng.Intn(n-1) // not the last one: the handler is then still inside the batch
			}
			ph = 1 + rng.Intn(max(s.ftip, 1))
			if ph > s.ftip {
				ph = s.ftip
			}
			if ph == 0 {
				pk = 0
			} else {
				s.bm.ArmProbe(pk, uint32(ph))
				t.Hit("ev.cfwrite.probe")
			}
		}
		res := "ok"
		r := guard(func() {
			if _, _, err := s.bm.WriteCFHeaders(msg); err != nil {
				res = "err"
			}
		})
		if r != "ok" {
			res = r
		}
		probe := ""
		if pr := s.bm.TakeProbe(); pr != nil && pk > 0 {
			switch {
			case !pr.Fired:
				probe = " pres none pbest 0 pbl []"
			case pr.Hung:
				probe = " pres HANG pbest 0 pbl []"
				s.stuck = true
			case pr.Err != nil:
				probe = " pres err pbest 0 pbl []"
			default:
				var ss []string
				for _, n := range pr.Ntfns {
					hd := n.Header()
					ss = append(ss, fmt.Sprintf("%d:%d", s.idOf(&hd), n.Height()))
				}
				probe = fmt.Sprintf(" pres ok pbest %d pbl [%s]", pr.Best, strings.Join(ss, " "))
			}
		}
		t.Op(fmt.Sprintf("cfwrite %d %d %d %d %d", s.stored[stop].id, len(msg.FilterHashes), bad, pk, ph), s.dump(res, 0, "[]")+probe)
	}
	backlog := func() {
		t.Hit("ev.backlog")
		h := rng.Intn(len(s.stored) + 2)
		res, best, bl := "ok", 0, "[]"
		r := guard(func() {
			ns, b, err := s.bm.NotificationsSinceHeight(uint32(h))
			if err != nil {
				res = "err"
				return
			}
			best = int(b)
			var ss []string
			for _, n := range ns {
				hd := n.Header()
				ss = append(ss, fmt.Sprintf("%d:%d", s.idOf(&hd), n.Height()))
			}
			bl = "[" + strings.Join(ss, " ") + "]"
		})
		if r != "ok" {
			res = r
		}
		t.Op(fmt.Sprintf("backlog %d", h), s.dump(res, best, bl))
	}

	if script == "long" {
		// the sync peer gives us the short chain, then reveals the long one in a single message; a
		// second long branch (lighter) and some filter-header traffic follow
		t.Hit("script.long-branch")
		newpeer(1)
		headers(1, w.main[1:], "main")
		headers(1, w.long, "long-branch")
		cfwrite()
		backlog()
		headers(2, w.long[len(w.long)-3:], "known")
		return
	}
	if script == "restale" {
		t.Hit("script.restale")
		nextPeer := 1
		syncNew := func() { // a new peer that becomes the sync peer if there is none
			if nextPeer > npeers {
				return
			}
			peerheight(nextPeer, len(s.stored)-1+rng.Intn(3))
			newpeer(nextPeer)
			nextPeer++
		}
		sender := func() int {
			if sp := s.peerID(s.bm.Digest().SyncPeer); sp != 0 {
				return sp
			}
			return 1 + rng.Intn(npeers)
		}
		// reanchor: an event after which the in-memory list holds the stored tip only
		raKinds := []string{"donepeer", "reset", "failwrite"}
		rng.Shuffle(3, func(i, j int) { raKinds[i], raKinds[j] = raKinds[j], raKinds[i] })
		raNext := 0
		reanchor := func(where, k string) { // k == "": the three ways in turn, now and then none
			if k == "" {
				k = raKinds[raNext%3]
				raNext++
				if rng.Intn(7) == 0 {
					k = "none"
				}
			}
			switch k {
			case "donepeer":
				sp := s.peerID(s.bm.Digest().SyncPeer)
				if sp == 0 {
					t.Hit("restale." + where + ".none")
					return
				}
				t.Hit("restale." + where + ".sync-peer-lost")
				t.Hit("ev.donepeer")
				s.active[sp-1] = false
				r := guard(func() { s.bm.DonePeer(s.peers[sp-1]) })
				t.Op(fmt.Sprintf("donepeer %d", sp), s.dump(r, 0, "[]"))
				syncNew()
			case "reset":
				t.Hit("restale." + where + ".reset-header-state")
				t.Hit("ev.importreset")
				res := "ok"
				r := guard(func() {
					if err := s.bm.ResetHeaderState(); err != nil {
						res = "err"
					}
				})
				if r != "ok" {
					res = r
				}
				t.Op("importreset [] 0", s.dump(res, 0, "[]"))
			case "failwrite":
				// a valid child of the stored tip whose batch write fails
				tp := tip()
				var ok []*node
				for _, c := range tp.children {
					if c.valid {
						ok = append(ok, c)
					}
				}
				if len(ok) == 0 || s.back != tp {
					t.Hit("restale." + where + ".none")
					return
				}
				t.Hit("restale." + where + ".failed-batch-write")
				t.Hit("ev.headers.failwrite")
				c := ok[rng.Intn(len(ok))]
				p := sender()
				s.fs.failWrite = 1
				r := guard(func() { s.bm.Headers(s.peers[p-1], []*wire.BlockHeader{c.hdr}) })
				s.fs.failWrite = 0
				t.Op(fmt.Sprintf("headersfw %d %s", p, ids([]*node{c})), s.dump(r, 0, "[]"))
			default:
				t.Hit("restale." + where + ".none")
			}
		}
		// offer: the candidates of one level, each after a re-anchoring; the one that tells the
		// contexts apart comes first, right after the re-anchoring `first`.  Returns the candidate
		// that got stored.
		offer := func(cs []stCand, asFork bool, shape, first string) *node {
			ord := rng.Perm(len(cs))
			sort.SliceStable(ord, func(i, j int) bool { return cs[ord[i]].tells && !cs[ord[j]].tells })
			for k, i := range ord {
				c := cs[i]
				if s.stuck || !s.onStored(c.n.parent) || !asFork && c.n.parent != tip() {
					continue
				}
				if k == 0 {
					reanchor("before-candidate", first)
				} else {
					reanchor("before-candidate", "")
				}
				b := []*node{c.n}
				if asFork || rng.Intn(4) == 0 {
					b = append(b, c.tail)
				}
				headers(sender(), b, shape+"."+c.n.kind)
				if s.onStored(c.n) && c.n.valid {
					return c.n
				}
			}
			return nil
		}
		sc := stale
		syncNew()
		k := 1 + rng.Intn(sc.T)
		headers(1, w.main[1:1+k], "main")
		headers(1, w.main[1+k:sc.T+1], "main")
		if rng.Intn(3) == 0 {
			cfwrite()
			cfwrite()
		}
		// the list is cut down to the tip, then something is validated through the store
		reanchor("before-validation", raKinds[rng.Intn(3)])
		switch rng.Intn(6) {
		case 0:
			headers(sender(), []*node{sc.vBad}, "restale-main-child.mtp")
			if sc.ext != nil {
				headers(sender(), []*node{sc.ext}, "restale-main-child.ok")
			}
		case 1:
			if sc.ext != nil {
				headers(sender(), []*node{sc.ext}, "restale-main-child.ok")
			}
			headers(sender(), []*node{sc.vBad}, "restale-main-child.mtp")
		case 2:
			// a prefix of the competing branch that is not heavier yet (validated in the reorg arm, refused)
			n := 1 + rng.Intn(max(1, min(len(sc.branch)-1, sc.T-sc.f)))
			headers(sender(), sc.branch[:n], "restale-branch-prefix")
			if sc.ext != nil && rng.Intn(2) == 0 {
				headers(sender(), []*node{sc.ext}, "restale-main-child.ok")
			}
		default:
			if sc.ext != nil {
				headers(sender(), []*node{sc.ext}, "restale-main-child.ok")
			}
		}
		if rng.Intn(4) == 0 {
			reanchor("before-reorg", "")
		}
		// the reorganisation
		b := sc.branch
		if rng.Intn(4) == 0 {
			b = append([]*node{w.main[sc.f]}, b...)
		}
		headers(sender(), b, "restale-reorg")
		if tip() != sc.branch[len(sc.branch)-1] {
			t.Hit("restale.reorg-not-adopted")
			return
		}
		if rng.Intn(4) == 0 {
			backlog()
		}
		// re-anchored again in this case's way (or not at all: then the candidates come as forks
		// below the tip), then the headers whose context lies at the reorganised heights
		way := []string{"donepeer", "donepeer", "reset", "failwrite", "fork"}[rng.Intn(5)]
		t.Hit("restale.way." + way)
		if way == "fork" {
			if len(sc.forkC) > 0 {
				offer(sc.forkC, true, "restale-fork", "none")
			}
			return
		}
		for lv, cs := range sc.levels {
			t.Hit(fmt.Sprintf("restale.offer.level-%d", lv))
			if got := offer(cs, false, "restale-child", way); got == nil || lv+1 < len(sc.levels) && got != sc.levels[lv+1][0].n.parent {
				break
			}
		}
		return
	}
	if script == "flipback" {
		// the sync peer gives us branch A; then, step by step, a heavier competing branch, the first
		// branch again (extended so that it is the heavier one), a third one ... - each must be
		// adopted in full, and after each one every hash that was ever stored is asked again
		t.Hit("script.flip-back")
		sc := w.flip
		fp := w.main[sc.f]
		if rng.Intn(2) == 0 {
			peerheight(1, len(w.main)-1)
		}
		newpeer(1)
		headers(1, w.main[1:], "main")
		if rng.Intn(2) == 0 {
			newpeer(2)
		}
		for i := 1; i < len(sc.steps) && !s.stuck; i++ {
			t.Hit("flip.step." + sc.kinds[i])
			p := 1
			if sp := s.peerID(s.bm.Digest().SyncPeer); sp != 0 {
				p = sp
			}
			b := pathTo(fp, sc.steps[i])
			switch rng.Intn(4) {
			case 0: // re-offer from the first header above genesis: the stored prefix is "known"
				b = pathTo(w.nodes[0], sc.steps[i])
				t.Hit("flip.offer.from-height-1")
			case 1: // with the fork point itself in front
				b = append([]*node{fp}, b...)
				t.Hit("flip.offer.from-fork-point")
			default:
				t.Hit("flip.offer.from-first-new")
			}
			headers(p, b, "flip-"+sc.kinds[i])
			switch rng.Intn(5) {
			case 0:
				cfwrite()
			case 1:
				backlog()
			}
		}
		return
	}
	if script == "cpjunk" {
		// synced to t0 below the next checkpoint; a message [valid child of the tip, ..., a header
		// that connects to nothing in front of it, ..., the REAL checkpoint header] from the sync peer
		// or from another peer; then the honest batch up to the checkpoint from the sync peer
		t.Hit("script.checkpoint-junk")
		sc := w.junk
		newpeer(1)
		newpeer(2)
		if sc.t0 > 0 {
			headers(1, w.main[1:sc.t0+1], "main")
		}
		rounds := 1 + rng.Intn(2)
		for r := 0; r < rounds && !s.stuck; r++ {
			msg := append([]*node{}, w.main[sc.t0+1:sc.cp+1]...)
			n := len(msg)
			pos := []int{1, n / 2, n - 2, 1 + rng.Intn(n-2)}[rng.Intn(4)] // never the first, never the last
			if pos < 1 {
				pos = 1
			}
			if pos > n-2 {
				pos = n - 2
			}
			how := rng.Intn(3)
			switch how {
			case 0: // a stray header in place of the real one
				msg[pos] = sc.strays[rng.Intn(len(sc.strays))]
				t.Hit("cpjunk.break.stray")
			case 1: // a gap: the header at pos is missing
				msg = append(msg[:pos], msg[pos+1:]...)
				t.Hit("cpjunk.break.gap")
			default: // two neighbours swapped
				if pos+1 < n-1 {
					msg[pos], msg[pos+1] = msg[pos+1], msg[pos]
				} else {
					msg[pos] = sc.strays[rng.Intn(len(sc.strays))]
				}
				t.Hit("cpjunk.break.swap")
			}
			switch {
			case pos == 1:
				t.Hit("cpjunk.pos.second")
			case pos == n-2:
				t.Hit("cpjunk.pos.last-but-one")
			default:
				t.Hit("cpjunk.pos.middle")
			}
			p := 2
			if rng.Intn(3) == 0 {
				p = 1
				if sp := s.peerID(s.bm.Digest().SyncPeer); sp != 0 {
					p = sp
				}
				t.Hit("cpjunk.from.sync-peer")
			} else {
				t.Hit("cpjunk.from.other-peer")
			}
			headers(p, msg, "junk-ending-in-checkpoint")
			if neutrino.VerifPeerDisconnected(s.peers[p-1]) && s.active[p-1] {
				t.Hit("ev.donepeer")
				s.active[p-1] = false
				rr := guard(func() { s.bm.DonePeer(s.peers[p-1]) })
				t.Op(fmt.Sprintf("donepeer %d", p), s.dump(rr, 0, "[]"))
				if !s.active[2] {
					newpeer(3)
				}
			}
		}
		if s.stuck {
			return
		}
		sp := s.peerID(s.bm.Digest().SyncPeer)
		if sp == 0 {
			sp = 3
			if !s.active[2] {
				newpeer(3)
			}
		}
		// the honest continuation: up to the checkpoint (and beyond: the loop stops there), in one or two messages
		tp := int(tip().height)
		if tp < sc.cp && w.main[tp] == tip() {
			k := tp + 1 + rng.Intn(sc.cp-tp)
			headers(sp, w.main[tp+1:k+1], "main")
			if k < len(w.main)-1 {
				headers(sp, w.main[k+1:], "main")
			}
		}
		backlog()
		return
	}
	if script == "neartie" {
		// the sync peer gives us the main chain; then, round by round, branches that are just not
		// heavier than what they would displace (nothing may change) and one that just is (it must be
		// adopted in full) - in one message, or in two with the first part alone not heavier
		t.Hit("script.near-tie")
		if rng.Intn(2) == 0 {
			peerheight(1, len(w.main)-1)
		}
		newpeer(1)
		k := len(w.main) - 1
		if rng.Intn(2) == 0 {
			k = 1 + rng.Intn(len(w.main)-1)
		}
		headers(1, w.main[1:1+k], "main")
		headers(1, w.main[1+k:], "main")
		newpeer(2)
		if rng.Intn(2) == 0 {
			cfwrite()
			cfwrite()
		}
		sender := func() int {
			if sp := s.peerID(s.bm.Digest().SyncPeer); sp != 0 && rng.Intn(3) > 0 {
				return sp
			}
			return 1 + rng.Intn(npeers)
		}
		msg := func(c *ntCand, n int) []*node {
			b := append([]*node{}, c.nodes[:n]...)
			if rng.Intn(5) == 0 { // with a known prefix, as after a block locator that matched lower
				for fp, i := c.fp, 1+rng.Intn(2); i > 0 && fp.height >= 1; i, fp = i-1, fp.parent {
					b = append([]*node{fp}, b...)
				}
			}
			return b
		}
		for _, rd := range nearTie {
			for _, c := range rd.offer {
				if s.stuck {
					return
				}
				headers(sender(), msg(c, len(c.nodes)), "neartie-"+c.kind)
				switch rng.Intn(6) {
				case 0:
					cfwrite()
				case 1:
					backlog()
				}
			}
			if c := rd.adopt; c != nil && !s.stuck {
				p := sender()
				if rd.split > 0 {
					t.Hit("neartie.reveal.two-messages")
					headers(p, msg(c, rd.split), "neartie-above-first-part")
				} else {
					t.Hit("neartie.reveal.one-message")
				}
				headers(p, msg(c, len(c.nodes)), "neartie-above")
			}
		}
		return
	}
	// a sync peer is usually there from the start
	if rng.Intn(8) > 0 {
		p := 1 + rng.Intn(2)
		if rng.Intn(2) == 0 {
			peerheight(p, len(w.main)-1-rng.Intn(3))
		}
		newpeer(p)
	}

	for ev := 0; ev < nev; ev++ {
		if s.stuck {
			t.Hit("case.ended-on-hang")
			return
		}
		p := 1 + rng.Intn(npeers)
		x := rng.Intn(109)
		switch {
		case x < 14: // extend the stored tip
			tp := tip()
			if len(tp.children) == 0 {
				continue
			}
			tgt := randDesc(rng, tp, 1+rng.Intn(8))
			headers(p, cut(pathTo(tp, tgt)), "extend")
		case x < 22: // honest sync: next main-chain batch, usually from the sync peer
			tp := tip()
			if !s.onStored(tp) || int(tp.height) >= len(w.main)-1 || w.main[tp.height] != tp {
				continue
			}
			if sp := s.peerID(s.bm.Digest().SyncPeer); sp != 0 && rng.Intn(4) > 0 {
				p = sp
			}
			n := min(len(w.main)-1-int(tp.height), 1+rng.Intn(7))
			headers(p, w.main[tp.height+1:int(tp.height)+1+n], "main")
		case x < 27: // a whole time-warp branch in one message, usually from the sync peer
			if len(w.warps) == 0 {
				continue
			}
			tgt := w.warps[rng.Intn(len(w.warps))]
			fp := tgt
			for fp != nil && !s.onStored(fp) {
				fp = fp.parent
			}
			if fp == nil || fp == tgt {
				continue
			}
			if sp := s.peerID(s.bm.Digest().SyncPeer); sp != 0 && rng.Intn(4) > 0 {
				p = sp
			}
			headers(p, pathTo(fp, tgt), "warp")
		case x >= 100 && x < 102: // a batch crossing the next checkpoint whose WRITE FAILS, then a
			// second peer's batch that contradicts the checkpoint
			tp := tip()
			t0 := int(tp.height)
			if t0 >= len(w.main)-1 || w.main[t0] != tp || s.back != tp {
				continue
			}
			cpH := 0
			for _, c := range w.params.Checkpoints {
				if int(c.Height) > t0 && cpH == 0 {
					cpH = int(c.Height)
				}
			}
			end := min(len(w.main)-1, t0+1+rng.Intn(8))
			if cpH > 0 && rng.Intn(4) > 0 {
				end = min(len(w.main)-1, cpH+rng.Intn(2))
			}
			batch := append([]*node{}, w.main[t0+1:end+1]...)
			if len(batch) == 0 {
				continue
			}
			t.Hit("ev.headers.failwrite")
			if cpH > 0 && end >= cpH {
				t.Hit("ev.headers.failwrite.crosses-checkpoint")
			}
			hs := make([]*wire.BlockHeader, len(batch))
			for i, n := range batch {
				hs[i] = n.hdr
			}
			s.fs.failWrite = 1
			r := guard(func() { s.bm.Headers(s.peers[p-1], hs) })
			s.fs.failWrite = 0
			t.Op(fmt.Sprintf("headersfw %d %s", p, ids(batch)), s.dump(r, 0, "[]"))
			if b := s.contradictCheckpoint(rng); b != nil {
				headers(1+p%npeers, b, "contradict-checkpoint")
			}
		case x >= 102 && x < 105: // headers (and filter headers) imported underneath + ResetHeaderState
			tp := tip()
			t0 := int(tp.height)
			var blocks []*node
			if t0 < len(w.main)-1 && w.main[t0] == tp && rng.Intn(5) > 0 {
				m := 1 + rng.Intn(len(w.main)-1-t0)
				if rng.Intn(2) == 0 {
					m = len(w.main) - 1 - t0 // all the way: crosses every remaining checkpoint
				}
				blocks = append(blocks, w.main[t0+1:t0+1+m]...)
			}
			if len(blocks) > 0 {
				bhs := make([]headerfs.BlockHeader, len(blocks))
				for i, n := range blocks {
					bhs[i] = headerfs.BlockHeader{BlockHeader: n.hdr, Height: uint32(n.height)}
				}
				if err := s.bh.WriteHeaders(bhs...); err != nil {
					continue
				}
				t.Hit("ev.import.blocks")
			}
			newTip := t0 + len(blocks)
			nf := 0
			if newTip > s.ftip && rng.Intn(3) > 0 {
				nf = 1 + rng.Intn(newTip-s.ftip)
				prev, _, err := s.fh.ChainTip()
				if err != nil {
					continue // the stores are already broken (an earlier oracle failure says so)
				}
				last := *prev
				var fhs []headerfs.FilterHeader
				chain := append(append([]*node{}, s.stored...), blocks...)
				for h := s.ftip + 1; h <= s.ftip+nf; h++ {
					fhh := filterHash(chain[h])
					last = chainhash.DoubleHashH(append(fhh[:], last[:]...))
					fhs = append(fhs, headerfs.FilterHeader{FilterHash: last})
				}
				fhs[len(fhs)-1].HeaderHash = chain[s.ftip+nf].hash
				fhs[len(fhs)-1].Height = uint32(s.ftip + nf)
				if err := s.fh.WriteHeaders(fhs...); err != nil {
					continue
				}
				t.Hit("ev.import.filters")
			}
			t.Hit("ev.importreset")
			res := "ok"
			r := guard(func() {
				if err := s.bm.ResetHeaderState(); err != nil {
					res = "err"
				}
			})
			if r != "ok" {
				res = r
			}
			t.Op(fmt.Sprintf("importreset %s %d", ids(blocks), nf), s.dump(res, 0, "[]"))
			if nf > 0 || rng.Intn(2) == 0 {
				backlog()
			}
			if b := s.contradictCheckpoint(rng); b != nil && rng.Intn(2) == 0 {
				headers(p, b, "contradict-checkpoint")
			}
		case x >= 106 && x < 108: // a fork that is NOT heavier, padded with a valid header that does not connect
			// to it, so that the work of the whole message exceeds the displaced work
			sp := s.peerID(s.bm.Digest().SyncPeer)
			if sp == 0 || len(s.stored) < 3 {
				continue
			}
			tipH := int32(len(s.stored) - 1)
			floor := int32(0)
			for _, c := range w.params.Checkpoints {
				if c.Height <= tipH {
					floor = c.Height
				}
			}
			var cands [][]*node
			for _, tgt := range w.nodes {
				if s.onStored(tgt) {
					continue
				}
				fp := tgt
				for fp != nil && !s.onStored(fp) {
					fp = fp.parent
				}
				if fp == nil || fp.height < floor || fp.height >= tipH {
					continue
				}
				b := pathTo(fp, tgt)
				ok := true
				nw, ow := new(big.Int), new(big.Int)
				for _, n := range b {
					ok = ok && n.valid
					nw.Add(nw, n.work)
					for _, c := range w.params.Checkpoints {
						if c.Height == n.height {
							ok = false
						}
					}
				}
				for _, n := range s.stored[fp.height+1:] {
					ow.Add(ow, n.work)
				}
				if !ok || nw.Cmp(ow) > 0 {
					continue
				}
				// pad with the latest valid headers (by timestamp) that do not connect, until heavier
				last := b[len(b)-1]
				for tries := 0; tries < 4 && nw.Cmp(ow) <= 0; tries++ {
					var pad *node
					for _, n := range w.nodes {
						if n.valid && n.parent != last && n != last && !containsNode(b, n) &&
							(pad == nil || n.hdr.Timestamp.After(pad.hdr.Timestamp)) {
							pad = n
						}
					}
					if pad == nil {
						break
					}
					b = append(b, pad)
					nw.Add(nw, pad.work)
					last = pad
				}
				if nw.Cmp(ow) > 0 {
					cands = append(cands, b)
				}
			}
			if len(cands) == 0 {
				continue
			}
			headers(sp, cands[rng.Intn(len(cands))], "padded-unconnected")
		case x == 105 || x == 108: // a reorganisation in which one RollbackLastBlock FAILS (the case ends here)
			sp := s.peerID(s.bm.Digest().SyncPeer)
			if sp == 0 {
				continue
			}
			tipH := int32(len(s.stored) - 1)
			floor := int32(0)
			for _, c := range w.params.Checkpoints {
				if c.Height <= tipH {
					floor = c.Height
				}
			}
			var cands [][]*node
			for _, tgt := range w.nodes {
				if s.onStored(tgt) {
					continue
				}
				fp := tgt
				for fp != nil && !s.onStored(fp) {
					fp = fp.parent
				}
				if fp == nil || fp.height < floor || fp.height+2 > tipH {
					continue
				}
				b := pathTo(fp, tgt)
				ok := true
				nw, ow := new(big.Int), new(big.Int)
				for _, n := range b {
					ok = ok && n.valid
					nw.Add(nw, n.work)
				}
				for _, n := range s.stored[fp.height+1:] {
					ow.Add(ow, n.work)
				}
				if ok && nw.Cmp(ow) > 0 {
					cands = append(cands, b)
				}
			}
			if len(cands) == 0 {
				continue
			}
			t.Hit("ev.headers.failrollback")
			b := cands[rng.Intn(len(cands))]
			displaced := int(tipH) - (int(b[0].height) - 1)
			k := 1 + rng.Intn(displaced)
			hs := make([]*wire.BlockHeader, len(b))
			for i, n := range b {
				hs[i] = n.hdr
			}
			s.fs.failRollback = k
			r := guard(func() { s.bm.Headers(s.peers[sp-1], hs) })
			s.fs.failRollback = 0
			oldTip := s.stored[len(s.stored)-1]
			t.Op(fmt.Sprintf("headersfrb %d %s %d", sp, ids(b), k), s.dump(r, 0, "[]"))
			if r != "ok" {
				return // the code as it is panics ("Rollback failed"): the case ends here
			}
			// the handler survived a rollback that failed half-way: go on, starting with a header that
			// extends the OLD tip (what a peer that knows nothing of all this sends next)
			t.Hit("ev.headers.failrollback.survived")
			var ok []*node
			for _, c := range oldTip.children {
				if c.valid {
					ok = append(ok, c)
				}
			}
			if len(ok) > 0 {
				c := ok[rng.Intn(len(ok))]
				headers(1+sp%npeers, append([]*node{c}, pathTo(c, randDesc(rng, c, rng.Intn(3)))...), "after-failed-rollback")
			}
		case x < 31: // a reorganisation and the new branch's filter headers with a SLOW notification sink,
			// then a subscriber registers (backlog request from this goroutine)
			sp := s.peerID(s.bm.Digest().SyncPeer)
			if sp == 0 || len(s.stored) < 4 {
				continue
			}
			// first commit the filter headers of what is stored, so that the reorganisation
			// disconnects committed blocks
			for i := 0; i < 4 && s.ftip < len(s.stored)-1; i++ {
				cfwrite()
			}
			if s.ftip < 2 {
				continue
			}
			tipH := int32(len(s.stored) - 1)
			floor := int32(0)
			for _, c := range w.params.Checkpoints {
				if c.Height <= tipH {
					floor = c.Height
				}
			}
			var cands [][]*node
			for _, tgt := range w.nodes {
				if s.onStored(tgt) {
					continue
				}
				fp := tgt
				for fp != nil && !s.onStored(fp) {
					fp = fp.parent
				}
				if fp == nil || fp.height < 1 || fp.height < floor || int(fp.height) >= s.ftip || fp.height >= tipH {
					continue
				}
				b := pathTo(fp, tgt)
				ok := true
				nw, ow := new(big.Int), new(big.Int)
				for _, n := range b {
					ok = ok && n.valid
					nw.Add(nw, n.work)
					for _, c := range w.params.Checkpoints {
						if c.Height == n.height {
							ok = false // keep checkpoints out of this script
						}
					}
				}
				for _, n := range s.stored[fp.height+1:] {
					ow.Add(ow, n.work)
				}
				if ok && nw.Cmp(ow) > 0 {
					cands = append(cands, b)
				}
			}
			if len(cands) == 0 {
				t.Hit("ev.lagreorg.none")
				continue
			}
			t.Hit("ev.lagreorg")
			b := cands[rng.Intn(len(cands))]
			fpH := int(b[0].height) - 1
			hs := make([]*wire.BlockHeader, len(b))
			for i, n := range b {
				hs[i] = n.hdr
			}
			s.bm.SetSinkDelay(3 * time.Millisecond)
			r := guard(func() { s.bm.Headers(s.peers[sp-1], hs) })
			// the new branch's filter headers, as far as the branch got stored
			stopID, nf := 0, 0
			if _, fth, err := s.fh.ChainTip(); err == nil && r == "ok" {
				want := int(fth) + 1 + rng.Intn(3)
				var blocks []*node
				for h := int(fth) + 1; h <= want; h++ {
					hd, err := s.bh.FetchHeaderByHeight(uint32(h))
					if err != nil {
						break
					}
					n, ok := w.byHash[hd.BlockHash()]
					if !ok {
						break
					}
					blocks = append(blocks, n)
				}
				if prev, _, err := s.fh.ChainTip(); err == nil && len(blocks) > 0 {
					msg := &wire.MsgCFHeaders{FilterType: wire.GCSFilterRegular,
						StopHash: blocks[len(blocks)-1].hash, PrevFilterHeader: *prev}
					for _, n := range blocks {
						fhh := filterHash(n)
						msg.FilterHashes = append(msg.FilterHashes, &fhh)
					}
					r2 := guard(func() {
						if _, _, err := s.bm.WriteCFHeaders(msg); err != nil {
							r = "err"
						}
					})
					if r2 != "ok" {
						r = r2
					}
					stopID, nf = blocks[len(blocks)-1].id, len(blocks)
				}
			}
			ph := 1 + rng.Intn(fpH)
			pr, seen := s.bm.ProbeNow(uint32(ph))
			s.bm.SetSinkDelay(0)
			probe := fmt.Sprintf(" pres err pbest 0 pbl [] pseen %d", seen)
			if pr.Hung {
				probe = fmt.Sprintf(" pres HANG pbest 0 pbl [] pseen %d", seen)
				s.stuck = true
			} else if pr.Err == nil {
				var ss []string
				for _, n := range pr.Ntfns {
					hd := n.Header()
					ss = append(ss, fmt.Sprintf("%d:%d", s.idOf(&hd), n.Height()))
				}
				probe = fmt.Sprintf(" pres ok pbest %d pbl [%s] pseen %d", pr.Best, strings.Join(ss, " "), seen)
			}
			s.lastBatch = b
			t.Op(fmt.Sprintf("lagreorg %d %s %d %d %d", sp, ids(b), stopID, nf, ph), s.dump(r, 0, "[]")+probe)
		case x < 40: // a branch that forks off the stored chain
			tgt := w.nodes[rng.Intn(len(w.nodes))]
			tgt = randDesc(rng, tgt, rng.Intn(4))
			fp := tgt
			for fp != nil && !s.onStored(fp) {
				fp = fp.parent
			}
			if fp == nil || fp == tgt {
				continue
			}
			b := pathTo(fp, tgt)
			shape := "fork"
			if fp == tip() {
				shape = "extend"
			}
			if rng.Intn(4) == 0 { // with a known prefix
				k := 1 + rng.Intn(3)
				for i := 0; i < k && fp.parent != nil; i++ {
					b = append([]*node{fp}, b...)
					fp = fp.parent
				}
				shape += "+known"
			}
			if sp := s.peerID(s.bm.Digest().SyncPeer); sp != 0 && rng.Intn(2) == 0 {
				p = sp
			}
			headers(p, cut(b), shape)
		case x < 46: // continue behind the in-memory back (what a peer asked via getheaders would send)
			if s.back == nil || len(s.back.children) == 0 {
				continue
			}
			tgt := randDesc(rng, s.back, 1+rng.Intn(5))
			shape := "memext"
			if s.back != tip() {
				shape = "memext-ahead"
			}
			headers(p, pathTo(s.back, tgt), shape)
		case x < 50: // continue after the valid prefix of the last batch
			if s.lastGood == nil || len(s.lastGood.children) == 0 {
				continue
			}
			var ok []*node
			for _, c := range s.lastGood.children {
				if c.valid {
					ok = append(ok, c)
				}
			}
			if len(ok) == 0 {
				continue
			}
			c := ok[rng.Intn(len(ok))]
			headers(p, append([]*node{c}, pathTo(c, randDesc(rng, c, rng.Intn(4)))...), "after-valid-prefix")
		case x < 53: // the same batch again
			if s.lastBatch != nil {
				headers(p, s.lastBatch, "dup")
			}
		case x < 56: // not linked internally
			tgt := randDesc(rng, w.nodes[rng.Intn(len(w.nodes))], 4)
			b := pathTo(w.nodes[0], tgt)
			if len(b) < 3 {
				continue
			}
			b = append([]*node{}, b[len(b)-3:]...)
			if rng.Intn(2) == 0 {
				b[0], b[1] = b[1], b[0]
			} else {
				b = []*node{b[0], b[2]}
			}
			headers(p, b, "unlinked")
		case x < 59: // connects to nothing we have
			tgt := randDesc(rng, w.nodes[rng.Intn(len(w.nodes))], 5)
			b := pathTo(w.nodes[0], tgt)
			i := len(b) - 1
			for i > 0 && !s.onStored(b[i-1]) {
				i--
			}
			if i+1 >= len(b) {
				continue
			}
			headers(p, b[i+1:], "orphan")
		case x < 62: // part of what is stored
			if len(s.stored) < 3 {
				continue
			}
			a := 1 + rng.Intn(len(s.stored)-1)
			headers(p, append([]*node{}, s.stored[a:min(len(s.stored), a+1+rng.Intn(4))]...), "known")
		case x < 67:
			if s.used[p-1] {
				continue
			}
			newpeer(p)
		case x < 71:
			if !s.active[p-1] {
				continue
			}
			t.Hit("ev.donepeer")
			s.active[p-1] = false
			r := guard(func() { s.bm.DonePeer(s.peers[p-1]) })
			t.Op(fmt.Sprintf("donepeer %d", p), s.dump(r, 0, "[]"))
		case x < 76:
			peerheight(p, rng.Intn(len(w.main)+3))
		case x < 80:
			t.Hit("ev.inv")
			n := w.nodes[rng.Intn(len(w.nodes))]
			r := guard(func() { s.bm.Inv(s.peers[p-1], []chainhash.Hash{n.hash}) })
			t.Op(fmt.Sprintf("inv %d %d", p, n.id), s.dump(r, 0, "[]"))
		case x < 90:
			cfwrite()
		default:
			backlog()
		}
	}
}

// scratchRoot: the stores fsync on every write (≈10 ms each on a disk); a memory-backed directory makes a
// quick run fit its budget.  Durability is not what this driver observes (that is C07/C08's business).
func scratchRoot() func() {
	if fi, err := os.Stat("/dev/shm"); err == nil && fi.IsDir() {
		if d, err := os.MkdirTemp("/dev/shm", "verif-bm-"); err == nil {
			old, had := os.LookupEnv("TMPDIR")
			os.Setenv("TMPDIR", d)
			return func() {
				os.RemoveAll(d)
				if had {
					os.Setenv("TMPDIR", old)
				}
			}
		}
	}
	return func() {}
}

func Run(t *tr.W, thorough bool) {
	tr.MaxHangs = 3 // a HANG is never expected on a correct tree: three of them settle the verdict
	defer scratchRoot()()
	rng := tr.Rng(7101)
	ncases := 120
	if thorough {
		ncases = 1500
	}
	ncases *= tr.EnvInt("VERIF_BUDGET", 1)
	if os.Getenv("VERIF_SEARCH") == "1" {
		ncases = 3 * 120 // the search after a broken tie: three times the quick run
	}
	rngNT := tr.Rng(7102) // the near-tie cases draw from a stream of their own
	rngST := tr.Rng(7103)
	rngFB := tr.Rng(7104)
	rngCJ := tr.Rng(7105)
	for i := 0; i < ncases; i++ {
		runCase(t, rng, 18+rng.Intn(30), "")
		if i == ncases/3 || i == 2*ncases/3 {
			runCase(t, rng, 0, "long") // a few long-branch cases per run
		}
		if i%10 == 5 {
			runCase(t, rngNT, 0, "neartie") // a dozen near-tie cases per quick run
		}
		if i%12 == 1 {
			runCase(t, rngFB, 0, "flipback") // ten histories that flip back to a branch adopted before
		}
		if i%12 == 7 {
			runCase(t, rngCJ, 0, "cpjunk") // ten messages that do not connect but end in the real next checkpoint
		}
		if i%5 == 3 {
			runCase(t, rngST, 0, "restale") // and two dozen histories that re-anchor around a reorganisation
		}
	}
}
