package main

import _ "verifharness/blockdrv"
