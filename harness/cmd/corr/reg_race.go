package main

import _ "verifharness/racedrv"
