package main

import _ "verifharness/utxodrv"
