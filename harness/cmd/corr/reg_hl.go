package main

import _ "verifharness/hldrv"
