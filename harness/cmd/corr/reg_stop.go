package main

import _ "verifharness/stopdrv"
