package main

import _ "verifharness/lrudrv"
