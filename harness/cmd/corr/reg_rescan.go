package main

import _ "verifharness/rescandrv"
