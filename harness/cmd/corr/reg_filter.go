package main

import _ "verifharness/filterdrv"
