package main

import _ "verifharness/storedrv"
