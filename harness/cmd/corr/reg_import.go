package main

import _ "verifharness/importdrv"
