package main

import _ "verifharness/netsim"
