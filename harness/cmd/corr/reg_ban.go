package main

import _ "verifharness/bandrv"
