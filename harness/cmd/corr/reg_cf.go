package main

import _ "verifharness/cfdrv"
