package main

import _ "verifharness/dispdrv"
