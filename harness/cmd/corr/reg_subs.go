package main

import _ "verifharness/subsdrv"
