package main

import _ "verifharness/impfiledrv"
