package main

import _ "verifharness/syncdrv"
