package main

import _ "verifharness/bmdrv"
