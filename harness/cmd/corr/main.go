// corr: correspondence drivers.  usage: corr <driver> <out-trace> [args]
package main

import (
	"fmt"
	"os"

	"verifharness/lrudrv"
	"verifharness/tr"
)

func main() {
	if len(os.Args) < 3 {
		fmt.Fprintln(os.Stderr, "usage: corr <driver> <out>")
		os.Exit(2)
	}
	drv, out := os.Args[1], os.Args[2]
	t := tr.New(out)
	defer t.Close()
	thorough := os.Getenv("VERIF_TIER") == "thorough"
	switch drv {
	case "lru":
		r := tr.Rng(16)
		if thorough {
			lrudrv.Sequential(t, r, tr.EnvInt("LRU_SEQ", 20000))
			lrudrv.ConcExhaustive(t, r, tr.EnvInt("LRU_PROGS", 150), 4000)
			lrudrv.ConcRandom(t, r, tr.EnvInt("LRU_RAND", 3000))
			lrudrv.Unscheduled(t, r, tr.EnvInt("LRU_FREE", 300))
		} else {
			lrudrv.Sequential(t, r, tr.EnvInt("LRU_SEQ", 1500))
			lrudrv.ConcExhaustive(t, r, tr.EnvInt("LRU_PROGS", 12), 1500)
			lrudrv.ConcRandom(t, r, tr.EnvInt("LRU_RAND", 300))
			lrudrv.Unscheduled(t, r, tr.EnvInt("LRU_FREE", 40))
		}
	default:
		fmt.Fprintln(os.Stderr, "unknown driver", drv)
		os.Exit(2)
	}
}
