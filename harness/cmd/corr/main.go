// corr: correspondence drivers.  usage: corr <driver> <out-trace>
// Drivers register themselves (see reg_*.go in this directory).
package main

import (
	"fmt"
	"os"
	"sort"

	"verifharness/tr"
)

func main() {
	if len(os.Args) < 3 {
		names := []string{}
		for n := range tr.Drivers {
			names = append(names, n)
		}
		sort.Strings(names)
		fmt.Fprintln(os.Stderr, "usage: corr <driver> <out>; drivers:", names)
		os.Exit(2)
	}
	d, ok := tr.Drivers[os.Args[1]]
	if !ok {
		fmt.Fprintln(os.Stderr, "unknown driver", os.Args[1])
		os.Exit(2)
	}
	t := tr.New(os.Args[2])
	defer t.Close()
	d(t, os.Getenv("VERIF_TIER") == "thorough")
}
