package main

import _ "verifharness/pushdrv"
