// Package utxodrv drives the REAL neutrino.UtxoScanner over generated chains of real
// wire.MsgBlocks and writes the C10 trace (see lean/Driver/Drv/Utxo.lean for the reader).
//
// Everything the environment decides is scripted by the number k of GetBlockHash calls made
// so far: the tip BestSnapshot reports, the requests enqueued from inside the k-th call, Stop,
// injected failures and filter false positives.  The case is therefore a pure function of the
// printed script and the Lean model can replay it.
package utxodrv

import (
	"crypto/sha256"
	"errors"
	"fmt"
	"math/rand"
	"os"
	"sort"
	"strings"
	"sync"
	"time"

	"github.com/btcsuite/btcd/btcutil/v2"
	"github.com/btcsuite/btcd/chainhash/v2"
	"github.com/btcsuite/btcd/wire/v2"
	"github.com/lightninglabs/neutrino"
	"github.com/lightninglabs/neutrino/headerfs"

	"verifharness/tr"
)

type op struct{ txid, idx int }

type txSpec struct {
	id   int
	ins  []op
	nout int
	scr  []int // script id of each output (several outputs, also of different transactions, may share one)
}

type reqSpec struct {
	id, txid, idx, birth, k int
}

type caseSpec struct {
	kind      string
	blocks    [][]txSpec
	tip0      int
	tipAt     [][2]int // (k, tip): tip once k hash calls were made (ascending k)
	reqs      []reqSpec
	fp        map[int]bool
	hashErr   map[int]bool
	fltrErr   map[int]bool
	blkErr    map[int]bool
	stop      int // 0 = never
	again     bool
	stopAtEnd bool
	wd        time.Duration

	// concurrent readers of one request (GetUtxoRequest.Result "supports multiple readers"):
	// `readers` goroutines call Result on every request from the moment it is enqueued (before
	// the scan can deliver), each with a cancel channel of its own that only the watchdog closes;
	// one more reader (at position cancelPos) gives up by itself after cancelAfter; `late`
	// goroutines call Result at the same time once the request has been answered.
	readers     int
	cancelPos   int // -1: no reader that gives up
	cancelAfter time.Duration
	late        int
}

var (
	errHash   = errors.New("injected: no block hash")
	errFilter = errors.New("injected: filter fetch failed")
	errBlock  = errors.New("injected: block fetch failed")
)

// script is the pkScript with the given id.
func script(id int) []byte {
	return []byte{0x51, 0x04, byte(id >> 24), byte(id >> 16), byte(id >> 8), byte(id)}
}

// defaultScript is the script id of an outpoint no transaction of the chain creates (unknown
// transaction or output index out of range); the Lean driver uses the same formula.
func defaultScript(txid, idx int) int { return 100000 + txid*100 + idx }

// scriptOf is the script id of an outpoint.
func (w *world) scriptOf(txid, idx int) int {
	if s, ok := w.scr[op{txid, idx}]; ok {
		return s
	}
	return defaultScript(txid, idx)
}

func fakeHash(txid int) chainhash.Hash {
	return chainhash.Hash(sha256.Sum256([]byte(fmt.Sprintf("fake-tx-%d", txid))))
}

type world struct {
	c        *caseSpec
	blocks   []*btcutil.Block
	hashes   []chainhash.Hash
	heightOf map[chainhash.Hash]int
	txHash   map[int]chainhash.Hash
	txNum    map[chainhash.Hash]int
	scr      map[op]int

	mu         sync.Mutex
	k          int
	log        []string
	scanActive bool
	endH       int
	lastCall   time.Time // time of the last callback from the scanner
	bestRun    int       // consecutive BestSnapshot calls with no GetBlockHash call in between
	slowHangs  int       // HANGs that had to wait for the whole watchdog
	live       []*liveReq
	stopDone   chan struct{}
	stopFired  bool
	sc         *neutrino.UtxoScanner
}

type liveReq struct {
	spec   reqSpec
	req    *neutrino.GetUtxoRequest
	enqErr error
	read   bool
	obs    string
	rd     []*reader
	fin    chan *reader // readers that have returned, in order of return
}

// reader: one goroutine inside GetUtxoRequest.Result.  kind "wait": its cancel channel is closed by
// the watchdog only (a return with ErrGetUtxoCancelled is a HANG observation); kind "cancel": the
// reader gives up by itself.
type reader struct {
	kind   string
	cancel chan struct{}
	once   sync.Once
	done   chan struct{}
	rep    *neutrino.SpendReport
	err    error
	pan    bool
}

func (r *reader) stop() { r.once.Do(func() { close(r.cancel) }) }

func (r *reader) cancelled() bool { return !r.pan && errors.Is(r.err, neutrino.ErrGetUtxoCancelled) }

// readerGrace: how long a reader may take to return once another reader of the same request has
// been given the answer (a watchdog, not a measurement: on the unchanged code the others return as
// soon as the first one has released the request's mutex).
const readerGrace = 1500 * time.Millisecond

func (w *world) spawnReader(l *liveReq, kind string, after time.Duration) *reader {
	rd := &reader{kind: kind, cancel: make(chan struct{}), done: make(chan struct{})}
	req, fin := l.req, l.fin
	go func() {
		defer func() {
			if r := recover(); r != nil {
				rd.pan = true
			}
			close(rd.done)
			fin <- rd
		}()
		rd.rep, rd.err = req.Result(rd.cancel)
	}()
	if kind == "cancel" {
		time.AfterFunc(after, rd.stop)
	}
	return rd
}

// spawnReaders starts the case's concurrent readers of a request that has just been enqueued.
func (w *world) spawnReaders(l *liveReq) {
	c := w.c
	if c.readers == 0 || l.req == nil || l.enqErr != nil {
		return
	}
	l.fin = make(chan *reader, c.readers+1)
	for i := 0; i <= c.readers; i++ {
		if i == c.cancelPos {
			l.rd = append(l.rd, w.spawnReader(l, "cancel", c.cancelAfter))
		}
		if i < c.readers {
			l.rd = append(l.rd, w.spawnReader(l, "wait", 0))
		}
	}
}

func (w *world) showReader(rd *reader) string {
	switch {
	case rd.pan:
		return "PANIC"
	case rd.cancelled() && rd.kind == "cancel":
		return "cancelled"
	}
	return w.showResult(rd.rep, rd.err)
}

// resultReaders is result() for a request with concurrent readers: the request's answer is what the
// first reader to return with one was given.  No call of Result is made from here while readers
// are inside it (a reader holding the request's mutex would park this goroutine with no way out).
func (w *world) resultReaders(l *liveReq, wd time.Duration) string {
	start := time.Now()
	for {
		select {
		case rd := <-l.fin:
			if rd.cancelled() {
				continue // the reader that gave up on purpose (or one the watchdog released)
			}
			return w.showReader(rd)
		case <-time.After(2 * time.Millisecond):
		}
		w.mu.Lock()
		spinning := w.bestRun > 2000 || w.k > 400
		idleFor := time.Since(w.lastCall)
		w.mu.Unlock()
		slow := !spinning && time.Since(start) >= wd && idleFor >= wd
		if !spinning && !slow {
			continue
		}
		// nobody was answered: release every reader, then make sure no answer is buffered
		for _, rd := range l.rd {
			rd.stop()
		}
		for _, rd := range l.rd {
			select {
			case <-rd.done:
				if !rd.cancelled() {
					return w.showReader(rd)
				}
			case <-time.After(2 * time.Second):
			}
		}
		closed := make(chan struct{})
		close(closed)
		for i := 0; i < 24; i++ {
			if s := w.guardedResult(l, closed); s != "HANG" {
				return s
			}
		}
		if slow {
			w.mu.Lock()
			w.slowHangs++
			w.mu.Unlock()
		}
		return "HANG"
	}
}

// guardedResult: one Result call under a watchdog of its own (a reader that never returns may hold
// the request's mutex).
func (w *world) guardedResult(l *liveReq, cancel chan struct{}) string {
	res := make(chan string, 1)
	go func() {
		defer func() {
			if r := recover(); r != nil {
				res <- "PANIC"
			}
		}()
		rep, err := l.req.Result(cancel)
		res <- w.showResult(rep, err)
	}()
	select {
	case s := <-res:
		return s
	case <-time.After(2 * time.Second):
		return "HANG"
	}
}

var readerHangs int

// collect waits (bounded) for every reader in rds and returns what each was given, in spawn order.
// answered: the request has been answered, so every reader must return within the grace period.
func (w *world) collect(rds []*reader, answered bool) string {
	deadline := time.Now()
	if answered {
		deadline = deadline.Add(readerGrace)
	}
	obs := make([]string, len(rds))
	for i, rd := range rds {
		select {
		case <-rd.done:
		case <-time.After(time.Until(deadline)):
			rd.stop()
			select {
			case <-rd.done:
			case <-time.After(2 * time.Second):
				obs[i] = "HANG stuck"
				continue
			}
		}
		obs[i] = w.showReader(rd)
		if obs[i] == "HANG" && answered {
			readerHangs++
		}
	}
	return strings.Join(obs, " | ")
}

func (w *world) hashOfTx(txid int) chainhash.Hash {
	if h, ok := w.txHash[txid]; ok {
		return h
	}
	h := fakeHash(txid)
	w.txHash[txid] = h
	w.txNum[h] = txid
	return h
}

func build(c *caseSpec) *world {
	w := &world{c: c, heightOf: map[chainhash.Hash]int{}, txHash: map[int]chainhash.Hash{},
		txNum: map[chainhash.Hash]int{}, scr: map[op]int{}, stopDone: make(chan struct{})}
	for _, txs := range c.blocks {
		for i := range txs {
			t := &txs[i]
			for o := 0; o < t.nout; o++ {
				if o >= len(t.scr) {
					t.scr = append(t.scr, defaultScript(t.id, o)+500000) // own script
				}
				w.scr[op{t.id, o}] = t.scr[o]
			}
		}
	}
	var prev chainhash.Hash
	for h, txs := range c.blocks {
		mb := wire.NewMsgBlock(&wire.BlockHeader{Version: 1, PrevBlock: prev,
			Timestamp: time.Unix(1600000000+int64(h)*600, 0), Bits: 0x207fffff, Nonce: uint32(h)})
		for _, t := range txs {
			mt := wire.NewMsgTx(2)
			for _, in := range t.ins {
				mt.AddTxIn(wire.NewTxIn(&wire.OutPoint{Hash: w.hashOfTx(in.txid), Index: uint32(in.idx)}, nil, nil))
			}
			for o := 0; o < t.nout; o++ {
				mt.AddTxOut(wire.NewTxOut(int64(t.id*100+o), script(t.scr[o])))
			}
			th := mt.TxHash()
			w.txHash[t.id] = th
			w.txNum[th] = t.id
			if err := mb.AddTransaction(mt); err != nil {
				panic(err)
			}
		}
		blk := btcutil.NewBlock(mb)
		bh := mb.BlockHash()
		w.blocks = append(w.blocks, blk)
		w.hashes = append(w.hashes, bh)
		w.heightOf[bh] = h
		prev = bh
	}
	// every hash a request may name exists before the scanner's goroutines start (enqueue runs
	// inside a callback while the main goroutine renders results)
	for _, r := range c.reqs {
		w.hashOfTx(r.txid)
	}
	return w
}

func (w *world) tipLocked() int {
	t := w.c.tip0
	for _, e := range w.c.tipAt {
		if w.k >= e[0] {
			t = e[1]
		}
	}
	return t
}

func (w *world) bestSnapshot() (*headerfs.BlockStamp, error) {
	w.mu.Lock()
	defer w.mu.Unlock()
	t := w.tipLocked()
	w.lastCall = time.Now()
	w.bestRun++
	if w.stopFired {
		w.scanActive = false
	} else if !w.scanActive {
		w.scanActive, w.endH = true, t
	} else if t > w.endH {
		w.endH = t
	} else {
		w.scanActive = false
	}
	return &headerfs.BlockStamp{Hash: w.hashes[t], Height: int32(t)}, nil
}

func (w *world) enqueue(l *liveReq) {
	in := &neutrino.InputWithScript{
		OutPoint: wire.OutPoint{Hash: w.hashOfTx(l.spec.txid), Index: uint32(l.spec.idx)},
		PkScript: script(w.scriptOf(l.spec.txid, l.spec.idx)),
	}
	l.req, l.enqErr = w.sc.Enqueue(in, uint32(l.spec.birth), nil)
	w.spawnReaders(l)
}

func (w *world) getBlockHash(height int64) (*chainhash.Hash, error) {
	w.mu.Lock()
	w.k++
	w.lastCall = time.Now()
	w.bestRun = 0
	k := w.k
	var arr []*liveReq
	for _, l := range w.live {
		if l.spec.k == k {
			arr = append(arr, l)
		}
	}
	stop := w.c.stop == k
	w.mu.Unlock()

	// Enqueue takes the scanner's own lock; the harness lock must not be held.
	for _, l := range arr {
		w.enqueue(l)
	}
	if stop {
		go func() {
			w.sc.Stop()
			close(w.stopDone)
		}()
		<-w.sc.VerifQuit()
	}

	w.mu.Lock()
	defer w.mu.Unlock()
	for _, l := range arr {
		l.spec.k = -k // marks "arrived"
	}
	if stop {
		w.stopFired = true
		w.scanActive = false
	}
	if w.c.hashErr[k] || int(height) >= len(w.hashes) {
		w.log = append(w.log, fmt.Sprintf("cb hash %d => err", height))
		w.scanActive = false
		return nil, errHash
	}
	if k <= 400 {
		w.log = append(w.log, fmt.Sprintf("cb hash %d => ok", height))
	}
	h := w.hashes[height]
	return &h, nil
}

// filterMatches answers from the watch list it is handed, the way a BIP158 basic filter would: the
// block matches iff one of its transactions touches a script of the list (an input spends an output
// paying to it, or an output pays to it).  Scripted false positives are added; there are no false
// negatives with respect to the list.
func (w *world) filterMatches(watch [][]byte, bh *chainhash.Hash) (bool, error) {
	w.mu.Lock()
	defer w.mu.Unlock()
	w.lastCall = time.Now()
	h := w.heightOf[*bh]
	set := map[string]bool{}
	var ids []int
	for _, s := range watch {
		set[string(s)] = true
		if len(s) == 6 {
			ids = append(ids, int(s[2])<<24|int(s[3])<<16|int(s[4])<<8|int(s[5]))
		} else {
			ids = append(ids, -1)
		}
	}
	sort.Ints(ids)
	ws := tr.Join(ids, func(i int) string { return fmt.Sprint(i) })
	if w.c.fltrErr[w.k] {
		w.log = append(w.log, fmt.Sprintf("cb filter %d %s => err", h, ws))
		w.scanActive = false
		return false, errFilter
	}
	match := w.c.fp[w.k]
	for _, t := range w.blocks[h].MsgBlock().Transactions {
		for _, in := range t.TxIn {
			n, ok := w.txNum[in.PreviousOutPoint.Hash]
			if ok && set[string(script(w.scriptOf(n, int(in.PreviousOutPoint.Index))))] {
				match = true
			}
		}
		for _, out := range t.TxOut {
			if set[string(out.PkScript)] {
				match = true
			}
		}
	}
	if w.k <= 400 {
		w.log = append(w.log, fmt.Sprintf("cb filter %d %s => %d", h, ws, b2i(match)))
	}
	return match, nil
}

func b2i(b bool) int {
	if b {
		return 1
	}
	return 0
}

func (w *world) getBlock(bh chainhash.Hash, _ ...neutrino.QueryOption) (*btcutil.Block, error) {
	w.mu.Lock()
	defer w.mu.Unlock()
	w.lastCall = time.Now()
	h := w.heightOf[bh]
	if w.c.blkErr[w.k] {
		w.log = append(w.log, fmt.Sprintf("cb block %d => err", h))
		w.scanActive = false
		return nil, errBlock
	}
	if w.k <= 400 {
		w.log = append(w.log, fmt.Sprintf("cb block %d => ok", h))
	}
	return w.blocks[h], nil
}

func (w *world) showResult(rep *neutrino.SpendReport, err error) string {
	switch {
	case errors.Is(err, neutrino.ErrGetUtxoCancelled):
		return "HANG"
	case errors.Is(err, neutrino.ErrShuttingDown):
		return "err shutdown"
	case errors.Is(err, errHash):
		return "err hash"
	case errors.Is(err, errFilter):
		return "err filter"
	case errors.Is(err, errBlock):
		return "err block"
	case err != nil:
		return "err other"
	case rep == nil:
		return "empty"
	case rep.SpendingTx != nil:
		return fmt.Sprintf("spent %d %d %d", w.txNum[rep.SpendingTx.TxHash()], rep.SpendingInputIndex, rep.SpendingTxHeight)
	case rep.Output != nil:
		s := fmt.Sprintf("output %d %d %d", rep.BlockHeight, rep.BlockIndex, rep.Output.Value)
		if rep.BlockHash == nil || int(rep.BlockHeight) >= len(w.hashes) || *rep.BlockHash != w.hashes[rep.BlockHeight] {
			s += " badhash"
		}
		return s
	}
	return "malformed"
}

func (w *world) result(l *liveReq, wd time.Duration) (s string) {
	defer func() {
		if r := recover(); r != nil {
			s = "PANIC"
		}
	}()
	if len(l.rd) > 0 && !l.read {
		return w.resultReaders(l, wd)
	}
	// The tip depends only on the number of GetBlockHash calls, so once the batch manager calls
	// BestSnapshot over and over without one, nothing can change any more: a caller still waiting
	// then waits for ever.  Otherwise (scanner idle) only the watchdog can tell.
	start := time.Now()
	for {
		cancel := make(chan struct{})
		tm := time.AfterFunc(2*time.Millisecond, func() { close(cancel) })
		rep, err := l.req.Result(cancel)
		tm.Stop()
		if !errors.Is(err, neutrino.ErrGetUtxoCancelled) {
			return w.showResult(rep, err)
		}
		w.mu.Lock()
		// k > 400: no generated case needs that many GetBlockHash calls (at most 9 blocks, a handful of
		// batches); the scanner is rescanning without ever answering (livelock)
		spinning := w.bestRun > 2000 || w.k > 400
		idleFor := time.Since(w.lastCall)
		w.mu.Unlock()
		slow := !spinning && time.Since(start) >= wd && idleFor >= wd
		if !spinning && !slow {
			continue
		}
		// Under load the 2 ms timer may have fired before Result reached its select, and select picks
		// at random among ready channels: a buffered answer can lose against the cancel channel.  Ask
		// again with a cancel channel that is already closed: a buffered answer is then returned with
		// probability 1/2 per call, so 24 cancelled calls in a row mean there is none.
		closed := make(chan struct{})
		close(closed)
		for i := 0; i < 24; i++ {
			rep, err := l.req.Result(closed)
			if !errors.Is(err, neutrino.ErrGetUtxoCancelled) {
				return w.showResult(rep, err)
			}
		}
		if slow {
			w.mu.Lock()
			w.slowHangs++
			w.mu.Unlock()
		}
		return "HANG"
	}
}

// resultAfterStop reads a result after Stop has returned: the closed quit channel releases Result, so
// one call with a generous bound suffices (no polling, no dependence on short timers).
func (w *world) resultAfterStop(l *liveReq) (s string) {
	defer func() {
		if r := recover(); r != nil {
			s = "PANIC"
		}
	}()
	cancel := make(chan struct{})
	tm := time.AfterFunc(8*time.Second, func() { close(cancel) })
	defer tm.Stop()
	rep, err := l.req.Result(cancel)
	return w.showResult(rep, err)
}

var againBudget = 8

func runCase(t *tr.W, c *caseSpec) (hangs int) {
	w := build(c)
	w.sc = neutrino.NewUtxoScanner(&neutrino.UtxoScannerConfig{
		BestSnapshot:       w.bestSnapshot,
		GetBlockHash:       w.getBlockHash,
		BlockFilterMatches: neutrino.VerifUtxoFilterMatches(w.filterMatches),
		GetBlock:           w.getBlock,
	})
	t.Case("%s tip0 %d", c.kind, c.tip0)
	t.Hit("kind." + c.kind)
	for h, txs := range c.blocks {
		ss := make([]string, 0, len(txs))
		for _, x := range txs {
			ins := make([]string, len(x.ins))
			for i, in := range x.ins {
				ins[i] = fmt.Sprintf("%d.%d", in.txid, in.idx)
			}
			scr := make([]string, x.nout)
			for o := range scr {
				scr[o] = fmt.Sprint(w.scriptOf(x.id, o))
			}
			ss = append(ss, fmt.Sprintf("%d:%d:%s:%s", x.id, x.nout, strings.Join(ins, ","), strings.Join(scr, ",")))
		}
		if len(ss) == 0 {
			ss = []string{"-"}
		}
		t.Line("blk %d %s", h, strings.Join(ss, " "))
	}
	for _, e := range c.tipAt {
		t.Line("tipat %d %d", e[0], e[1])
	}
	for _, r := range c.reqs {
		t.Line("req %d %d %d %d %d", r.id, r.txid, r.idx, r.birth, r.k)
		w.live = append(w.live, &liveReq{spec: r})
	}
	emit := func(name string, m map[int]bool) {
		ks := []int{}
		for k := range m {
			ks = append(ks, k)
		}
		sort.Ints(ks)
		for _, k := range ks {
			t.Line("%s %d", name, k)
			t.Hit("inject." + name)
		}
	}
	emit("fp", c.fp)
	emit("hasherr", c.hashErr)
	emit("fltrerr", c.fltrErr)
	emit("blkerr", c.blkErr)
	if c.stop > 0 {
		t.Line("stop %d", c.stop)
		t.Hit("inject.stop")
	}
	if c.readers > 0 {
		t.Line("rdr %d %d %d", c.readers, c.cancelPos, c.late)
		t.Hit(fmt.Sprintf("readers.n%d", c.readers))
		if c.cancelPos >= 0 {
			t.Hit("readers.with-canceller")
		}
	}

	for _, l := range w.live {
		if l.spec.k == 0 {
			w.enqueue(l)
			l.spec.k = -1000000
		}
	}
	if c.readers > 0 {
		time.Sleep(200 * time.Microsecond) // the readers are inside Result before the scan can deliver
	}
	w.sc.Start()

	stuck := 0
	// Read every request's result; stop when all created requests are read and no scan is running.
	for {
		var todo []*liveReq
		w.mu.Lock()
		for _, l := range w.live {
			if l.spec.k < 0 && !l.read {
				todo = append(todo, l)
			}
		}
		active := w.scanActive && w.k <= 400
		fired := w.stopFired
		w.mu.Unlock()
		if fired {
			select {
			case <-w.stopDone:
			case <-time.After(15 * time.Second):
			}
		}
		if len(todo) == 0 {
			if !active {
				break
			}
			time.Sleep(50 * time.Microsecond)
			if stuck++; stuck == 100000 {
				w.mu.Lock()
				fmt.Fprintf(os.Stderr, "STUCK %+v\nlog %v k=%d endH=%d bestRun=%d\n", *c, w.log, w.k, w.endH, w.bestRun)
				w.mu.Unlock()
			}
			continue
		}
		for _, l := range todo {
			if l.enqErr != nil || l.req == nil {
				l.obs = "enqerr"
			} else {
				l.obs = w.result(l, c.wd)
			}
			l.read = true
		}
	}

	w.mu.Lock()
	log := append([]string(nil), w.log...)
	fired := w.stopFired
	w.mu.Unlock()
	for _, s := range log {
		parts := strings.SplitN(s, " => ", 2)
		t.Op(parts[0], parts[1])
		t.Hit("cb." + strings.Fields(parts[0])[1] + "." + strings.Fields(parts[1])[0])
	}
	for _, l := range w.live {
		if !l.read {
			l.obs = "noreq"
		}
		t.Op(fmt.Sprintf("result %d", l.spec.id), l.obs)
		t.Hit("result." + strings.Fields(l.obs)[0])
		if l.obs == "HANG" {
			hangs++
		}
	}
	// Every concurrent reader of a request must have been given what the first one was given, and
	// none may still be waiting once the request has been answered.
	for _, l := range w.live {
		if len(l.rd) == 0 {
			continue
		}
		answered := l.read && l.obs != "HANG" && l.obs != "PANIC"
		t.Op(fmt.Sprintf("readers %d", l.spec.id), w.collect(l.rd, answered))
		t.Hit("readers")
		if answered && c.late > 0 {
			l.fin = make(chan *reader, c.late)
			var rds []*reader
			for i := 0; i < c.late; i++ {
				rds = append(rds, w.spawnReader(l, "wait", 0))
			}
			t.Op(fmt.Sprintf("late %d", l.spec.id), w.collect(rds, true))
			t.Hit("readers.late")
		}
	}
	// A second Result call must return what the first returned.  (If it blocks, each call costs a
	// watchdog period: after a few such observations only the probe keeps asking.)
	if c.again || againBudget > 0 {
		for _, l := range w.live {
			if l.read && l.req != nil && l.obs != "HANG" {
				o := w.result(l, 120*time.Millisecond)
				t.Op(fmt.Sprintf("again %d", l.spec.id), o)
				if o == "HANG" {
					againBudget--
				}
			}
		}
	}
	// Stop (idempotent), under a watchdog.  Stopping an idle scanner takes 50 ms (Stop signals the
	// condition variable only after its first 50 ms tick), so an idle scanner whose case needs no
	// further observation is left parked (one goroutine blocked in cond.Wait).
	anyHang := false
	for _, l := range w.live {
		anyHang = anyHang || l.obs == "HANG"
	}
	w.mu.Lock()
	runaway := w.k > 400
	w.mu.Unlock()
	if runaway {
		t.Hit("runaway")
	}
	if !(anyHang || fired || c.stopAtEnd || runaway) {
		return w.slowHangs
	}
	done := make(chan struct{})
	go func() {
		w.sc.Stop()
		if fired {
			<-w.stopDone
		}
		close(done)
	}()
	select {
	case <-done:
		t.Op("end", "stopped")
	case <-time.After(15 * time.Second):
		t.Op("end", "STOP-HANG")
	}
	for _, l := range w.live {
		if l.obs == "HANG" {
			t.Op(fmt.Sprintf("after %d", l.spec.id), w.resultAfterStop(l))
		}
	}
	return w.slowHangs
}

// ---- deterministic probes (run first, on every run) ---------------------------------------

func empty() map[int]bool { return map[int]bool{} }

func probes() []*caseSpec {
	mk := func(kind string, blocks [][]txSpec, tip int, reqs []reqSpec) *caseSpec {
		return &caseSpec{kind: kind, blocks: blocks, tip0: tip, reqs: reqs, fp: empty(), hashErr: empty(),
			fltrErr: empty(), blkErr: empty(), wd: 2 * time.Second, stopAtEnd: true, cancelPos: -1}
	}
	one := [][]txSpec{{{id: 1, nout: 1}}, {}, {}}
	// F5: the second request (later start height) must not erase the output found for the first.
	p1 := mk("probe-dup-later", one, 2, []reqSpec{{1, 1, 0, 0, 0}, {2, 1, 0, 1, 0}})
	// F6: start height above the tip.
	p2 := mk("probe-above-tip", one, 1, []reqSpec{{1, 1, 0, 5, 0}})
	// the block fetch at the request's own start height fails.
	p3 := mk("probe-fetch-fail", one, 2, []reqSpec{{1, 1, 0, 0, 0}})
	p3.blkErr[1] = true
	// a second Result call.
	p4 := mk("probe-again", one, 2, []reqSpec{{1, 1, 0, 0, 0}})
	p4.again = true
	// two outputs paying to ONE script, spent in different blocks: the script must stay in the watch
	// list after the first spend, else the block with the second spend is never fetched.
	shared := [][]txSpec{{{id: 1, nout: 2, scr: []int{7, 7}}}, {{id: 2, ins: []op{{1, 0}}, nout: 1}}, {},
		{{id: 3, ins: []op{{1, 1}}, nout: 1}}, {}}
	p5 := mk("probe-shared-script", shared, 4, []reqSpec{{1, 1, 0, 0, 0}, {2, 1, 1, 0, 0}})
	// several goroutines inside Result of one request before the scan delivers, one of them giving
	// up; two more once it has been answered.  Request 2 arrives during the scan.
	p6 := mk("probe-readers", shared, 4, []reqSpec{{1, 1, 0, 0, 0}, {2, 1, 1, 0, 2}})
	p6.readers, p6.cancelPos, p6.cancelAfter, p6.late = 3, 1, 50*time.Microsecond, 2
	// two readers and nothing else
	p7 := mk("probe-readers-two", one, 2, []reqSpec{{1, 1, 0, 0, 0}})
	p7.readers = 2
	return []*caseSpec{p1, p2, p3, p4, p5, p6, p7}
}

// ---- random cases ----------------------------------------------------------------------------

func gen(r *rand.Rand, risky bool) *caseSpec {
	c := &caseSpec{kind: "rand", fp: empty(), hashErr: empty(), fltrErr: empty(), blkErr: empty(),
		wd: 2 * time.Second, cancelPos: -1}
	nb := 2 + r.Intn(7)
	type created struct {
		txid, nout, h int
		scr           []int
	}
	var made []created
	var scripts []int // script id of every output made so far
	next := 1
	for h := 0; h < nb; h++ {
		var txs []txSpec
		for n := r.Intn(4); n > 0; n-- {
			t := txSpec{id: next, nout: 1 + r.Intn(3)}
			next++
			for o := 0; o < t.nout; o++ {
				// a third of the outputs pay to a script some earlier output already pays to
				if len(scripts) > 0 && r.Intn(3) == 0 {
					t.scr = append(t.scr, scripts[r.Intn(len(scripts))])
				} else {
					t.scr = append(t.scr, len(scripts)+1)
				}
				scripts = append(scripts, t.scr[o])
			}
			for m := r.Intn(3); m > 0; m-- {
				switch x := r.Intn(10); {
				case x < 7 && len(made) > 0:
					p := made[r.Intn(len(made))]
					idx := r.Intn(p.nout)
					if r.Intn(12) == 0 {
						idx = p.nout + r.Intn(2) // spends an output that does not exist
					}
					t.ins = append(t.ins, op{p.txid, idx})
				case x < 9 && len(txs) > 0:
					p := txs[r.Intn(len(txs))] // create-and-spend in one block
					t.ins = append(t.ins, op{p.id, r.Intn(p.nout)})
				default:
					t.ins = append(t.ins, op{900 + r.Intn(3), r.Intn(2)})
				}
			}
			txs = append(txs, t)
		}
		for _, t := range txs {
			made = append(made, created{t.id, t.nout, h, t.scr})
		}
		c.blocks = append(c.blocks, txs)
	}
	c.tip0 = nb - 1
	if r.Intn(3) == 0 {
		c.tip0 = r.Intn(nb)
		k := 1 + r.Intn(nb)
		c.tipAt = append(c.tipAt, [2]int{k, c.tip0 + r.Intn(nb-c.tip0)})
		if r.Intn(2) == 0 {
			c.tipAt = append(c.tipAt, [2]int{k + 1 + r.Intn(3), nb - 1})
		}
	}
	maxTip := c.tip0
	for _, e := range c.tipAt {
		if e[1] > maxTip {
			maxTip = e[1]
		}
	}
	nr := 1 + r.Intn(5)
	for i := 1; i <= nr; i++ {
		q := reqSpec{id: i}
		switch x := r.Intn(20); {
		case x < 5 && len(c.reqs) > 0: // duplicate outpoint: equal / earlier / later start height
			p := c.reqs[r.Intn(len(c.reqs))]
			q.txid, q.idx = p.txid, p.idx
			switch r.Intn(3) {
			case 0:
				q.birth = p.birth
			case 1:
				q.birth = r.Intn(p.birth + 1)
			default:
				q.birth = p.birth + r.Intn(3)
			}
		case x < 8 && len(c.reqs) > 0: // another outpoint paying to the script of an earlier request's outpoint
			p := c.reqs[r.Intn(len(c.reqs))]
			want, found := -1, false
			for _, m := range made {
				if m.txid == p.txid && p.idx < m.nout {
					want = m.scr[p.idx]
				}
			}
			for _, m := range made {
				for o, sc := range m.scr {
					if sc == want && !(m.txid == p.txid && o == p.idx) && !found {
						q.txid, q.idx, q.birth, found = m.txid, o, m.h, true
					}
				}
			}
			if !found {
				q.txid, q.idx, q.birth = p.txid, p.idx, p.birth
			}
		case x < 17 && len(made) > 0:
			p := made[r.Intn(len(made))]
			q.txid, q.idx, q.birth = p.txid, r.Intn(p.nout), p.h
			if r.Intn(8) == 0 {
				q.idx = p.nout + r.Intn(2) // out-of-range output index
			}
			switch r.Intn(10) {
			case 0:
				q.birth = 0
			case 1:
				q.birth = c.tip0
			case 2:
				q.birth = r.Intn(nb)
			}
		default:
			q.txid, q.idx, q.birth = 900+r.Intn(3), r.Intn(2), r.Intn(nb)
		}
		if q.birth > c.tip0 && (i > 1 || r.Intn(4) > 0) {
			// keep most start heights within the first tip, so that the scan gets going and the
			// growth of the tip (a function of the number of GetBlockHash calls) is reached
			q.birth = r.Intn(c.tip0 + 1)
		}
		if r.Intn(25) == 0 {
			q.birth = maxTip + 1 + r.Intn(2) // above every tip: never answered (F6)
		}
		if r.Intn(3) == 0 {
			q.k = 1 + r.Intn(nb)
			if r.Intn(2) == 0 {
				q.k = 1 + r.Intn(3)
			}
		}
		c.reqs = append(c.reqs, q)
	}
	for n := r.Intn(3); n > 0; n-- {
		c.fp[1+r.Intn(2*nb)] = true
	}
	switch x := r.Intn(24); {
	case x == 0:
		c.hashErr[1+r.Intn(nb+2)] = true
	case x == 1:
		c.fltrErr[1+r.Intn(nb+2)] = true
	case x == 2 && risky:
		c.blkErr[1+r.Intn(nb+2)] = true
	case x == 3:
		c.stop = 1 + r.Intn(nb+2)
	}
	return c
}

func init() {
	tr.Register("utxo", func(t *tr.W, thorough bool) {
		// This driver bounds the cost of HANG observations itself (a spinning scanner is recognised
		// without waiting, slow hangs are budgeted, the run has a deadline), and the start-height-above-
		// tip cases it generates on purpose are HANGs: the generic abort after a few HANGs must not apply.
		tr.MaxHangs = 1 << 30
		for _, c := range probes() {
			runCase(t, c)
		}
		r := tr.Rng(10)
		rr := tr.Rng(11) // concurrent readers: a stream of its own, the cases themselves stay as they were
		n := 1200 * tr.EnvInt("VERIF_BUDGET", 1)
		hangBudget := 4
		if thorough {
			n *= 8
			hangBudget = 40
		}
		deadline := time.Now().Add(40 * time.Second)
		if thorough {
			deadline = time.Now().Add(12 * time.Minute)
		}
		if os.Getenv("VERIF_SEARCH") != "" {
			// search for a failing input after a broken tie: 3x the quick budget, at most 90 s
			n = 3 * 1200
			deadline = time.Now().Add(90 * time.Second)
		}
		for i := 0; i < n; i++ {
			if time.Now().After(deadline) {
				t.Line("# generation stopped after %d random cases: time budget used up", i)
				break
			}
			c := gen(r, hangBudget > 0)
			c.stopAtEnd = i%40 == 0
			// one case in five is read by several goroutines at once (as long as that does not
			// end in watchdog waits over and over: the probes keep asking in any case)
			x, nr, cp, ca, late := rr.Intn(5), 2+rr.Intn(3), rr.Intn(8)-3, rr.Intn(300), rr.Intn(3)
			if x == 0 && readerHangs < 3 {
				c.readers, c.late = nr, late
				if cp >= 0 && cp <= nr {
					c.cancelPos, c.cancelAfter = cp, time.Duration(ca)*time.Microsecond
				}
			}
			hangBudget -= runCase(t, c)
		}
	})
}
