// Package impfiledrv drives the REAL file import source of chainimport
// (fileHeaderImportSource: Open, GetHeaderMetadata, GetHeader through the verif
// hook) on generated import files: well-formed ones of every size class, and
// files that are cut short, torn in the middle of a header, empty behind the
// metadata, of another format version or of an unknown header type, with start
// heights from 0 to close to 2^32.  Every header's bytes are unique, so a
// shifted or torn read is visible.  Output: line protocol (package tr); Lean
// driver `impfile` (model Model/ImportFile.lean + oracle on raw bytes).
package impfiledrv

import (
	"encoding/hex"
	"fmt"
	"os"
	"path/filepath"

	"github.com/lightninglabs/neutrino/chainimport"
	"verifharness/tr"
)

func init() { tr.Register("impfile", Run) }

func guard(f func() string) (s string) {
	defer func() {
		if r := recover(); r != nil {
			s = "PANIC"
		}
	}()
	return f()
}

func Run(t *tr.W, thorough bool) {
	rng := tr.Rng(1414)
	ncases := 400
	if thorough {
		ncases = 8000
	}
	ncases *= tr.EnvInt("VERIF_BUDGET", 1)
	dir, err := os.MkdirTemp("", "impfile")
	if err != nil {
		panic(err)
	}
	defer os.RemoveAll(dir)
	magics := []uint32{0xd9b4bef9, 0x0709110b, 0xdab5bffa, 0, 0xffffffff}
	starts := []uint32{0, 1, 2, 255, 256, 65535, 65536, 700000, 0x7fffffff, 0xfffffff0, 0xffffffff}
	for c := 0; c < ncases; c++ {
		typ := byte(rng.Intn(2))
		ver := byte(0)
		kind := "ok"
		switch x := rng.Intn(100); {
		case x < 8:
			ver = byte(1 + rng.Intn(255))
			kind = "version"
		case x < 16:
			typ = byte(2 + rng.Intn(254))
			kind = "type"
		}
		size := 80
		if typ == 1 {
			size = 32
		}
		if typ > 1 {
			size = []int{32, 80}[rng.Intn(2)]
		}
		start := starts[rng.Intn(len(starts))]
		if rng.Intn(3) == 0 {
			start = rng.Uint32()
		}
		n := []int{1, 1, 2, 3, 5, 8}[rng.Intn(6)]
		buf := make([]byte, 10, 10+n*size)
		m := magics[rng.Intn(len(magics))]
		buf[0], buf[1], buf[2], buf[3] = byte(m), byte(m>>8), byte(m>>16), byte(m>>24)
		buf[4], buf[5] = ver, typ
		buf[6], buf[7], buf[8], buf[9] = byte(start), byte(start>>8), byte(start>>16), byte(start>>24)
		for i := 0; i < n*size; i++ {
			buf = append(buf, byte(rng.Intn(256)))
		}
		if kind == "ok" {
			switch x := rng.Intn(100); {
			case x < 10:
				buf = buf[:10]
				kind = "empty"
			case x < 25:
				buf = buf[:len(buf)-1-rng.Intn(size-1)]
				kind = "torn"
			case x < 33:
				buf = buf[:rng.Intn(10)]
				kind = "short"
			case x < 38:
				buf = append(buf, byte(rng.Intn(256)))
				kind = "extra-byte"
			}
		}
		t.Hit("file." + kind)
		block := typ == 0
		if typ > 1 {
			block = rng.Intn(2) == 0
		}
		fac := "filter"
		if block {
			fac = "block"
		}
		t.Case("impfile %s", kind)
		path := filepath.Join(dir, fmt.Sprintf("f%d.bin", c))
		if err := os.WriteFile(path, buf, 0o600); err != nil {
			panic(err)
		}
		var src *chainimport.VerifFileSource
		obs := guard(func() string {
			s, info, err := chainimport.VerifOpenFileSource(path, block)
			if err != nil {
				return "err"
			}
			src = s
			return fmt.Sprintf("ok %d %d %d %d %d %d %d", info.Magic, info.Version, info.Type, info.Start, info.End, info.Count, info.HeaderSize)
		})
		t.Op(fmt.Sprintf("open %s %s", fac, hex.EncodeToString(buf)+"."), obs)
		if src == nil {
			t.Hit("open.refused")
			os.Remove(path)
			continue
		}
		t.Hit("open.ok")
		cnt := (len(buf) - 10) / size
		idxs := []uint32{0, uint32(cnt - 1), uint32(cnt), uint32(cnt + 1), uint32(rng.Intn(cnt + 3)), uint32(rng.Intn(cnt + 1))}
		if rng.Intn(4) == 0 {
			idxs = append(idxs, 0xffffffff, uint32(0x100000000/uint64(size)), rng.Uint32())
		}
		for _, ix := range idxs {
			o := guard(func() string {
				b, h, err := src.Header(ix)
				if err != nil {
					return "err"
				}
				return fmt.Sprintf("ok %d %s", h, hex.EncodeToString(b))
			})
			t.Op(fmt.Sprintf("get %d", ix), o)
			if o == "err" {
				t.Hit("get.refused")
			} else {
				t.Hit("get.ok")
			}
		}
		src.Close()
		os.Remove(path)
	}
}
