// Package cfdrv drives the real block manager's committed-filter-header code
// (writeCFHeadersMsg, getUncheckpointedCFHeaders, detectBadPeers,
// resolveConflict, getCheckpointedCFHeaders, rollBackToHeight) over real
// headerfs stores, against a ground-truth chain of real blocks with real
// BIP158 filters and scripted peers (honest, lying in checkpoints / headers /
// filters, silent, inconsistent).
package cfdrv

import (
	"encoding/binary"
	"errors"
	"fmt"
	"math/rand"
	"os"
	"sort"
	"strings"
	"time"

	"github.com/btcsuite/btcd/address/v2"
	"github.com/btcsuite/btcd/btcutil/v2"
	"github.com/btcsuite/btcd/btcutil/v2/gcs"
	"github.com/btcsuite/btcd/btcutil/v2/gcs/builder"
	"github.com/btcsuite/btcd/chaincfg/v2"
	"github.com/btcsuite/btcd/chainhash/v2"
	"github.com/btcsuite/btcd/txscript/v2"
	"github.com/btcsuite/btcd/wire/v2"
	_ "github.com/btcsuite/btcwallet/walletdb/bdb"
	"github.com/lightninglabs/neutrino"
	"github.com/lightninglabs/neutrino/chainsync"
	"github.com/lightninglabs/neutrino/headerfs"
	"github.com/lightninglabs/neutrino/query"
	"verifharness/tr"
)

// verifNet is the network magic of the parameter copy used by this driver, so
// that our own hard-coded filter-header checkpoints can be installed.
const verifNet wire.BitcoinNet = 0xC03C03C0

type blk struct {
	id      int
	msg     *wire.MsgBlock
	hash    chainhash.Hash
	prevScr [][]byte
	trueF   *gcs.Filter
	trueFid int
	elems   [][]byte // everything the true filter commits to
	omitScr []byte   // an output script of a non-coinbase tx
	txOuts  [][][]byte // output scripts of each non-coinbase tx that BIP158 commits to (all but those starting with OP_RETURN)
	unpars  [][]byte   // those of them that do not parse as scripts
	opret   []byte   // an OP_RETURN script of a non-coinbase tx (or nil)
	vars    map[string]int
}

// midReorg: roll back to height h and connect n fresh blocks, once.
type midReorg struct {
	h, n int
	done bool
	ids  []int
	ret  string
}

type world struct {
	t      *tr.W
	r      *rand.Rand
	dir    string
	v      *neutrino.VerifCF
	params chaincfg.Params

	chain   []*blk // current chain by height
	blocks  map[chainhash.Hash]*blk
	nblk    int
	fidOf   map[chainhash.Hash]int
	fhash   []chainhash.Hash // by fid
	filters map[int]*gcs.Filter
	hidOf   map[chainhash.Hash]int
	hhash   []chainhash.Hash // by hid
	trueHdr []int            // by height, for the current chain

	net     *neutrino.VerifCFNet
	hard    map[uint32]*chainhash.Hash
	onQuery func(req wire.Message, deliver func(addr string, resp wire.Message) bool)
	onBatch func(reqs []*query.Request) chan error
	gbFail  map[int]bool // heights at which GetBlock fails
	peerD   map[int][]int // scripted round: peer -> the heights at which it (alone) deviates
	mid     *midReorg    // a reorganisation to perform while the cfheaders query is out
	nonce   uint32
	sidOf   map[string]int
}

// peers get fresh addresses in every case (the ban record of the hook is per address)
var epoch int

func addr(p int) string { return fmt.Sprintf("10.%d.%d.%d:18555", epoch/250, epoch%250, p) }

func peerOf(a string) int {
	var x, y, p int
	fmt.Sscanf(a, "10.%d.%d.%d:18555", &x, &y, &p)
	return p
}

func newWorld(t *tr.W, r *rand.Rand, cps map[uint32]*chainhash.Hash) *world {
	dir, err := os.MkdirTemp("", "cfdrv")
	if err != nil {
		panic(err)
	}
	w := &world{t: t, r: r, dir: dir, blocks: map[chainhash.Hash]*blk{},
		fidOf: map[chainhash.Hash]int{}, hidOf: map[chainhash.Hash]int{},
		filters: map[int]*gcs.Filter{}, gbFail: map[int]bool{}}
	w.params = chaincfg.SimNetParams
	w.params.Net = verifNet
	chainsync.VerifSetFilterHeaderCheckpoints(verifNet, cps)
	// id 0 is the all-zero hash in both spaces (the code uses it as "unset")
	w.fidOf[chainhash.Hash{}] = 0
	w.fhash = append(w.fhash, chainhash.Hash{})
	w.hidOf[chainhash.Hash{}] = 0
	w.hhash = append(w.hhash, chainhash.Hash{})
	net := &neutrino.VerifCFNet{
		QueryAll: func(req wire.Message, deliver func(string, wire.Message) bool) {
			if w.onQuery != nil {
				w.onQuery(req, deliver)
			}
		},
		GetBlock: func(h chainhash.Hash) (*btcutil.Block, error) {
			b, ok := w.blocks[h]
			if !ok {
				return nil, errors.New("getblock: unknown")
			}
			for ht, c := range w.chain {
				if c == b && w.gbFail[ht] {
					return nil, errInjectedGetBlock
				}
			}
			return btcutil.NewBlock(b.msg), nil
		},
		Query: func(reqs []*query.Request, _ ...query.QueryOption) chan error {
			if w.onBatch != nil {
				return w.onBatch(reqs)
			}
			c := make(chan error, 1)
			c <- errors.New("no dispatcher scripted")
			return c
		},
	}
	w.net = net
	v, err := neutrino.NewVerifCF(dir, w.params, net)
	if err != nil {
		panic(err)
	}
	w.v = v
	w.genesis()
	return w
}

// reset brings the stores back to genesis and forgets all identities, so that
// one data directory (expensive to create) serves many cases.
func (w *world) reset(cps map[uint32]*chainhash.Hash) {
	for {
		_, fh, err := w.v.Filt.ChainTip()
		if err != nil {
			panic(err)
		}
		if fh == 0 {
			break
		}
		prev := w.chain[fh].msg.Header.PrevBlock
		if _, err := w.v.Filt.RollbackLastBlock(&prev); err != nil {
			panic(err)
		}
	}
	_, bh, err := w.v.Block.ChainTip()
	if err != nil {
		panic(err)
	}
	if bh > 0 {
		if _, err := w.v.Block.RollbackBlockHeaders(bh); err != nil {
			panic(err)
		}
	}
	if _, err := w.v.Filt.FetchHeaderByHeight(1); err == nil {
		// entries above the tip are left in the flat file (only a defective
		// build gets here): start over with a fresh data directory
		w.v.Close()
		os.RemoveAll(w.dir)
		dir, err := os.MkdirTemp("", "cfdrv")
		if err != nil {
			panic(err)
		}
		w.dir = dir
		v, err := neutrino.NewVerifCF(dir, w.params, w.net)
		if err != nil {
			panic(err)
		}
		w.v = v
		w.t.Hit("world.recreated-after-corruption")
	}
	w.v.Take()
	epoch++
	w.hard = nil
	chainsync.VerifSetFilterHeaderCheckpoints(verifNet, cps)
	w.blocks = map[chainhash.Hash]*blk{}
	w.fidOf = map[chainhash.Hash]int{}
	w.hidOf = map[chainhash.Hash]int{}
	w.filters = map[int]*gcs.Filter{}
	w.gbFail = map[int]bool{}
	w.fhash, w.hhash = nil, nil
	w.fidOf[chainhash.Hash{}] = 0
	w.fhash = append(w.fhash, chainhash.Hash{})
	w.hidOf[chainhash.Hash{}] = 0
	w.hhash = append(w.hhash, chainhash.Hash{})
	w.genesis()
}

func (w *world) genesis() {
	v := w.v
	g := &blk{id: 0, msg: w.params.GenesisBlock, hash: *w.params.GenesisHash, vars: map[string]int{}}
	w.nblk = 1
	g.trueF, _ = builder.BuildBasicFilter(g.msg, nil)
	fh, _ := builder.GetFilterHash(g.trueF)
	g.trueFid = w.fid(fh, g.trueF)
	w.blocks[g.hash] = g
	w.chain = []*blk{g}
	gh, _, err := v.Filt.ChainTip()
	if err != nil {
		panic(err)
	}
	w.hidOf[*gh] = 1
	w.hhash = append(w.hhash, *gh)
	w.trueHdr = []int{1}
}

func (w *world) close() {
	w.v.Close()
	os.RemoveAll(w.dir)
	chainsync.VerifSetFilterHeaderCheckpoints(verifNet, nil)
}

func (w *world) fid(h chainhash.Hash, f *gcs.Filter) int {
	if id, ok := w.fidOf[h]; ok {
		if f != nil && w.filters[id] == nil {
			w.filters[id] = f
		}
		return id
	}
	id := len(w.fhash)
	w.fidOf[h] = id
	w.fhash = append(w.fhash, h)
	if f != nil {
		w.filters[id] = f
	}
	return id
}

// H interns dsha256(fhash || prev) and tells the Lean side its decomposition.
func (w *world) H(fid, prev int) int {
	h := chainhash.DoubleHashH(append(w.fhash[fid][:], w.hhash[prev][:]...))
	if id, ok := w.hidOf[h]; ok {
		return id
	}
	id := len(w.hhash)
	w.hidOf[h] = id
	w.hhash = append(w.hhash, h)
	w.t.Line("hdr %d %d %d => -", id, fid, prev)
	return id
}

// hid interns a header value seen in the implementation; unknown values are atoms.
func (w *world) hid(h chainhash.Hash) int {
	if id, ok := w.hidOf[h]; ok {
		return id
	}
	id := len(w.hhash)
	w.hidOf[h] = id
	w.hhash = append(w.hhash, h)
	w.t.Line("atom %d => -", id)
	return id
}

func (w *world) randScript(kind int) []byte {
	h := make([]byte, 20)
	w.r.Read(h)
	switch kind {
	case 0: // p2wpkh
		return append([]byte{0x00, 0x14}, h...)
	case 1: // p2pkh
		return append(append([]byte{0x76, 0xa9, 0x14}, h...), 0x88, 0xac)
	default: // op_return
		return append([]byte{0x6a, 0x08}, h[:8]...)
	}
}

// newBlock makes a real block on top of prev with real transactions and its
// true BIP158 filter.
func (w *world) newBlock(prev *blk) *blk {
	w.nonce++
	b := &blk{id: w.nblk, vars: map[string]int{}}
	w.nblk++
	m := wire.NewMsgBlock(&wire.BlockHeader{
		Version: 2, PrevBlock: prev.hash, Bits: 0x207fffff, Nonce: w.nonce,
		Timestamp: time.Unix(int64(1401292357+w.nonce), 0),
	})
	cb := wire.NewMsgTx(1)
	cb.AddTxIn(wire.NewTxIn(wire.NewOutPoint(&chainhash.Hash{}, 0xffffffff), []byte{byte(w.nonce), byte(w.nonce >> 8), 1}, nil))
	cb.AddTxOut(wire.NewTxOut(50e8, w.randScript(w.r.Intn(2))))
	m.AddTransaction(cb)
	ntx := 1 + w.r.Intn(2)
	for i := 0; i < ntx; i++ {
		tx := wire.NewMsgTx(2)
		nin := 1 + w.r.Intn(2)
		for j := 0; j < nin; j++ {
			var ph chainhash.Hash
			w.r.Read(ph[:])
			if w.r.Intn(3) == 0 {
				// a P2WPKH spend: the witness carries the public key, from which
				// VerifyBasicBlockFilter derives the script being spent
				pk := make([]byte, 33)
				w.r.Read(pk)
				pk[0] = 0x02
				sig := make([]byte, 71)
				w.r.Read(sig)
				switch w.r.Intn(5) {
				case 2:
					// a taproot key spend: one 64-byte signature.  ComputePkScript takes it for
					// a P2WSH witness, the script it derives is not the P2TR script spent (and
					// not in the true filter): the mismatch must only be logged
					tx.AddTxIn(wire.NewTxIn(wire.NewOutPoint(&ph, uint32(j)), nil, wire.TxWitness{sig[:64]}))
					b.prevScr = append(b.prevScr, append([]byte{0x51, 0x20}, pk[1:]...))
					w.t.Hit("block.taproot-input")
				case 3:
					// witness data next to a signature script that is not push-only:
					// ErrUnsupportedScriptType, the input is skipped
					tx.AddTxIn(wire.NewTxIn(wire.NewOutPoint(&ph, uint32(j)), []byte{0x76, 0xa9}, wire.TxWitness{sig, pk}))
					b.prevScr = append(b.prevScr, w.randScript(w.r.Intn(2)))
					w.t.Hit("block.unsupported-input")
				case 4:
					// P2SH-nested P2WPKH: the signature script pushes the redeem script
					redeem := append([]byte{0x00, 0x14}, address.Hash160(pk)...)
					tx.AddTxIn(wire.NewTxIn(wire.NewOutPoint(&ph, uint32(j)), append([]byte{byte(len(redeem))}, redeem...), wire.TxWitness{sig, pk}))
					b.prevScr = append(b.prevScr, append(append([]byte{0xa9, 0x14}, address.Hash160(redeem)...), 0x87))
					w.t.Hit("block.nested-input")
				default:
					tx.AddTxIn(wire.NewTxIn(wire.NewOutPoint(&ph, uint32(j)), nil, wire.TxWitness{sig, pk}))
					b.prevScr = append(b.prevScr, append([]byte{0x00, 0x14}, address.Hash160(pk)...))
				}
				w.t.Hit("block.witness-input")
			} else {
				tx.AddTxIn(wire.NewTxIn(wire.NewOutPoint(&ph, uint32(j)), nil, nil))
				b.prevScr = append(b.prevScr, w.randScript(w.r.Intn(2)))
			}
		}
		nout := 1 + w.r.Intn(3)
		if i == 0 && w.r.Intn(3) > 0 {
			nout = 2 + w.r.Intn(2)
		}
		var outs [][]byte
		for j := 0; j < nout; j++ {
			s := w.randScript(w.r.Intn(2))
			if b.omitScr == nil {
				b.omitScr = s
			}
			outs = append(outs, s)
			tx.AddTxOut(wire.NewTxOut(int64(1000+j), s))
		}
		if w.r.Intn(3) == 0 {
			// an output whose script does not parse (truncated push / missing
			// length byte): BIP158 commits to it like to any other script
			var s []byte
			switch w.r.Intn(3) {
			case 0:
				s = append([]byte{0x4b}, w.randScript(0)[:12]...) // push 75 bytes, 12 present
			case 1:
				s = append(w.randScript(1), 0x4c) // ... OP_PUSHDATA1 without its length
			default:
				s = append([]byte{0x4d, 0xff}, w.randScript(0)[:5]...) // OP_PUSHDATA2, half a length
			}
			b.unpars = append(b.unpars, s)
			outs = append(outs, s)
			tx.AddTxOut(wire.NewTxOut(546, s))
			w.t.Hit("block.unparsable-output")
		}
		b.txOuts = append(b.txOuts, outs)
		if w.r.Intn(6) == 0 {
			// an output with an empty script: neither committed to by BIP158 nor looked at
			tx.AddTxOut(wire.NewTxOut(0, nil))
			w.t.Hit("block.empty-output")
		}
		if w.r.Intn(3) == 0 {
			s := w.randScript(2)
			b.opret = s
			tx.AddTxOut(wire.NewTxOut(0, s))
		}
		m.AddTransaction(tx)
	}
	m.Header.MerkleRoot = m.Transactions[len(m.Transactions)-1].TxHash()
	b.msg = m
	b.hash = m.Header.BlockHash()
	f, err := builder.BuildBasicFilter(m, b.prevScr)
	if err != nil {
		panic(err)
	}
	b.trueF = f
	fh, _ := builder.GetFilterHash(f)
	b.trueFid = w.fid(fh, f)
	b.elems = append(b.elems, b.prevScr...)
	for _, tx := range m.Transactions {
		for _, o := range tx.TxOut {
			if len(o.PkScript) > 0 && o.PkScript[0] != 0x6a {
				b.elems = append(b.elems, o.PkScript)
			}
		}
	}
	w.blocks[b.hash] = b
	w.t.Line("blk %d %d => -", b.id, b.trueFid)
	return b
}

func (w *world) build(b *blk, elems [][]byte) int {
	bl := builder.WithKeyHash(&b.hash)
	for _, e := range elems {
		bl.AddEntry(e)
	}
	f, err := bl.Build()
	if err != nil {
		panic(err)
	}
	fh, _ := builder.GetFilterHash(f)
	return w.fid(fh, f)
}

// variant returns the id of a false filter for b:
//
//	omit  : the true filter without one output script (VerifyBasicBlockFilter rejects it)
//	extra : the true filter plus an unrelated script (verifies; only a majority can tell)
//	opret : the true filter plus the block's OP_RETURN script (verifies with one OP_RETURN match)
//	junk  : two unrelated scripts
func (w *world) variant(b *blk, kind string) int {
	if id, ok := b.vars[kind]; ok {
		return id
	}
	var el [][]byte
	without := func(drop [][]byte) {
		for _, e := range b.elems {
			keep := true
			for _, d := range drop {
				if string(e) == string(d) {
					keep = false
				}
			}
			if keep {
				el = append(el, e)
			}
		}
	}
	switch kind {
	case "omit", "omit-some":
		// a strict, non-empty subset of the outputs of one transaction
		for _, outs := range b.txOuts {
			if len(outs) >= 2 {
				without(outs[:len(outs)-1])
				break
			}
		}
		if el == nil {
			return w.variant(b, "omit-all")
		}
	case "omit-unparsable":
		// exactly the output scripts that do not parse
		if len(b.unpars) == 0 {
			return w.variant(b, "omit-some")
		}
		without(b.unpars)
	case "omit-all":
		// every output of one transaction
		without(b.txOuts[0])
	case "omit-in":
		// the script spent by one input (not one of the three provable ways)
		without(b.prevScr[:1])
	case "extra":
		el = append(append(el, b.elems...), w.randScript(0))
	case "opret":
		if b.opret == nil {
			return w.variant(b, "extra")
		}
		el = append(append(el, b.elems...), b.opret)
	default:
		el = [][]byte{w.randScript(0), w.randScript(1)}
	}
	id := w.build(b, el)
	b.vars[kind] = id
	w.t.Line("fb %d %d => -", id, b.id)
	return id
}

// gtRow is the ground truth about a filter, established without the code
// under test: "o" when some ordinary output script of a non-coinbase
// transaction of the block is not a member of the filter, "k" otherwise.
func (w *world) gtRow(fid int, b *blk) string {
	f := w.filters[fid]
	if f == nil {
		return "o"
	}
	key := builder.DeriveKey(&b.hash)
	for _, outs := range b.txOuts {
		for _, s := range outs {
			ok, err := f.Match(key, s)
			if err != nil || !ok {
				return "o"
			}
		}
	}
	return "k"
}

// vbRow describes the block the way VerifyBasicBlockFilter classifies it (every
// transaction, coinbase first: outputs empty / OP_RETURN / ordinary, inputs
// without witness / script not computable / computed) together with the real
// filter's Match answer for every script the function can ask about, and the
// real function's verdict.  The Lean model of the function is run on the
// left-hand side and must give the right-hand side.
//
//	T            a transaction starts
//	oe           output with an empty script
//	or:<s>:<m>   OP_RETURN output, script id s, Match answer m (1 / 0 / e = error)
//	oo:<s>:<m>   any other output
//	in iu if     input without witness / ErrUnsupportedScriptType / other ComputePkScript error
//	ic:<s>:<m>   input whose previous script was computed
func (w *world) vbRow(fid int, b *blk) string {
	f := w.filters[fid]
	key := builder.DeriveKey(&b.hash)
	m := func(s []byte) string {
		if f == nil {
			return "e"
		}
		ok, err := f.Match(key, s)
		switch {
		case err != nil:
			return "e"
		case ok:
			return "1"
		}
		return "0"
	}
	var sb strings.Builder
	for _, tx := range b.msg.Transactions {
		sb.WriteString("T ")
		for _, o := range tx.TxOut {
			switch {
			case len(o.PkScript) == 0:
				sb.WriteString("oe ")
				w.t.Hit("verify.out-empty")
			case o.PkScript[0] == txscript.OP_RETURN:
				fmt.Fprintf(&sb, "or:%d:%s ", w.sid(o.PkScript), m(o.PkScript))
				w.t.Hit("verify.out-opreturn")
			default:
				fmt.Fprintf(&sb, "oo:%d:%s ", w.sid(o.PkScript), m(o.PkScript))
			}
		}
		for _, in := range tx.TxIn {
			if len(in.Witness) == 0 {
				sb.WriteString("in ")
				continue
			}
			scr, err := txscript.ComputePkScript(in.SignatureScript, in.Witness)
			switch {
			case err == txscript.ErrUnsupportedScriptType:
				sb.WriteString("iu ")
				w.t.Hit("verify.in-unsupported")
			case err != nil:
				sb.WriteString("if ")
				w.t.Hit("verify.in-failed")
			default:
				r := m(scr.Script())
				fmt.Fprintf(&sb, "ic:%d:%s ", w.sid(scr.Script()), r)
				w.t.Hit("verify.in-computed-" + r)
			}
		}
	}
	if f == nil {
		// no filter object: the driver never calls the function (verifyRow says "b")
		return strings.TrimSpace(sb.String()) + " => nofilter"
	}
	return strings.TrimSpace(sb.String()) + " => " + w.verifyRow(fid, b)
}

// sid interns a script.
func (w *world) sid(s []byte) int {
	if w.sidOf == nil {
		w.sidOf = map[string]int{}
	}
	id, ok := w.sidOf[string(s)]
	if !ok {
		id = len(w.sidOf) + 1
		w.sidOf[string(s)] = id
	}
	return id
}

// verifyRow runs the real VerifyBasicBlockFilter.
func (w *world) verifyRow(fid int, b *blk) string {
	f := w.filters[fid]
	if f == nil {
		return "b"
	}
	n, err := neutrino.VerifyBasicBlockFilter(f, btcutil.NewBlock(b.msg))
	if err != nil {
		return "b"
	}
	return fmt.Sprint(n)
}

// extend appends n fresh blocks to the ground-truth chain and to the block-header store.
func (w *world) extend(n int) []int {
	var ids []int
	var hs []headerfs.BlockHeader
	for i := 0; i < n; i++ {
		b := w.newBlock(w.chain[len(w.chain)-1])
		w.chain = append(w.chain, b)
		hdr := b.msg.Header
		hs = append(hs, headerfs.BlockHeader{BlockHeader: &hdr, Height: uint32(len(w.chain) - 1)})
		ids = append(ids, b.id)
	}
	if err := w.v.Block.WriteHeaders(hs...); err != nil {
		panic(err)
	}
	w.retruth()
	return ids
}

func (w *world) retruth() {
	if len(w.trueHdr) > len(w.chain) {
		w.trueHdr = w.trueHdr[:len(w.chain)]
	}
	// keep the common prefix: trueHdr[i] depends only on blocks 0..i, and a
	// reorg truncates before extending
	for h := len(w.trueHdr); h < len(w.chain); h++ {
		w.trueHdr = append(w.trueHdr, w.H(w.chain[h].trueFid, w.trueHdr[h-1]))
	}
}

// prefill writes the true filter headers up to height n directly into the store.
func (w *world) prefill(n int) { w.prefillHdrs(w.trueHdr[:n+1]) }

// prefillHdrs writes the given filter headers (by height, entry 0 = genesis,
// not rewritten) directly into the store.
func (w *world) prefillHdrs(hdrs []int) {
	var fs []headerfs.FilterHeader
	for h := 1; h < len(hdrs); h++ {
		fs = append(fs, headerfs.FilterHeader{FilterHash: w.hhash[hdrs[h]], HeaderHash: w.chain[h].hash, Height: uint32(h)})
	}
	if len(fs) > 0 {
		if err := w.v.Filt.WriteHeaders(fs...); err != nil {
			panic(err)
		}
	}
}

func ints(xs []int) string {
	ss := make([]string, len(xs))
	for i, x := range xs {
		if x < 0 {
			ss[i] = "-"
		} else {
			ss[i] = fmt.Sprint(x)
		}
	}
	return "[" + strings.Join(ss, " ") + "]"
}

// dump reads the observable state back from the real stores.
func (w *world) dump() string {
	var sb strings.Builder
	bh, bht, err := w.v.Block.ChainTip()
	if err != nil {
		sb.WriteString("bt err")
	} else if b, ok := w.blocks[bh.BlockHash()]; ok {
		fmt.Fprintf(&sb, "bt %d:%d", bht, b.id)
	} else {
		fmt.Fprintf(&sb, "bt %d:?", bht)
	}
	_, fht, err := w.v.Filt.ChainTip()
	if err != nil {
		sb.WriteString(" ft err")
	} else {
		fmt.Fprintf(&sb, " ft %d", fht)
	}
	var fs []int
	for h := uint32(0); ; h++ {
		x, err := w.v.Filt.FetchHeaderByHeight(h)
		if err != nil {
			break
		}
		fs = append(fs, w.hid(*x))
	}
	sb.WriteString(" fs " + ints(fs))
	nt, bans := w.v.Take()
	var bs []string
	for _, b := range bans {
		bs = append(bs, fmt.Sprintf("%d:%d", peerOf(b.Addr), b.Reason))
	}
	sort.Strings(bs)
	sb.WriteString(" bans [" + strings.Join(bs, " ") + "]")
	var ns []string
	for _, n := range nt {
		c := "d"
		if n.Connected {
			c = "c"
		}
		id := "?"
		if b, ok := w.blocks[n.Hash]; ok {
			id = fmt.Sprint(b.id)
		}
		ns = append(ns, fmt.Sprintf("%s%d:%s", c, n.Height, id))
	}
	sb.WriteString(" ntf [" + strings.Join(ns, " ") + "]")
	return sb.String()
}

// errInjectedGetBlock is the error our GetBlock stand-in returns when the case
// says the block cannot be fetched; the code under test hands it back unwrapped.
var errInjectedGetBlock = errors.New("injected: block not available")

// errKind classifies the outcome of a call WITHOUT reading message texts of the
// code under test: no error, our own injected GetBlock failure (by identity), a
// panic caught by our own hook (its marker), or simply "an error".  Which error
// it was shows in what the call did to the stores and the ban list.
func errKind(err error) string {
	switch {
	case err == nil:
		return "nil"
	case strings.HasPrefix(err.Error(), "PANIC: "): // marker written by export_verif_cf.go
		return "PANIC"
	case errors.Is(err, errInjectedGetBlock):
		return "err getblock"
	}
	return "err"
}

// guard runs f with a watchdog.
func guard(f func() string) string {
	ch := make(chan string, 1)
	go func() { ch <- f() }()
	select {
	case s := <-ch:
		return s
	case <-time.After(20 * time.Second):
		return "HANG"
	}
}

func u32(x int) []byte {
	var b [4]byte
	binary.LittleEndian.PutUint32(b[:], uint32(x))
	return b[:]
}
