package cfdrv

import (
	"fmt"
	"math/rand"
	"os"
	"sort"
	"strings"

	"github.com/btcsuite/btcd/chainhash/v2"
	"github.com/btcsuite/btcd/wire/v2"
	"verifharness/tr"
)

func init() { tr.Register("cfheaders", run) }

// one cfheaders message a peer sends
type pmsg struct {
	stopOK bool
	prev   int
	fids   []int
	w      *wire.MsgCFHeaders
}

// what one peer does in one round
type rpeer struct {
	id     int
	kind   string
	msgs   []pmsg
	served map[int]int // height -> fid, -1 = does not answer
}

func (w *world) mkmsg(stop chainhash.Hash, stopOK bool, prev int, fids []int) pmsg {
	m := &wire.MsgCFHeaders{FilterType: wire.GCSFilterRegular, StopHash: stop, PrevFilterHeader: w.hhash[prev]}
	if !stopOK {
		m.StopHash[0] ^= 0x55
	}
	for _, f := range fids {
		h := w.fhash[f]
		m.FilterHashes = append(m.FilterHashes, &h)
	}
	return pmsg{stopOK: stopOK, prev: prev, fids: append([]int(nil), fids...), w: m}
}

// chainOf registers (and so tells the Lean side about) every header of prev ++ fids.
func (w *world) chainOf(prev int, fids []int) []int {
	out := make([]int, len(fids))
	for i, f := range fids {
		prev = w.H(f, prev)
		out[i] = prev
	}
	return out
}

func (w *world) storeTips() (ft, bt int, tip int) {
	th, fh, err := w.v.Filt.ChainTip()
	if err != nil {
		return -1, -1, 0
	}
	_, bh, err := w.v.Block.ChainTip()
	if err != nil {
		return -1, -1, 0
	}
	return int(fh), int(bh), w.hid(*th)
}

var liarModes = []string{"omit-c", "omitall-c", "omitin-c", "omitunp-c", "extra-c", "opret-c", "adv-true", "adv-silent", "zero"}

// modes of colluding liars: several peers serve the SAME self-consistent false filter
var colludeModes = []string{"omit-c", "omit-c", "omitall-c", "omitin-c", "omitunp-c", "omitunp-c", "omitunp-c", "extra-c"}

// planRound chooses behaviours for np peers for the batch start..stop.
func (w *world) planRound(np, start, stop, tip int, forced []string, forcedD []int) []*rpeer {
	r := w.r
	n := stop - start + 1
	truth := make([]int, 0, n)
	for h := start; h <= stop; h++ {
		truth = append(truth, w.chain[h].trueFid)
	}
	// heights at which deviations happen (shared, so that several peers collide)
	var D []int
	if forcedD != nil {
		D = forcedD
	} else if n > 0 {
		D = append(D, start+r.Intn(n))
		if n > 1 && r.Intn(3) == 0 {
			D = append(D, start+r.Intn(n))
		}
	}
	stopHash := chainhash.Hash{}
	if stop < len(w.chain) && stop >= 0 {
		stopHash = w.chain[stop].hash
	}
	if forced == nil && np >= 3 && n > 0 && r.Intn(4) == 0 {
		// collusion: a majority of liars with one and the same false filter
		// against a minority of honest peers, in a random order
		mode := colludeModes[r.Intn(len(colludeModes))]
		nl := np/2 + 1
		if r.Intn(4) == 0 {
			nl = np - np/2 - 1 + r.Intn(2) // sometimes the liars are not the majority
		}
		forced = make([]string, np)
		for i, k := range r.Perm(np) {
			if i < nl {
				forced[k] = mode
			} else {
				forced[k] = "honest"
			}
		}
		D = D[:1]
		w.t.Hit("round.collusion." + mode)
	}
	var ps []*rpeer
	for p := 1; p <= np; p++ {
		rp := &rpeer{id: p, served: map[int]int{}}
		for h := start; h <= stop; h++ {
			rp.served[h] = w.chain[h].trueFid
		}
		kind := ""
		if p-1 < len(forced) {
			kind = forced[p-1]
		} else {
			switch x := r.Intn(100); {
			case x < 38:
				kind = "honest"
			case x < 70:
				kind = "liar"
			case x < 82:
				kind = "flaky"
			case x < 88:
				kind = "silent"
			case x < 94:
				kind = "overlong"
			default:
				kind = "wrongprev"
			}
		}
		if n <= 0 {
			kind = "silent"
		}
		fids := append([]int(nil), truth...)
		prev := tip
		switch kind {
		case "honest":
		case "overlong":
		case "silent":
		case "wrongprev":
			// a header that is not the tip: the header below the tip, or a liar's value
			if start >= 2 && r.Intn(2) == 0 {
				prev = w.trueHdr[start-2]
			} else {
				prev = w.H(w.variant(w.chain[start-1], "junk"), w.trueHdr[maxi(start-2, 0)])
			}
		case "flaky", "flaky-silent", "flaky-wrong":
			h := D[r.Intn(len(D))]
			if kind == "flaky-silent" || (kind == "flaky" && r.Intn(2) == 0) {
				rp.served[h] = -1
				kind = "flaky-silent"
			} else {
				rp.served[h] = w.variant(w.chain[h], "omit")
				kind = "flaky-wrong"
			}
		default: // liar or an explicit mode
			mode := kind
			Dp := D
			own := false
			if d, ok := w.peerD[p]; ok {
				// a scripted round: this peer lies at exactly its own heights
				Dp, own = d, true
			}
			for _, h := range Dp {
				if kind == "liar" {
					mode = liarModes[r.Intn(len(liarModes))]
				}
				b := w.chain[h]
				switch mode {
				case "omit-c":
					fids[h-start] = w.variant(b, "omit-some")
					rp.served[h] = fids[h-start]
				case "omitunp-c":
					fids[h-start] = w.variant(b, "omit-unparsable")
					rp.served[h] = fids[h-start]
				case "omitall-c":
					fids[h-start] = w.variant(b, "omit-all")
					rp.served[h] = fids[h-start]
				case "omitin-c":
					fids[h-start] = w.variant(b, "omit-in")
					rp.served[h] = fids[h-start]
				case "extra-c":
					fids[h-start] = w.variant(b, "extra")
					rp.served[h] = fids[h-start]
				case "opret-c":
					fids[h-start] = w.variant(b, "opret")
					rp.served[h] = fids[h-start]
				case "adv-true":
					fids[h-start] = w.variant(b, "omit")
				case "adv-silent":
					fids[h-start] = w.variant(b, "junk")
					rp.served[h] = -1
				case "zero":
					fids[h-start] = 0
					rp.served[h] = -1
				}
				kind = mode
				if own {
					continue
				}
				if r.Intn(2) == 0 || mode == "zero" {
					break
				}
			}
		}
		rp.kind = kind
		w.t.Hit("peer." + kind)
		// an answer with MORE filter hashes than asked for (right stop hash, the
		// requested positions as this peer would answer them, then a surplus)
		long := func() pmsg {
			ext := append([]int(nil), fids...)
			k := 1 + r.Intn(3)
			for j := 0; j < k; j++ {
				if r.Intn(2) == 0 {
					ext = append(ext, w.variant(w.chain[stop], "junk"))
				} else {
					ext = append(ext, w.chain[maxi(stop-j, 0)].trueFid)
				}
			}
			w.chainOf(prev, ext)
			return w.mkmsg(stopHash, true, prev, ext)
		}
		if kind == "overlong" {
			// nothing but the over-long answer
			rp.msgs = append(rp.msgs, long())
			if r.Intn(3) == 0 {
				rp.msgs = append(rp.msgs, long())
			}
		} else if kind != "silent" {
			if r.Intn(6) == 0 {
				rp.msgs = append(rp.msgs, long())
				w.t.Hit("noise.long")
			}
			// noise first: messages the response filter must drop
			if r.Intn(6) == 0 {
				rp.msgs = append(rp.msgs, w.mkmsg(stopHash, false, prev, fids))
				w.t.Hit("noise.stophash")
			}
			if r.Intn(6) == 0 && n > 1 {
				rp.msgs = append(rp.msgs, w.mkmsg(stopHash, true, prev, fids[:n-1]))
				w.t.Hit("noise.short")
			}
			rp.msgs = append(rp.msgs, w.mkmsg(stopHash, true, prev, fids))
			if r.Intn(8) == 0 {
				// a second well-formed answer (must never be looked at)
				rp.msgs = append(rp.msgs, w.mkmsg(stopHash, true, prev, truth))
				w.t.Hit("noise.duplicate")
			}
			w.chainOf(prev, fids)
		}
		ps = append(ps, rp)
	}
	// describe the round to the Lean side
	for _, rp := range ps {
		for _, m := range rp.msgs {
			so := 0
			if m.stopOK {
				so = 1
			}
			w.t.Line("resp %d %d %d %s => -", rp.id, so, m.prev, ints(m.fids))
		}
	}
	seenH := map[int]bool{}
	for _, h := range D {
		if seenH[h] {
			continue
		}
		seenH[h] = true
		seen := map[int]bool{}
		for _, rp := range ps {
			f := rp.served[h]
			if f < 0 {
				w.t.Line("fl %d %d - => -", rp.id, h)
				continue
			}
			w.t.Line("fl %d %d %d => -", rp.id, h, f)
			if !seen[f] {
				seen[f] = true
				w.t.Line("vf %d %d %s => -", h, f, w.verifyRow(f, w.chain[h]))
				w.t.Line("gt %d %d %s => -", h, f, w.gtRow(f, w.chain[h]))
				w.t.Line("vb %d %d %s", h, f, w.vbRow(f, w.chain[h]))
			}
		}
		if w.peerD == nil && r.Intn(12) == 0 {
			w.gbFail[h] = true
			w.t.Line("gb %d => -", h)
			w.t.Hit("getblock.fail")
		}
	}
	// what every peer would hand out at the OTHER heights of the batch (the true
	// filter): without these rows the oracle knows of no peer that serves the whole
	// batch honestly and makes no honest-wins claim for batches longer than the
	// set of deviation heights
	if n <= 64 {
		for h := start; h <= stop; h++ {
			if seenH[h] {
				continue
			}
			for _, rp := range ps {
				if f := rp.served[h]; f >= 0 {
					w.t.Line("fl %d %d %d => -", rp.id, h, f)
				} else {
					w.t.Line("fl %d %d - => -", rp.id, h)
				}
			}
		}
	}
	return ps
}

func maxi(a, b int) int {
	if a > b {
		return a
	}
	return b
}

// serve installs the query callback for one round: cfheaders answers arrive in a
// random interleaving of the peers' message lists, cfilter answers in a random
// peer order, optionally preceded by a filter for the wrong block.
func (w *world) serve(ps []*rpeer, disc bool) {
	w.onQuery = func(req wire.Message, deliver func(string, wire.Message) bool) {
		live := func(p int) bool { return !(disc && w.v.IsBanned(addr(p))) }
		switch q := req.(type) {
		case *wire.MsgGetCFHeaders:
			if m := w.mid; m != nil && !m.done {
				// the block handler reorganises the chain while our query is out
				m.done = true
				if err := w.v.RollBackToHeight(uint32(m.h)); err != nil {
					m.ret = "err"
				} else {
					m.ret = "ok"
				}
				if _, bt, err := w.v.Block.ChainTip(); err == nil && int(bt)+1 <= len(w.chain) {
					w.chain = w.chain[:bt+1]
					w.retruth()
				}
				m.ids = w.extend(m.n)
			}
			type ev struct {
				p int
				m *wire.MsgCFHeaders
			}
			idx := make([]int, len(ps))
			left := 0
			for _, rp := range ps {
				left += len(rp.msgs)
			}
			for left > 0 {
				k := w.r.Intn(len(ps))
				if idx[k] >= len(ps[k].msgs) {
					continue
				}
				m := ps[k].msgs[idx[k]]
				idx[k]++
				left--
				if !live(ps[k].id) {
					continue
				}
				cp := *m.w
				cp.FilterHashes = append([]*chainhash.Hash(nil), m.w.FilterHashes...)
				if !deliver(addr(ps[k].id), &cp) {
					w.t.Hit("deliver.after-peer-done")
				}
			}
		case *wire.MsgGetCFilters:
			h := int(q.StartHeight)
			for _, k := range w.r.Perm(len(ps)) {
				rp := ps[k]
				if !live(rp.id) {
					continue
				}
				f, ok := rp.served[h]
				if !ok {
					w.t.Hit("cfilter.unexpected-height")
					continue
				}
				if f < 0 {
					continue
				}
				data, _ := w.filters[f].NBytes()
				if w.r.Intn(5) == 0 {
					other := w.chain[0].hash
					deliver(addr(rp.id), wire.NewMsgCFilter(q.FilterType, &other, data))
					w.t.Hit("noise.cfilter-wrong-block")
				}
				deliver(addr(rp.id), wire.NewMsgCFilter(q.FilterType, &q.StopHash, data))
				w.t.Hit("cfilter.served")
			}
		}
	}
}

func (w *world) tipRound(np int, disc bool, forced []string) (ret string) {
	return w.tipRoundAt(np, disc, forced, nil)
}

func (w *world) tipRoundAt(np int, disc bool, forced []string, forcedD []int) (ret string) {
	ft, bt, tip := w.storeTips()
	start := ft + 1
	stop := bt
	if bt-start >= wire.MaxCFHeadersPerMsg {
		stop = start + wire.MaxCFHeadersPerMsg - 1
	}
	w.gbFail = map[int]bool{}
	w.mid = nil
	if forced == nil && bt > ft && ft >= 0 && w.r.Intn(6) == 0 {
		// a reorganisation lands between the query and the write; everybody
		// answers honestly for the chain the query was made for
		h := ft + w.r.Intn(bt-ft)
		if ft >= 1 && w.r.Intn(5) == 0 {
			h = w.r.Intn(ft)
		}
		n := bt - h + w.r.Intn(2)
		if w.r.Intn(5) == 0 && n > 1 {
			n--
		}
		w.mid = &midReorg{h: h, n: n}
		forced = make([]string, np)
		for i := range forced {
			forced[i] = "honest"
			if w.r.Intn(5) == 0 {
				forced[i] = "silent"
			}
		}
		forcedD = []int{}
		w.t.Hit("tipround.mid-reorg")
	}
	ps := w.planRound(np, start, stop, tip, forced, forcedD)
	w.serve(ps, disc)
	ret = guard(func() string { return errKind(w.v.GetUncheckpointedCFHeaders()) })
	w.onQuery = nil
	w.t.Hit("tipround." + strings.ReplaceAll(ret, " ", "-"))
	op := "tipround"
	if m := w.mid; m != nil && m.done {
		op = fmt.Sprintf("tipround mid %d %s", m.h, ints(m.ids))
		w.t.Hit("tipround.mid-reorg." + strings.ReplaceAll(ret, " ", "-"))
	}
	w.mid = nil
	w.t.Op(op, ret+" | "+w.dump())
	return ret
}

func (w *world) directWrite() {
	ft, bt, tip := w.storeTips()
	if bt <= ft {
		return
	}
	n := 1 + w.r.Intn(mini(bt-ft, 4))
	var fids []int
	for h := ft + 1; h <= ft+n; h++ {
		if w.r.Intn(4) == 0 {
			fids = append(fids, w.variant(w.chain[h], "omit"))
		} else {
			fids = append(fids, w.chain[h].trueFid)
		}
	}
	prev := tip
	if w.r.Intn(3) == 0 {
		// not the tip
		if ft >= 1 && w.r.Intn(2) == 0 {
			prev = w.trueHdr[ft-1]
		} else {
			prev = w.H(w.variant(w.chain[ft], "junk"), w.trueHdr[maxi(ft-1, 0)])
		}
		w.t.Hit("wr.wrongprev")
	}
	w.chainOf(prev, fids)
	m := w.mkmsg(w.chain[ft+n].hash, true, prev, fids)
	stopID := w.chain[ft+n].id
	if w.r.Intn(4) == 0 {
		// the batch was built for blocks that are reorganised away before it is written
		hh := ft + w.r.Intn(n)
		removed := bt - hh
		w.rollback(hh)
		w.ext(removed + w.r.Intn(2))
		w.t.Hit("wr.stale-batch")
	}
	ret := guard(func() string {
		h, ht, err := w.v.WriteCFHeadersMsg(m.w)
		if err != nil {
			return errKind(err)
		}
		return fmt.Sprintf("ok %d %d", w.hid(*h), ht)
	})
	if strings.HasPrefix(ret, "ok") {
		w.t.Hit("wr.ok")
	} else {
		w.t.Hit("wr." + strings.ReplaceAll(ret, " ", "-"))
	}
	w.t.Op(fmt.Sprintf("wr %d %d %s", prev, stopID, ints(fids)), ret+" | "+w.dump())
}

func mini(a, b int) int {
	if a < b {
		return a
	}
	return b
}

func (w *world) rollback(h int) {
	ret := guard(func() string {
		if err := w.v.RollBackToHeight(uint32(h)); err != nil {
			if errKind(err) == "PANIC" {
				return "PANIC"
			}
			return "err"
		}
		return "ok"
	})
	// ground truth follows the block store
	_, bt, err := w.v.Block.ChainTip()
	if err == nil && int(bt)+1 <= len(w.chain) {
		w.chain = w.chain[:bt+1]
		w.retruth()
	}
	w.t.Hit("rb." + ret)
	w.t.Op(fmt.Sprintf("rb %d", h), ret+" | "+w.dump())
}

func (w *world) ext(n int) {
	ids := w.extend(n)
	w.t.Op("ext "+ints(ids), "- | "+w.dump())
}

func (w *world) begin(kind string, np int, disc bool, l0, f0 int, extra string) {
	d := 0
	if disc {
		d = 1
	}
	w.t.Case("%s np %d disc %d%s", kind, np, d, extra)
	w.t.Line("blk 0 %d => -", w.chain[0].trueFid)
	ids := append([]int{0}, w.extend(l0)...)
	w.prefill(f0)
	w.t.Op(fmt.Sprintf("init %s fs %s", ints(ids), ints(w.trueHdr[:f0+1])), "- | "+w.dump())
}

// tipCase: random history on the at-tip path.
func tipCase(w *world, nops int) {
	r := w.r
	w.reset(nil)
	np := 1 + r.Intn(5)
	disc := r.Intn(2) == 0
	l0 := 1 + r.Intn(8)
	f0 := r.Intn(l0 + 1)
	w.begin("tip", np, disc, l0, f0, "")
	for i := 0; i < nops; i++ {
		switch x := r.Intn(100); {
		case x < 55:
			if ft, bt, _ := w.storeTips(); bt <= ft && r.Intn(8) > 0 {
				w.ext(1 + r.Intn(3))
			}
			w.tipRound(np, disc, nil)
		case x < 68:
			w.directWrite()
		case x < 85:
			_, bt, _ := w.storeTips()
			if bt >= 1 {
				w.rollback(r.Intn(bt + 1))
				if r.Intn(4) > 0 {
					w.ext(1 + r.Intn(3))
				}
			}
		default:
			w.ext(1 + r.Intn(3))
		}
	}
}

// distinctCase: at-tip rounds in which several liars lie at DIFFERENT positions
// of one batch, each self-consistently (the filter it serves hashes to what it
// advertised and omits an output script of the block), next to honest peers.
// Nobody is silent or self-inconsistent, so the recorded shape
// detectBadPeers-early-return is absent and the honest-wins clause applies in
// full: every liar banned, the honest batch committed.  The positions are placed
// on purpose: first and last of the batch, neighbours (the later position held
// by the peer planned first), anywhere, far apart in a long batch; one liar may
// lie at a second liar's position as well.  Draws from a PRNG stream of its own.
func distinctCase(w *world, rs *rand.Rand, variant int) {
	old := w.r
	w.r = rs
	defer func() { w.r = old; w.peerD = nil }()
	w.reset(nil)
	nl := 2 + rs.Intn(2)
	nh := 1 + rs.Intn(2)
	np := nl + nh
	disc := rs.Intn(2) == 0
	n := 2 + rs.Intn(7)
	if variant%4 == 3 {
		n = 20 + rs.Intn(40)
	}
	if n < nl {
		n = nl
	}
	f0 := rs.Intn(3)
	w.begin("tip", np, disc, f0+n, f0, " scripted distinct-positions")
	start := f0 + 1
	pos := rs.Perm(n)[:nl] // distinct positions
	switch variant % 4 {
	case 0:
		pos[0], pos[1] = n-1, 0
	case 1:
		k := rs.Intn(n - 1)
		pos[0], pos[1] = k+1, k
		if nl > 2 && (pos[2] == k || pos[2] == k+1) {
			pos[2] = (k + 2) % n
			if pos[2] == k || pos[2] == k+1 {
				nl = 2
			}
		}
	case 3:
		pos[0], pos[1] = n-1-rs.Intn(3), rs.Intn(3)
		if nl > 2 {
			pos[2] = 5 + rs.Intn(n-10)
		}
	}
	modes := []string{"omit-c", "omitall-c", "omitunp-c"}
	forced := make([]string, np)
	w.peerD = map[int][]int{}
	seen := map[int]bool{}
	var D []int
	for i, k := range rs.Perm(np) {
		if i >= nl {
			forced[k] = "honest"
			continue
		}
		forced[k] = modes[rs.Intn(len(modes))]
		hs := []int{start + pos[i]}
		if i == 0 && rs.Intn(3) == 0 {
			hs = append(hs, start+pos[1])
		}
		w.peerD[k+1] = hs
		for _, h := range hs {
			if !seen[h] {
				seen[h] = true
				D = append(D, h)
			}
		}
	}
	sort.Ints(D)
	w.t.Hit(fmt.Sprintf("scripted.distinct-positions.v%d", variant%4))
	w.tipRoundAt(np, disc, forced, D)
	// what is asked next must not depend on what was just resolved
	w.peerD = nil
	w.ext(1 + rs.Intn(2))
	w.tipRound(np, disc, nil)
}

// probeZero: one honest peer and one peer advertising the all-zero filter hash
// and serving no filter.  Until finding zero-hash-sentinel was repaired the zero
// hash was the "unset" marker of checkForCFHeaderMismatch and this peer escaped
// the mismatch test in half of the map orders; now it is an ordinary case (the
// zero-hash peer is banned, the honest header committed).  Returns true when
// the false header was committed.
func probeZero(w *world) bool {
	w.reset(nil)
	w.begin("tip", 2, true, 3, 2, " probe zero")
	w.tipRound(2, true, []string{"honest", "zero"})
	ft, _, tip := w.storeTips()
	return ft == 3 && tip != w.trueHdr[len(w.trueHdr)-1]
}

// probeF12: one honest peer, one peer that does not serve the filter, one peer
// whose false filter is self-consistent but omits an output script.  Returns
// true when the false header was committed.
func probeF12(w *world) bool {
	w.reset(nil)
	w.begin("tip", 3, true, 3, 2, " probe f12")
	w.tipRound(3, true, []string{"honest", "flaky-silent", "omit-c"})
	_, _, tip := w.storeTips()
	return tip != w.trueHdr[len(w.trueHdr)-1]
}

func run(t *tr.W, thorough bool) {
	budget := tr.EnvInt("VERIF_BUDGET", 1)
	if thorough {
		budget *= 4
	}
	r := tr.Rng(303)
	w := newWorld(t, r, nil)
	defer func() { w.close() }()
	// deterministic probe of the recorded finding: retried until the map order
	// lets the false header through (bounded)
	tries := 0
	for tries < 40 {
		tries++
		if probeF12(w) {
			t.Hit("probe.f12.false-header-committed")
			break
		}
	}
	t.Stats["probe.f12.tries"] = tries
	// the former probe of the repaired finding zero-hash-sentinel, a few times
	// for the map order; any failure is an ordinary violation now
	for i := 0; i < 4; i++ {
		if probeZero(w) {
			t.Hit("regress.zero.false-header-committed")
		}
	}
	if probeHardTip(w) {
		t.Hit("probe.hard-tip.checkpoint-contradicted")
	}
	for i := 0; i < 120*budget; i++ {
		tipCase(w, 3+r.Intn(6))
	}
	// scripted: liars at different positions of one batch (own PRNG stream)
	rs := tr.Rng(3031)
	for i := 0; i < 12*budget; i++ {
		distinctCase(w, rs, i)
	}
	w.close()
	for _, sc := range []string{"false-partial", "store-disagrees", "hard", "liars-apart", "liars-apart"} {
		cpCase(t, r, sc)
	}
	for i := 0; i < 4*budget; i++ {
		cpCase(t, r, "random")
	}
	// scripted: checkpoint lists of differing lengths (own PRNG stream)
	rc := tr.Rng(3033)
	for i := 0; i < 3*budget; i++ {
		cpCase(t, rc, "short-list")
	}
	// scripted: resumed syncs around a hard-coded filter-header checkpoint, run by
	// the real cfHandler (own PRNG stream)
	rr := tr.Rng(3035)
	for i := 0; i < 5*budget; i++ {
		resumeCase(t, rr, i)
	}
	w = newWorld(t, r, nil)
	if os.Getenv("VERIF_C03_PROBES") != "" {
		probes(w)
	}
	_ = sort.Ints
}
