package cfdrv

import (
	"errors"
	"fmt"
	"math/rand"
	"os"
	"strings"
	"time"

	"github.com/btcsuite/btcd/chainhash/v2"
	"github.com/btcsuite/btcd/wire/v2"
	"github.com/lightninglabs/neutrino/chainsync"
	"github.com/lightninglabs/neutrino/query"
	"verifharness/tr"
)

const interval = wire.CFCheckptInterval

// view is one peer's version of the filter chain of the current block chain.
type view struct {
	id     int
	kind   string
	fids   []int // by height (0 = genesis)
	hdrs   []int // own header chain
	cps    []int // the checkpoint list it serves (nil = does not answer)
	noFilt map[int]bool
}

func (w *world) mkview(p int, kind string, lieAt int, mode string) *view {
	v := &view{id: p, kind: kind, noFilt: map[int]bool{}}
	n := len(w.chain)
	v.fids = make([]int, n)
	v.hdrs = make([]int, n)
	v.fids[0] = w.chain[0].trueFid
	v.hdrs[0] = 1
	for h := 1; h < n; h++ {
		v.fids[h] = w.chain[h].trueFid
		if h == lieAt {
			v.fids[h] = w.variant(w.chain[h], mode)
		}
		if lieAt <= 0 || h < lieAt {
			v.hdrs[h] = w.trueHdr[h]
		} else {
			v.hdrs[h] = w.H(v.fids[h], v.hdrs[h-1])
		}
	}
	for i := 1; i*interval < n; i++ {
		v.cps = append(v.cps, v.hdrs[i*interval])
	}
	return v
}

// serveViews answers getcfheaders / getcfilters from the peers' views and
// records, for the Lean side, exactly what was asked and what each peer would
// answer (also peers that are no longer connected: the model decides that).
func (w *world) serveViews(vs []*view, disc bool) {
	seenF := map[string]bool{}
	w.onQuery = func(req wire.Message, deliver func(string, wire.Message) bool) {
		live := func(p int) bool { return !(disc && w.v.IsBanned(addr(p))) }
		switch q := req.(type) {
		case *wire.MsgGetCFHeaders:
			start := int(q.StartHeight)
			sb, ok := w.blocks[q.StopHash]
			if !ok {
				w.t.Hit("cp.getcfheaders.unknown-stop")
				return
			}
			stop := -1
			for h, b := range w.chain {
				if b == sb {
					stop = h
				}
			}
			for _, k := range w.r.Perm(len(vs)) {
				v := vs[k]
				if v.kind == "mute" {
					continue
				}
				prev := 0
				if start >= 1 {
					prev = v.hdrs[start-1]
				}
				m := w.mkmsg(q.StopHash, true, prev, v.fids[start:stop+1])
				w.t.Line("resp %d 1 %d %s => -", v.id, prev, ints(m.fids))
				if live(v.id) {
					deliver(addr(v.id), m.w)
				}
			}
			w.t.Hit("cp.getcfheaders")
		case *wire.MsgGetCFilters:
			h := int(q.StartHeight)
			for _, k := range w.r.Perm(len(vs)) {
				v := vs[k]
				f := v.fids[h]
				if v.noFilt[h] || v.kind == "mute" {
					w.t.Line("fl %d %d - => -", v.id, h)
					continue
				}
				w.t.Line("fl %d %d %d => -", v.id, h, f)
				key := fmt.Sprint(h, ":", f)
				if !seenF[key] {
					seenF[key] = true
					w.t.Line("vf %d %d %s => -", h, f, w.verifyRow(f, w.chain[h]))
					w.t.Line("gt %d %d %s => -", h, f, w.gtRow(f, w.chain[h]))
					w.t.Line("vb %d %d %s", h, f, w.vbRow(f, w.chain[h]))
				}
				if live(v.id) {
					data, _ := w.filters[f].NBytes()
					deliver(addr(v.id), wire.NewMsgCFilter(q.FilterType, &q.StopHash, data))
				}
			}
			w.t.Hit("cp.getcfilters")
		}
	}
}

func hashList(w *world, ids []int) []*chainhash.Hash {
	out := make([]*chainhash.Hash, len(ids))
	for i, id := range ids {
		h := w.hhash[id]
		out[i] = &h
	}
	return out
}

func (w *world) cpMap(vs []*view) map[string][]*chainhash.Hash {
	m := map[string][]*chainhash.Hash{}
	for _, v := range vs {
		if v.cps == nil {
			continue
		}
		w.t.Line("cpl %d %s => -", v.id, ints(v.cps))
		m[addr(v.id)] = hashList(w, v.cps)
	}
	return m
}

func (w *world) sanityOp(vs []*view) {
	m := w.cpMap(vs)
	ret := guard(func() string {
		i, err := w.v.CheckCFCheckptSanity(m)
		if err != nil {
			return errKind(err)
		}
		return fmt.Sprint(i)
	})
	w.t.Op("sanity", ret+" | "+w.dump())
}

// resolveOp runs resolveConflict; returns the agreed list (ids) or nil.
func (w *world) resolveOp(vs []*view, disc bool) []int {
	m := w.cpMap(vs)
	w.serveViews(vs, disc)
	var good []int
	ret := guard(func() string {
		g, err := w.v.ResolveConflict(m)
		if err != nil {
			return errKind(err)
		}
		for _, h := range g {
			good = append(good, w.hid(*h))
		}
		return "ok " + ints(good)
	})
	w.onQuery = nil
	w.t.Hit("resolve." + strings.ReplaceAll(strings.SplitN(ret, " [", 2)[0], " ", "-"))
	w.t.Op("resolve", ret+" | "+w.dump())
	if !strings.HasPrefix(ret, "ok") {
		return nil
	}
	return good
}

// fetchOp runs getCheckpointedCFHeaders(cps) with a scripted work manager:
// every query is answered by some of the peers (from their views), in a random
// global order, with duplicates, and possibly not at all.
func (w *world) fetchOp(vs []*view, cps []int, complete bool) {
	type ev struct {
		req  *query.Request
		p, k int
		m    pmsg
	}
	var evs []ev
	started := false
	dDone := make(chan struct{})
	errChan := make(chan error, 1)
	w.onBatch = func(reqs []*query.Request) chan error {
		started = true
		for _, rq := range reqs {
			q := rq.Req.(*wire.MsgGetCFHeaders)
			start := int(q.StartHeight)
			k := (start - 1) / interval
			stop := -1
			if sb, ok := w.blocks[q.StopHash]; ok {
				for h, b := range w.chain {
					if b == sb {
						stop = h
					}
				}
			}
			if stop < 0 {
				continue
			}
			if !complete && w.r.Intn(3) == 0 {
				w.t.Hit("fetch.query-unanswered")
				continue
			}
			nans := 1 + w.r.Intn(2)
			for a := 0; a < nans; a++ {
				v := vs[w.r.Intn(len(vs))]
				if v.kind == "mute" {
					continue
				}
				m := w.mkmsg(q.StopHash, true, v.hdrs[start-1], v.fids[start:stop+1])
				if w.r.Intn(10) == 0 {
					m = w.mkmsg(q.StopHash, false, v.hdrs[start-1], v.fids[start:stop+1])
					w.t.Hit("fetch.noise.stophash")
				} else if w.r.Intn(10) == 0 {
					// more filter hashes than the query covers
					ext := append([]int(nil), v.fids[start:stop+1]...)
					for j := 0; j < 1+w.r.Intn(3); j++ {
						if stop+1+j < len(v.fids) && w.r.Intn(2) == 0 {
							ext = append(ext, v.fids[stop+1+j])
						} else {
							ext = append(ext, w.variant(w.chain[stop], "junk"))
						}
					}
					w.chainOf(v.hdrs[start-1], ext)
					m = w.mkmsg(q.StopHash, true, v.hdrs[start-1], ext)
					w.t.Hit("fetch.overlong")
				} else if w.r.Intn(12) == 0 {
					m = w.mkmsg(q.StopHash, true, v.hdrs[start-1], v.fids[start:stop+1-w.r.Intn(3)-1])
					w.t.Hit("fetch.short")
				}
				evs = append(evs, ev{rq, v.id, k, m})
				if w.r.Intn(4) == 0 {
					evs = append(evs, ev{rq, v.id, k, m})
					w.t.Hit("fetch.duplicate")
				}
			}
		}
		w.r.Shuffle(len(evs), func(i, j int) { evs[i], evs[j] = evs[j], evs[i] })
		for _, e := range evs {
			so := 0
			if e.m.stopOK {
				so = 1
			}
			w.t.Line("ev %d %d %d %d %s => -", e.p, e.k, so, e.m.prev, ints(e.m.fids))
		}
		nreq := len(reqs)
		go func() {
			defer close(dDone)
			var lastOK *ev
			for i := range evs {
				e := evs[i]
				cp := *e.m.w
				cp.FilterHashes = append([]*chainhash.Hash(nil), e.m.w.FilterHashes...)
				if e.req.HandleResp(e.req.Req, &cp, addr(e.p)).Finished {
					lastOK = &evs[i]
				}
			}
			// End the batch only when the loop has taken everything that was
			// delivered.  The header channel is FIFO with room for nreq messages
			// and the loop takes the next one only after it is done with the
			// previous one, so once nreq+1 further messages have gone in, every
			// real one has been dealt with.  The fillers repeat a response that
			// was already accepted, which leaves the loop's state as it is
			// (already written: skipped; stashed: stashed again).
			if lastOK != nil {
				for i := 0; i < nreq+1; i++ {
					cp := *lastOK.m.w
					cp.FilterHashes = append([]*chainhash.Hash(nil), lastOK.m.w.FilterHashes...)
					lastOK.req.HandleResp(lastOK.req.Req, &cp, addr(lastOK.p))
				}
			}
			errChan <- errors.New("batch over")
		}()
		return errChan
	}
	res := make(chan string, 1)
	go func() {
		err := w.v.GetCheckpointedCFHeaders(hashList(w, cps))
		if err != nil {
			res <- errKind(err)
		} else {
			res <- "ok"
		}
	}()
	var ret string
	select {
	case ret = <-res:
	case <-time.After(30 * time.Second):
		ret = "HANG"
	}
	if started {
		// the loop is gone: release a handler blocked on the full channel
		w.v.Quit()
		select {
		case <-dDone:
		case <-time.After(10 * time.Second):
			ret += "+HANG"
		}
		if err := w.v.Rebuild(w.params, w.net); err != nil {
			panic(err)
		}
	}
	w.onBatch = nil
	w.t.Hit("fetch." + ret)
	w.t.Op("cpfetch "+ints(cps), ret+" | "+w.dump())
}

// setHard installs a hard-coded filter-header checkpoint (a copy of the
// network parameters with our own table, see chainsync/export_verif.go).
func (w *world) setHard(h int, hid int) {
	if w.hard == nil {
		w.hard = map[uint32]*chainhash.Hash{}
	}
	hh := w.hhash[hid]
	w.hard[uint32(h)] = &hh
	chainsync.VerifSetFilterHeaderCheckpoints(verifNet, w.hard)
	w.t.Line("hard %d %d => -", h, hid)
}

// cpCase: one history on the checkpointed path, on a fresh data directory.
func cpCase(t *tr.W, r *rand.Rand, scenario string) {
	t0 := time.Now()
	defer func() {
		if os.Getenv("VERIF_C03_TIMING") != "" {
			fmt.Fprintf(os.Stderr, "cpCase %s %v\n", scenario, time.Since(t0))
		}
	}()
	w := newWorld(t, r, nil)
	if os.Getenv("VERIF_C03_TIMING") != "" {
		fmt.Fprintf(os.Stderr, " world %v\n", time.Since(t0))
	}
	defer w.close()
	epoch++
	nInt := 2 + r.Intn(3)
	if scenario == "false-partial" {
		nInt = 3 + r.Intn(2)
	}
	if scenario == "liars-apart" {
		nInt = 4 + r.Intn(2)
	}
	if scenario == "short-list" {
		nInt = 3
	}
	l0 := nInt*interval + r.Intn(300)
	np := 1 + r.Intn(4)
	if scenario == "liars-apart" || scenario == "short-list" {
		np = 3 + r.Intn(2)
	}
	disc := r.Intn(2) == 0
	d := 0
	if disc {
		d = 1
	}
	t.Case("cp np %d disc %d scenario %s", np, d, scenario)
	t.Line("blk 0 %d => -", w.chain[0].trueFid)
	ids := append([]int{0}, w.extend(l0)...)
	if os.Getenv("VERIF_C03_TIMING") != "" {
		fmt.Fprintf(os.Stderr, " extend %v\n", time.Since(t0))
	}
	var vs []*view
	pre := w.trueHdr
	f0 := 0
	switch scenario {
	case "false-partial":
		// (b) a false header was committed earlier (as F12 or the zero hash allow);
		// everybody is honest now
		f0 = 300
		liar := w.mkview(9, "hliar", 200, "omit")
		pre = liar.hdrs
		for p := 1; p <= np; p++ {
			vs = append(vs, w.mkview(p, "honest", 0, ""))
		}
	case "liars-apart":
		// an honest peer and liars forging in DIFFERENT checkpoint intervals, more
		// than one query window apart; the first liar serves no filter for its lie
		f0 = r.Intn(2) * (1 + r.Intn(interval-1))
		a := r.Intn(nInt - 2)
		b := a + 2 + r.Intn(nInt-a-2)
		ids := r.Perm(np)
		for i, k := range ids {
			p := k + 1
			switch i {
			case 0:
				vs = append(vs, w.mkview(p, "honest", 0, ""))
			case 1:
				lie := a*interval + 1 + r.Intn(interval)
				if lie <= f0 {
					lie = f0 + 1
				}
				v := w.mkview(p, "hliar", lie, "omit")
				v.noFilt[lie] = true
				vs = append(vs, v)
			case 2:
				vs = append(vs, w.mkview(p, "hliar", b*interval+1+r.Intn(interval), "omit"))
			default:
				vs = append(vs, w.mkview(p, "honest", 0, ""))
			}
		}
		t.Hit("cp.liars-apart")
	case "short-list":
		// checkpoint lists of DIFFERING LENGTHS: an honest peer with the full true
		// list, a peer with a correct but short list (length k, possibly empty: it
		// lags, or is lazy) and a liar forging at an index j >= k, i.e. beyond the
		// end of the short list - exactly the first index the short list lacks, the
		// last index of all, or anywhere between.  The liar either serves a whole
		// self-consistent false filter-header chain from a height inside interval j
		// (first height, last height = the checkpoint itself, anywhere) or forges the
		// checkpoint alone.
		k := r.Intn(nInt)
		j := k
		switch r.Intn(4) {
		case 0:
			j = nInt - 1
		case 1:
			j = k + r.Intn(nInt-k)
		}
		f0 = r.Intn(2) * r.Intn(k*interval+1)
		cpOnly := r.Intn(3) == 0
		for i, q := range r.Perm(np) {
			p := q + 1
			switch i {
			case 0:
				vs = append(vs, w.mkview(p, "honest", 0, ""))
			case 1:
				v := w.mkview(p, "short", 0, "")
				v.cps = append([]int{}, v.cps[:k]...)
				vs = append(vs, v)
			case 2:
				if cpOnly {
					v := w.mkview(p, "cpliar", 0, "")
					v.cps[j] = w.H(w.variant(w.chain[(j+1)*interval], "junk"), v.cps[j])
					vs = append(vs, v)
					break
				}
				lie := j*interval + 1 + r.Intn(interval)
				switch r.Intn(3) {
				case 0:
					lie = j*interval + 1
				case 1:
					lie = (j + 1) * interval
				}
				vs = append(vs, w.mkview(p, "hliar", lie, "omit"))
			default:
				v := w.mkview(p, "honest", 0, "")
				if r.Intn(2) == 0 {
					v.kind = "short"
					v.cps = append([]int{}, v.cps[:r.Intn(nInt)]...)
				}
				vs = append(vs, v)
			}
		}
		t.Hit(fmt.Sprintf("cp.short-list.k%d.j%d", k, j))
		if cpOnly {
			t.Hit("cp.short-list.checkpoint-only")
		}
	case "store-disagrees":
		// (c) the store holds a false chain beyond a checkpoint; all peers agree with each other
		f0 = interval + 500
		liar := w.mkview(9, "hliar", 900, "omit")
		pre = liar.hdrs
		for p := 1; p <= np; p++ {
			vs = append(vs, w.mkview(p, "honest", 0, ""))
		}
	default:
		switch r.Intn(4) {
		case 0:
			f0 = 0
		case 1:
			f0 = 1 + r.Intn(interval-1)
		case 2:
			f0 = interval
		default:
			f0 = interval + 1 + r.Intn(interval-1)
		}
		for p := 1; p <= np; p++ {
			kind := "honest"
			if p > 1 || r.Intn(5) == 0 {
				switch x := r.Intn(100); {
				case x < 45:
				case x < 65:
					kind = "hliar"
				case x < 78:
					kind = "cpliar"
				case x < 88:
					kind = "short"
				default:
					kind = "mute"
				}
			}
			var v *view
			switch kind {
			case "hliar":
				modes := []string{"omit", "omit", "extra"}
				v = w.mkview(p, kind, f0+1+r.Intn(l0-f0), modes[r.Intn(3)])
				if r.Intn(4) == 0 {
					for h := range v.fids {
						if v.fids[h] != w.chain[h].trueFid {
							v.noFilt[h] = true
						}
					}
				}
			case "cpliar":
				v = w.mkview(p, kind, 0, "")
				j := r.Intn(len(v.cps))
				v.cps[j] = w.H(w.variant(w.chain[(j+1)*interval], "junk"), v.cps[j])
			case "short":
				v = w.mkview(p, kind, 0, "")
				v.cps = v.cps[:r.Intn(len(v.cps))]
				if len(v.cps) == 0 {
					v.cps = []int{}
				}
			case "mute":
				v = w.mkview(p, kind, 0, "")
				v.cps = nil
			default:
				v = w.mkview(p, kind, 0, "")
			}
			t.Hit("cp.peer." + kind)
			vs = append(vs, v)
		}
		if scenario == "hard" || r.Intn(3) == 0 {
			w.setHard(interval, w.trueHdr[interval])
		}
	}
	w.prefillHdrs(pre[:f0+1])
	t.Op(fmt.Sprintf("init %s fs %s", ints(ids), ints(pre[:f0+1])), "- | "+w.dump())
	w.sanityOp(vs)
	rounds := 2
	retry := scenario == "liars-apart" || scenario == "short-list"
	if retry {
		rounds = 4
	}
	for round := 0; round < rounds; round++ {
		cur := vs
		if retry {
			// the retry of cfHandler asks the peers that are still connected
			cur = nil
			for _, v := range vs {
				if !w.v.IsBanned(addr(v.id)) {
					cur = append(cur, v)
				}
			}
			if len(cur) == 0 {
				break
			}
		}
		good := w.resolveOp(cur, disc)
		if good == nil {
			if scenario == "store-disagrees" || retry {
				continue // the retry of cfHandler
			}
			break
		}
		if len(good) > nInt {
			good = good[:nInt]
		}
		w.fetchOp(vs, good, round == 1 || r.Intn(4) > 0)
		if ft, _, _ := w.storeTips(); ft >= len(good)*interval && (scenario != "short-list" || ft >= nInt*interval) {
			break
		}
	}
	// finish at the tip
	if r.Intn(2) == 0 {
		if ft, bt, _ := w.storeTips(); ft >= 0 && bt > ft && bt-ft < interval {
			w.tipRound(np, disc, nil)
		}
	}
}

// probeHardTip: (a) the at-tip path never consults the hard-coded checkpoints.
// A hard-coded checkpoint sits at height 3; the only peer lies about the filter
// of block 3 (self-consistently).
func probeHardTip(w *world) bool {
	w.reset(nil)
	w.begin("tip", 1, true, 4, 2, " probe hard-tip")
	w.setHard(3, w.trueHdr[3])
	w.tipRoundAt(1, true, []string{"omit-c"}, []int{3})
	x, err := w.v.Filt.FetchHeaderByHeight(3)
	return err == nil && w.hid(*x) != w.trueHdr[3]
}
