package cfdrv


// probes: extra scenarios that are NOT part of the regular run (enabled with
// VERIF_C03_PROBES=1); they document suspected defects outside the recorded one.
func probes(w *world) {
}
