package cfdrv

import (
	"fmt"
	"os"
)

// probes: extra scenarios that are NOT part of the regular run (enabled with
// VERIF_C03_PROBES=1); they document the recorded finding in numbers and
// suspected defects outside it.
func probes(w *world) {
	// F12, 40 independent runs of the same scenario: honest peer 1, peer 2 true
	// hashes but no filter, peer 3 self-consistent false filter omitting a script.
	bad, liarBanned, honestBanned, silentBanned := 0, 0, 0, 0
	for i := 0; i < 40; i++ {
		w.reset(nil)
		w.begin("tip", 3, true, 3, 2, " probe f12-count")
		w.tipRound(3, true, []string{"honest", "flaky-silent", "omit-c"})
		_, _, tip := w.storeTips()
		if tip != w.trueHdr[len(w.trueHdr)-1] {
			bad++
		}
		if w.v.IsBanned(addr(1)) {
			honestBanned++
		}
		if w.v.IsBanned(addr(2)) {
			silentBanned++
		}
		if w.v.IsBanned(addr(3)) {
			liarBanned++
		}
	}
	fmt.Fprintf(os.Stderr, "F12 probe: 40 runs, false header committed %d, liar banned %d, silent peer banned %d, honest banned %d\n",
		bad, liarBanned, silentBanned, honestBanned)

	// (repaired, kept for counting) the all-zero filter hash was the "unset" sentinel of
	// checkForCFHeaderMismatch, so a peer advertising it can escape the mismatch
	// test depending on the map order.  One honest peer, one peer advertising
	// the zero hash (and serving nothing).
	zbad, zban, zerr := 0, 0, 0
	for i := 0; i < 40; i++ {
		w.reset(nil)
		w.begin("tip", 2, true, 3, 2, " probe zero")
		if ret := w.tipRound(2, true, []string{"honest", "zero"}); ret != "nil" {
			zerr++
		}
		ft, _, tip := w.storeTips()
		if ft == 3 && tip != w.trueHdr[len(w.trueHdr)-1] {
			zbad++
		}
		if w.v.IsBanned(addr(2)) {
			zban++
		}
	}
	fmt.Fprintf(os.Stderr, "zero-hash probe: 40 runs, false header committed %d, zero-hash peer banned %d, round errors %d\n", zbad, zban, zerr)
}
