package cfdrv

import (
	"fmt"
	"math/rand"
	"time"

	"github.com/btcsuite/btcd/chainhash/v2"
	"github.com/btcsuite/btcd/wire/v2"
	"github.com/lightninglabs/neutrino/query"
	"verifharness/tr"
)

// Resumed cfheaders syncs on a network WITH hard-coded filter-header
// checkpoints, run by the REAL cfHandler goroutine (blockManager.Start on a
// block manager rebuilt over pre-filled stores = a restart; the block header
// tip counts as current through the SetNow hook).
//
// Start state on purpose: a hard-coded checkpoint at height H (a multiple of the
// checkpoint interval), the filter tip F just below / at / above H, the block
// tip B = F + lag with lag in {1, 2, 999, 1000, 1001, ...}, H <= B.
//
//   collude   F < H <= B; every peer serves the same self-consistent false filter
//             header chain from a height in (F, H], so all of them contradict the
//             hard-coded value at H and nobody contradicts anybody else
//   old-liar  H <= F < B; honest peers plus one peer whose checkpoint list is
//             forged exactly at the OLD hard-coded index H/interval-1 (its
//             getcfheaders / getcfilters answers are unremarkable)
//   honest    everybody honest, F anywhere around H

// serveCheckpts adds the getcfcheckpt answer to an installed serveViews
// callback; asked is set when the client sent a getcfcheckpt.
func (w *world) serveCheckpts(vs []*view, asked *bool) {
	inner := w.onQuery
	w.onQuery = func(req wire.Message, deliver func(string, wire.Message) bool) {
		q, ok := req.(*wire.MsgGetCFCheckpt)
		if !ok {
			inner(req, deliver)
			return
		}
		*asked = true
		stop := -1
		if sb, ok := w.blocks[q.StopHash]; ok {
			for h, b := range w.chain {
				if b == sb {
					stop = h
				}
			}
		}
		if stop < 0 {
			return
		}
		for _, v := range vs {
			if v.cps == nil || w.v.IsBanned(addr(v.id)) {
				continue
			}
			n := stop / interval
			if n > len(v.cps) {
				n = len(v.cps)
			}
			m := wire.NewMsgCFCheckpt(q.FilterType, &q.StopHash, n)
			for _, c := range hashList(w, v.cps[:n]) {
				_ = m.AddCFHeader(c)
			}
			deliver(addr(v.id), m)
		}
		w.t.Hit("resume.getcfcheckpt")
	}
}

// cfhOp restarts the block manager over the stores as they are and lets the
// real cfHandler run until the filter tip has reached the block tip, every peer
// is banned, or nothing has changed for a while.
func (w *world) cfhOp(vs []*view) string {
	w.cpMap(vs) // cpl lines: what each peer would answer to getcfcheckpt
	if err := w.v.Rebuild(w.params, w.net); err != nil {
		panic(err)
	}
	w.v.SetNow(w.chain[len(w.chain)-1].msg.Header.Timestamp.Add(time.Minute))
	asked := false
	w.serveViews(vs, true)
	w.serveCheckpts(vs, &asked)
	batchDone := make(chan struct{}, 64)
	w.onBatch = func(reqs []*query.Request) chan error {
		errChan := make(chan error, 1)
		go func() {
			defer func() { batchDone <- struct{}{} }()
			for _, rq := range reqs {
				q, ok := rq.Req.(*wire.MsgGetCFHeaders)
				if !ok {
					continue
				}
				start := int(q.StartHeight)
				stop := -1
				if sb, ok := w.blocks[q.StopHash]; ok {
					for h, b := range w.chain {
						if b == sb {
							stop = h
						}
					}
				}
				if stop < start {
					continue
				}
				for _, v := range vs {
					if v.kind == "mute" || w.v.IsBanned(addr(v.id)) {
						continue
					}
					m := w.mkmsg(q.StopHash, true, v.hdrs[start-1], v.fids[start:stop+1])
					cp := *m.w
					cp.FilterHashes = append([]*chainhash.Hash(nil), m.w.FilterHashes...)
					if rq.HandleResp(rq.Req, &cp, addr(v.id)).Finished {
						break
					}
				}
			}
			errChan <- nil
		}()
		return errChan
	}
	fp := make(chan struct{})
	close(fp)
	w.v.SetFirstPeerSignal(fp)
	w.v.StartHandlers()
	allBanned := func() bool {
		for _, v := range vs {
			if !w.v.IsBanned(addr(v.id)) {
				return false
			}
		}
		return true
	}
	deadline := time.Now().Add(2500 * time.Millisecond)
	status := "stalled"
	for time.Now().Before(deadline) {
		ft, bt, _ := w.storeTips()
		if ft == bt {
			status = "synced"
			break
		}
		if allBanned() {
			status = "allbanned"
			break
		}
		time.Sleep(5 * time.Millisecond)
	}
	stopped := make(chan struct{})
	go func() { _ = w.v.StopHandlers(); close(stopped) }()
	select {
	case <-stopped:
	case <-time.After(15 * time.Second):
		status += "+HANG"
	}
	w.onQuery = nil
	w.onBatch = nil
	if err := w.v.Rebuild(w.params, w.net); err != nil {
		panic(err)
	}
	a := 0
	if asked {
		a = 1
	}
	ret := fmt.Sprintf("%s ckpt %d", status, a)
	w.t.Hit("resume." + status)
	w.t.Hit(fmt.Sprintf("resume.ckpt-asked.%d", a))
	w.t.Op("cfh", ret+" | "+w.dump())
	return status
}

var resumeLags = []int{1, 2, 999, 1000, 1001}

func resumeCase(t *tr.W, r *rand.Rand, i int) {
	w := newWorld(t, r, nil)
	defer w.close()
	epoch++
	shape := []string{"collude", "old-liar", "collude", "old-liar", "honest"}[i%5]
	hk := 1 + r.Intn(2) // the hard-coded checkpoint sits at index hk-1
	H := hk * interval
	lag := resumeLags[(i/5+r.Intn(len(resumeLags)))%len(resumeLags)]
	if r.Intn(6) == 0 {
		lag = 3 + r.Intn(1500)
	}
	if shape == "collude" && i%5 == 0 {
		// one colluding case of every five starts with the tips less than an interval apart
		lag = []int{1, 2, interval - 1, 3 + r.Intn(interval-4)}[r.Intn(4)]
	}
	var f0 int
	switch shape {
	case "collude":
		// F < H <= F + lag
		d := 1 + r.Intn(min(lag, interval-1))
		switch r.Intn(3) {
		case 0:
			d = 1
		case 1:
			d = min(lag, interval-1)
		}
		f0 = H - d
	case "old-liar":
		// H <= F
		f0 = H + []int{0, 1, r.Intn(interval), interval - 1}[r.Intn(4)]
	default:
		f0 = H - 2 + r.Intn(5)
	}
	l0 := f0 + lag
	np := 1 + r.Intn(3)
	if shape == "old-liar" {
		np = 2 + r.Intn(2)
	}
	t.Case("cp np %d disc 1 scenario resume-%s", np, shape)
	t.Line("blk 0 %d => -", w.chain[0].trueFid)
	ids := append([]int{0}, w.extend(l0)...)
	var vs []*view
	switch shape {
	case "collude":
		lie := f0 + 1 + r.Intn(H-f0)
		switch r.Intn(3) {
		case 0:
			lie = f0 + 1
		case 1:
			lie = H
		}
		for p := 1; p <= np; p++ {
			vs = append(vs, w.mkview(p, "hliar", lie, "omit"))
		}
	case "old-liar":
		liar := 1 + r.Intn(np)
		for p := 1; p <= np; p++ {
			if p != liar {
				vs = append(vs, w.mkview(p, "honest", 0, ""))
				continue
			}
			v := w.mkview(p, "cpliar", 0, "")
			v.cps[hk-1] = w.H(w.variant(w.chain[H], "junk"), v.cps[hk-1])
			vs = append(vs, v)
		}
	default:
		for p := 1; p <= np; p++ {
			vs = append(vs, w.mkview(p, "honest", 0, ""))
		}
	}
	if H <= l0 {
		w.setHard(H, w.trueHdr[H])
	}
	t.Hit("resume.shape." + shape)
	t.Hit(fmt.Sprintf("resume.lag.%s", lagClass(lag)))
	switch {
	case f0 < H:
		t.Hit("resume.F-below-H")
	case f0 == H:
		t.Hit("resume.F-at-H")
	default:
		t.Hit("resume.F-above-H")
	}
	w.prefill(f0)
	t.Op(fmt.Sprintf("init %s fs %s", ints(ids), ints(w.trueHdr[:f0+1])), "- | "+w.dump())
	if shape == "old-liar" && r.Intn(2) == 0 {
		// the first step of the checkpointed phase on its own
		w.resolveOp(vs, true)
		return
	}
	w.cfhOp(vs)
}

func lagClass(lag int) string {
	switch {
	case lag < interval-1:
		return "below"
	case lag == interval-1:
		return "interval-1"
	case lag == interval:
		return "interval"
	case lag == interval+1:
		return "interval+1"
	}
	return "above"
}
