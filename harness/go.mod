module verifharness

go 1.25.11

require (
	github.com/btcsuite/btcwallet/walletdb v1.6.0
	github.com/lightninglabs/neutrino v0.0.0
	github.com/lightninglabs/neutrino/cache v1.1.4
)

require (
	github.com/davecgh/go-spew v1.1.1 // indirect
	github.com/lightningnetwork/lnd/fn/v2 v2.0.8 // indirect
	github.com/pmezard/go-difflib v1.0.0 // indirect
	github.com/stretchr/testify v1.10.0 // indirect
	go.etcd.io/bbolt v1.3.11 // indirect
	golang.org/x/exp v0.0.0-20250811191247-51f88131bc50 // indirect
	golang.org/x/sync v0.16.0 // indirect
	golang.org/x/sys v0.35.0 // indirect
	gopkg.in/yaml.v3 v3.0.1 // indirect
)

replace github.com/lightninglabs/neutrino => /repo

replace github.com/lightninglabs/neutrino/cache => /repo/cache
