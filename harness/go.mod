module verifharness

go 1.25.11

require (
	github.com/btcsuite/btcd v0.26.0
	github.com/btcsuite/btcd/address/v2 v2.0.0
	github.com/btcsuite/btcd/btcutil/v2 v2.0.0
	github.com/btcsuite/btcd/chaincfg/v2 v2.0.0
	github.com/btcsuite/btcd/chainhash/v2 v2.0.0
	github.com/btcsuite/btcd/txscript/v2 v2.0.0
	github.com/btcsuite/btcd/wire/v2 v2.0.0
	github.com/btcsuite/btclog v1.0.0
	github.com/btcsuite/btcwallet/walletdb v1.6.0
	github.com/lightninglabs/neutrino v0.16.2
	github.com/lightninglabs/neutrino/cache v1.1.4
	go.etcd.io/bbolt v1.3.11
)

require (
	github.com/aead/siphash v1.0.1 // indirect
	github.com/btcsuite/btcd/btcec/v2 v2.5.0 // indirect
	github.com/btcsuite/btcd/v2transport v1.0.1 // indirect
	github.com/btcsuite/btcwallet v0.16.18 // indirect
	github.com/btcsuite/btcwallet/wtxmgr v1.6.0 // indirect
	github.com/btcsuite/go-socks v0.0.0-20170105172521-4720035b7bfd // indirect
	github.com/btcsuite/websocket v0.0.0-20150119174127-31079b680792 // indirect
	github.com/davecgh/go-spew v1.1.1 // indirect
	github.com/decred/dcrd/crypto/blake256 v1.1.0 // indirect
	github.com/decred/dcrd/dcrec/secp256k1/v4 v4.4.0 // indirect
	github.com/decred/dcrd/lru v1.1.3 // indirect
	github.com/kkdai/bstream v1.0.0 // indirect
	github.com/lightningnetwork/lnd/clock v1.0.1 // indirect
	github.com/lightningnetwork/lnd/fn/v2 v2.0.8 // indirect
	github.com/lightningnetwork/lnd/queue v1.0.1 // indirect
	github.com/lightningnetwork/lnd/ticker v1.1.1 // indirect
	github.com/pmezard/go-difflib v1.0.0 // indirect
	github.com/stretchr/objx v0.5.2 // indirect
	github.com/stretchr/testify v1.10.0 // indirect
	golang.org/x/crypto v0.41.0 // indirect
	golang.org/x/exp v0.0.0-20250811191247-51f88131bc50 // indirect
	golang.org/x/sync v0.16.0 // indirect
	golang.org/x/sys v0.35.0 // indirect
	gopkg.in/yaml.v3 v3.0.1 // indirect
)

replace github.com/lightninglabs/neutrino => /tmp/wp-filth2/repo

replace github.com/lightninglabs/neutrino/cache => /tmp/wp-filth2/repo/cache
